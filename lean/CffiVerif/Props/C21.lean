import CffiVerif.Proofs.Ownership

/-!
C21 — ownership, destructors and handles behave correctly over any history.

Every theorem quantifies over an arbitrary list of operations `ops` run from
the empty state (`run init ops`): creation of cdata / Python objects, `ffi.gc`,
`ffi.gc(x, None)`, `ffi.release` / `with`, aliasing through `p[0]`, storing
references in Python containers (cycles), dropping references, and
finalisation by the collector of any unreferenced set of objects at any step
(`collect S`, accepted only when `collectOk` holds).  Operations the
implementation rejects leave the state unchanged, so they are covered too.
-/
namespace CffiVerif.C21
open CffiVerif.Ownership

/-- Every state a history can reach satisfies the invariant. -/
theorem reachable_inv (ops : List Op) : Inv (run init ops) := inv_run inv_init ops

/-- The collector rule is sound: a set accepted by `collectOk` contains no object
reachable from the references the program holds. -/
theorem collect_only_unreachable (ops : List Op) (S : List Nat)
    (hok : collectOk (run init ops) S = true) (x : Nat) (hx : x ∈ S) : ¬ Reach (run init ops) x := by
  have hinv := reachable_inv ops
  generalize run init ops = s at *
  unfold collectOk at hok
  simp only [Bool.and_eq_true, List.all_eq_true, List.mem_range] at hok
  obtain ⟨c1, c2⟩ := hok
  intro hr
  induction hr with
  | root x o hl hext =>
    have := c1 x hx
    simp [hl] at this
    omega
  | edge y x oy _ hl hmem ih =>
    have hlt : y < s.next := lt_next hinv (objs_of_live hl)
    have := c2 y hlt
    simp only [hl, Bool.or_eq_true, decide_eq_true_eq, List.all_eq_true, Bool.not_eq_eq_eq_not,
      Bool.not_true, decide_eq_false_iff_not] at this
    rcases this with hin | hout
    · exact ih hin
    · exact hout x hmem hx

/-- **A destructor (or free function) is never called twice for one wrapper.** -/
theorem destructor_at_most_once (ops : List Op) (x : Nat) : (run init ops).calls x ≤ 1 := by
  unfold State.calls
  split
  · rename_i o ho; exact gcpInv_le_one ((reachable_inv ops).ghost x o ho)
  · omega

/-- The three clauses about one wrapper in a reachable state. -/
theorem wrapper_calls (ops : List Op) (x : Nat) (o : Obj) (d orig : Option Nat)
    (ho : (run init ops).objs x = some o) (hk : o.kind = .gcp d orig)
    (hd : o.hadDtor = true) (hn : o.noned = false) :
    ((o.alive = false ∨ o.released = true) → o.calls = 1) ∧
    (o.calls = 1 → o.alive = false ∨ o.released = true) := by
  have g := (reachable_inv ops).ghost x o ho
  simp only [GcpInv, hk] at g
  cases d with
  | some dd =>
    have := g.1 rfl
    constructor
    · intro h; rcases h with h | h <;> simp_all
    · intro h; omega
  | none =>
    constructor
    · intro _; rw [g.2.1 rfl]; simp [hd, hn]
    · intro _; exact g.2.2 rfl hd hn

/-- **`ffi.gc(p, d)`: at any later point of any history the destructor of the new
wrapper has run exactly once if the wrapper has been released or deallocated
(and `ffi.gc(g, None)` did not disarm it first), and has not run before that.** -/
theorem destructor_exactly_once_when_dead_or_released (ops1 ops2 : List Op) (p d g : Nat)
    (hgc : (step (run init ops1) (.gc p d)).2 = .ok [g]) :
    ∃ o, (run (step (run init ops1) (.gc p d)).1 ops2).objs g = some o ∧ o.isAlloc = false ∧
      o.calls ≤ 1 ∧
      (o.noned = false → (o.alive = false ∨ o.released = true) → o.calls = 1) ∧
      (o.calls = 1 → o.alive = false ∨ o.released = true) := by
  have hinv := reachable_inv ops1
  generalize hs : run init ops1 = s at *
  -- the object created by the operation
  have hnew : ∃ o0, (step s (.gc p d)).1.objs g = some o0 ∧ o0.kind = .gcp (some d) (some p) ∧
      o0.hadDtor = true ∧ o0.isAlloc = false := by
    simp only [step, opGc] at hgc ⊢
    split at hgc
    · split at hgc
      · simp at hgc; subst hgc
        simp [*, mkObj]
      · simp at hgc
    · simp at hgc
  obtain ⟨o0, h0, hk0, hd0, ha0⟩ := hnew
  have hinv1 := inv_step hinv (.gc p d)
  obtain ⟨o, ho, ev⟩ := run_evolve hinv1 ops2 g o0 h0
  obtain ⟨d', orig', hk⟩ := ev.gcp _ _ hk0
  have hd' : o.hadDtor = true := by rw [ev.flags.1, hd0]
  have hreach : run (step s (.gc p d)).1 ops2 = run init (ops1 ++ [.gc p d] ++ ops2) := by
    simp [run, List.foldl_append, ← hs]
  refine ⟨o, ho, by rw [ev.flags.2, ha0], ?_, ?_, ?_⟩
  · rw [hreach] at ho
    exact gcpInv_le_one ((reachable_inv _).ghost g o ho)
  · intro hn
    rw [hreach] at ho
    exact (wrapper_calls _ g o d' orig' ho hk hd' hn).1
  · intro hc
    rw [hreach] at ho
    by_cases hn : o.noned = false
    · exact (wrapper_calls _ g o d' orig' ho hk hd' hn).2 hc
    · -- disarmed first: the count is 0, not 1
      have g' := (reachable_inv _).ghost g o ho
      simp only [GcpInv, hk] at g'
      cases d' with
      | some dd => have := g'.1 rfl; omega
      | none => have := g'.2.1 rfl; simp at hn; simp [hn] at this; omega

/-- **After `ffi.gc(g, None)` the destructor of `g` is never called**, whatever
follows (release, `with`, collection, ...): the call count stays what it was. -/
theorem never_after_gc_none (ops1 ops2 : List Op) (g : Nat)
    (hok : (step (run init ops1) (.gcNone g)).2 = .ok []) :
    (run (step (run init ops1) (.gcNone g)).1 ops2).calls g = (run init ops1).calls g := by
  have hinv := reachable_inv ops1
  generalize run init ops1 = s at *
  have hnew : ∃ o0 orig, (step s (.gcNone g)).1.objs g = some o0 ∧ o0.kind = .gcp none orig ∧
      o0.calls = s.calls g := by
    simp only [step, opGcNone] at hok ⊢
    split at hok
    · rename_i o hl
      split at hok
      · rename_i d orig hk
        refine ⟨{ o with kind := .gcp none orig, noned := o.noned || d.isSome }, orig, by simp, rfl, ?_⟩
        simp [State.calls, objs_of_live hl]
      · simp at hok
    · simp at hok
  obtain ⟨o0, orig, h0, hk0, hc0⟩ := hnew
  obtain ⟨o, ho, ev⟩ := run_evolve (inv_step hinv (.gcNone g)) ops2 g o0 h0
  have h1 := (ev.gcpNone orig hk0).2
  have h2 : (run (step s (.gcNone g)).1 ops2).calls g = o.calls := by simp [State.calls, ho]
  rw [h2, h1, hc0]

/-- **An allocation made by `new_allocator(alloc, free)`**: `free` is called at
most once, exactly once when the allocation has been released or deallocated
(unless `ffi.gc(x, None)` removed it), and not before. -/
theorem free_fn_exactly_once (ops1 ops2 : List Op) (free g raw : Nat)
    (hal : (step (run init ops1) (.allocPlain (some free))).2 = .ok [g, raw]) :
    ∃ o, (run (step (run init ops1) (.allocPlain (some free))).1 ops2).objs g = some o ∧
      o.isAlloc = true ∧ o.calls ≤ 1 ∧
      (o.noned = false → (o.alive = false ∨ o.released = true) → o.calls = 1) ∧
      (o.calls = 1 → o.alive = false ∨ o.released = true) := by
  have hinv := reachable_inv ops1
  generalize hs : run init ops1 = s at *
  have hnew : ∃ o0, (step s (.allocPlain (some free))).1.objs g = some o0 ∧
      o0.kind = .gcp (some free) (some raw) ∧ o0.hadDtor = true ∧ o0.isAlloc = true := by
    simp only [step, opAllocPlain] at hal ⊢
    split at hal
    · simp at hal; obtain ⟨rfl, rfl⟩ := hal
      simp [*, mkObj]
    · simp at hal
  obtain ⟨o0, h0, hk0, hd0, ha0⟩ := hnew
  have hinv1 := inv_step hinv (.allocPlain (some free))
  obtain ⟨o, ho, ev⟩ := run_evolve hinv1 ops2 g o0 h0
  obtain ⟨d', orig', hk⟩ := ev.gcp _ _ hk0
  have hd' : o.hadDtor = true := by rw [ev.flags.1, hd0]
  have hreach : run (step s (.allocPlain (some free))).1 ops2 =
      run init (ops1 ++ [.allocPlain (some free)] ++ ops2) := by
    simp [run, List.foldl_append, ← hs]
  refine ⟨o, ho, by rw [ev.flags.2, ha0], ?_, ?_, ?_⟩
  · rw [hreach] at ho
    exact gcpInv_le_one ((reachable_inv _).ghost g o ho)
  · intro hn
    rw [hreach] at ho
    exact (wrapper_calls _ g o d' orig' ho hk hd' hn).1
  · intro hc
    rw [hreach] at ho
    by_cases hn : o.noned = false
    · exact (wrapper_calls _ g o d' orig' ho hk hd' hn).2 hc
    · have g' := (reachable_inv _).ghost g o ho
      simp only [GcpInv, hk] at g'
      cases d' with
      | some dd => have := g'.1 rfl; omega
      | none => have := g'.2.1 rfl; simp at hn; simp [hn] at this; omega

/-- The struct flavour (`allocator("struct s *")`): the wrapper is the struct
object `sobj` behind the returned pointer; same guarantee. -/
theorem free_fn_exactly_once_struct (ops1 ops2 : List Op) (free p sobj raw : Nat)
    (hal : (step (run init ops1) (.allocStruct (some free))).2 = .ok [p, sobj, raw]) :
    ∃ o, (run (step (run init ops1) (.allocStruct (some free))).1 ops2).objs sobj = some o ∧
      o.isAlloc = true ∧ o.calls ≤ 1 ∧
      (o.noned = false → (o.alive = false ∨ o.released = true) → o.calls = 1) ∧
      (o.calls = 1 → o.alive = false ∨ o.released = true) := by
  have hinv := reachable_inv ops1
  generalize hs : run init ops1 = s at *
  have hnew : ∃ o0, (step s (.allocStruct (some free))).1.objs sobj = some o0 ∧
      o0.kind = .gcp (some free) (some raw) ∧ o0.hadDtor = true ∧ o0.isAlloc = true := by
    simp only [step, opAllocStruct] at hal ⊢
    split at hal
    · simp at hal; obtain ⟨rfl, rfl, rfl⟩ := hal
      simp [*, mkObj]
    · simp at hal
  obtain ⟨o0, h0, hk0, hd0, ha0⟩ := hnew
  have hinv1 := inv_step hinv (.allocStruct (some free))
  obtain ⟨o, ho, ev⟩ := run_evolve hinv1 ops2 sobj o0 h0
  obtain ⟨d', orig', hk⟩ := ev.gcp _ _ hk0
  have hd' : o.hadDtor = true := by rw [ev.flags.1, hd0]
  have hreach : run (step s (.allocStruct (some free))).1 ops2 =
      run init (ops1 ++ [.allocStruct (some free)] ++ ops2) := by
    simp [run, List.foldl_append, ← hs]
  refine ⟨o, ho, by rw [ev.flags.2, ha0], ?_, ?_, ?_⟩
  · rw [hreach] at ho
    exact gcpInv_le_one ((reachable_inv _).ghost sobj o ho)
  · intro hn
    rw [hreach] at ho
    exact (wrapper_calls _ sobj o d' orig' ho hk hd' hn).1
  · intro hc
    rw [hreach] at ho
    by_cases hn : o.noned = false
    · exact (wrapper_calls _ sobj o d' orig' ho hk hd' hn).2 hc
    · have g' := (reachable_inv _).ghost sobj o ho
      simp only [GcpInv, hk] at g'
      cases d' with
      | some dd => have := g'.1 rfl; omega
      | none => have := g'.2.1 rfl; simp at hn; simp [hn] at this; omega

/-- **`ffi.release()` is idempotent** (in any state, reachable or not): a second
release changes nothing and calls nothing. -/
theorem release_idempotent (s : State) (x : Nat) (l : List Nat)
    (hok : (step s (.release x)).2 = .ok l) :
    step (step s (.release x)).1 (.release x) = ((step s (.release x)).1, .ok []) := by
  simp only [step] at hok ⊢
  unfold release at hok
  split at hok
  · simp at hok
  · rename_i o ho
    have hoa := ((live_def s x o).mp ho)
    split at hok
    · simp at hok
    · -- owning, not a struct: no effect
      rename_i hk
      have e : release s x = (s, .ok []) := by unfold release; simp [ho, hk]
      rw [e]; exact e
    · simp at hok
    · simp at hok
    · rename_i sid hk
      split at hok
      · rename_i os hos
        have hosa := ((live_def s sid os).mp hos)
        split at hok
        · rename_i d orig hks
          have hne : x ≠ sid := by
            intro e; subst e; rw [ho] at hos; simp at hos; subst hos; rw [hk] at hks; simp at hks
          have e : release s x = (s.set sid { finalizeGcp os with released := true },
              .ok (if fires os then [sid] else [])) := by
            unfold release; simp [ho, hk, hos, hks]
          rw [e]
          have hf : finalizeGcp os = { os with kind := .gcp none none, calls := os.calls + (if d.isSome then 1 else 0) } := by simp [finalizeGcp, hks]
          have l1 := live_set_other s sid x { finalizeGcp os with released := true } hne
          have l2 := live_set_self s sid { finalizeGcp os with released := true }
            (by rw [hf]; exact hosa.2)
          unfold release
          simp only [l1, ho, hk, l2]
          rw [hf]
          simp only [finalizeGcp, fires, Option.isSome_none, Bool.false_eq_true, if_false, Nat.add_zero]
          congr 1
          exact set_self (by simp)
        · rename_i hnk
          have e : release s x = (s, .ok []) := by
            unfold release; simp only [ho, hk, hos]
            try (split <;> first | rfl | (rename_i d orig hks; exact absurd hks (hnk d orig)))
          rw [e]; exact e
      · rename_i hnone
        have e : release s x = (s, .ok []) := by unfold release; simp [ho, hk, hnone]
        rw [e]; exact e
    · rename_i d orig hk
      have e : release s x = (s.set x { finalizeGcp o with released := true },
          .ok (if fires o then [x] else [])) := by
        unfold release; simp [ho, hk]
      rw [e]
      have hf : finalizeGcp o = { o with kind := .gcp none none, calls := o.calls + (if d.isSome then 1 else 0) } := by simp [finalizeGcp, hk]
      have l2 := live_set_self s x { finalizeGcp o with released := true } (by rw [hf]; exact hoa.2)
      unfold release
      simp only [l2]
      rw [hf]
      simp only [finalizeGcp, fires, Option.isSome_none, Bool.false_eq_true, if_false, Nat.add_zero]
      congr 1
      exact set_self (by simp)
    · rename_i src rel hk
      by_cases hr : rel = true
      · have e : release s x = (s, .ok []) := by unfold release; simp [ho, hk, hr]
        rw [e]; exact e
      · have e : release s x = (s.set x { o with kind := .frombuf src true, released := true }, .ok []) := by
          unfold release; simp [ho, hk, hr]
        rw [e]
        have l2 := live_set_self s x { o with kind := .frombuf src true, released := true } hoa.2
        unfold release
        simp [l2]

/-- **A `from_buffer` cdata keeps its source alive and export-locked** until it is
released or deallocated: in every reachable state, if `f` is a live cdata with
an unreleased view on `b`, then `b` is alive and resizing `b` raises BufferError. -/
theorem frombuf_export_until_release (ops : List Op) (f b : Nat) (of : Obj)
    (hf : (run init ops).objs f = some of) (ha : of.alive = true) (hk : of.kind = .frombuf b false) :
    Alive (run init ops) b ∧ (step (run init ops) (.resize b)).2 = .error .BufferError := by
  have hinv := reachable_inv ops
  generalize run init ops = s at *
  have hb : Alive s b := hinv.nd f of hf ha b (by simp [edges, hk])
  refine ⟨hb, ?_⟩
  obtain ⟨ob, hob, hba⟩ := hb
  obtain ⟨ob', fl, hob', hbk⟩ := hinv.fb f of b false hf hk
  rw [hob] at hob'; simp at hob'; subst hob'
  have hl : s.live b = some ob := (live_def s b ob).mpr ⟨hob, hba⟩
  have hany : (List.range s.next).any (exportsOn s b) = true := by
    rw [List.any_eq_true]
    refine ⟨f, List.mem_range.mpr (lt_next hinv hf), ?_⟩
    have : s.live f = some of := (live_def s f of).mpr ⟨hf, ha⟩
    simp [exportsOn, this, hk]
  simp [step, opResize, hl, hbk, hany]

/-- ... and the lock is gone as soon as no live unreleased view remains (after
`ffi.release`, `with`, or deallocation of every view). -/
theorem frombuf_resize_ok_iff_no_live_view (ops : List Op) (b : Nat) (ob : Obj) (fl : List Nat)
    (hb : (run init ops).live b = some ob) (hk : ob.kind = .py .buf fl) :
    (step (run init ops) (.resize b)).2 = .ok [] ↔
      ¬ ∃ f of, (run init ops).live f = some of ∧ of.kind = .frombuf b false := by
  have hinv := reachable_inv ops
  generalize run init ops = s at *
  simp only [step, opResize, hb, hk]
  constructor
  · intro h ⟨f, of, hf, hfk⟩
    have hany : (List.range s.next).any (exportsOn s b) = true := by
      rw [List.any_eq_true]
      exact ⟨f, List.mem_range.mpr (lt_next hinv (objs_of_live hf)), by simp [exportsOn, hf, hfk]⟩
    simp [hany] at h
  · intro h
    have hany : (List.range s.next).any (exportsOn s b) = false := by
      rw [Bool.eq_false_iff]
      intro hc
      rw [List.any_eq_true] at hc
      obtain ⟨f, _, hf⟩ := hc
      unfold exportsOn at hf
      split at hf
      · rename_i o ho
        exact h ⟨f, o, ho, by simpa using hf⟩
      · simp at hf
    simp [hany]

/-- **Releasing a view unlocks**: after `ffi.release(f)` the cdata `f` holds no export. -/
theorem release_drops_export (s : State) (f b : Nat) (l : List Nat)
    (hok : (step s (.release f)).2 = .ok l) : exportsOn (step s (.release f)).1 b f = false := by
  simp only [step] at hok ⊢
  cases hl : s.live f with
  | none => simp [release, hl] at hok
  | some o =>
    have hoa := (live_def s f o).mp hl
    cases hk : o.kind with
    | py t fl => simp [release, hl, hk] at hok
    | handle x a => simp [release, hl, hk] at hok
    | owning st =>
      cases st
      · simp [release, hl, hk, exportsOn]
      · simp [release, hl, hk] at hok
    | structptr sid =>
      have hnf : ∀ s' : State, s'.live f = some o → exportsOn s' b f = false := by
        intro s' h'; simp [exportsOn, h', hk]
      unfold release
      simp only [hl, hk]
      split
      · rename_i os hos
        split
        · rename_i d orig hks
          have hne : f ≠ sid := by
            intro e; subst e; rw [hl] at hos; simp at hos; subst hos; rw [hk] at hks; simp at hks
          exact hnf _ (by rw [live_set_other _ _ _ _ hne]; exact hl)
        · exact hnf _ hl
      · exact hnf _ hl
    | gcp d orig =>
      have hf : finalizeGcp o = { o with kind := .gcp none none, calls := o.calls + (if d.isSome then 1 else 0) } := by
        simp [finalizeGcp, hk]
      have e : release s f = (s.set f { finalizeGcp o with released := true },
          .ok (if fires o then [f] else [])) := by
        unfold release; simp [hl, hk]
      rw [e]
      have l2 := live_set_self s f { finalizeGcp o with released := true } (by rw [hf]; exact hoa.2)
      simp only [exportsOn]
      rw [l2]
      simp [hf]
    | frombuf src rel =>
      cases rel
      · have e : release s f = (s.set f { o with kind := .frombuf src true, released := true }, .ok []) := by
          unfold release; simp [hl, hk]
        rw [e]
        have l2 := live_set_self s f { o with kind := .frombuf src true, released := true } hoa.2
        simp only [exportsOn]
        rw [l2]
        simp
      · simp [release, hl, hk, exportsOn]

/-- **Memory from `ffi.new("struct s *")` stays valid while `p` or `p[0]` is
alive**: in every reachable state a live struct pointer `p` refers to a live
struct object, and the collector rule refuses to finalise that struct object as
long as `p` survives or the program holds a reference to it (`p[0]`). -/
theorem struct_memory_valid_while_either_alive (ops : List Op) (p sid : Nat) (op : Obj)
    (hp : (run init ops).live p = some op) (hk : op.kind = .structptr sid) :
    (∃ os, (run init ops).live sid = some os ∧ isStructTarget os.kind) ∧
    (∀ S, sid ∈ S → p ∉ S → (step (run init ops) (.collect S)).2 = .error .Reachable) ∧
    (∀ S os, (run init ops).live sid = some os → 0 < os.ext → sid ∈ S →
        (step (run init ops) (.collect S)).2 = .error .Reachable) := by
  have hinv := reachable_inv ops
  generalize run init ops = s at *
  have hpo := (live_def s p op).mp hp
  obtain ⟨os, hos, hosa⟩ := hinv.nd p op hpo.1 hpo.2 sid (by simp [edges, hk])
  obtain ⟨os', hos', ht⟩ := hinv.sk p op sid hpo.1 hk
  rw [hos] at hos'; simp at hos'; subst hos'
  refine ⟨⟨os, (live_def s sid os).mpr ⟨hos, hosa⟩, ht⟩, ?_, ?_⟩
  · intro S hs hpS
    have : collectOk s S = false := by
      rw [Bool.eq_false_iff]
      intro hc
      unfold collectOk at hc
      simp only [Bool.and_eq_true, List.all_eq_true, List.mem_range] at hc
      have := hc.2 p (lt_next hinv hpo.1)
      simp only [hp, Bool.or_eq_true, decide_eq_true_eq, List.all_eq_true, Bool.not_eq_eq_eq_not,
        Bool.not_true, decide_eq_false_iff_not] at this
      rcases this with h1 | h1
      · exact hpS h1
      · exact h1 sid (by simp [edges, hk]) hs
    simp [step, opCollect, this]
  · intro S os2 hl hext hs
    have : collectOk s S = false := by
      rw [Bool.eq_false_iff]
      intro hc
      unfold collectOk at hc
      simp only [Bool.and_eq_true, List.all_eq_true, List.mem_range] at hc
      have := hc.1 sid hs
      simp [hl] at this
      omega
    simp [step, opCollect, this]

/-- **Live handles have pairwise distinct addresses.** -/
theorem handles_distinct (ops : List Op) (h1 h2 x1 x2 a : Nat) (o1 o2 : Obj)
    (l1 : (run init ops).live h1 = some o1) (l2 : (run init ops).live h2 = some o2)
    (k1 : o1.kind = .handle x1 a) (k2 : o2.kind = .handle x2 a) : h1 = h2 := by
  have e1 := (live_def _ _ _).mp l1
  have e2 := (live_def _ _ _).mp l2
  exact (reachable_inv ops).hd h1 h2 o1 o2 x1 x2 a e1.1 e2.1 e1.2 e2.2 k1 k2

/-- **`ffi.from_handle(h)` returns the object given to the `new_handle()` call
that produced `h`**, at any later point of any history at which `h` is alive. -/
theorem from_handle_returns_original (ops1 ops2 : List Op) (x a h : Nat)
    (hnew : (step (run init ops1) (.newHandle x a)).2 = .ok [h])
    (halive : Alive (run (step (run init ops1) (.newHandle x a)).1 ops2) h) :
    (step (run (step (run init ops1) (.newHandle x a)).1 ops2) (.fromHandle a)).2 = .ok [x] := by
  have hinv := reachable_inv ops1
  generalize run init ops1 = s at *
  have hcreated : ∃ o0, (step s (.newHandle x a)).1.objs h = some o0 ∧ o0.kind = .handle x a := by
    simp only [step, opNewHandle] at hnew ⊢
    split at hnew
    · split at hnew
      · simp at hnew
      · simp at hnew; subst hnew
        simp [*, mkObj]
    · simp at hnew
  obtain ⟨o0, h0, hk0⟩ := hcreated
  have hinv1 := inv_step hinv (.newHandle x a)
  obtain ⟨o, ho, ev⟩ := run_evolve hinv1 ops2 h o0 h0
  obtain ⟨o', ho', hoa⟩ := halive
  rw [ho] at ho'; simp at ho'; subst ho'
  exact fromHandle_live (inv_run hinv1 ops2) h x a o ((live_def _ _ _).mpr ⟨ho, hoa⟩) (ev.handle x a hk0)

/-! ### Non-vacuity: concrete histories that exercise the hypotheses -/

-- ids: 0 = plain cdata, 1 = destructor object, 2 = the gc wrapper
def exGc : List Op := [.newPlain, .newPy .dtor, .gc 0 1]

-- the wrapper in a cycle with its destructor (d.fields = [g]), references dropped, then collected
example : (step (run init [.newPlain, .newPy .dtor]) (.gc 0 1)).2 = .ok [2] := by decide
example : (run init (exGc ++ [.store 1 2, .dropRef 2, .dropRef 1, .dropRef 0])).calls 2 = 0 := by decide
example : (step (run init (exGc ++ [.store 1 2, .dropRef 2, .dropRef 1, .dropRef 0])) (.collect [0, 1, 2])).2
    = .ok [2] := by decide
example : (run init (exGc ++ [.store 1 2, .dropRef 2, .dropRef 1, .dropRef 0, .collect [0, 1, 2]])).calls 2 = 1 := by
  decide
-- the collector may not take the wrapper while the program still holds it
example : (step (run init exGc) (.collect [2])).2 = .error .Reachable := by decide
-- release, then release again, then collection: still one call
example : (run init (exGc ++ [.release 2, .withExit 2, .dropRef 2, .collect [2]])).calls 2 = 1 := by decide
-- gc(g, None) first: never called
example : (step (run init exGc) (.gcNone 2)).2 = .ok [] := by decide
example : (run init (exGc ++ [.gcNone 2, .release 2, .dropRef 2, .collect [2]])).calls 2 = 0 := by decide
-- allocator: ids 0 = free function, 1 = raw memory, 2 = allocation
example : (step (run init [.newPy .dtor]) (.allocPlain (some 0))).2 = .ok [2, 1] := by decide
example : (run init [.newPy .dtor, .allocPlain (some 0), .dropRef 2, .collect [2, 1]]).calls 2 = 1 := by decide
-- allocator("struct s *"): 0 free, 1 raw, 2 struct wrapper, 3 pointer; release(p) frees, collection does not free again
example : (step (run init [.newPy .dtor]) (.allocStruct (some 0))).2 = .ok [3, 2, 1] := by decide
example : (run init [.newPy .dtor, .allocStruct (some 0), .release 3, .dropRef 3, .collect [3, 2]]).calls 2 = 1 := by
  decide
-- from_buffer: 0 = bytearray, 1 = view
example : (step (run init [.newPy .buf, .fromBuffer 0]) (.resize 0)).2 = .error .BufferError := by decide
example : (step (run init [.newPy .buf, .fromBuffer 0, .release 1]) (.resize 0)).2 = .ok [] := by decide
example : (step (run init [.newPy .buf, .fromBuffer 0, .dropRef 1, .collect [1]]) (.resize 0)).2 = .ok [] := by decide
example : (step (run init [.newPy .buf, .fromBuffer 0, .dropRef 0]) (.collect [0])).2 = .error .Reachable := by decide
-- struct pointer: 0 = struct object, 1 = pointer; p[0] keeps the struct after p is gone
example : (step (run init [.newStruct]) (.alias 1)).2 = .ok [0] := by decide
example : (step (run init [.newStruct, .alias 1, .dropRef 1, .collect [1]]) (.collect [0])).2 = .error .Reachable := by
  decide
example : (step (run init [.newStruct]) (.collect [0])).2 = .error .Reachable := by decide
-- handles: 0 = object, 1, 2 = handles at addresses 100, 200; a cycle object -> handle -> object
example : (step (run init [.newPy .box, .newHandle 0 100]) (.newHandle 0 100)).2 = .error .AddrInUse := by decide
example : (step (run init [.newPy .box, .newHandle 0 100, .newHandle 0 200]) (.fromHandle 200)).2 = .ok [0] := by
  decide
example : (step (run init [.newPy .box, .newHandle 0 100, .store 0 1, .dropRef 0, .dropRef 1]) (.collect [0, 1])).2
    = .ok [] := by decide
-- address reuse after the first handle died
example : (step (run init [.newPy .box, .newHandle 0 100, .dropRef 1, .collect [1]]) (.newHandle 0 100)).2
    = .ok [2] := by decide

end CffiVerif.C21
