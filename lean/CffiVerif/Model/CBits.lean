/-
64-bit C integer operations as `BitVec 64` functions, with x86-64 behaviour
for variable shift counts (the count is taken mod 64).  C leaves counts
outside [0, 64) undefined; every property that relies on a shift therefore
carries a separate theorem that the counts it uses are in range.
-/
namespace CffiVerif.CBits

def cnt (c : Int) : Nat := (c % 64).toNat

def shl (x : BitVec 64) (c : Int) : BitVec 64 := x <<< cnt c
def ushr (x : BitVec 64) (c : Int) : BitVec 64 := x >>> cnt c
def sshr (x : BitVec 64) (c : Int) : BitVec 64 := x.sshiftRight (cnt c)

/-- The `size` low bytes of `x` (what `write_raw_integer_data(…, size)` keeps). -/
def trunc (size : Nat) (x : BitVec 64) : BitVec 64 := x &&& (BitVec.ofNat 64 (2 ^ (8 * size) - 1))

/-- `read_raw_signed_data`: the `size`-byte integer in the low bytes of `x`, sign-extended to 64 bits. -/
def sext (size : Nat) (x : BitVec 64) : BitVec 64 :=
  let n := 8 * size
  if n ≥ 64 then x else
  let t := x.toNat % 2 ^ n
  if t ≥ 2 ^ (n - 1) then BitVec.ofInt 64 ((t : Int) - 2 ^ n) else BitVec.ofNat 64 t

end CffiVerif.CBits
