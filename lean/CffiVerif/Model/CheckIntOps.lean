/-
C integer expression operators used by the terms that `translate/c12_check_int.py` and
`translate/verify_macros.py` regenerate from the cffi sources.

Embedding: a C integer value is its mathematical value (`Int`); truth values are the C
`int`s 0 and 1.  The comparisons are the mathematical ones: at every extraction point the
two operands either have the same signedness after the usual arithmetic conversions, or one
of them is the literal `0` (whose conversion to the other operand's type preserves its value),
so C's comparison and the mathematical comparison agree.  Platform: LP64 (`long` = 64 bit).
-/
namespace CffiVerif.CheckIntOps

def two64 : Int := 18446744073709551616
def two63 : Int := 9223372036854775808

def cBool (p : Bool) : Int := if p then 1 else 0
def cLe (a b : Int) : Int := cBool (decide (a ≤ b))
def cGe (a b : Int) : Int := cBool (decide (b ≤ a))
def cLt (a b : Int) : Int := cBool (decide (a < b))
def cGt (a b : Int) : Int := cBool (decide (b < a))
def cEq (a b : Int) : Int := cBool (decide (a = b))
def cNe (a b : Int) : Int := cBool (decide (a ≠ b))
def cAnd (a b : Int) : Int := cBool (decide (a ≠ 0) && decide (b ≠ 0))
def cOrL (a b : Int) : Int := cBool (decide (a ≠ 0) || decide (b ≠ 0))
def cNot (a : Int) : Int := cBool (decide (a = 0))

/-- `(unsigned long long)x` / `(unsigned long)x`: reduction modulo 2^64. -/
def cULL (x : Int) : Int := x % two64
def cULong (x : Int) : Int := x % two64
/-- `(long long)x` / `(long)x`: the two's complement reading of the low 64 bits (gcc). -/
def cLL (x : Int) : Int := if x % two64 < two63 then x % two64 else x % two64 - two64
def cLong (x : Int) : Int := cLL x

/-- `a | b` on the 128-bit two's complement images (wide enough for every C integer type,
    including the `__int128` gcc gives to the literal 9223372036854775808). -/
def cOr (a b : Int) : Int := ((BitVec.ofInt 128 a) ||| (BitVec.ofInt 128 b)).toInt


instance exceptDecEq {ε α : Type} [DecidableEq ε] [DecidableEq α] : DecidableEq (Except ε α) := fun a b =>
  match a, b with
  | .ok x, .ok y => if h : x = y then isTrue (by rw [h]) else isFalse (fun h' => by cases h'; exact h rfl)
  | .error x, .error y => if h : x = y then isTrue (by rw [h]) else isFalse (fun h' => by cases h'; exact h rfl)
  | .ok _, .error _ => isFalse (fun h => by cases h)
  | .error _, .ok _ => isFalse (fun h => by cases h)

end CffiVerif.CheckIntOps
