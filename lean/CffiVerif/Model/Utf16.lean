/-
Model of the wide-character converters of `src/c/wchar_helper_3.h`
(CPython >= 3.3 variant, the one compiled on CPython 3.12).

Conventions: a Python `str` is a `List Nat` of code points (lone surrogates
allowed, as in Python; `ValidStr` = every code point <= 0x10FFFF, which CPython
guarantees for every `str` object).  A `char16_t` / `char32_t` buffer is a
`List Nat` of units (`Units16` / `Units32` state the width bound).

  size16      = _my_PyUnicode_SizeAsChar16      (length + one more per astral code point)
  encode16    = the copy loop of _my_PyUnicode_AsChar16 (without the terminator)
  asChar16    = _my_PyUnicode_AsChar16(unicode, result, resultlen): what is written at `result`
  countPairs  = the counting loop of _my_PyUnicode_FromChar16
  decodeLoop  = the slow path of _my_PyUnicode_FromChar16
  decode16    = _my_PyUnicode_FromChar16 (fast path when no pair was counted)
  size32 / asChar32 / fromChar32 = the char32_t variants (UTF-32: the identity on code points)

Modelled, not verified: `PyUnicode_FromKindAndData` (copies the units; for the
4-byte kind CPython 3.12's `_PyUnicode_FromUCS4` fails with SystemError on a
single out-of-range unit (`unicode_char` -> `PyUnicode_New(1, ch)`) but does
**not** check when `size >= 2` (`ucs4lib_find_max_char` saturates at 0x10FFFF)),
`PyUnicode_AsUCS4` (copies `len` code points, plus a zero when `copy_null`).

Every test and arithmetic expression of those loops is taken from
`Generated/CharExprs.lean`, which translate/c15_exprs.py re-extracts from the C source on
every check run; `Proofs/Utf16.lean` proves what each generated definition means.
-/
import CffiVerif.Generated.CharExprs
namespace CffiVerif.Utf16
open CffiVerif.Generated.CharExprs

/-- Exception *types* the modelled code can raise.  Three are not Python exceptions:
`outOfBounds` marks a read/write outside the modelled memory (undefined behaviour
of the C code; the theorems show it does not happen), `fatal` is `Py_FatalError`
(process abort), `unmodelled` marks a C construct the model gives no meaning to. -/
inductive Err
  | typeError | indexError | valueError | systemError | outOfBounds | fatal | unmodelled
  deriving DecidableEq, Repr

def Err.name : Err → String
  | .typeError => "TypeError"
  | .indexError => "IndexError"
  | .valueError => "ValueError"
  | .systemError => "SystemError"
  | .outOfBounds => "OutOfBounds"
  | .fatal => "Fatal"
  | .unmodelled => "Unmodelled"

/-- (so that `decide` can evaluate closed model terms) -/
instance {ε α : Type} [DecidableEq ε] [DecidableEq α] : DecidableEq (Except ε α)
  | .ok a, .ok b => if h : a = b then isTrue (by rw [h]) else isFalse (fun e => h (by injection e))
  | .error a, .error b => if h : a = b then isTrue (by rw [h]) else isFalse (fun e => h (by injection e))
  | .ok _, .error _ => isFalse (fun e => by injection e)
  | .error _, .ok _ => isFalse (fun e => by injection e)

abbrev Str := List Nat
abbrev Units := List Nat

/-- Every code point is one CPython can store. -/
def ValidStr (s : Str) : Prop := ∀ c ∈ s, c ≤ 0x10FFFF

def Units16 (w : Units) : Prop := ∀ u ∈ w, u < 0x10000
def Units32 (w : Units) : Prop := ∀ u ∈ w, u < 0x100000000

/-- `0xD800 <= u && u <= 0xDBFF` -/
def isHigh (u : Nat) : Bool := decide (0xD800 ≤ u) && decide (u ≤ 0xDBFF)
/-- `0xDC00 <= u && u <= 0xDFFF` -/
def isLow (u : Nat) : Bool := decide (0xDC00 ≤ u) && decide (u ≤ 0xDFFF)

/-- number of `data[i] > 0xFFFF` (`szAstral`) -/
def countAstral : Str → Nat
  | [] => 0
  | c :: cs => if szAstral c then countAstral cs + 1 else countAstral cs

/-- `_my_PyUnicode_SizeAsChar16`: `result = length; for each data[i] > 0xFFFF: result++`. -/
def size16 (s : Str) : Nat := s.length + countAstral s

/-- `_my_PyUnicode_SizeAsChar32`. -/
def size32 (s : Str) : Nat := s.length

/-- The copy loop of `_my_PyUnicode_AsChar16`: the units written through `*result++`. -/
def encode16 : Str → Except Err Units
  | [] => .ok []
  | c :: cs =>
    if encAstral c then                       -- ordinal > 0xFFFF
      if encOutOfRange c then .error .valueError
      else
        match encode16 cs with                -- ordinal -= 0x10000; 0xD800 | (ordinal >> 10); 0xDC00 | (ordinal & 0x3FF)
        | .ok r => .ok (encHigh (encSub c) :: encLow (encSub c) :: r)
        | .error e => .error e
    else
      match encode16 cs with
      | .ok r => .ok (c :: r)
      | .error e => .error e

/-- `_my_PyUnicode_AsChar16(unicode, result, resultlen)`: everything stored at
`result`, i.e. the encoded units and, `if (result - start < resultlen)`, one zero. -/
def asChar16 (s : Str) (resultlen : Nat) : Except Err Units :=
  match encode16 s with
  | .ok u => .ok (if encTerminator u.length s.length resultlen then u ++ [0] else u)
  | .error e => .error e

/-- `_my_PyUnicode_AsChar32(unicode, result, resultlen)`:
`copy_null = resultlen > len; PyUnicode_AsUCS4(unicode, result, resultlen, copy_null)`.
`PyUnicode_AsUCS4` fails (SystemError) when the target is too small. -/
def asChar32 (s : Str) (resultlen : Nat) : Except Err Units :=
  let copyNul := copyNull resultlen s.length
  let targetlen := if copyNul then s.length + 1 else s.length
  if resultlen < targetlen then .error .systemError
  else .ok (if copyNul then s ++ [0] else s)

/-- The counting loop of `_my_PyUnicode_FromChar16`
(`for i < size-1: if high(w[i]) && low(w[i+1]) count++`). -/
def countPairs : Units → Nat
  | [] => 0
  | a :: tl =>
    match tl with
    | [] => 0
    | b :: _ => (if decPairCount a b then 1 else 0) + countPairs tl

/-- The slow path of `_my_PyUnicode_FromChar16`: joins each high surrogate that is
directly followed by a low surrogate (and skips the latter). -/
def decodeLoop : Units → Str
  | [] => []
  | [a] => [a]                                -- last unit: `i < size - 1` fails, copied as it is
  | a :: b :: rest =>                         -- `i < size - 1` holds: there is a next unit
    if decHigh a true && decLow b then decJoin a b :: decodeLoop rest
    else a :: decodeLoop (b :: rest)

/-- `_my_PyUnicode_FromChar16(w, size)`. -/
def decode16 (w : Units) : Str :=
  if countPairs w = 0 then w      -- fast path: PyUnicode_FromKindAndData(2BYTE_KIND, w, size)
  else decodeLoop w               -- PyUnicode_New(size - count_surrogates, 0x10FFFF) + loop

/-- `_my_PyUnicode_FromChar32(w, size)` = `PyUnicode_FromKindAndData(4BYTE_KIND, w, size)`
as CPython 3.12 implements it (see the header of this file). -/
def fromChar32 (w : Units) : Except Err Str :=
  match w with
  | [u] => if u > 0x10FFFF then .error .systemError else .ok [u]
  | _ => .ok w

/-- The hypothesis of the UTF-16 round trip: no lone high surrogate directly
followed by a lone low surrogate (such a pair is indistinguishable, once
encoded, from the astral character it spells). -/
def noAdjacentLoneSurrogatePair : Str → Bool
  | [] => true
  | a :: tl =>
    match tl with
    | [] => true
    | b :: _ => !(isHigh a && isLow b) && noAdjacentLoneSurrogatePair tl

end CffiVerif.Utf16
