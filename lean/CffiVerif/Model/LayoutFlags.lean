import CffiVerif.Model.Layout
/-
The field loop of `b_complete_struct_or_union_lock_held` with *all* `sflags`
branches (MSVC and ARM bit-field styles, big endian), as reachable through the
low-level `_cffi_backend.complete_struct_or_union(ct, fields, None, -1, -1, sflags, pack)`.
On x86-64 Linux `ffi.cdef` never selects these branches; they are modelled for
correspondence breadth only (no compiler oracle for them exists on this platform).
`Proofs/LayoutFlags.lean` shows that for the flags `complete_sflags` chooses here
this model coincides with `Model/Layout.lean`, the one the C01 theorems are about.

`field_offset_bytes` can become negative in the MSVC branch of a union
(`byteoffset - ftype->ct_size` after `byteoffset` was reset to 0), so offsets of
the emitted fields are integers here.
-/
namespace CffiVerif.LayoutFlags
open CffiVerif.Layout

/-- the tests the loop makes on `sflags` after `complete_sflags` -/
structure Flags where
  msvc : Bool        -- SF_MSVC_BITFIELDS
  arm : Bool         -- SF_GCC_ARM_BITFIELDS
  bigEndian : Bool   -- SF_GCC_BIG_ENDIAN
  packed : Bool      -- SF_PACKED (after the prologue)
deriving DecidableEq, Repr

/-- what `complete_sflags` + the prologue choose on x86-64 Linux for `tp.packed = p` -/
def Flags.x86 (p : Nat) : Flags :=
  { msvc := false, arm := false, bigEndian := false, packed := (packCfg p).2 }

structure FField' where
  offset : Int
  bits : Option (Nat × Nat)
  fsize : Option Nat
deriving DecidableEq, Repr

structure StF where
  byteoffset : Nat
  bitoffset : Nat
  alignment : Nat
  byteoffsetmax : Nat
  prevBitfieldSize : Nat
  prevBitfieldFree : Nat
deriving DecidableEq, Repr

def StF.init : StF := ⟨0, 0, 1, 0, 0, 0⟩

def StF.bump (alignment byteoffset bitoffset byteoffsetmax pbs pbf : Nat) : StF :=
  { byteoffset := byteoffset, bitoffset := bitoffset, alignment := alignment,
    byteoffsetmax :=
      if roundupBytes byteoffset bitoffset > byteoffsetmax
      then roundupBytes byteoffset bitoffset else byteoffsetmax,
    prevBitfieldSize := pbs, prevBitfieldFree := pbf }

/-- `if (sflags & SF_GCC_BIG_ENDIAN) bitshift = 8 * ftype->ct_size - fbitsize - bitshift;` -/
def endianShift (fl : Flags) (ctSize fbitsize bitshift : Nat) : Nat :=
  if fl.bigEndian then 8 * ctSize - fbitsize - bitshift else bitshift

def stepF (fl : Flags) (isUnion : Bool) (pack : Nat) (isLast : Bool)
    (s : StF) (f : FField FField') : Except Reject (StF × List FField') :=
  if f.size.isNone && !(f.isArray && f.bits.isNone && isLast) then .error .typeError else
  let byteoffset := if isUnion then 0 else s.byteoffset
  let bitoffset := if isUnion then 0 else s.bitoffset
  let falignorg := f.align
  let falign := if pack < falignorg then pack else falignorg
  let doAlign := match f.bits with
    | some w =>
      if !fl.arm then
        if !fl.msvc then f.named      -- GCC: anonymous bitfields (of any size) don't cause alignment
        else decide (w > 0)           -- MSVC: zero-sized bitfields don't cause alignment
      else true
    | none => true
  let alignment := if s.alignment < falign && doAlign then falign else s.alignment
  match f.bits with
  | none =>
    let byteoffset := alignUp (roundupBytes byteoffset bitoffset) falign
    let outs : List FField' :=
      if !f.named && f.isAgg then
        f.sub.map fun c => { c with offset := (byteoffset : Int) + c.offset }
      else
        [{ offset := byteoffset, bits := none, fsize := f.size }]
    let byteoffset := match f.size with
      | some n => byteoffset + n
      | none => byteoffset
    .ok (StF.bump alignment byteoffset 0 s.byteoffsetmax 0 s.prevBitfieldFree, outs)
  | some fbitsize =>
    if !f.intlike then .error .typeError else
    match f.size with
    | none => .error .typeError
    | some ctSize =>
    if fbitsize > 8 * ctSize then .error .typeError else
    let fieldOffsetBytes := alignDown byteoffset falign
    if fbitsize = 0 then
      if f.named then .error .typeError else
      if !fl.msvc then
        let fieldOffsetBytes :=
          if roundupBytes byteoffset bitoffset > fieldOffsetBytes
          then fieldOffsetBytes + falign else fieldOffsetBytes
        .ok (StF.bump alignment fieldOffsetBytes 0 s.byteoffsetmax 0 s.prevBitfieldFree, [])
      else
        -- MSVC's notion of "ftype :0;": mostly ignored
        .ok (StF.bump alignment byteoffset bitoffset s.byteoffsetmax 0 s.prevBitfieldFree, [])
    else if !fl.msvc then
      -- GCC's algorithm
      let bitsAlreadyOccupied := (byteoffset - fieldOffsetBytes) * 8 + bitoffset
      if bitsAlreadyOccupied + fbitsize > 8 * ctSize then
        if fl.packed && bitsAlreadyOccupied % 8 ≠ 0 then .error .notImplemented else
        let fieldOffsetBytes := fieldOffsetBytes + falign
        let byteoffset := fieldOffsetBytes
        let bitoffset := 0 + fbitsize
        let outs : List FField' :=
          if f.named then
            [{ offset := fieldOffsetBytes, bits := some (endianShift fl ctSize fbitsize 0, fbitsize),
               fsize := some ctSize }]
          else []
        .ok (StF.bump alignment (byteoffset + bitoffset / 8) (bitoffset % 8) s.byteoffsetmax
              s.prevBitfieldSize s.prevBitfieldFree, outs)
      else
        let bitshift := bitsAlreadyOccupied
        let bitoffset := bitoffset + fbitsize
        let outs : List FField' :=
          if f.named then
            [{ offset := fieldOffsetBytes, bits := some (endianShift fl ctSize fbitsize bitshift, fbitsize),
               fsize := some ctSize }]
          else []
        .ok (StF.bump alignment (byteoffset + bitoffset / 8) (bitoffset % 8) s.byteoffsetmax
              s.prevBitfieldSize s.prevBitfieldFree, outs)
    else
      -- MSVC's algorithm: a bit-field takes the full width of its declared type; it shares bits with
      -- the previous field only if that was a bit-field of a type of the same size
      if s.prevBitfieldSize = ctSize && decide (s.prevBitfieldFree ≥ fbitsize) then
        let bitshift := 8 * s.prevBitfieldSize - s.prevBitfieldFree
        let outs : List FField' :=
          if f.named then
            [{ offset := (byteoffset : Int) - ctSize, bits := some (endianShift fl ctSize fbitsize bitshift, fbitsize),
               fsize := some ctSize }]
          else []
        .ok (StF.bump alignment byteoffset bitoffset s.byteoffsetmax
              s.prevBitfieldSize (s.prevBitfieldFree - fbitsize), outs)
      else
        let byteoffset := alignUp (roundupBytes byteoffset bitoffset) falign + ctSize
        let outs : List FField' :=
          if f.named then
            [{ offset := (byteoffset : Int) - ctSize, bits := some (endianShift fl ctSize fbitsize 0, fbitsize),
               fsize := some ctSize }]
          else []
        .ok (StF.bump alignment byteoffset 0 s.byteoffsetmax ctSize (8 * ctSize - fbitsize), outs)

def loopF (fl : Flags) (isUnion : Bool) (pack : Nat) :
    List (FField FField') → StF → Except Reject (StF × List FField')
  | [], s => .ok (s, [])
  | f :: rest, s =>
    match stepF fl isUnion pack rest.isEmpty s f with
    | .error e => .error e
    | .ok (s', o) =>
      match loopF fl isUnion pack rest s' with
      | .error e => .error e
      | .ok (s'', os) => .ok (s'', o ++ os)

structure FLayout where
  size : Nat
  align : Nat
  fields : List FField'
deriving DecidableEq, Repr

def finishF (s : StF) (fields : List FField') : FLayout :=
  let alignedsize := alignUp s.byteoffsetmax s.alignment
  { size := if alignedsize = 0 then 1 else alignedsize, align := s.alignment, fields := fields }

/-- `pack`: the value of the C variable after the prologue -/
def completeF (fl : Flags) (isUnion : Bool) (pack : Nat) (fields : List (FField FField')) : Except Reject FLayout :=
  match loopF fl isUnion pack fields StF.init with
  | .error e => .error e
  | .ok (s, fs) => .ok (finishF s fs)

structure FInfo where
  size : Nat
  align : Nat
  intlike : Bool
  isArray : Bool
  isAgg : Bool
  sub : List FField'
deriving DecidableEq, Repr

def FInfo.toField (i : FInfo) (named : Bool) (bits : Option Nat) (flex : Bool) : FField FField' :=
  { named := named, size := if flex then none else some i.size, align := i.align, bits := bits,
    intlike := if flex then false else i.intlike,
    isArray := flex || i.isArray, isAgg := if flex then false else i.isAgg,
    sub := if flex then [] else i.sub }

/-- flags of an aggregate declared with `tp.packed = p` under bit-field style `fl` -/
def Flags.withPack (fl : Flags) (p : Nat) : Flags := { fl with packed := (packCfg p).2 }

mutual
/-- every aggregate of the declaration is completed with the same bit-field style / endianness `fl`
and its own packing -/
def infoF (fl : Flags) : Ty → Except Reject FInfo
  | .prim size align intlike =>
    .ok { size := size, align := align, intlike := intlike, isArray := false, isAgg := false, sub := [] }
  | .arr elem len =>
    match infoF fl elem with
    | .error e => .error e
    | .ok i => .ok { size := len * i.size, align := i.align, intlike := false, isArray := true,
                     isAgg := false, sub := [] }
  | .agg isUnion p fields =>
    match fieldsF fl fields with
    | .error e => .error e
    | .ok fs =>
      match completeF (fl.withPack p) isUnion (packCfg p).1 fs with
      | .error e => .error e
      | .ok l => .ok { size := l.size, align := l.align, intlike := false, isArray := false,
                       isAgg := true, sub := l.fields }
def fieldsF (fl : Flags) : Fields → Except Reject (List (FField FField'))
  | .nil => .ok []
  | .cons named bits flex ty rest =>
    match infoF fl ty with
    | .error e => .error e
    | .ok i =>
      match fieldsF fl rest with
      | .error e => .error e
      | .ok fs => .ok (i.toField named bits flex :: fs)
end

def layoutFlags (fl : Flags) : Ty → Except Reject FLayout
  | .agg isUnion p fields =>
    match fieldsF fl fields with
    | .error e => .error e
    | .ok fs => completeF (fl.withPack p) isUnion (packCfg p).1 fs
  | _ => .error .typeError

end CffiVerif.LayoutFlags
