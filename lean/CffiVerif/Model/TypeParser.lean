import CffiVerif.Model.CName

/-
Model of the C type-string parser, src/c/parse_c_type.c (C07, C08).

  * `tokenize` = `next_token` (113) iterated: spaces, identifiers (letters,
    digits, `_`, `$`), the number rule (one digit, an optional `x`/`X` right
    after it, then greedily hex digits), `...`, the keyword table; any other
    character is a one-character token.  It is written as a character
    automaton (`step`) so that it is structurally recursive; the automaton
    emits exactly the tokens the C loop finds (`...` needs three dots, one or
    two dots are one-character tokens).
  * `parseComplete` / `parseSequel` = `parse_complete` (605) / `parse_sequel`
    (227).  The C code writes opcodes with back-patching; the model returns the
    declarator as data (`Decl`: stars, optional grouping parentheses, suffixes)
    and `Decl.apply` builds the type tree the opcodes denote
    (`realize_c_type_or_func_now`, realize_c_type.c:465).  Recursion uses fuel
    (`parseToks` supplies 3·tokens + 4: between two consumed tokens at most three calls are nested).
  * `valid` = the checks made while the backend builds the ctypes
    (`new_array_type`: item of known size; `new_function_type`: result not an
    array / of unknown size; `fb_fill_type`: arguments and result of
    non-variadic functions have a size > 0; a raw function type is only
    accepted under a pointer).

Parameters of the model (validated by the correspondence run, not proved):
`strtoull(p, &end, 0)` of glibc in C17 mode (decimal, `0` octal, `0x` hex; no
`0b`); `size_t` is 64 bits, `MAX_SSIZE_T = 2^63 - 1`; `get_common_type` on
non-Windows platforms knows exactly `FILE` and `bool` (commontypes.c).
Not modelled: the opcode buffer limit ("internal type complexity limit
reached", FFI_COMPLEXITY_OUTPUT = 1200 opcodes), the overflow check of
`length * itemsize` in `new_array_type`, bytes ≥ 0x80 (each is a one-byte
token in C, a one-character token here; both are rejected by the grammar).
-/
namespace CffiVerif.TypeParser
open CffiVerif.CName

inductive Kw where
  | bool_ | char_ | complex_ | const_ | double_ | enum_ | float_ | int_ | long_
  | short_ | signed_ | struct_ | union_ | unsigned_ | void_ | volatile_
  | cdecl_ | stdcall_
  deriving DecidableEq, Repr, Inhabited

inductive Tok where
  | sym (c : Char)        -- `* ( ) [ ] ,` and any other character
  | ident (s : Str)       -- TOK_IDENTIFIER
  | int (s : Str)         -- TOK_INTEGER with its text
  | dots                  -- TOK_DOTDOTDOT
  | kw (k : Kw)
  deriving DecidableEq, Repr, Inhabited

/-! ### Character classes (`is_space` … `is_ident_next`) -/

def isSpace (c : Char) : Bool :=
  c = ' ' || c = '\x0c' || c = '\n' || c = '\r' || c = '\t' || c = '\x0b'

def isIdentFirst (c : Char) : Bool :=
  ('A' ≤ c && c ≤ 'Z') || ('a' ≤ c && c ≤ 'z') || c = '_' || c = '$'

def isDigit (c : Char) : Bool := '0' ≤ c && c ≤ '9'

def isHexDigit (c : Char) : Bool :=
  ('0' ≤ c && c ≤ '9') || ('A' ≤ c && c ≤ 'F') || ('a' ≤ c && c ≤ 'f')

def isIdentNext (c : Char) : Bool := isIdentFirst c || isDigit c

def keywordTable : List (Str × Kw) :=
  [("_Bool".toList, .bool_), ("__cdecl".toList, .cdecl_), ("__stdcall".toList, .stdcall_),
   ("_Complex".toList, .complex_), ("char".toList, .char_), ("const".toList, .const_),
   ("double".toList, .double_), ("enum".toList, .enum_), ("float".toList, .float_),
   ("int".toList, .int_), ("long".toList, .long_), ("short".toList, .short_),
   ("signed".toList, .signed_), ("struct".toList, .struct_), ("union".toList, .union_),
   ("unsigned".toList, .unsigned_), ("void".toList, .void_), ("volatile".toList, .volatile_)]

/-- The `switch (*p)` at the end of `next_token`. -/
def classify (s : Str) : Tok :=
  match keywordTable.lookup s with
  | some k => .kw k
  | none => .ident s

/-! ### The tokenizer -/

inductive LexSt where
  | idle
  | inIdent (acc : Str)     -- inside an identifier
  | num1 (acc : Str)        -- one digit read: `x`/`X` or hex digits may follow
  | numRest (acc : Str)     -- only hex digits may follow
  | dot1 | dot2             -- one / two dots read
  deriving Repr, Inhabited

def flush : LexSt → List Tok
  | .idle => []
  | .inIdent acc => [classify acc]
  | .num1 acc => [.int acc]
  | .numRest acc => [.int acc]
  | .dot1 => [.sym '.']
  | .dot2 => [.sym '.', .sym '.']

def fromIdle (c : Char) : List Tok × LexSt :=
  if isIdentFirst c then ([], .inIdent [c])
  else if isSpace c then ([], .idle)
  else if isDigit c then ([], .num1 [c])
  else if c = '.' then ([], .dot1)
  else ([.sym c], .idle)

def step (st : LexSt) (c : Char) : List Tok × LexSt :=
  let restart := ((flush st) ++ (fromIdle c).1, (fromIdle c).2)
  match st with
  | .idle => fromIdle c
  | .inIdent acc => if isIdentNext c then ([], .inIdent (acc ++ [c])) else restart
  | .num1 acc =>
      if c = 'x' || c = 'X' || isHexDigit c then ([], .numRest (acc ++ [c])) else restart
  | .numRest acc => if isHexDigit c then ([], .numRest (acc ++ [c])) else restart
  | .dot1 => if c = '.' then ([], .dot2) else restart
  | .dot2 => if c = '.' then ([.dots], .idle) else restart

def run : LexSt → Str → List Tok
  | st, [] => flush st
  | st, c :: cs => (step st c).1 ++ run (step st c).2 cs

/-- All tokens of a C string (up to TOK_END).  The argument is the text before the
terminating NUL (strings with an embedded NUL are cut there by the caller). -/
def tokenize (s : Str) : List Tok := run .idle s

/-! ### Numbers: `strtoull(tok->p, &endptr, 0)` and `endptr == p + size` -/

def hexVal (c : Char) : Nat :=
  if '0' ≤ c ∧ c ≤ '9' then c.toNat - 48
  else if 'a' ≤ c ∧ c ≤ 'f' then c.toNat - 87
  else c.toNat - 55

def digitsVal (base : Nat) : Str → Nat → Option Nat
  | [], acc => some acc
  | c :: cs, acc =>
      if isHexDigit c ∧ hexVal c < base then digitsVal base cs (acc * base + hexVal c) else none

def maxSsize : Nat := 2 ^ 63 - 1

inductive Err where
  | parse          -- `parse_error(...)`: ffi.error from `_ffi_bad_type`
  | realize        -- the backend refused to build the ctype (TypeError/ValueError/ffi.error)
  | fuel           -- never returned by `parseType` (see `TypeParser` proofs)
  deriving DecidableEq, Repr, Inhabited

/-- Value of an integer token used as an array length: the whole token must be
consumed ("invalid number") and the value must be ≤ MAX_SSIZE_T ("number too
large"; ERANGE values are larger). -/
def numValue (s : Str) : Except Err Nat :=
  let v := match s with
    | '0' :: 'x' :: (d :: ds) => digitsVal 16 (d :: ds) 0
    | '0' :: 'X' :: (d :: ds) => digitsVal 16 (d :: ds) 0
    | '0' :: ds => digitsVal 8 ds 0
    | ds => digitsVal 10 ds 0
  match v with
  | some n => if n ≤ maxSsize then .ok n else .error .parse
  | none => .error .parse

/-! ### Declaration context (`struct _cffi_type_context_s`) -/

structure Ctx where
  typedefs : List (Str × Ty)                  -- typenames ↦ the type their type_index realizes to
  aggs : List (Str × AggKind × Bool)          -- struct_unions: tag ↦ (struct|union, complete)
  enums : List Str
  consts : List (Str × Int)                   -- globals that are integer constants / enumerators
  deriving Inhabited

/-- `search_standard_typename` (487): the names it recognises. -/
def standardTypenames : List Str :=
  ["uint16_t", "char16_t", "int32_t", "uint32_t", "char32_t", "int64_t", "uint64_t", "int16_t",
   "uint8_t", "intmax_t", "ssize_t", "int_fast8_t", "int_fast16_t", "int_fast32_t", "int_fast64_t",
   "ptrdiff_t", "_cffi_float_complex_t", "_cffi_double_complex_t",
   "int_least8_t", "int_least16_t", "int_least32_t", "int_least64_t", "uintmax_t", "uintptr_t",
   "wchar_t", "intptr_t", "size_t", "int8_t", "uint_least16_t", "uint_fast32_t", "uint_least32_t",
   "uint_fast64_t", "uint_least64_t", "uint_fast16_t", "uint_least8_t", "uint_fast8_t"].map String.toList

/-! ### Declarators -/

inductive Suffix where
  | arr (len : Option Nat)
  | fn (args : List Ty) (ell : Bool)
  deriving Repr, Inhabited

/-- What `parse_sequel` read: `stars` pointer stars (qualifiers, calling
conventions and the optional name are dropped), optionally one pair of
grouping parentheses with an inner declarator, then function and array
suffixes in textual order. -/
inductive Decl where
  | flat (stars : Nat) (sfx : List Suffix)
  | group (stars : Nat) (g : Decl) (sfx : List Suffix)
  deriving Repr, Inhabited

def ptrN : Nat → Ty → Ty
  | 0, t => t
  | n + 1, t => ptrN n (.ptr t)

/-- The chain `first suffix → second suffix → … → outer`. -/
def applySfx : List Suffix → Ty → Ty
  | [], t => t
  | .arr n :: r, t => .arr (applySfx r t) n
  | .fn a e :: r, t => .func a (applySfx r t) e

/-- The type the opcodes written by `parse_sequel(tok, outer)` denote. -/
def Decl.apply : Decl → Ty → Ty
  | .flat stars sfx, base => applySfx sfx (ptrN stars base)
  | .group stars g sfx, base => g.apply (applySfx sfx (ptrN stars base))

/-- Kind of the opcode at the entry index returned by `parse_sequel`. -/
inductive Entry where
  | outer      -- the index passed in (`outer`, after the stars were applied)
  | pointer | array | function | noop
  deriving DecidableEq, Repr

def Decl.entry : Decl → Entry
  | .flat stars [] => if stars = 0 then .outer else .pointer
  | .flat _ (.arr _ :: _) => .array
  | .flat _ (.fn _ _ :: _) => .function
  | .group _ g _ =>
      match g.entry with
      | .outer => .noop       -- the OP_NOOP written for the parentheses
      | e => e

/-! ### `parse_sequel` -/

/-- The `header:` loop: stars, ignored qualifiers, calling conventions. -/
def header : List Tok → Nat → Bool → Nat × Bool × List Tok
  | .sym '*' :: r, n, abi => header r (n + 1) abi
  | .kw .const_ :: r, n, abi => header r n abi
  | .kw .volatile_ :: r, n, abi => header r n abi
  | .kw .cdecl_ :: r, n, _ => header r n true
  | .kw .stdcall_ :: r, n, _ => header r n true
  | ts, n, abi => (n, abi, ts)

/-- `if (tok->kind == TOK_IDENTIFIER) next_token(tok)`: "skip a potential variable name". -/
def skipName : List Tok → Bool × List Tok
  | .ident _ :: r => (true, r)
  | ts => (false, ts)

/-- `if (tok->kind == TOK_CDECL || tok->kind == TOK_STDCALL)` right after `(`. -/
def absorbAbi (abi : Bool) : List Tok → Bool × List Tok
  | .kw .cdecl_ :: r => (true, r)
  | .kw .stdcall_ :: r => (true, r)
  | ts => (abi, ts)

/-- The tokens after `(` that make it a grouping parenthesis. -/
def startsGroup : List Tok → Bool
  | .sym '*' :: _ => true
  | .kw .const_ :: _ => true
  | .kw .volatile_ :: _ => true
  | .sym '[' :: _ => true
  | _ => false

/-- `if (tok->kind == TOK_VOID && get_following_char(tok) == ')') next_token(tok)`: the
character after `void` and any blanks is `)` exactly when the next token is `)`. -/
def dropVoidOnly : List Tok → List Tok
  | .kw .void_ :: .sym ')' :: r' => .sym ')' :: r'
  | ts => ts

def expectClose : List Tok → Except Err (List Tok)
  | .sym ')' :: r => .ok r
  | _ => .error .parse

/-- The `while (tok->kind == TOK_OPEN_BRACKET)` loop. -/
def arrays (ctx : Ctx) : List Tok → Except Err (List Suffix × List Tok)
  | .sym '[' :: .sym ']' :: r => do
      let (s, rest) ← arrays ctx r
      pure (.arr none :: s, rest)
  | .sym '[' :: .int s :: .sym ']' :: r => do
      let n ← numValue s
      let (sfx, rest) ← arrays ctx r
      pure (.arr (some n) :: sfx, rest)
  | .sym '[' :: .ident s :: .sym ']' :: r =>
      match ctx.consts.lookup s with
      | some v =>
          if 0 ≤ v ∧ v ≤ (maxSsize : Int) then do
            let (sfx, rest) ← arrays ctx r
            pure (.arr (some v.toNat) :: sfx, rest)
          else .error .parse
      | none => .error .parse
  | .sym '[' :: _ => .error .parse
  | ts => .ok ([], ts)

/-- Array → pointer and function → pointer decay of a parameter, decided on
the opcode at the entry index (parse_c_type.c:338). -/
def decayArg (t : Ty) (syntactic : Entry) : Ty :=
  match syntactic, t with
  | .array, .arr item _ => .ptr item
  | .function, f => .ptr f
  | _, t => t

/-! ### `parse_complete` : the specifiers -/

/-- The `modifiers:` loop with its two counters. -/
def modifiers : List Tok → Int → Int → Except Err (Int × Int × List Tok)
  | .kw .short_ :: r, l, s => if l ≠ 0 then .error .parse else modifiers r (l - 1) s
  | .kw .long_ :: r, l, s =>
      if l < 0 then .error .parse else if l ≥ 2 then .error .parse else modifiers r (l + 1) s
  | .kw .signed_ :: r, l, s => if s ≠ 0 then .error .parse else modifiers r l (s + 1)
  | .kw .unsigned_ :: r, l, s => if s ≠ 0 then .error .parse else modifiers r l (s - 1)
  | ts, l, s => .ok (l, s, ts)

def skipQuals : List Tok → List Tok
  | .kw .const_ :: r => skipQuals r
  | .kw .volatile_ :: r => skipQuals r
  | ts => ts

def intName (len sign : Int) : Str :=
  (if sign ≥ 0 then
    (if len = -2 then "signed char" else if len = -1 then "short" else if len = 1 then "long"
     else if len = 2 then "long long" else "int")
  else
    (if len = -2 then "unsigned char" else if len = -1 then "unsigned short"
     else if len = 1 then "unsigned long" else if len = 2 then "unsigned long long"
     else "unsigned int")).toList

/-- Base type when a `short/long/signed/unsigned` modifier was read. -/
def baseWithModifiers (len sign : Int) : List Tok → Except Err (Ty × List Tok)
  | .kw .void_ :: _ => .error .parse
  | .kw .bool_ :: _ => .error .parse
  | .kw .float_ :: _ => .error .parse
  | .kw .struct_ :: _ => .error .parse
  | .kw .union_ :: _ => .error .parse
  | .kw .enum_ :: _ => .error .parse
  | .kw .complex_ :: _ => .error .parse
  | .kw .double_ :: r =>
      if sign ≠ 0 ∨ len ≠ 1 then .error .parse else .ok (.prim "long double".toList, r)
  | .kw .char_ :: r =>
      if len ≠ 0 then .error .parse else .ok (.prim (intName (-2) sign), r)
  | .kw .int_ :: r => .ok (.prim (intName len sign), r)
  | ts => .ok (.prim (intName len sign), ts)

/-- Base type without modifiers; the `Option Str` is `t1complex`. -/
def basePlain (ctx : Ctx) : List Tok → Except Err (Ty × Option Str × List Tok)
  | .kw .int_ :: r => .ok (.prim "int".toList, none, r)
  | .kw .char_ :: r => .ok (.prim "char".toList, none, r)
  | .kw .void_ :: r => .ok (.prim "void".toList, none, r)
  | .kw .bool_ :: r => .ok (.prim "_Bool".toList, none, r)
  | .kw .float_ :: r => .ok (.prim "float".toList, some "_cffi_float_complex_t".toList, r)
  | .kw .double_ :: r => .ok (.prim "double".toList, some "_cffi_double_complex_t".toList, r)
  | .ident s :: r =>
      match ctx.typedefs.lookup s with
      | some t => .ok (t, none, r)
      | none =>
        if standardTypenames.contains s then .ok (.prim s, none, r)
        else if s = "FILE".toList then .ok (.agg .struct "_IO_FILE".toList, none, r)
        else if s = "bool".toList then .ok (.prim "_Bool".toList, none, r)
        else .error .parse
  | .kw .struct_ :: .ident s :: r =>
      match ctx.aggs.lookup s with
      | some (k, _) => if k = .struct then .ok (.agg .struct s, none, r) else .error .parse
      | none => if s = "_IO_FILE".toList then .ok (.agg .struct s, none, r) else .error .parse
  | .kw .union_ :: .ident s :: r =>
      match ctx.aggs.lookup s with
      | some (k, _) => if k = .union then .ok (.agg .union s, none, r) else .error .parse
      | none => .error .parse
  | .kw .enum_ :: .ident s :: r =>
      if ctx.enums.contains s then .ok (.agg .enum s, none, r) else .error .parse
  | _ => .error .parse

/-- Everything `parse_complete` does before calling `parse_sequel`. -/
def parseBase (ctx : Ctx) (ts : List Tok) : Except Err (Ty × List Tok) := do
  let (len, sign, r) ← modifiers (skipQuals ts) 0 0
  let (t, cplx, r) ←
    if len ≠ 0 ∨ sign ≠ 0 then (do let (t, r) ← baseWithModifiers len sign r; pure (t, none, r))
    else basePlain ctx r
  match r with
  | .kw .complex_ :: r' =>
      match cplx with
      | some n => .ok (.prim n, r')
      | none => .error .parse
  | _ => .ok (t, r)

/-! ### The mutually recursive part -/

mutual
/-- `parse_sequel`. -/
def parseSequel (ctx : Ctx) : Nat → List Tok → Except Err (Decl × List Tok)
  | 0, _ => .error .fuel
  | f + 1, ts => do
      let (stars, abi, r) := header ts 0 false
      let (named, r) := skipName r
      let (g, fns, abi, r) ← parens ctx f (!named) abi r
      if abi then .error .parse               -- "expected '('"
      else do
        let (arrs, r) ← arrays ctx r
        match g with
        | none => pure (.flat stars (fns ++ arrs), r)
        | some g => pure (.group stars g (fns ++ arrs), r)

/-- The `while (tok->kind == TOK_OPEN_PAREN)` loop; `canGroup` is
`check_for_grouping == 1`. -/
def parens (ctx : Ctx) : Nat → Bool → Bool → List Tok →
    Except Err (Option Decl × List Suffix × Bool × List Tok)
  | 0, _, _, _ => .error .fuel
  | f + 1, canGroup, abi, .sym '(' :: r0 => do
      let (abi, r) := absorbAbi abi r0
      if canGroup && startsGroup r then do
        let (g, r) ← parseSequel ctx f r
        let r ← expectClose r
        let (_, fns, abi, r) ← parens ctx f false abi r
        pure (some g, fns, abi, r)
      else do
        let r := dropVoidOnly r                               -- `(void)`
        let (args, ell, r) ←
          match r with
          | .sym ')' :: _ => pure ([], false, r)
          | _ => params ctx f r
        let r ← expectClose r
        let (_, fns, abi, r) ← parens ctx f false false r
        pure (none, .fn args ell :: fns, abi, r)
  | _ + 1, _, abi, ts => .ok (none, [], abi, ts)

/-- The argument loop of a function declarator. -/
def params (ctx : Ctx) : Nat → List Tok → Except Err (List Ty × Bool × List Tok)
  | 0, _ => .error .fuel
  | _ + 1, .dots :: r => .ok ([], true, r)
  | f + 1, ts => do
      let ((t, e), r) ← parseComplete ctx f ts
      let a := decayArg t e
      match r with
      | .sym ',' :: r' => do
          let (as, ell, r) ← params ctx f r'
          pure (a :: as, ell, r)
      | _ => pure ([a], false, r)

/-- `parse_complete`: the type and the kind of opcode at its entry index. -/
def parseComplete (ctx : Ctx) : Nat → List Tok → Except Err ((Ty × Entry) × List Tok)
  | 0, _ => .error .fuel
  | f + 1, ts => do
      let (base, r) ← parseBase ctx ts
      let (d, r) ← parseSequel ctx f r
      pure ((d.apply base, d.entry), r)
end

/-- `parse_c_type`: the whole input must be consumed ("unexpected symbol"). -/
def parseToks (ctx : Ctx) (ts : List Tok) : Except Err Ty :=
  match parseComplete ctx (3 * ts.length + 4) ts with
  | .ok ((t, _), []) => .ok t
  | .ok (_, _ :: _) => .error .parse
  | .error e => .error e

def parseType (ctx : Ctx) (s : Str) : Except Err Ty := parseToks ctx (tokenize s)

/-! ### Building the ctype (`realize_c_type`) -/

def isVoid : Ty → Bool
  | .prim n => n = "void".toList
  | _ => false

/-- `ct_size >= 0` after `force_lazy_struct`. -/
def sized (ctx : Ctx) : Ty → Bool
  | .prim n => n ≠ "void".toList
  | .agg .enum _ => true
  | .agg _ tag =>
      match ctx.aggs.lookup tag with
      | some (_, complete) => complete
      | none => false                       -- FILE
  | .ptr _ => true
  | .arr _ len => len.isSome
  | .func _ _ _ => false

/-- `fb_fill_type` raises NotImplementedError (which `new_function_type` swallows)
for complete unions and complex primitives. -/
def cifUnsupported : Ty → Bool
  | .agg .union _ => true
  | .prim n => n = "_cffi_float_complex_t".toList || n = "_cffi_double_complex_t".toList
  | _ => false

/-- The argument loop of `fb_build` for a non-variadic function: arrays decay, an
argument without a positive size is a TypeError, the first unsupported one ends the
preparation of the cif without an error. -/
def cifArgs (ctx : Ctx) : List Ty → Bool
  | [] => true
  | a :: as =>
      if a.isArr then cifArgs ctx as
      else if !sized ctx a then false
      else if cifUnsupported a then true
      else cifArgs ctx as

mutual
/-- The backend builds a ctype for `t` (`t` is not a raw function type). -/
def valid (ctx : Ctx) : Ty → Bool
  | .prim _ => true
  | .agg _ _ => true
  | .ptr (.func args res ell) =>
      valid ctx res && !res.isFunc && !res.isArr && (sized ctx res || isVoid res) && validArgs ctx args &&
        (ell || cifUnsupported res || cifArgs ctx args)
  | .ptr t => valid ctx t
  | .arr t _ => valid ctx t && sized ctx t
  | .func _ _ _ => false

/-- every parameter type is built (`realize_c_type`, which refuses raw function types) -/
def validArgs (ctx : Ctx) : List Ty → Bool
  | [] => true
  | a :: as => valid ctx a && validArgs ctx as
end

/-- `ffi.typeof(string)` of a compiled / out-of-line FFI: `_ffi_type`
(ffi_obj.c:182) without CONSIDER_FN_AS_FNPTR. -/
def typeofC (ctx : Ctx) (s : Str) : Except Err Ty :=
  match parseType ctx s with
  | .error e => .error e
  | .ok t => if t.isFunc then (if valid ctx (.ptr t) then .error .parse else .error .realize)
             else if valid ctx t then .ok t else .error .realize

end CffiVerif.TypeParser
