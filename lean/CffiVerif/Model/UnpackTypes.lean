/-
Vocabulary of the generated fast-path table of `b_unpack`
(`Generated/UnpackTable.lean`, written by translate/unpack_table.py).
-/
namespace CffiVerif.UnpackTypes

/-- The C types the fast readers dereference `src` as. -/
inductive CTy
  | schar | short | int | long | uchar | ushort | uint | ulong | float | double | charptr
  deriving DecidableEq, Repr

/-- The conversion applied to the value read:
`PyLong_FromLong(v)` (an explicit `(long)` cast is the same conversion),
`PyLong_FromUnsignedLong(v)`, `PyFloat_FromDouble(v)`, `new_simple_cdata(v, ctitem)`,
and the `switch` on a `_Bool` byte (0 -> False, 1 -> True, otherwise the generic path). -/
inductive Conv
  | fromLong | fromUnsignedLong | fromDouble | newSimpleCData | boolSwitch
  deriving DecidableEq, Repr

/-- `sizeof` on x86-64 SysV / LP64 (validated by the correspondence runs). -/
def CTy.size : CTy → Nat
  | .schar | .uchar => 1
  | .short | .ushort => 2
  | .int | .uint | .float => 4
  | .long | .ulong | .double | .charptr => 8

/-- `some true` = signed integer type, `some false` = unsigned integer type, `none` = not an integer type. -/
def CTy.intSigned : CTy → Option Bool
  | .schar | .short | .int | .long => some true
  | .uchar | .ushort | .uint | .ulong => some false
  | .float | .double | .charptr => none

end CffiVerif.UnpackTypes
