import CffiVerif.Generated.Opcodes

/-!
Model of the serialisation of a cdef into an out-of-line ABI module and of its decoding.

Emitter (Python):  `cffi_opcode.py` `CffiOp.as_python_bytes`, `format_four_bytes`;
  `recompiler.py` `GlobalExpr/FieldExpr/StructUnionExpr/EnumExpr/TypenameExpr.as_python_expr`,
  `Recompiler.collect_type_table` + `_emit_bytecode_*`.
Reader (C):  `cdlopen.c` `cdl_4bytes`, `cdl_opcode`, `ffiobj_init`, `_cdl_realize_global_int`;
  `parse_c_type.h` `_CFFI_GETOP/_CFFI_GETARG`; `realize_c_type.c` `realize_global_int`,
  `realize_c_type_or_func_now` (+ the enumerator splitting loop of its `_CFFI_OP_ENUM` case).

All numbers (opcodes, flags, shifts, masks) come from `Generated/Opcodes.lean`, which the
translator `translate/opcodes.py` rewrites from the working tree on every run.

Conventions / what is *not* modelled
* Python `int` = `Int`.  Python's `x >> k` and `x & (2^m-1)` on unbounded two's-complement ints
  are `x / 2^k` (floor) and `x % 2^m`; Lean's `Int` `/` `%` with a positive divisor are exactly
  these.  Lean core has no bitwise OR on `Int`: `(arg << 8) | op` is written `arg * 2^8 + op`,
  which is the same number whenever `0 ≤ op < 2^8` (every `OP_*` is; `Props/C11.ops_fit_in_a_byte`),
  and the OR of the four disjoint byte lanes in `cdl_4bytes` is written as their sum.
* C strings (`char *name` pointing into a `bytes` object) are the bytes up to the first NUL;
  a `bytes` object is always followed by a NUL.  Reading 4 bytes from a shorter string is
  undefined behaviour in C and `none` here.
* `realize` is a pure function of the table: the write-back of realised types into the table
  (memoisation, which gives object identity) is not modelled; structs/enums are realised to a
  reference `su i` / `enum i` into the other tables; `_CFFI_OP_TYPENAME` never occurs in a
  `_types` table and is answered `unmodelled`.
-/
namespace CffiVerif.Opcode
open CffiVerif.Generated.Opcodes

abbrev Bytes := List UInt8

/-! ## four bytes -/

/-- `(num >> k) & mask` as a byte. -/
def pyByte (num : Int) (k : Nat) : UInt8 :=
  UInt8.ofNat ((num / (2 : Int) ^ k) % ((fmtMask : Int) + 1)).toNat

/-- `format_four_bytes(num)` (the bytes denoted by the `\xHH` escapes it prints). -/
def fourBytes (num : Int) : Bytes := fmtShifts.map (pyByte num)

/-- `(arg << 8) | op` for `0 ≤ op < 256` (see the header). -/
def opWord (op : Nat) (arg : Int) : Int := arg * (2 : Int) ^ pyArgShift + op

/-- `CffiOp(op, arg).as_python_bytes()` with an integer `arg`. -/
def encode4 (op : Nat) (arg : Int) : Bytes := fourBytes (opWord op arg)

/-- `CffiOp(None, str(n)).as_python_bytes()`: a raw number, `OverflowError` from `2**31`. -/
def encodeRaw (n : Nat) : Option Bytes :=
  if n ≥ 2 ^ pyRawLimitLog2 then none else some (fourBytes n)

def sbyte (b : UInt8) : Int := if b.toNat < 128 then b.toNat else (b.toNat : Int) - 256

/-- `cdl_4bytes` on the four bytes at `src`. -/
def cdl4w (b0 b1 b2 b3 : UInt8) : Int :=
  (List.zip [b0, b1, b2, b3] cdlTerms).foldl
    (fun acc (x : UInt8 × Bool × Nat) => acc + (if x.2.1 then sbyte x.1 else (x.1.toNat : Int)) * (2 : Int) ^ x.2.2) 0

def cdl4 : Bytes → Option Int
  | b0 :: b1 :: b2 :: b3 :: _ => some (cdl4w b0 b1 b2 b3)
  | _ => none

/-- `_CFFI_GETOP`: `(unsigned char)(uintptr_t)w`. -/
def getOp (w : Int) : Nat := (w % (2 : Int) ^ cGetopBits).toNat
/-- `_CFFI_GETARG`: `((intptr_t)w) >> 8`. -/
def getArg (w : Int) : Int := w / (2 : Int) ^ cGetargShift

/-- `cdl_opcode` followed by `_CFFI_GETOP` / `_CFFI_GETARG`. -/
def decode4 (src : Bytes) : Option (Nat × Int) := (cdl4 src).map fun w => (getOp w, getArg w)

/-- A C string starting at `b`. -/
def cstr (b : Bytes) : Bytes := b.takeWhile (· != 0)

def NoNul (b : Bytes) : Prop := ∀ x ∈ b, x ≠ 0

/-- `f(x)` for every element, failing as soon as one fails. -/
def mapOpt {α β : Type} (f : α → Option β) : List α → Option (List β)
  | [] => some []
  | a :: as => match f a, mapOpt f as with
    | some b, some bs => some (b :: bs)
    | _, _ => none

/-- `flags & bit != 0` for a power of two `bit` (two's complement, any sign). -/
def testFlag (flags : Int) (bit : Nat) : Bool := (flags / (bit : Int)) % 2 == 1

/-! ## the `_types` string -/

def typesBytes (ws : List Int) : Bytes := ws.flatMap fourBytes

/-- `ffiobj_init`: `n = types_len / 4` words, each `cdl_opcode(types)`. -/
def decodeTypes : Bytes → List Int
  | b0 :: b1 :: b2 :: b3 :: rest => cdl4w b0 b1 b2 b3 :: decodeTypes rest
  | _ => []

/-! ## globals and integer constants -/

/-- A `GlobalExpr` of the Python target: `b'<4 bytes><name>', check_value`. -/
structure GlobalRec where
  op : Nat
  arg : Int
  name : Bytes
  value : Int
  deriving DecidableEq, Repr

def encodeGlobal (g : GlobalRec) : Bytes × Int := (encode4 g.op g.arg ++ g.name, g.value)

/-- `struct _cffi_global_s` + its `cdl_intconst_t` as filled by `ffiobj_init`. -/
structure CGlobal where
  name : Bytes
  typeOp : Int
  /-- `address == &_cdl_realize_global_int` -/
  hasInt : Bool
  /-- `PyLong_AsUnsignedLongLongMask(o)` -/
  icValue : Nat
  /-- `PyObject_RichCompareBool(o, Py_False, Py_LE)` -/
  icNeg : Nat
  deriving DecidableEq, Repr

def isIntGlobalOp (op : Nat) : Bool := op == C.OP_CONSTANT_INT || op == C.OP_ENUM

def decodeGlobal (s : Bytes) (o : Int) : Option CGlobal :=
  match cdl4 s with
  | none => none
  | some w =>
    if isIntGlobalOp (getOp w) then
      some { name := cstr (s.drop 4), typeOp := w, hasInt := true,
             icValue := (o % (2 : Int) ^ 64).toNat, icNeg := if o ≤ 0 then 1 else 0 }
    else
      some { name := cstr (s.drop 4), typeOp := w, hasInt := false, icValue := 0, icNeg := 0 }

/-- `realize_global_int` on `(value, neg)`: `neg = 0` → the unsigned value, `neg = 1` →
`(long long)value`; anything else is the "the C compiler says …" `FFIError`. -/
def realizeInt (value : Nat) (neg : Nat) : Option Int :=
  if neg = 0 then some ((value % 2 ^ 64 : Nat) : Int)
  else if neg = 1 then
    let v : Nat := value % 2 ^ 64
    some (if v < 2 ^ 63 then (v : Int) else (v : Int) - 2 ^ 64)
  else none

/-- What an out-of-line module gives back for an integer constant written as `v`. -/
def constRoundTrip (v : Int) : Option Int :=
  realizeInt (v % (2 : Int) ^ 64).toNat (if v ≤ 0 then 1 else 0)

/-- The emitter-side record seen through the decoded C structure. -/
def viewGlobal (c : CGlobal) : Option GlobalRec :=
  if c.hasInt then (realizeInt c.icValue c.icNeg).map fun v =>
    { op := getOp c.typeOp, arg := getArg c.typeOp, name := c.name, value := v }
  else some { op := getOp c.typeOp, arg := getArg c.typeOp, name := c.name, value := 0 }

/-! ## struct/unions and their fields -/

/-- A `FieldExpr` (`fbitsize = -1` unless a bit-field). -/
structure FieldRec where
  op : Nat
  arg : Int
  bits : Int
  name : Bytes
  deriving DecidableEq, Repr

/-- `FieldExpr.as_field_python_expr` (`none` = `NotImplementedError`). -/
def encodeField (f : FieldRec) : Option Bytes :=
  if f.op = Py.OP_NOOP then some (encode4 f.op f.arg ++ f.name)
  else if f.op = Py.OP_BITFIELD then some (encode4 f.op f.arg ++ fourBytes f.bits ++ f.name)
  else none

/-- A `StructUnionExpr` of the Python target (flags already evaluated). -/
structure StructRec where
  typeIndex : Int
  flags : Int
  name : Bytes
  fields : List FieldRec
  deriving DecidableEq, Repr

/-- `StructUnionExpr.as_python_expr`: a tuple of byte strings. -/
def encodeStruct (s : StructRec) : Option (List Bytes) :=
  (mapOpt encodeField s.fields).map fun fs =>
    (fourBytes s.typeIndex ++ fourBytes s.flags ++ s.name) :: fs

/-- `struct _cffi_struct_union_s` as filled by `ffiobj_init` (`(size_t)-1` is `-1`). -/
structure CStruct where
  name : Bytes
  typeIndex : Int
  flags : Int
  size : Int
  alignment : Int
  firstField : Int
  numFields : Nat
  deriving DecidableEq, Repr

/-- `struct _cffi_field_s` as filled by `ffiobj_init`. -/
structure CField where
  name : Bytes
  typeOp : Int
  offset : Int
  size : Int
  deriving DecidableEq, Repr

def decodeField (f : Bytes) : Option CField :=
  match cdl4 f with
  | none => none
  | some w =>
    if getOp w ≠ C.OP_NOOP then
      match cdl4 (f.drop 4) with
      | none => none
      | some sz => some { name := cstr (f.drop 8), typeOp := w, offset := -1, size := sz }
    else some { name := cstr (f.drop 4), typeOp := w, offset := -1, size := -1 }

/-- One sub-tuple `(desc_struct, desc_field_1, …)`; `nf` = number of fields unpacked so far.
With `_CFFI_F_OPAQUE | _CFFI_F_EXTERNAL` the fields (there are none: `assert(nf1 == 0)`) are
still unpacked but the struct does not refer to them. -/
def decodeStruct (nf : Nat) : List Bytes → Option (CStruct × List CField)
  | [] => none
  | s :: fs =>
    match cdl4 s, cdl4 (s.drop 4), mapOpt decodeField fs with
    | some ti, some fl, some cfs =>
      if testFlag fl C.F_OPAQUE || testFlag fl C.F_EXTERNAL then
        some ({ name := cstr (s.drop 8), typeIndex := ti, flags := fl, size := -1, alignment := -1,
                firstField := -1, numFields := 0 }, cfs)
      else
        some ({ name := cstr (s.drop 8), typeIndex := ti, flags := fl, size := -2, alignment := -2,
                firstField := nf, numFields := cfs.length }, cfs)
    | _, _, _ => none

/-- The `_struct_unions` tuple: the struct array and the shared field array. -/
def decodeStructs : Nat → List (List Bytes) → Option (List CStruct × List CField)
  | _, [] => some ([], [])
  | nf, d :: ds =>
    match decodeStruct nf d with
    | none => none
    | some (c, fs) =>
      match decodeStructs (nf + fs.length) ds with
      | none => none
      | some (cs, fs') => some (c :: cs, fs ++ fs')

def viewField (c : CField) : FieldRec :=
  { op := getOp c.typeOp, arg := getArg c.typeOp, bits := c.size, name := c.name }

/-- The fields `ctx->fields[first_field_index .. +num_fields]` of a struct. -/
def viewStruct (fields : List CField) (c : CStruct) : StructRec :=
  { typeIndex := c.typeIndex, flags := c.flags, name := c.name,
    fields := if c.firstField < 0 then [] else
      ((fields.drop c.firstField.toNat).take c.numFields).map viewField }

/-! ## enums -/

structure EnumRec where
  typeIndex : Int
  size : Nat
  signed : Nat
  name : Bytes
  enumerators : List Bytes
  deriving DecidableEq, Repr

/-- The dictionary of `EnumExpr.as_python_expr` (`none` = `KeyError`). -/
def enumPrim (size signed : Nat) : Option Nat :=
  (enumPrims.find? fun e => e.1 == size && e.2.1 == signed).map (·.2.2)

def joinComma : List Bytes → Bytes
  | [] => []
  | [a] => a
  | a :: b :: rest => a ++ 44 :: joinComma (b :: rest)

def encodeEnum (e : EnumRec) : Option Bytes :=
  (enumPrim e.size e.signed).map fun p =>
    fourBytes e.typeIndex ++ fourBytes p ++ e.name ++ 0 :: joinComma e.enumerators

/-- `struct _cffi_enum_s` as filled by `ffiobj_init`. -/
structure CEnum where
  name : Bytes
  typeIndex : Int
  typePrim : Int
  enumerators : Bytes
  deriving DecidableEq, Repr

def decodeEnum (e : Bytes) : Option CEnum :=
  match cdl4 e, cdl4 (e.drop 4) with
  | some ti, some tp =>
    let name := cstr (e.drop 8)
    some { name := name, typeIndex := ti, typePrim := tp,
           enumerators := cstr ((e.drop 8).drop (name.length + 1)) }
  | _, _ => none

def splitGo : Bytes → Bytes → List Bytes
  | [], acc => [acc.reverse]
  | c :: cs, acc => if c = 44 then acc.reverse :: splitGo cs [] else splitGo cs (c :: acc)

/-- The enumerator loop of `realize_c_type_or_func_now`: `n = 0` for an empty string, else
`1 +` number of commas, names delimited by `','`. -/
def splitEnumerators (s : Bytes) : List Bytes := if s = [] then [] else splitGo s []

/-! ## typenames -/

structure TypenameRec where
  typeIndex : Int
  name : Bytes
  deriving DecidableEq, Repr

def encodeTypename (t : TypenameRec) : Bytes := fourBytes t.typeIndex ++ t.name

def decodeTypename (s : Bytes) : Option TypenameRec :=
  (cdl4 s).map fun ti => { typeIndex := ti, name := cstr (s.drop 4) }

/-! ## the type language -/

/-- The declared types an ABI-mode `_types` table describes.  `prim PRIM_VOID` is `void`;
`ptr q t` is a pointer whose Python-side type object carries a discriminator `q` (the
qualifiers of `PointerType`, the name of a `NamedPointerType`) that makes it a separate key of
`_typesdict` but is not written to the table; `ptr q (func …)` is a function-pointer type (`FunctionPtrType`), `func …` its
`as_raw_function()`; `su i` / `enum i` refer to entry `i` of `_struct_unions` / `_enums`;
`flags` of `func` is `int(ellipsis) | 2*(abi == '__stdcall')`. -/
inductive Ty where
  | prim (p : Nat)
  | ptr (q : Nat) (t : Ty)
  | array (t : Ty) (len : Nat)
  | openArray (t : Ty)
  | su (i : Int)
  | enum (i : Int)
  | func (res : Ty) (args : List Ty) (flags : Nat)
  deriving Repr, Inhabited

mutual
def Ty.beq : Ty → Ty → Bool
  | .prim a, .prim b => a == b
  | .ptr q a, .ptr q' b => q == q' && Ty.beq a b
  | .array a n, .array b m => Ty.beq a b && n == m
  | .openArray a, .openArray b => Ty.beq a b
  | .su a, .su b => a == b
  | .enum a, .enum b => a == b
  | .func r as f, .func r' as' f' => Ty.beq r r' && Ty.beqList as as' && f == f'
  | _, _ => false
def Ty.beqList : List Ty → List Ty → Bool
  | [], [] => true
  | a :: as, b :: bs => Ty.beq a b && Ty.beqList as bs
  | _, _ => false
end

mutual
theorem Ty.eq_of_beq : ∀ (a b : Ty), Ty.beq a b = true → a = b
  | .prim a, .prim b, h => by simp [Ty.beq] at h; simp [h]
  | .ptr q a, .ptr q' b, h => by
      simp only [Ty.beq, Bool.and_eq_true, beq_iff_eq] at h; rw [Ty.eq_of_beq a b h.2, h.1]
  | .array a n, .array b m, h => by
      simp only [Ty.beq, Bool.and_eq_true, beq_iff_eq] at h; rw [Ty.eq_of_beq a b h.1, h.2]
  | .openArray a, .openArray b, h => by simp only [Ty.beq] at h; rw [Ty.eq_of_beq a b h]
  | .su a, .su b, h => by simp [Ty.beq] at h; simp [h]
  | .enum a, .enum b, h => by simp [Ty.beq] at h; simp [h]
  | .func r as f, .func r' as' f', h => by
      simp only [Ty.beq, Bool.and_eq_true, beq_iff_eq] at h
      rw [Ty.eq_of_beq r r' h.1.1, Ty.eqList_of_beq as as' h.1.2, h.2]
  | .prim _, .ptr _ _, h | .prim _, .array _ _, h | .prim _, .openArray _, h | .prim _, .su _, h
  | .prim _, .enum _, h | .prim _, .func _ _ _, h => by simp [Ty.beq] at h
  | .ptr _ _, .prim _, h | .ptr _ _, .array _ _, h | .ptr _ _, .openArray _, h | .ptr _ _, .su _, h
  | .ptr _ _, .enum _, h | .ptr _ _, .func _ _ _, h => by simp [Ty.beq] at h
  | .array _ _, .prim _, h | .array _ _, .ptr _ _, h | .array _ _, .openArray _, h | .array _ _, .su _, h
  | .array _ _, .enum _, h | .array _ _, .func _ _ _, h => by simp [Ty.beq] at h
  | .openArray _, .prim _, h | .openArray _, .ptr _ _, h | .openArray _, .array _ _, h | .openArray _, .su _, h
  | .openArray _, .enum _, h | .openArray _, .func _ _ _, h => by simp [Ty.beq] at h
  | .su _, .prim _, h | .su _, .ptr _ _, h | .su _, .array _ _, h | .su _, .openArray _, h
  | .su _, .enum _, h | .su _, .func _ _ _, h => by simp [Ty.beq] at h
  | .enum _, .prim _, h | .enum _, .ptr _ _, h | .enum _, .array _ _, h | .enum _, .openArray _, h
  | .enum _, .su _, h | .enum _, .func _ _ _, h => by simp [Ty.beq] at h
  | .func _ _ _, .prim _, h | .func _ _ _, .ptr _ _, h | .func _ _ _, .array _ _, h | .func _ _ _, .openArray _, h
  | .func _ _ _, .su _, h | .func _ _ _, .enum _, h => by simp [Ty.beq] at h
theorem Ty.eqList_of_beq : ∀ (a b : List Ty), Ty.beqList a b = true → a = b
  | [], [], _ => rfl
  | a :: as, b :: bs, h => by
      simp only [Ty.beqList, Bool.and_eq_true] at h
      rw [Ty.eq_of_beq a b h.1, Ty.eqList_of_beq as bs h.2]
  | [], _ :: _, h | _ :: _, [], h => by simp [Ty.beqList] at h
end

mutual
theorem Ty.beq_refl : ∀ (a : Ty), Ty.beq a a = true
  | .prim a => by simp [Ty.beq]
  | .ptr q a => by simp [Ty.beq, Ty.beq_refl a]
  | .array a n => by simp [Ty.beq, Ty.beq_refl a]
  | .openArray a => by simp [Ty.beq, Ty.beq_refl a]
  | .su a => by simp [Ty.beq]
  | .enum a => by simp [Ty.beq]
  | .func r as f => by simp [Ty.beq, Ty.beq_refl r, Ty.beqList_refl as]
theorem Ty.beqList_refl : ∀ (a : List Ty), Ty.beqList a a = true
  | [] => by simp [Ty.beqList]
  | a :: as => by simp [Ty.beqList, Ty.beq_refl a, Ty.beqList_refl as]
end

/-- Structural equality, as the keys of `Recompiler._typesdict` compare. -/
instance : DecidableEq Ty := fun a b =>
  if h : Ty.beq a b = true then isTrue (Ty.eq_of_beq a b h)
  else isFalse (fun e => h (e ▸ Ty.beq_refl a))

def Ty.isFunc : Ty → Bool
  | .func .. => true
  | _ => false

/-- The `isinstance` assertion on function arguments in `collect_type_table`
(void, primitive, pointer, struct/union/enum, function pointer). -/
def Ty.isArgOk : Ty → Bool
  | .prim _ | .ptr _ _ | .su _ | .enum _ => true
  | _ => false

/-! ## `collect_type_table`: layout -/

/-- The placeholders appended to `cffi_types` (`tp`, `'END'`, `'LEN'`). -/
inductive PH where
  | ty (t : Ty)
  | fend (flags : Nat)
  | len (n : Nat)
  deriving Repr

/-- `_typesdict` (only the assigned indexes) and `cffi_types`. -/
structure Layout where
  idx : Ty → Option Nat
  slots : List PH

def Layout.empty : Layout := ⟨fun _ => none, []⟩

def Layout.assign (L : Layout) (T : Ty) : Ty → Option Nat :=
  fun x => if x = T then some L.slots.length else L.idx x

/-- One argument slot of a function: takes the slot as its index if it has none yet. -/
def addArg (L : Layout) (a : Ty) : Layout :=
  { idx := if (L.idx a).isSome then L.idx else L.assign a,
    slots := L.slots ++ [.ty a] }

/-- First loop: the FUNCTION sequences.  `none` = one of the two `assert`s fails. -/
def addFunc (L : Layout) (T : Ty) : Option Layout :=
  match T with
  | .func _ args flags =>
    if (L.idx T).isSome then none
    else if !(args.all Ty.isArgOk) then none
    else
      let L2 := args.foldl addArg { idx := L.assign T, slots := L.slots ++ [.ty T] }
      some { L2 with slots := L2.slots ++ [.fend flags] }
  | _ => some L

/-- Second loop: every other type that has no index yet; arrays with a length get a `LEN` slot. -/
def addOther (L : Layout) (T : Ty) : Layout :=
  match T with
  | .func .. => L
  | .array _ n =>
    if (L.idx T).isSome then L
    else { idx := L.assign T, slots := L.slots ++ [.ty T, .len n] }
  | _ =>
    if (L.idx T).isSome then L
    else { idx := L.assign T, slots := L.slots ++ [.ty T] }

def layoutFuncs : Layout → List Ty → Option Layout
  | L, [] => some L
  | L, T :: rest => match addFunc L T with
    | none => none
    | some L' => layoutFuncs L' rest

/-- `all_decls` (in its sorted order) ↦ indexes and placeholders. -/
def layout (S : List Ty) : Option Layout :=
  (layoutFuncs Layout.empty S).map fun L => S.foldl addOther L

/-! ## `_emit_bytecode_*`: the words -/

/-- The opcode a type writes at its own index (`none` = `KeyError` in `_typesdict`). -/
def ownWord (idx : Ty → Option Nat) : Ty → Option Int
  | .prim p => some (opWord Py.OP_PRIMITIVE p)
  | .ptr _ t => (idx t).map fun (i : Nat) => opWord Py.OP_POINTER (i : Int)
  | .array t _ => (idx t).map fun (i : Nat) => opWord Py.OP_ARRAY (i : Int)
  | .openArray t => (idx t).map fun (i : Nat) => opWord Py.OP_OPEN_ARRAY (i : Int)
  | .su i => some (opWord Py.OP_STRUCT_UNION i)
  | .enum i => some (opWord Py.OP_ENUM i)
  | .func r _ _ => (idx r).map fun (i : Nat) => opWord Py.OP_FUNCTION (i : Int)

/-- What ends up in slot `j`.  A type placeholder at the type's own index holds the type's
opcode; elsewhere it is an argument slot of a function whose argument lives at another index:
a primitive is emitted again, anything else becomes `NOOP realindex`. -/
def render (idx : Ty → Option Nat) (j : Nat) : PH → Option Int
  | .ty T =>
    match idx T with
    | none => none
    | some i =>
      if i = j then ownWord idx T
      else match T with
        | .prim p => if p = Py.PRIM_VOID then some (opWord Py.OP_NOOP i) else some (opWord Py.OP_PRIMITIVE p)
        | _ => some (opWord Py.OP_NOOP i)
  | .fend f => some (opWord Py.OP_FUNCTION_END f)
  | .len n => if n ≥ 2 ^ pyRawLimitLog2 then none else some n

def renderFrom (idx : Ty → Option Nat) : Nat → List PH → Option (List Int)
  | _, [] => some []
  | j, ph :: rest => match render idx j ph, renderFrom idx (j + 1) rest with
    | some w, some ws => some (w :: ws)
    | _, _ => none

/-- `collect_type_table()`: the words of `cffi_types` (before `format_four_bytes` truncates
them) and the index of every type. -/
def emitWords (S : List Ty) : Option (List Int × (Ty → Option Nat)) :=
  match layout S with
  | none => none
  | some L => (renderFrom L.idx 0 L.slots).map fun ws => (ws, L.idx)

/-- The `_types` byte string. -/
def emitTable (S : List Ty) : Option Bytes := (emitWords S).map fun r => typesBytes r.1

/-- `_typesdict[T]` after `collect_type_table()`. -/
def index (S : List Ty) (T : Ty) : Option Nat := (emitWords S).bind fun r => r.2 T

/-! ## `realize_c_type_or_func` -/

inductive RErr where
  /-- `_realize_recursion_level >= 1000`: RuntimeError -/
  | recursion
  /-- index outside the table: undefined behaviour in C -/
  | outOfTable
  /-- `get_primitive_type`: FFIError / NotImplementedError -/
  | badPrim
  /-- `unexpected_fn_type`: FFIError -/
  | fnType
  /-- "abi number %d not supported": FFIError -/
  | badAbi
  /-- `new_array_type` with a negative length: ValueError -/
  | negLength
  /-- `default:` NotImplementedError -/
  | notImpl
  /-- `_CFFI_OP_TYPENAME` (needs the typenames table; never in `_types`) -/
  | unmodelled
  deriving DecidableEq, Repr

def tblGet (tbl : List Int) (i : Int) : Except RErr Int :=
  if i < 0 then .error .outOfTable else
  match tbl[i.toNat]? with
  | some w => .ok w
  | none => .error .outOfTable

/-- `while (_CFFI_GETOP(opcodes[base_index + num_args]) != _CFFI_OP_FUNCTION_END) num_args++` -/
def countArgs : List Int → Option Nat
  | [] => none
  | w :: ws => if getOp w = C.OP_FUNCTION_END then some 0 else (countArgs ws).map (· + 1)

/-- `realize_c_type`: refuses a bare function type. -/
def noFn (r : Except RErr Ty) : Except RErr Ty :=
  match r with
  | .ok t => if t.isFunc then .error .fnType else .ok t
  | .error e => .error e

def argsFrom (r : Int → Except RErr Ty) (base : Int) : Nat → Except RErr (List Ty)
  | 0 => .ok []
  | k + 1 => match r base, argsFrom r (base + 1) k with
    | .ok a, .ok as => .ok (a :: as)
    | .error e, _ => .error e
    | _, .error e => .error e

/-- `realize_c_type_or_func(builder, opcodes, index)` with `fuel` nesting levels left. -/
def realize : Nat → List Int → Int → Except RErr Ty
  | 0, _, _ => .error .recursion
  | fuel + 1, tbl, index =>
    match tblGet tbl index with
    | .error e => .error e
    | .ok w =>
      let op := getOp w
      let arg := getArg w
      if op = C.OP_PRIMITIVE then
        if 0 ≤ arg ∧ arg < cNumPrim then .ok (.prim arg.toNat) else .error .badPrim
      else if op = C.OP_POINTER then
        match realize fuel tbl arg with
        | .ok y => .ok (.ptr 0 y)
        | .error e => .error e
      else if op = C.OP_ARRAY then
        match tblGet tbl (index + 1) with
        | .error e => .error e
        | .ok len =>
          match noFn (realize fuel tbl arg) with
          | .error e => .error e
          | .ok y => if len < 0 then .error .negLength else .ok (.array y len.toNat)
      else if op = C.OP_OPEN_ARRAY then
        match noFn (realize fuel tbl arg) with
        | .error e => .error e
        | .ok y => .ok (.openArray y)
      else if op = C.OP_STRUCT_UNION then .ok (.su arg)
      else if op = C.OP_ENUM then .ok (.enum arg)
      else if op = C.OP_FUNCTION then
        match noFn (realize fuel tbl arg) with
        | .error e => .error e
        | .ok res =>
          match countArgs (tbl.drop (index + 1).toNat) with
          | none => .error .outOfTable
          | some n =>
            match tblGet tbl (index + 1 + n) with
            | .error e => .error e
            | .ok endw =>
              let fl := getArg endw % 256
              if fl / 2 ≠ 0 ∧ fl / 2 ≠ 1 then .error .badAbi
              else
                match argsFrom (fun i => noFn (realize fuel tbl i)) (index + 1) n with
                | .error e => .error e
                | .ok args => .ok (.func res args fl.toNat)
      else if op = C.OP_NOOP then realize fuel tbl arg
      else if op = C.OP_TYPENAME then .error .unmodelled
      else .error .notImpl

/-- The backend's limit of 1000 nested realisations. -/
def realizeC (tbl : List Int) (index : Int) : Except RErr Ty := realize 1000 tbl index

/-! ## measures and well-formedness used by the theorems -/

mutual
def Ty.size : Ty → Nat
  | .prim _ | .su _ | .enum _ => 1
  | .ptr _ t | .array t _ | .openArray t => t.size + 1
  | .func r as _ => r.size + Ty.sizeArgs as + 1
def Ty.sizeArgs : List Ty → Nat
  | [] => 0
  | a :: as => a.size + 1 + Ty.sizeArgs as
end

mutual
/-- Types the backend can realise: known primitive, no bare function as item / result /
argument, arguments of the kinds `collect_type_table` asserts, flags in `{0,1,2,3}`. -/
def Ty.wf : Ty → Bool
  | .prim p => decide (p < cNumPrim)
  | .ptr _ t => t.wf
  | .array t _ | .openArray t => t.wf && !t.isFunc
  | .su _ | .enum _ => true
  | .func r as f => r.wf && !r.isFunc && Ty.wfArgs as && decide (f < 4)
def Ty.wfArgs : List Ty → Bool
  | [] => true
  | a :: as => a.wf && a.isArgOk && Ty.wfArgs as
end

mutual
/-- What the table can tell about a type: the Python-side discriminators of pointers are gone. -/
def Ty.erase : Ty → Ty
  | .prim p => .prim p
  | .ptr _ t => .ptr 0 t.erase
  | .array t n => .array t.erase n
  | .openArray t => .openArray t.erase
  | .su i => .su i
  | .enum i => .enum i
  | .func r as f => .func r.erase (Ty.eraseArgs as) f
def Ty.eraseArgs : List Ty → List Ty
  | [] => []
  | a :: as => a.erase :: Ty.eraseArgs as
end

/-- Every type a type refers to (what `_do_collect_type` collects besides the type itself). -/
def Ty.children : Ty → List Ty
  | .prim _ | .su _ | .enum _ => []
  | .ptr _ t | .array t _ | .openArray t => [t]
  | .func r as _ => r :: as

/-- `_typesdict` is closed under "refers to". -/
def Closed (S : List Ty) : Prop := ∀ T ∈ S, ∀ c ∈ T.children, c ∈ S

/-! ## bounds used by the record theorems -/

def InRange32 (n : Int) : Prop := -2^31 ≤ n ∧ n < 2^31

/-- Bounds of a field record: what `as_field_python_expr` accepts and the 4-byte fields can hold. -/
def FieldOk (f : FieldRec) : Prop :=
  -2^23 ≤ f.arg ∧ f.arg < 2^23 ∧ NoNul f.name ∧
  ((f.op = Py.OP_NOOP ∧ f.bits = -1) ∨ (f.op = Py.OP_BITFIELD ∧ InRange32 f.bits))

def isOpaqueFlags (fl : Int) : Bool := testFlag fl C.F_OPAQUE || testFlag fl C.F_EXTERNAL

def StructOk (s : StructRec) : Prop :=
  InRange32 s.typeIndex ∧ InRange32 s.flags ∧ NoNul s.name ∧ (∀ f ∈ s.fields, FieldOk f) ∧
  (isOpaqueFlags s.flags = true → s.fields = [])

def EnumNameOk (x : Bytes) : Prop := x ≠ [] ∧ (44 : UInt8) ∉ x ∧ NoNul x


end CffiVerif.Opcode
