import CffiVerif.Generated.ClosureSteps

/-
Model of the closure allocator of `src/c/malloc_closure.h`
(`more_core`, `cffi_closure_alloc`, `cffi_closure_free`) as used by
`b_callback` (alloc) and `cdataowninggc_dealloc` (free) in `_cffi_backend.c`.

The free list is a singly linked stack threaded through the blocks
(`item->next = free_list; free_list = item`).  `more_core` obtains one new
mmap'ed region, cuts it into `count` blocks and pushes them one after the other
in ascending address order.  Which addresses `mmap` returns is a choice of the
environment: the model takes the batch (in push order) as an argument of the
operation and only requires what `mmap` guarantees — the blocks are pairwise
distinct and none of them is a block handed out before that is still on the
free list or live.  An empty batch stands for a failed `mmap`
(`more_core` returns without touching the free list, `alloc` returns NULL).

Not modelled: the size of the batch (`allocate_num_pages` growth by 1.3),
`PROT_EXEC` / PaX, the free-threaded mutex (operations are atomic here, as they
are under the GIL).
-/
namespace CffiVerif.Closures

abbrev Addr := Nat

structure State where
  /-- the free list, head first -/
  free : List Addr
  /-- blocks handed out by `alloc` and not yet given back (ghost: the C code
  keeps no such list; the owners are the live callback cdata objects) -/
  live : List Addr
  deriving Repr, DecidableEq

def init : State := { free := [], live := [] }

inductive Op
  /-- `cffi_closure_alloc()`; `batch` is what `mmap` would return *if*
  `more_core` is called (it is consulted only when the free list is empty) -/
  | alloc (batch : List Addr)
  /-- `cffi_closure_free(p)` -/
  | free (p : Addr)
  deriving Repr, DecidableEq

inductive Out
  | addr (a : Addr)      -- alloc returned this block
  | null                 -- alloc returned NULL (mmap failed)
  | freed
  | notFresh             -- the environment's batch violates the mmap contract: operation refused
  | notLive              -- free of a block that is not live (never done by the callers): refused
  deriving Repr, DecidableEq

/-- The `mmap` contract for the batch handed to `more_core`. -/
def freshBatch (s : State) (batch : List Addr) : Bool :=
  decide (batch.Nodup ∧ ∀ a ∈ batch, a ∉ s.free ∧ a ∉ s.live)

/-- `more_core`: push every block of the batch, in order. -/
def pushAll : List Addr → List Addr → List Addr
  | [], fl => fl
  | a :: rest, fl => pushAll rest (a :: fl)

theorem pushAll_eq (b fl : List Addr) : pushAll b fl = b.reverse ++ fl := by
  induction b generalizing fl with
  | nil => rfl
  | cons a r ih => simp [pushAll, ih]

/-- Pop the head of the free list (the tail of `cffi_closure_alloc`). -/
def pop (s : State) : State × Out :=
  match s.free with
  | [] => (s, .null)
  | a :: rest => ({ free := rest, live := a :: s.live }, .addr a)

def step (s : State) : Op → State × Out
  | .alloc batch =>
    match s.free with
    | [] =>
      if freshBatch s batch then pop { s with free := pushAll batch [] }
      else (s, .notFresh)
    | _ :: _ => pop s
  | .free p =>
    if p ∈ s.live then ({ free := p :: s.free, live := s.live.erase p }, .freed)
    else (s, .notLive)

/-- State after a whole history. -/
def run (s : State) : List Op → State
  | [] => s
  | op :: rest => run (step s op).1 rest

/-! ### The statements of the source, executed on the list view of the free list
(`Generated/ClosureSteps.lean` holds the statement lists extracted from malloc_closure.h). -/
open CffiVerif.Generated.ClosureSteps in
/-- Registers of the C code: the list headed by `free_list`, the local `item`, and `item->next` as last assigned. -/
structure Regs where
  free : List Addr
  item : Option Addr
  link : List Addr
  ret : Option (Option Addr)     -- `some none` = returned NULL, `some (some a)` = returned block `a`

open CffiVerif.Generated.ClosureSteps in
/-- One statement that neither loops nor calls (`growIfEmpty` is handled by `execAlloc`). -/
def execStmt (r : Regs) : Stmt → Regs
  | .linkToHead => { r with link := r.free }                        -- item->next = free_list
  | .setHead => match r.item with                                   -- free_list = item
    | some a => { r with free := a :: r.link }
    | none => r
  | .nextBlock => r                                                 -- ++item (the caller supplies the next block)
  | .growIfEmpty => r
  | .nullIfEmpty => if r.free.isEmpty ∧ r.ret.isNone then { r with ret := some none } else r
  | .takeHead => { r with item := r.free.head?, link := r.free.tail }   -- item = free_list (its `next` is the tail)
  | .dropHead => { r with free := r.link }                          -- free_list = item->next
  | .retItem => if r.ret.isNone then { r with ret := some r.item } else r

open CffiVerif.Generated.ClosureSteps in
/-- `more_core`'s loop: its body once per new block, in address order. -/
def execLoop (body : List Stmt) (batch : List Addr) (fl : List Addr) : List Addr :=
  batch.foldl (fun fl b => (body.foldl execStmt { free := fl, item := some b, link := [], ret := none }).free) fl

open CffiVerif.Generated.ClosureSteps in
/-- `cffi_closure_free(p)` as its statement list. -/
def execFree (stmts : List Stmt) (fl : List Addr) (p : Addr) : List Addr :=
  (stmts.foldl execStmt { free := fl, item := some p, link := [], ret := none }).free

open CffiVerif.Generated.ClosureSteps in
/-- `cffi_closure_alloc()` as its statement list (statements after a `return` have no effect). -/
def execAlloc (stmts loop : List Stmt) (batch : List Addr) (fl : List Addr) : Option Addr × List Addr :=
  let r := stmts.foldl (fun (r : Regs) (st : Stmt) =>
      if r.ret.isSome then r
      else if st = .growIfEmpty then (if r.free.isEmpty then { r with free := execLoop loop batch r.free } else r)
      else execStmt r st) { free := fl, item := none, link := [], ret := none }
  (r.ret.join, if r.ret = some none then fl else r.free)

end CffiVerif.Closures
