import CffiVerif.Generated.C30Tables

/-!
Model of the *memory reads* of the type-string tokenizer of `/repo/src/c/parse_c_type.c`
(`next_token`, `get_following_char`, `number_of_commas`, `search_standard_typename`) and of
the buffer arithmetic of `_ffi_bad_type` (`/repo/src/c/ffi_obj.c`).

The input is a buffer `b : List UInt8` (what lies at `tok->input`).  Every read of the C code
is a read of the model, and every read of the model goes through a function that answers
`none` when the index is outside the buffer:

* `rd b i` is `b[i]?`;
* the scanning loops walk over the suffix `b.drop i`: matching that suffix against `[]` /
  `c :: rest` *is* the read `p[0]` at index `i` (`rd_eq_head_drop`), and `[]` answers `none`;
* `memcmpEq b p lit n` (for `memcmp(p, lit, n)`) answers `none` unless all `n` bytes are
  inside the buffer (the C library may read all of them).

So "the function returns `some _` on the buffer `s ++ [0]`" says: no byte beyond the
terminator's index was read.  C short-circuit evaluation (`a && b`, `a || b`) is kept: the
right operand is only read when C evaluates it.

Comparison tables (`kwEntries`, `stdEntries1/2`, guard constants, the `alloca` expression)
are regenerated from the C source on every run (`CffiVerif.Generated.C30Tables`).

Not modelled: `int`/`size_t` overflow of counters (strings of ≥ 2^31 bytes); the parser proper
(`parse_complete`, `parse_sequel` -- only the fact that they move `tok` exclusively through
`next_token` and read the string exclusively through the four functions above and `strtoull`,
which stops at the terminator); `search_in_*` (`search_sorted`, property C25).
-/
namespace CffiVerif.Tokenizer
open CffiVerif.Generated.C30Tables

abbrev Buf := List UInt8

/-- `p[i]`: `none` = a read outside the buffer. -/
def rd (b : Buf) (i : Nat) : Option UInt8 := b[i]?

/-! ### Character classes (`char` is signed: bytes ≥ 0x80 are negative and in no class) -/

def isSpace (x : UInt8) : Bool :=
  x == 32 || x == 12 || x == 10 || x == 13 || x == 9 || x == 11

def isIdentFirst (x : UInt8) : Bool :=
  (65 ≤ x && x ≤ 90) || (97 ≤ x && x ≤ 122) || x == 95 || x == 36

def isDigit (x : UInt8) : Bool := 48 ≤ x && x ≤ 57

def isHexDigit (x : UInt8) : Bool :=
  (48 ≤ x && x ≤ 57) || (65 ≤ x && x ≤ 70) || (97 ≤ x && x ≤ 102)

def isIdentNext (x : UInt8) : Bool := isIdentFirst x || isDigit x

/-! ### Tokens -/

inductive Kind where
  | start | eof | error | ident | integer | dotdotdot
  | punct (c : UInt8)        -- `tok->kind = *p`
  | kw (name : String)       -- `TOK_xxx` of a keyword
  deriving DecidableEq, Repr, Inhabited

/-- `token_t`: the token is at offset `p` (from `tok->input`) and has `size` bytes. -/
structure Tok where
  p : Nat
  size : Nat
  kind : Kind
  deriving DecidableEq, Repr, Inhabited

/-- The state `parse_c_type_from` starts with. -/
def Tok.init : Tok := ⟨0, 0, .start⟩

/-- `while (pred(p[k])) k++;` over the suffix starting at index `i`: the index of the first
byte that fails `pred`.  `none`: the loop read outside the buffer. -/
def scan (pred : UInt8 → Bool) : List UInt8 → Nat → Option Nat
  | [], _ => none
  | c :: rest, i => if pred c then scan pred rest (i + 1) else some i

/-- `memcmp(p, lit, n) == 0`; `none` unless the `n` bytes at `p` are inside the buffer. -/
def memcmpEq (b : Buf) (p : Nat) (lit : List UInt8) (n : Nat) : Option Bool :=
  if p + n ≤ b.length then some ((b.drop p).take n == lit.take n) else none

/-- The keyword `switch (*p)` of `next_token`: independent `if`s in source order, a later
match overrides an earlier one. -/
def classifyFrom (b : Buf) (p size : Nat) (c : UInt8) :
    List (UInt8 × Nat × List UInt8 × Nat × String) → Kind → Option Kind
  | [], k => some k
  | (cc, sz, lit, n, name) :: rest, k =>
    if c == cc && size == sz then
      match memcmpEq b p lit n with
      | none => none
      | some true => classifyFrom b p size c rest (.kw name)
      | some false => classifyFrom b p size c rest k
    else classifyFrom b p size c rest k

def classify (b : Buf) (p size : Nat) : Option Kind :=
  match rd b p with
  | none => none
  | some c => classifyFrom b p size c kwEntries .ident

/-- The body of `next_token` from `p = tok->p + tok->size`; `suffix` is `b.drop i`. -/
def nextFrom (b : Buf) : (suffix : List UInt8) → (i : Nat) → Option Tok
  | [], _ => none                                     -- `*p` read outside
  | c :: rest, i =>
    if isIdentFirst c then
      -- leaves `while (!is_ident_first(*p))`; `while (is_ident_next(p[tok->size])) tok->size++`
      match scan isIdentNext rest (i + 1) with
      | none => none
      | some e =>
        match classify b i (e - i) with
        | none => none
        | some k => some ⟨i, e - i, k⟩
    else if isSpace c then nextFrom b rest (i + 1)
    else if isDigit c then
      match rest with
      | [] => none                                    -- `p[1]` read outside
      | c1 :: rest2 =>
        if c1 == 120 || c1 == 88 then                 -- 'x' 'X': size = 2
          match scan isHexDigit rest2 (i + 2) with
          | none => none
          | some e => some ⟨i, e - i, .integer⟩
        else
          match scan isHexDigit rest (i + 1) with
          | none => none
          | some e => some ⟨i, e - i, .integer⟩
    else if c == 46 then                              -- p[0]=='.' && p[1]=='.' && p[2]=='.'
      match rest with
      | [] => none
      | c1 :: rest2 =>
        if c1 == 46 then
          match rest2 with
          | [] => none
          | c2 :: _ => if c2 == 46 then some ⟨i, 3, .dotdotdot⟩ else some ⟨i, 1, .punct c⟩
        else some ⟨i, 1, .punct c⟩
    else if c != 0 then some ⟨i, 1, .punct c⟩
    else some ⟨i, 0, .eof⟩

/-- `next_token(tok)`. -/
def nextToken (b : Buf) (tok : Tok) : Option Tok :=
  if tok.kind = .error then some tok
  else nextFrom b (b.drop (tok.p + tok.size)) (tok.p + tok.size)

/-- `parse_error`: the token becomes `TOK_ERROR`; `info->error_location = tok->p - tok->input`. -/
def parseError (tok : Tok) : Tok × Nat := (⟨tok.p, tok.size, .error⟩, tok.p)

/-- The loop of `get_following_char`. -/
def followFrom : List UInt8 → Option UInt8
  | [] => none
  | c :: rest => if isSpace c then followFrom rest else some c

def getFollowingChar (b : Buf) (tok : Tok) : Option UInt8 :=
  if tok.kind = .error then some 0
  else followFrom (b.drop (tok.p + tok.size))

/-- The loop of `number_of_commas` (`switch (*p++)`). -/
def commasFrom : List UInt8 → (result nesting : Nat) → Option Nat
  | [], _, _ => none
  | c :: rest, result, nesting =>
    if c == 44 then commasFrom rest (result + (if nesting = 0 then 1 else 0)) nesting
    else if c == 40 then commasFrom rest result (nesting + 1)
    else if c == 41 then (if nesting = 0 then some result else commasFrom rest result (nesting - 1))
    else if c == 0 then some result
    else commasFrom rest result nesting

def numberOfCommas (b : Buf) (tok : Tok) : Option Nat :=
  commasFrom (b.drop tok.p) 0 0

/-- All tokens up to and including `TOK_END` (`fuel` bounds the number of tokens). -/
def tokens (b : Buf) : Nat → Tok → Option (List Tok)
  | 0, _ => some []
  | fuel + 1, t =>
    match nextToken b t with
    | none => none
    | some t' => if t'.kind = .eof then some [t'] else (tokens b fuel t').map (t' :: ·)

/-! ### `search_standard_typename(p, size)` -/

/-- The `if (size == N && !memcmp(p, lit, M)) return PRIM;` lines of one `case`. -/
def firstMatch (b : Buf) (p size : Nat) (c : UInt8) :
    List (UInt8 × Nat × List UInt8 × Nat × Nat) → Option (Option Nat)
  | [] => some none
  | (cc, sz, lit, n, prim) :: rest =>
    if c == cc && size == sz then
      match memcmpEq b p lit n with
      | none => none
      | some true => some (some prim)
      | some false => firstMatch b p size c rest
    else firstMatch b p size c rest

/-- Outer `Option`: a read outside the buffer; inner: `-1` / the `_CFFI_PRIM_` number. -/
def searchStd (b : Buf) (p size : Nat) : Option (Option Nat) :=
  if size < stdMinSize then some none
  else
    match rd b (p + size - stdGuard.1) with
    | none => none
    | some a =>
      if a != stdGuard.2.1 then some none
      else
        match rd b (p + size - stdGuard.2.2.1) with
        | none => none
        | some a2 =>
          if a2 != stdGuard.2.2.2 then some none
          else
            match rd b (p + stdIdx1) with
            | none => none
            | some c =>
              match firstMatch b p size c stdEntries1 with
              | none => none
              | some (some prim) => some (some prim)
              | some none =>
                if c == stdOuter2 && decide (stdMinSize2 ≤ size) then
                  match rd b (p + stdIdx2) with
                  | none => none
                  | some c' => firstMatch b p size c' stdEntries2
                else some none

/-! ### `_ffi_bad_type`: the excerpt written into the `alloca`ed buffer -/

/-- A buffer of `cap` bytes being filled through `*p++ = c`; a store beyond `cap` is `none`. -/
structure Out where
  cap : Nat
  data : List UInt8
  deriving Repr, DecidableEq

def Out.put (o : Out) (c : UInt8) : Option Out :=
  if o.data.length < o.cap then some { o with data := o.data ++ [c] } else none

def Out.putAll (o : Out) : List UInt8 → Option Out
  | [] => some o
  | c :: cs => match o.put c with
    | none => none
    | some o' => o'.putAll cs

/-- One byte of the excerpt (`char` is signed: bytes ≥ 0x80 fail `' ' <= c`). -/
def sanitize (c : UInt8) : UInt8 :=
  if 32 ≤ c && c < 127 then c else if c == 9 || c == 10 then 32 else 63

/-- `_ffi_bad_type(info, input_text)` with `input = input_text[0 .. strlen)`,
`numSpaces = info->error_location`: the buffer and what was stored into it.
`length > 500`: `extra = ""`, nothing is allocated or stored. -/
def badType (input : List UInt8) (numSpaces : Nat) : Option Out :=
  if input.length > badTypeCutoff then some ⟨0, []⟩
  else
    let o : Out := ⟨input.length + numSpaces + badTypeSlack, []⟩
    (o.put 10).bind fun o =>
    (o.putAll (input.map sanitize)).bind fun o =>
    (o.put 10).bind fun o =>
    (o.putAll (List.replicate numSpaces 32)).bind fun o =>     -- memset(p, ' ', num_spaces)
    (o.put 94).bind fun o =>
    o.put 0

end CffiVerif.Tokenizer
