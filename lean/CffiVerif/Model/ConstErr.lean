import CffiVerif.Model.DefineLiteral

/-!
Model of the *error behaviour* of `Parser._parse_constant` / `Parser._c_div`
(`/repo/src/cffi/cparser.py`, as it is after the `fix:` commits 5c1f477 and 153798b): which exception
type leaves the evaluator of constant expressions (array lengths, enum values, bit-field
widths) for which expression tree.

Inputs are the trees pycparser builds (`Constant` with its token text, `UnaryOp` `+`/`-`,
`ID`, `BinaryOp` with its operator text, anything else) and `Parser._int_constants`.
Values are Python integers (`Int`); they are computed because three errors depend on them
(division by zero, negative shift count, a left shift that Python cannot materialise).

`int(s, base)` is `DefineLiteral.pyInt`.  The left shift `a << b` of CPython raises
`OverflowError` ("too many digits in integer") or `MemoryError` when `a ≠ 0` and `b` is
beyond what the platform can allocate; that bound is the parameter `shlLimit`.

Overlaps with `CffiVerif.Model.ConstExpr` (property C09, another builder), which models the
*values*; this file is self-contained on purpose and adds `[...]` lengths, the shift
resource error and the operator-text dispatch.
-/
namespace CffiVerif.ConstErr
open CffiVerif.DefineLiteral (pyInt inRange)

/-- Exception types that can leave `_parse_constant`. -/
inductive Exc where
  | cdefError       -- cffi.CDefError
  | ffiError        -- cffi.FFIError
  | overflowError   -- OverflowError / MemoryError from `left << right`
  | indexError      -- `s[0]` of an empty token (pycparser produces none)
  deriving DecidableEq, Repr, Inhabited

/-- The property's tolerated kinds. -/
def Exc.isCffi : Exc → Bool
  | .cdefError | .ffiError => true
  | _ => false

inductive Expr where
  | const (tok : List Char)                 -- c_ast.Constant(value=tok)
  | unary (op : String) (e : Expr)          -- c_ast.UnaryOp
  | id (name : String)                      -- c_ast.ID
  | binop (op : String) (l r : Expr)        -- c_ast.BinaryOp
  | other                                   -- Cast, TernaryOp, sizeof, FuncCall, …
  deriving Repr, Inhabited

/-- Result: an integer, or the string `'...'` (for `[...]` with `partial_length_ok`). -/
inductive Val where
  | int (n : Int) | dots
  deriving DecidableEq, Repr, Inhabited

/-- `Parser._int_constants`. -/
abbrev Env := String → Option Int

def isSuffixChar (c : Char) : Bool := c == 'u' || c == 'U' || c == 'l' || c == 'L'

/-- `s.rstrip('uUlL')` -/
def rstripSuffix (s : List Char) : List Char := (s.reverse.dropWhile isSuffixChar).reverse

def lowerAscii (c : Char) : Char := CffiVerif.DefineLiteral.lowerChar c

/-- `_SIMPLE_ESCAPES` -/
def simpleEscape (c : Char) : Option Int :=
  if c = '\'' then some 39 else if c = '"' then some 34 else if c = '?' then some 63
  else if c = '\\' then some 92 else if c = '0' then some 0 else if c = 'a' then some 7
  else if c = 'b' then some 8 else if c = 'f' then some 12 else if c = 'n' then some 10
  else if c = 'r' then some 13 else if c = 't' then some 9 else if c = 'v' then some 11
  else none

/-- The `Constant` branch. -/
def evalConst (tok : List Char) : Except Exc Int :=
  match tok with
  | [] => .error .indexError
  | c0 :: _ =>
    if inRange c0 48 57 then
      let s := rstripSuffix tok
      let first := if s.head? == some '0' then pyInt 8 s else pyInt 10 s
      match first with
      | some v => .ok v
      | none =>
        -- except ValueError:  try: int(s, 16) / int(s, 2)  except ValueError: pass;  raise CDefError
        if (s.take 2).map lowerAscii == ['0', 'x'] then
          match pyInt 16 s with
          | some v => .ok v
          | none => .error .cdefError              -- e.g. a hexadecimal floating constant
        else if (s.take 2).map lowerAscii == ['0', 'b'] then
          match pyInt 2 s with
          | some v => .ok v
          | none => .error .cdefError
        else .error .cdefError
    else
      match tok with
      | ['\'', c, '\''] => .ok c.toNat
      | ['\'', '\\', c, '\''] =>
        match simpleEscape c with
        | some v => .ok v
        | none => .error .cdefError
      | _ => .error .cdefError

/-- `_c_div` -/
def cDiv (a b : Int) : Except Exc Int :=
  if b = 0 then .error .cdefError
  else
    let q := a.fdiv b
    if (decide (a < 0) != decide (b < 0)) && (a.fmod b != 0) then .ok (q + 1) else .ok q

/-- Python `&`, `|`, `^` on unbounded integers (`-[m+1]` is `~m`). -/
def pyAnd : Int → Int → Int
  | .ofNat m, .ofNat n => .ofNat (m &&& n)
  | .ofNat m, .negSucc n => .ofNat (m ^^^ (m &&& n))
  | .negSucc m, .ofNat n => .ofNat (n ^^^ (n &&& m))
  | .negSucc m, .negSucc n => .negSucc (m ||| n)
def pyOr : Int → Int → Int
  | .ofNat m, .ofNat n => .ofNat (m ||| n)
  | .ofNat m, .negSucc n => .negSucc (n ^^^ (n &&& m))
  | .negSucc m, .ofNat n => .negSucc (m ^^^ (m &&& n))
  | .negSucc m, .negSucc n => .negSucc (m &&& n)
def pyXor : Int → Int → Int
  | .ofNat m, .ofNat n => .ofNat (m ^^^ n)
  | .ofNat m, .negSucc n => .negSucc (m ^^^ n)
  | .negSucc m, .ofNat n => .negSucc (m ^^^ n)
  | .negSucc m, .negSucc n => .ofNat (m ^^^ n)

/-- The `BinaryOp` branch once both operands are evaluated.  An operator that is not in the
list falls through to the final `raise FFIError`. -/
def applyBin (shlLimit : Nat) (op : String) (l r : Int) : Except Exc Int :=
  if op = "+" then .ok (l + r)
  else if op = "-" then .ok (l - r)
  else if op = "*" then .ok (l * r)
  else if op = "/" then cDiv l r
  else if op = "%" then (cDiv l r).map fun q => l - q * r
  else if op = "<<" ∨ op = ">>" then
    if r < 0 then .error .cdefError
    else if op = "<<" then
      if l = 0 then .ok 0                                        -- `0 << anything` is 0
      else if shlLimit < r.toNat then .error .overflowError
      else .ok (l * 2 ^ r.toNat)
    else .ok (l >>> r.toNat)                                     -- floor division by 2^r
  else if op = "&" then .ok (pyAnd l r)
  else if op = "|" then .ok (pyOr l r)
  else if op = "^" then .ok (pyXor l r)
  else .error .ffiError

/-- `_parse_constant(exprnode)` with `partial_length_ok=False` (every recursive call). -/
def evalInt (shlLimit : Nat) (env : Env) : Expr → Except Exc Int
  | .const tok => evalConst tok
  | .unary op e =>
    if op = "+" then evalInt shlLimit env e
    else if op = "-" then (evalInt shlLimit env e).map fun v => -v
    else .error .ffiError
  | .id name =>
    match env name with
    | some v => .ok v
    | none => .error .ffiError       -- also `__dotdotdotarray__` without partial_length_ok
  | .binop op l r =>
    match evalInt shlLimit env l with
    | .error e => .error e
    | .ok a =>
      match evalInt shlLimit env r with
      | .error e => .error e
      | .ok b => applyBin shlLimit op a b
  | .other => .error .ffiError

/-- `_parse_constant(exprnode, partial_length_ok)`: the top-level call. -/
def eval (shlLimit : Nat) (env : Env) (partialOk : Bool) (e : Expr) : Except Exc Val :=
  match e with
  | .id name =>
    match env name with
    | some v => .ok (.int v)
    | none =>
      if name = "__dotdotdotarray__" then
        (if partialOk then .ok .dots else .error .ffiError)
      else .error .ffiError
  | e => (evalInt shlLimit env e).map .int

/-- No `Constant` token of the tree is empty (pycparser produces none; `s[0]` would be an IndexError). -/
def TokensOk : Expr → Prop
  | .const tok => tok ≠ []
  | .unary _ e => TokensOk e
  | .id _ => True
  | .binop _ l r => TokensOk l ∧ TokensOk r
  | .other => True

/-- Every `<<` of the tree whose operands evaluate has a shift count within `shlLimit`
(or a zero left operand). -/
def ShiftsOk (shlLimit : Nat) (env : Env) : Expr → Prop
  | .const _ => True
  | .unary _ e => ShiftsOk shlLimit env e
  | .id _ => True
  | .binop op l r =>
    ShiftsOk shlLimit env l ∧ ShiftsOk shlLimit env r ∧
    (op = "<<" → ∀ a b, evalInt shlLimit env l = .ok a → evalInt shlLimit env r = .ok b →
      a = 0 ∨ b.toNat ≤ shlLimit)
  | .other => True

end CffiVerif.ConstErr
