import CffiVerif.Generated.SearchSortedExprs

/-
Model of `search_sorted` (src/c/parse_c_type.c:448) and of the order the code
generator sorts its tables in (recompiler.py:270, `lst.sort(key=entry.name)`).

C strings are `List UInt8` *without* the terminating NUL; reading position
`length` yields 0 as in memory.  Not modelled: `int` overflow of
`left + right` (needs > 2^30 table entries).
-/
namespace CffiVerif.Search

abbrev CStr := List UInt8

/-- `strncmp(src, search, search_len)` where `search` holds exactly
`search_len` characters and `src` is NUL-terminated.  Bytes compare as
`unsigned char`; comparison stops at the first difference, at a NUL, or after
`search_len` characters. -/
def strncmp : CStr → CStr → Int
  | _, [] => 0
  | [], c :: _ => 0 - (c.toNat : Int)          -- src[i] is the terminator
  | a :: as, c :: cs =>
      if a = c then (if a = 0 then 0 else strncmp as cs)
      else (a.toNat : Int) - (c.toNat : Int)

/-- `src[n]` for a NUL-terminated `src`: the byte, 0 at the terminator.  Beyond the
terminator the C code would read out of bounds; the model answers a non-zero
value there, so such a read can never make a lookup succeed. -/
def byteAt (src : CStr) (n : Nat) : Int :=
  match src[n]? with
  | some b => b.toNat
  | none => if n == src.length then 0 else 1

/-- The loop of `search_sorted`; the loop condition, the midpoint, the two tests
and the two interval updates are the definitions regenerated from the C source
(`Generated/SearchSortedExprs.lean`). -/
def searchLoop (names : Array CStr) (s : CStr) (left right : Nat) : Option Nat :=
  if Generated.SearchSorted.loopCond left right = true then
    let middle := Generated.SearchSorted.middleOf left right
    match names[middle]? with
    | none => none
    | some src =>
      let diff := strncmp src s
      if Generated.SearchSorted.foundCond diff (byteAt src s.length) = true then some middle
      else if Generated.SearchSorted.goLeftCond diff = true then
        searchLoop names s left (Generated.SearchSorted.newRight middle)
      else searchLoop names s (Generated.SearchSorted.newLeft middle) right
  else none
termination_by right - left
decreasing_by
  all_goals simp only [Generated.SearchSorted.loopCond, Generated.SearchSorted.middleOf,
    Generated.SearchSorted.newRight, Generated.SearchSorted.newLeft, decide_eq_true_eq] at *
  all_goals omega

def searchSorted (names : Array CStr) (s : CStr) : Option Nat :=
  searchLoop names s 0 names.size

/-- Byte-lexicographic three-way comparison (what `strcmp` computes). -/
def lexCmp : CStr → CStr → Ordering
  | [], [] => .eq
  | [], _ :: _ => .lt
  | _ :: _, [] => .gt
  | a :: as, b :: bs => if a < b then .lt else if b < a then .gt else lexCmp as bs

/-- Python's `str` comparison: lexicographic on code points. -/
def pyCmp : List Nat → List Nat → Ordering
  | [], [] => .eq
  | [], _ :: _ => .lt
  | _ :: _, [] => .gt
  | a :: as, b :: bs => if a < b then .lt else if b < a then .gt else pyCmp as bs

/-- UTF-8 encoding restricted to ASCII (identifiers). -/
def asciiBytes (s : List Nat) : CStr := s.map (fun c => UInt8.ofNat c)

def NoNul (s : CStr) : Prop := ∀ b ∈ s, b ≠ 0

def StrictSorted (names : List CStr) : Prop := names.Pairwise (fun a b => lexCmp a b = .lt)

end CffiVerif.Search
