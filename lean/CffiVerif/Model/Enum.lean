import CffiVerif.Model.ConstExpr

/-!
Model of how cffi gives values, an underlying integer type and names to an enum:

* `Parser._build_enum_type` (cparser.py): explicit value = `_parse_constant`, implicit value =
  previous + 1 on unbounded integers, every enumerator registered with `_add_constants`;
* `EnumType.build_baseinttype` (model.py): `int`/`long` if the smallest value is negative,
  else `unsigned int`/`unsigned long`; the first candidate whose range holds all values;
  `CDefError` if neither does.  Sizes of the candidates are platform parameters (LP64);
* `b_new_enum_type` (_cffi_backend.c): the value -> name dictionary is filled from the last
  enumerator to the first, so the first declared name wins; `convert_cdata_to_enum_string`
  falls back to the decimal value;
* API / out-of-line modes: `_cffi_prim_int(size, sign)` (_cffi_include.h) and the
  `(size, signed) -> PRIM_*` dictionary of `EnumExpr.as_python_expr` (recompiler.py).

Not modelled: enums with `...` (partial), opaque / empty enums (the property excludes them;
`baseOfValues []` mirrors the `unsigned int` guess), `baseinttype` given explicitly.
-/
namespace CffiVerif.Enum
open CffiVerif.ConstExpr
open CffiVerif.Generated

structure Item where
  name : String
  value : Option Expr
  deriving Repr, Inhabited

def bind (env : Env) (k : String) (v : Int) : Env := fun n => if n = k then some v else env n

/-- `Parser._add_constants`: an identical redeclaration is ignored, a different one is an `FFIError`. -/
def addConstant (env : Env) (k : String) (v : Int) : Except Err Env :=
  match env k with
  | some v' => if v' = v then .ok env else .error .ffi
  | none => .ok (bind env k v)

/-- One round of the loop of `_build_enum_type`: the enumerator's value, the constants and the
next implicit value afterwards. -/
def valueOf (env : Env) (next : Int) (it : Item) : Except Err Int :=
  match it.value with
  | some e => ConstExpr.eval env e        -- nextenumvalue = self._parse_constant(enum.value)
  | none => .ok next

def step (env : Env) (next : Int) (it : Item) : Except Err (Int × Env × Int) :=
  match valueOf env next it with
  | .error e => .error e
  | .ok v =>
    match addConstant env it.name v with
    | .error e => .error e
    | .ok env' => .ok (v, env', v + 1)

def build (env : Env) (next : Int) : List Item → Except Err (List (String × Int))
  | [] => .ok []
  | it :: rest =>
    match step env next it with
    | .error e => .error e
    | .ok (v, env', next') =>
      match build env' next' rest with
      | .error e => .error e
      | .ok out => .ok ((it.name, v) :: out)

/-! ### `build_baseinttype` -/

inductive Base where
  | int | uint | long | ulong
  deriving DecidableEq, Repr, Inhabited

/-- `ffi.sizeof(btype)` of the candidates on LP64 (platform parameter). -/
def Base.size : Base → Nat
  | .int => 4 | .uint => 4 | .long => 8 | .ulong => 8

def Base.signed : Base → Bool
  | .int => true | .uint => false | .long => true | .ulong => false

/-- The name given to `PrimitiveType(...)` in model.py. -/
def Base.cname : Base → String
  | .int => "int" | .uint => "unsigned int" | .long => "long" | .ulong => "unsigned long"

/-- `ffi.sizeof(btype)` of a candidate, by the name given to `PrimitiveType(...)`, on LP64
(platform parameter of the model). -/
def lp64Sizeof (n : String) : Int :=
  if n = "int" ∨ n = "unsigned int" then 4
  else if n = "long" ∨ n = "unsigned long" then 8
  else 0

def Base.ofCName (n : String) : Option Base :=
  if n = "int" then some .int else if n = "unsigned int" then some .uint
  else if n = "long" then some .long else if n = "unsigned long" then some .ulong
  else none

/-- `build_baseinttype` on the smallest and largest value: the candidate selection and the range
tests are the ones translated from model.py (`Generated/ConstExprPy.lean`). -/
def baseOfRange (lo hi : Int) : Except Err Base :=
  match ConstExprPy.build_baseinttype lo hi lp64Sizeof with
  | .ok n =>
    match Base.ofCName n with
    | some b => .ok b
    | none => .error .ffi           -- a candidate the model does not know (never on this source)
  | .error e => .error e

def listMin : Int → List Int → Int
  | m, [] => m
  | m, x :: xs => listMin (if x < m then x else m) xs

def listMax : Int → List Int → Int
  | m, [] => m
  | m, x :: xs => listMax (if x > m then x else m) xs

/-- `min(self.enumvalues)`, `max(self.enumvalues)`; `(0, 0)` for no values. -/
def range : List Int → Int × Int
  | [] => (0, 0)
  | v :: vs => (listMin v vs, listMax v vs)

def baseOfValues (vals : List Int) : Except Err Base :=
  baseOfRange (range vals).1 (range vals).2

/-! ### value -> name (`b_new_enum_type`, `convert_cdata_to_enum_string`) -/

/-- `PyDict_SetItem`: replaces an existing key. -/
def dictSet (d : List (Int × String)) (k : Int) (v : String) : List (Int × String) :=
  (k, v) :: d.filter (fun p => p.1 != k)

def dictGet (d : List (Int × String)) (k : Int) : Option String :=
  (d.find? (fun p => p.1 == k)).map (·.2)

/-- `for (i=n; --i >= 0; ) PyDict_SetItem(dict2, value_i, name_i)`. -/
def valueToName (es : List (String × Int)) : List (Int × String) :=
  es.reverse.foldl (fun d e => dictSet d e.2 e.1) []

/-- `ffi.string(cdata)` for an enum cdata holding `v`. -/
def nameOf (es : List (String × Int)) (v : Int) : String :=
  match dictGet (valueToName es) v with
  | some n => n
  | none => toString v

end CffiVerif.Enum
