import CffiVerif.Generated.ErrnoSteps
/-
Model of cffi's errno handling (C22).

Code modelled (all in /repo/src/c):
  misc_thread_common.h:292   static __thread int cffi_saved_errno = 0;
                             save_errno_only()    { cffi_saved_errno = errno; }
                             restore_errno_only() { errno = cffi_saved_errno; }
  _cffi_backend.c  b_get_errno : restore_errno_only(); err = errno; errno = 0; return err
                   b_set_errno : (range check) errno = v; save_errno_only(); errno = 0
                   cdata_call  : restore_errno(); ffi_call(...); save_errno();
                   invoke_callback : save_errno(); <python>; restore_errno();
  call_python.c    cffi_call_python : save_errno(); <python>; restore_errno();
  recompiler.py    _cffi_f_<name>: _cffi_restore_errno(); { call } _cffi_save_errno();

Every thread owns two cells: the C library's `errno` and cffi's `saved`.  Both
are thread-local (`__thread` / glibc): *that* is a parameter of the model, not
something proved here.  A run is a totally ordered list of events, each tagged
with the thread that performs it.
-/
namespace CffiVerif.Errno

abbrev Tid := Nat

/-- The two thread-local cells. -/
structure TState where
  errno : Int
  saved : Int
deriving DecidableEq, Repr

/-- A fresh thread: glibc's errno starts at 0, `cffi_saved_errno = 0`. -/
def TState.init : TState := ⟨0, 0⟩

def INT_MIN : Int := -2147483648
def INT_MAX : Int := 2147483647

/-- Events of one thread. -/
inductive Ev where
  | pySet (v : Int)     -- `ffi.errno = v`                       (b_set_errno)
  | pyGet               -- `ffi.errno`                           (b_get_errno)
  | clobber (v : Int)   -- anything the interpreter / libc does to the C errno while Python code runs
  | callEnter           -- restore_errno() just before the C function is entered
  | callExit            -- save_errno() just after it returned
  | cRead               -- the C code reads errno
  | cWrite (v : Int)    -- the C code assigns errno
  | cbEnter             -- save_errno() on entry of invoke_callback / cffi_call_python
  | cbExit              -- restore_errno() before returning to the C caller
deriving DecidableEq, Repr

/-- What an event lets its thread observe. -/
inductive Out where
  | none                -- nothing observable
  | val (v : Int)       -- the value read (`ffi.errno`, or errno as the C code sees it)
  | overflow            -- b_set_errno raised OverflowError
deriving DecidableEq, Repr

/-- One event on the cells of the thread performing it. -/
def stepT (s : TState) : Ev → TState × Out
  | .pySet v =>
      if v < INT_MIN ∨ v > INT_MAX then (s, .overflow)          -- "errno value too large": nothing assigned
      else ({ errno := 0, saved := v }, .none)                   -- errno = v; saved = errno; errno = 0
  | .pyGet => ({ errno := 0, saved := s.saved }, .val s.saved)   -- errno = saved; err = errno; errno = 0
  | .clobber v => ({ s with errno := v }, .none)
  | .callEnter => ({ s with errno := s.saved }, .none)
  | .callExit => ({ s with saved := s.errno }, .none)
  | .cRead => (s, .val s.errno)
  | .cWrite v => ({ s with errno := v }, .none)
  | .cbEnter => ({ s with saved := s.errno }, .none)
  | .cbExit => ({ s with errno := s.saved }, .none)

/-- All threads. -/
abbrev State := Tid → TState

def State.init : State := fun _ => TState.init

def upd (σ : State) (t : Tid) (s : TState) : State := fun u => if u = t then s else σ u

/-- One tagged event on the global state. -/
def step (σ : State) (e : Tid × Ev) : State × Out :=
  let r := stepT (σ e.1) e.2
  (upd σ e.1 r.1, r.2)

/-- Run one thread's own events; outputs in order. -/
def runT (s : TState) : List Ev → TState × List Out
  | [] => (s, [])
  | e :: es =>
      let r := stepT s e
      let r' := runT r.1 es
      (r'.1, r.2 :: r'.2)

/-- Run a global trace; outputs tagged with the observing thread. -/
def run (σ : State) : List (Tid × Ev) → State × List (Tid × Out)
  | [] => (σ, [])
  | e :: es =>
      let r := step σ e
      let r' := run r.1 es
      (r'.1, (e.1, r.2) :: r'.2)

/-- The events / observations of thread `t` in a global trace. -/
def proj {α : Type} (t : Tid) (tr : List (Tid × α)) : List α :=
  tr.filterMap fun e => if e.1 = t then some e.2 else none

/-! ### The specification: one thread-local variable

`depth` counts open call / callback frames of the thread.  Even depth: Python
code is running (top level or inside a callback); odd depth: C code is running
(inside a call).  A trace is *well-moded* when each event occurs in the mode in
which the code can perform it. -/

def wfT : Nat → List Ev → Bool
  | _, [] => true
  | d, e :: es =>
    match e with
    | .pySet _ | .pyGet | .clobber _ => d % 2 == 0 && wfT d es
    | .callEnter => d % 2 == 0 && wfT (d + 1) es
    | .cbExit => d % 2 == 0 && d ≥ 2 && wfT (d - 1) es
    | .cRead | .cWrite _ => d % 2 == 1 && wfT d es
    | .callExit => d % 2 == 1 && wfT (d - 1) es
    | .cbEnter => d % 2 == 1 && wfT (d + 1) es

/-- The abstract machine: a single variable `live` per thread, read and
written by both `ffi.errno` and the C code; nothing else touches it. -/
def specT (live : Int) : List Ev → Int × List Out
  | [] => (live, [])
  | e :: es =>
    match e with
    | .pySet v =>
        if v < INT_MIN ∨ v > INT_MAX then
          let r := specT live es; (r.1, .overflow :: r.2)
        else let r := specT v es; (r.1, .none :: r.2)
    | .pyGet | .cRead => let r := specT live es; (r.1, .val live :: r.2)
    | .cWrite v => let r := specT v es; (r.1, .none :: r.2)
    | _ => let r := specT live es; (r.1, .none :: r.2)

/-- The cell that holds the live value in the current mode. -/
def liveOf (d : Nat) (s : TState) : Int := if d % 2 = 0 then s.saved else s.errno

/-! ### interpreter of the micro-steps extracted from the source (`Generated/ErrnoSteps.lean`)

The machine state of a code site: the two cells, the local `err` of `b_get_errno`
and the (already range-checked) argument of `b_set_errno`. -/

structure Site where
  s : TState
  err : Int
  arg : Int
deriving DecidableEq, Repr

/-- One micro-step; `save` / `restore` are calls of `save_errno_only` / `restore_errno_only`
(through the `save_errno` / `restore_errno` macros), whose bodies are given. -/
def microStep (saveBody restoreBody : List String) (fuel : Nat) (m : Site) (st : String) : Option Site :=
  if st = "saved:=errno" then some { m with s := { m.s with saved := m.s.errno } }
  else if st = "errno:=saved" then some { m with s := { m.s with errno := m.s.saved } }
  else if st = "err:=errno" then some { m with err := m.s.errno }
  else if st = "errno:=0" then some { m with s := { m.s with errno := 0 } }
  else if st = "errno:=arg" then some { m with s := { m.s with errno := m.arg } }
  else if st = "return err" then some m
  else match fuel with
    | 0 => none
    | fuel + 1 =>
      if st = "save" then saveBody.foldlM (microStep saveBody restoreBody fuel) m
      else if st = "restore" then restoreBody.foldlM (microStep saveBody restoreBody fuel) m
      else none                       -- guarded or unknown statement: not the modelled shape

open CffiVerif.Generated in
/-- Run a step list of the working tree with the working tree's own `save_errno_only` /
`restore_errno_only` bodies. -/
def runSite (steps : List String) (m : Site) : Option Site :=
  steps.foldlM (microStep ErrnoSteps.saveOnly ErrnoSteps.restoreOnly 1) m

/-- Events of other threads, and clobbering of the C errno by the interpreter
while thread `t` runs Python code. -/
def Quiet (t : Tid) (mid : List (Tid × Ev)) : Prop :=
  ∀ x ∈ mid, x.1 ≠ t ∨ ∃ v, x.2 = .clobber v

/-- Events of other threads only. -/
def Others (t : Tid) (mid : List (Tid × Ev)) : Prop := ∀ x ∈ mid, x.1 ≠ t

end CffiVerif.Errno
