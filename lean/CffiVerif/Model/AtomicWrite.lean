import CffiVerif.Generated.AtomicWriteOps
/-
Model of the write path of `_make_c_or_py_source` (src/cffi/recompiler.py:1414)
and of the way the generator orders declarations.

```
    output = f.getvalue()
    try:
        with open(target_file, 'r') as f1:
            if f1.read(len(output) + 1) != output:
                raise OSError
        return False     # already up-to-date
    except OSError:
        tmp_file = '%s.~%d' % (target_file, os.getpid())
        with open(tmp_file, 'w') as f1:
            f1.write(output)
        try:
            os.rename(tmp_file, target_file)
        except OSError:
            os.unlink(target_file)
            os.rename(tmp_file, target_file)
        return True
```

A file system maps paths to files `(content, mtime)`; `Text` is a Python `str`
(code points).  The bytes on disk are the locale (UTF-8) encoding of the text; on
Linux text mode writes `\n` unchanged, and *reading* in text mode translates
`\r\n` and a lone `\r` to `\n` (universal newlines) -- that translation is
part of the model because the comparison is made on the translated text.

The unit of a crash is one I/O operation (system call): a crash leaves the file
system in the state reached by a prefix of the operation sequence.

Modelled, not verified: `rename(2)` replaces the destination atomically; `open(…,'w')`
is `O_WRONLY|O_CREAT|O_TRUNC`; writes append in order; only this process touches
the two paths.  Not modelled: an old file that is not decodable (UnicodeDecodeError
propagates, nothing is written), `fsync`/power-loss durability (the code never
syncs), the file-like-object branch (no file system involved).
-/
namespace CffiVerif.AtomicWrite
open CffiVerif.Generated.AtomicWriteOps (PathVar Step)

abbrev Path := Nat
abbrev Text := List Nat

structure File where
  content : Text
  mtime : Nat
deriving DecidableEq, Repr

structure FS where
  files : Path → Option File
  clock : Nat

def FS.set (fs : FS) (p : Path) (f : Option File) : FS :=
  { fs with files := fun q => if q = p then f else fs.files q }

def FS.tick (fs : FS) : FS := { fs with clock := fs.clock + 1 }

inductive Op
  | openRead (p : Path)          -- open(p, O_RDONLY); fails with ENOENT when absent
  | read (p : Path)
  | closeRead (p : Path)
  | openTrunc (p : Path)         -- open(p, O_WRONLY|O_CREAT|O_TRUNC)
  | write (p : Path) (chunk : Text)
  | closeWrite (p : Path)
  | rename (src dst : Path)      -- succeeds, atomically replaces dst
  | renameFail (src dst : Path)  -- returns an error, changes nothing (the Windows case)
  | unlink (p : Path)
deriving DecidableEq, Repr

/-- Effect of one operation. -/
def apply (fs : FS) : Op → FS
  | .openRead _ | .read _ | .closeRead _ | .closeWrite _ | .renameFail _ _ => fs
  | .openTrunc p => (fs.set p (some ⟨[], fs.clock⟩)).tick
  | .write p chunk =>
    match fs.files p with
    | some f => (fs.set p (some ⟨f.content ++ chunk, fs.clock⟩)).tick
    | none => fs
  | .rename s d =>
    match fs.files s with
    | some f => (fs.set d (some f)).set s none
    | none => fs
  | .unlink p => fs.set p none

def run (fs : FS) (ops : List Op) : FS := ops.foldl apply fs

/-- Text-mode reading: `\r\n` and lone `\r` become `\n`.  `afterCR` = the previous
character was a `\r` (already turned into `\n`), so a `\n` now is dropped. -/
def univNewlinesAux : Bool → Text → Text
  | _, [] => []
  | afterCR, c :: r =>
    if c = 13 then 10 :: univNewlinesAux true r
    else if c = 10 ∧ afterCR then univNewlinesAux false r
    else c :: univNewlinesAux false r

def univNewlines (t : Text) : Text := univNewlinesAux false t

/-! ### The operation sequence, built from the statements extracted from the source

`Generated/AtomicWriteOps.lean` (regenerated on every run by translate/c23_atomic_write.py)
holds the statements of the `try` body, of the `except OSError` handler and of the inner
rename fallback, in program order.  They are interpreted here. -/

def pathOf (tmp target : Path) : PathVar → Path
  | .target => target
  | .tmp => tmp

/-- The operations of a straight-line statement list.  `cur` = the file bound to `f1`
(`true` = opened for writing); `write` becomes one operation per chunk; a `rename` that the
platform refuses (`renameOk = false`) is followed by the operations of the fallback. -/
def stepOps (tmp target : Path) (chunks : List Text) (renameOk : Bool) (fallback : List Op) :
    Option (Path × Bool) → List Step → List Op
  | _, [] => []
  | _, .open p mode :: rest =>
    let q := pathOf tmp target p
    if mode == "w" then Op.openTrunc q :: stepOps tmp target chunks renameOk fallback (some (q, true)) rest
    else Op.openRead q :: stepOps tmp target chunks renameOk fallback (some (q, false)) rest
  | cur, .readCompare _ :: rest =>
    (match cur with | some (q, _) => [Op.read q] | none => []) ++ stepOps tmp target chunks renameOk fallback cur rest
  | cur, .write :: rest =>
    (match cur with | some (q, _) => chunks.map (Op.write q) | none => []) ++
      stepOps tmp target chunks renameOk fallback cur rest
  | cur, .close :: rest =>
    (match cur with
      | some (q, true) => [Op.closeWrite q]
      | some (q, false) => [Op.closeRead q]
      | none => []) ++ stepOps tmp target chunks renameOk fallback none rest
  | cur, .rename s d :: rest =>
    (if renameOk then [Op.rename (pathOf tmp target s) (pathOf tmp target d)]
     else Op.renameFail (pathOf tmp target s) (pathOf tmp target d) :: fallback) ++
      stepOps tmp target chunks renameOk fallback cur rest
  | cur, .unlink p :: rest => Op.unlink (pathOf tmp target p) :: stepOps tmp target chunks renameOk fallback cur rest
  | cur, .ret _ :: rest => stepOps tmp target chunks renameOk fallback cur rest

/-- The value returned by a statement list (its first `return`). -/
def stepRet : List Step → Option Bool
  | [] => none
  | .ret b :: _ => some b
  | _ :: rest => stepRet rest

/-- The limit of the read-back, `f1.read(len(output) + k)`, as extracted. -/
def readLimit : List Step → Option Nat
  | [] => none
  | .readCompare l :: _ => l
  | _ :: rest => readLimit rest

/-- The text `f1.read(limit)` returns. -/
def readBack (content : Text) (outLen : Nat) : Option Nat → Text
  | none => univNewlines content
  | some k => (univNewlines content).take (outLen + k)

/-- The `try` body runs to its `return`: the target exists, is decodable, and the text read back
(`f1.read(len(output) + 1)` in the source) equals the output. -/
def upToDate (fs : FS) (target : Path) (output : Text) : Bool :=
  match fs.files target with
  | some f => readBack f.content output.length (readLimit Generated.AtomicWriteOps.tryBody) == output
  | none => false

/-- The operations of the `try` part: the whole `with` block when the target exists (the
`raise OSError` inside it leaves through the end of the block), only the failing `open` otherwise. -/
def readOps (fs : FS) (target : Path) : List Op :=
  let ops := stepOps target target [] true [] none Generated.AtomicWriteOps.tryBody
  match fs.files target with
  | some _ => ops
  | none => ops.take 1

/-- The operations of the `except OSError` handler. -/
def writeOps (tmp target : Path) (chunks : List Text) (renameOk : Bool) : List Op :=
  stepOps tmp target chunks renameOk
    (stepOps tmp target chunks true [] none Generated.AtomicWriteOps.renameFallback) none
    Generated.AtomicWriteOps.handlerBody

/-- The operation sequence of `_make_c_or_py_source` for a path target and its
return value (`some true` = updated; `none` would be falling off the end).  `chunks` is how the buffered writer splits the
output into `write` calls; `renameOk = false` is the platform where renaming over
an existing file fails (the `except OSError` fallback). -/
def plan (fs : FS) (tmp target : Path) (output : Text) (chunks : List Text)
    (renameOk : Bool := true) : List Op × Option Bool :=
  if upToDate fs target output then
    (readOps fs target, stepRet Generated.AtomicWriteOps.tryBody)
  else (readOps fs target ++ writeOps tmp target chunks renameOk,
        stepRet Generated.AtomicWriteOps.handlerBody)

/-- An operation that can change the file system. -/
def Op.mutates : Op → Bool
  | .openTrunc _ | .write _ _ | .rename _ _ | .unlink _ => true
  | _ => false

/-! ### Ordering of declarations

`Recompiler._generate` iterates `sorted(self.ffi._parser._declarations.items())`
(a dict, so keys are distinct and the tuple comparison never looks past the key);
the type table is `sorted(self._typesdict, key=str)`, the struct/enum tables
`sorted(..., key=lambda tp: tp.name)`, the step tables `lst.sort(key=entry.name)`.
Python compares `str` lexicographically by code point.  Generation is modelled
as an arbitrary `render` applied to the list sorted by key. -/

abbrev Key := List Nat

def keyLe (a b : Key) : Bool := decide (a ≤ b)

def sortByKey {α : Type} (key : α → Key) (l : List α) : List α :=
  l.mergeSort (fun a b => keyLe (key a) (key b))

def gen {α β : Type} (render : List α → β) (key : α → Key) (decls : List α) : β :=
  render (sortByKey key decls)

end CffiVerif.AtomicWrite
