/-
Shared model of cffi's integer primitives (src/c/_cffi_backend.c).

  * integer / character C types as `(width, kind)`              (EPTYPE table, 4700-4760)
  * CPython's `PyLong_AsLongLong`, `PyLong_AsUnsignedLongLong`,
    `PyLong_AsUnsignedLongLongMask` on a Python `int` (= `Int`) and cffi's
    wrappers `_my_PyLong_AsLongLong`, `_my_PyLong_AsUnsignedLongLong(strict)` (832-917)
  * `write_raw_integer_data`, `read_raw_signed_data`, `read_raw_unsigned_data`
    on little-endian bytes (919-978)
  * the integer branches of `convert_from_object` (1714-1739) and of
    `convert_to_object` / `cdata_int` (1085, 2306)
  (`ffi.cast` is modelled in `Model/IntCast.lean`, over `Generated/CastExprs.lean`)

Conventions.  A Python `int` is an `Int` of any magnitude.  C values of the
types `long long` / `unsigned long long` are `Int`s that the functions below
keep inside `[-2^63, 2^63)` / `[0, 2^64)`; every C conversion between integer
types is an explicit `wrapS` / `wrapU` (gcc: conversion to a signed type wraps).
C objects are little-endian `List UInt8`.  CPython's error indicator is
modelled *in band*, as the code uses it: a conversion returns a value together
with `Pending = Option ErrKind` ("`PyErr_Occurred()`").

Parameters (not verified here): LP64, little endian, 8-bit bytes,
`sizeof(ffi_arg) = 8`; only real Python `int`s are modelled as stored values
(objects with `__int__`, floats → TypeError are outside C03/C04's statements).
This file imports nothing.
-/
namespace CffiVerif.CInt

/-- Exception *types* the modelled code can raise. -/
inductive ErrKind
  | overflow      -- OverflowError
  | typeError     -- TypeError
  | valueError    -- ValueError
  | systemError   -- a C function returned "success" with an exception set
  | fatal         -- no Python exception: Py_FatalError / a function that does not exist
  deriving DecidableEq, Repr, Inhabited

def ErrKind.toString : ErrKind → String
  | .overflow => "OverflowError" | .typeError => "TypeError"
  | .valueError => "ValueError" | .systemError => "SystemError" | .fatal => "Fatal"

/-- `PyErr_Occurred()`. -/
abbrev Pending := Option ErrKind

/-- `ct_size` of an integer primitive; other sizes make `write_raw_integer_data`
call `Py_FatalError` and are not representable. -/
inductive Width | w8 | w16 | w32 | w64
  deriving DecidableEq, Repr, Inhabited

def Width.bytes : Width → Nat
  | .w8 => 1 | .w16 => 2 | .w32 => 4 | .w64 => 8

def Width.bits (w : Width) : Nat := 8 * w.bytes

def Width.ofBytes? : Nat → Option Width
  | 1 => some .w8 | 2 => some .w16 | 4 => some .w32 | 8 => some .w64 | _ => none

/-- The `ct_flags` that matter for integer conversion. -/
inductive Kind
  | signed      -- CT_PRIMITIVE_SIGNED (also enums with a signed base type)
  | unsigned    -- CT_PRIMITIVE_UNSIGNED
  | bool        -- CT_PRIMITIVE_UNSIGNED | CT_IS_BOOL
  | char        -- CT_PRIMITIVE_CHAR               (char, char16_t, char32_t; unsigned wchar_t)
  | swchar      -- CT_PRIMITIVE_CHAR | CT_IS_SIGNED_WCHAR  (wchar_t where it is signed)
  deriving DecidableEq, Repr, Inhabited

structure IntType where
  name : String
  width : Width
  kind : Kind
  deriving DecidableEq, Repr, Inhabited

namespace IntType
def bytes (T : IntType) : Nat := T.width.bytes
def bits (T : IntType) : Nat := T.width.bits
/-- integer (non-character) primitive: the types C03 speaks about -/
def isInt (T : IntType) : Bool :=
  match T.kind with | .signed | .unsigned | .bool => true | _ => false
/-- how `int(cdata)` / item reads interpret the bytes -/
def readsSigned (T : IntType) : Bool :=
  match T.kind with | .signed | .swchar => true | _ => false
/-- smallest / largest value of the type (as read back by cffi) -/
def lo (T : IntType) : Int :=
  match T.kind with
  | .signed | .swchar => -(2 ^ (T.bits - 1))
  | _ => 0
def hi (T : IntType) : Int :=
  match T.kind with
  | .signed | .swchar => 2 ^ (T.bits - 1) - 1
  | .bool => 1
  | _ => 2 ^ T.bits - 1
def InRange (T : IntType) (v : Int) : Prop := T.lo ≤ v ∧ v ≤ T.hi
instance (T : IntType) (v : Int) : Decidable (T.InRange v) := by unfold InRange; infer_instance
end IntType

/-! ### C integer conversions -/

/-- conversion to an unsigned type of `bits` bits -/
def wrapU (bits : Nat) (x : Int) : Int := x % 2 ^ bits

/-- conversion to a signed type of `bits` bits (two's complement, as gcc defines it) -/
def wrapS (bits : Nat) (x : Int) : Int :=
  let m := x % 2 ^ bits
  if m < 2 ^ (bits - 1) then m else m - 2 ^ bits

/-- conversion to the C type with the given width/signedness -/
def wrap (bits : Nat) (signed : Bool) (x : Int) : Int :=
  if signed then wrapS bits x else wrapU bits x

/-- the value of `T` congruent to `x` modulo `2^bits` (`_Bool` excluded: it is not modular) -/
def IntType.wrap (T : IntType) (x : Int) : Int := CInt.wrap T.bits T.readsSigned x

/-! ### CPython `int` → C -/

/-- `PyLong_AsLongLong`: the value, or `-1` with OverflowError. -/
def pyLongAsLongLong (v : Int) : Int × Pending :=
  if -(2 ^ 63) ≤ v ∧ v < 2 ^ 63 then (v, none) else (-1, some .overflow)

/-- `PyLong_AsUnsignedLongLong`: the value, or `(unsigned long long)-1` with OverflowError
(negative, or too large). -/
def pyLongAsUnsignedLongLong (v : Int) : Int × Pending :=
  if v < 0 then (2 ^ 64 - 1, some .overflow)
  else if v < 2 ^ 64 then (v, none)
  else (2 ^ 64 - 1, some .overflow)

/-- `PyLong_AsUnsignedLongLongMask`: never fails on an `int`. -/
def pyLongAsUnsignedLongLongMask (v : Int) : Int := v % 2 ^ 64

/-- `_my_PyLong_AsLongLong(ob)` for `PyLong_Check(ob)`. -/
def myAsLongLong (v : Int) : Int × Pending := pyLongAsLongLong v

/-- `_my_PyLong_AsUnsignedLongLong(ob, strict)` for `PyLong_Check(ob)`. -/
def myAsUnsignedLongLong (v : Int) (strict : Bool) : Int × Pending :=
  if strict then
    if v < 0 then (2 ^ 64 - 1, some .overflow)      -- `goto negative`
    else pyLongAsUnsignedLongLong v
  else (pyLongAsUnsignedLongLongMask v, none)

/-! ### raw little-endian data -/

/-- `k` little-endian bytes of `n` (the low ones). -/
def toLE : Nat → Nat → List UInt8
  | 0, _ => []
  | k + 1, n => UInt8.ofNat (n % 256) :: toLE k (n / 256)

def fromLE : List UInt8 → Nat
  | [] => 0
  | b :: bs => b.toNat + 256 * fromLE bs

/-- `write_raw_integer_data(target, source, size)`: the bytes stored.  The
parameter is an `unsigned long long` (a signed argument is converted on the
call); `type r = (type)source` keeps the low `size` bytes. -/
def writeRaw (source : Int) (w : Width) : List UInt8 :=
  toLE w.bytes (wrapU 64 source).toNat

/-- `read_raw_unsigned_data(target, size)` on exactly the `size` bytes. -/
def readRawUnsigned (bs : List UInt8) : Int := (fromLE bs : Nat)

/-- `read_raw_signed_data(target, size)`: sign-extended to `long long`. -/
def readRawSigned (bs : List UInt8) : Int :=
  let u : Int := (fromLE bs : Nat)
  if u < 2 ^ (8 * bs.length - 1) then u else u - 2 ^ (8 * bs.length)

/-- memory after `memcpy(data, bs, len bs)` at the start of region `data` -/
def poke (data bs : List UInt8) : List UInt8 := bs ++ data.drop bs.length

/-! ### `convert_from_object`, integer branches (path A of C03) -/

/-- `_convert_overflow`: sets OverflowError unless an exception is already pending -/
def convertOverflow (p : Pending) : ErrKind :=
  match p with
  | some e => e
  | none => .overflow

/-- what the caller sees when a converter returns "ok" -/
def okUnless (p : Pending) : Except ErrKind Unit :=
  match p with
  | none => .ok ()
  | some _ => .error .systemError      -- returned 0 with an exception set

/-- `convert_from_object(data, ct, init)` for a Python `int` `init`: the memory
of the target region afterwards and the outcome.  Order as in the code:
convert, write to the scratch `buf`, compare, only then write to `data`. -/
def convertFromObject (T : IntType) (data : List UInt8) (v : Int) :
    List UInt8 × Except ErrKind Unit :=
  match T.kind with
  | .signed =>
    let (value, err) := myAsLongLong v
    match (if value = -1 then err else none) with
    | some e => (data, .error e)
    | none =>
      let buf := writeRaw value T.width
      if value ≠ readRawSigned buf then
        (data, .error (convertOverflow err))
      else (poke data (writeRaw value T.width), okUnless err)
  | .unsigned =>
    let (value, err) := myAsUnsignedLongLong v true
    match (if value = 2 ^ 64 - 1 then err else none) with
    | some e => (data, .error e)
    | none =>
      let buf := writeRaw value T.width
      if value ≠ readRawUnsigned buf then
        (data, .error (convertOverflow err))
      else (poke data (writeRaw value T.width), okUnless err)
  | .bool =>
    let (value, err) := myAsUnsignedLongLong v true
    match (if value = 2 ^ 64 - 1 then err else none) with
    | some e => (data, .error e)
    | none =>
      if value > 1 then (data, .error (convertOverflow err))
      else (poke data (writeRaw value T.width), okUnless err)
  | .char | .swchar =>
    -- `_convert_to_char*`: a Python int is not an initializer for a character type
    (data, .error .typeError)

/-! ### reading back: `convert_to_object` / `cdata_int` -/

/-- `int(cdata)` / item read of an integer or character primitive stored in
the first `T.bytes` bytes of `data` (`(long)` casts of FITS_LONG types are
value-preserving on LP64). -/
def readInt (T : IntType) (data : List UInt8) : Except ErrKind Int :=
  let obj := data.take T.bytes
  match T.kind with
  | .signed | .swchar => .ok (readRawSigned obj)
  | .unsigned | .char => .ok (readRawUnsigned obj)
  | .bool =>
    let value := readRawUnsigned obj
    if value = 0 then .ok 0 else if value = 1 then .ok 1 else .error .valueError

/-! ### the type table (x86-64 Linux, gcc/glibc) -/

def mk (name : String) (width : Width) (kind : Kind) : IntType :=
  { name := name, kind := kind, width := width }

/-- every integer primitive of the EPTYPE table, with LP64 sizes -/
def intTypes : List IntType := [
  mk "short" .w16 .signed, mk "int" .w32 .signed, mk "long" .w64 .signed, mk "long long" .w64 .signed,
  mk "signed char" .w8 .signed, mk "unsigned char" .w8 .unsigned, mk "unsigned short" .w16 .unsigned,
  mk "unsigned int" .w32 .unsigned, mk "unsigned long" .w64 .unsigned, mk "unsigned long long" .w64 .unsigned,
  mk "_Bool" .w8 .bool,
  mk "int8_t" .w8 .signed, mk "uint8_t" .w8 .unsigned, mk "int16_t" .w16 .signed, mk "uint16_t" .w16 .unsigned,
  mk "int32_t" .w32 .signed, mk "uint32_t" .w32 .unsigned, mk "int64_t" .w64 .signed, mk "uint64_t" .w64 .unsigned,
  mk "int_least8_t" .w8 .signed, mk "uint_least8_t" .w8 .unsigned,
  mk "int_least16_t" .w16 .signed, mk "uint_least16_t" .w16 .unsigned,
  mk "int_least32_t" .w32 .signed, mk "uint_least32_t" .w32 .unsigned,
  mk "int_least64_t" .w64 .signed, mk "uint_least64_t" .w64 .unsigned,
  mk "int_fast8_t" .w8 .signed, mk "uint_fast8_t" .w8 .unsigned,
  mk "int_fast16_t" .w64 .signed, mk "uint_fast16_t" .w64 .unsigned,
  mk "int_fast32_t" .w64 .signed, mk "uint_fast32_t" .w64 .unsigned,
  mk "int_fast64_t" .w64 .signed, mk "uint_fast64_t" .w64 .unsigned,
  mk "intptr_t" .w64 .signed, mk "uintptr_t" .w64 .unsigned,
  mk "intmax_t" .w64 .signed, mk "uintmax_t" .w64 .unsigned,
  mk "ptrdiff_t" .w64 .signed, mk "size_t" .w64 .unsigned, mk "ssize_t" .w64 .signed]

/-- the character primitives -/
def charTypes : List IntType := [
  mk "char" .w8 .char, mk "char16_t" .w16 .char, mk "char32_t" .w32 .char, mk "wchar_t" .w32 .swchar]

def castTypes : List IntType := intTypes ++ charTypes

def findType? (name : String) : Option IntType := castTypes.find? (·.name == name)

end CffiVerif.CInt
