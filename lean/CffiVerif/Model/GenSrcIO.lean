/-
Model of the input/output layers of the `cffi-gen-src` command line
(src/cffi/_cffi_gen_src.py: `read_sources`, `exec_python`, `write_c_source`)
and of `FFI.emit_c_code(filename)` (api.py:679 → recompiler.py:1414
`_make_c_or_py_source`).

What is modelled:
* files opened by argparse with `FileType('r', encoding='utf-8')` are read in
  text mode: strict UTF-8 decoding followed by universal-newline translation
  (`\r\n` and `\r` become `\n`);
* `open(output, 'w', encoding='utf-8')` / `open(tmp_file, 'w')` write in text
  mode: `\n` becomes `os.linesep`, then UTF-8 encoding (the locale encoding of
  `emit_c_code`'s `open` is assumed to be UTF-8);
* an OUTPUT path that already exists is opened with `'w'`: truncated, then
  written (`writeFileOnto`, `storeAt`);
* `sys.stdout.write`: CPython creates `sys.stdout` with `newline="\n"`, so no
  newline translation, then the (UTF-8) encoding (`emit_c_code` on a file-like
  target prints nothing; on a path it prints `generating <path>` to stdout,
  which is not part of the file).

What is a parameter (the same function on both sides): the generator
`gen name cdef prelude` = the text `FFI().cdef(cdef); set_source(name, prelude);
emit_c_code(StringIO)` produces (or the exception it raises), and
`exec src ffiVar` = the text emitted by the FFI object a Python script binds.

`str` = `List Nat` (code points, may contain lone surrogates), `bytes` =
`List Nat` (values < 256).
-/
namespace CffiVerif.GenSrcIO

abbrev Str := List Nat
abbrev Bytes := List Nat

inductive Err where
  | unicodeDecodeError
  | unicodeEncodeError
  | generator            -- whatever cdef()/set_source()/emit_c_code()/the script raise
  deriving Repr, DecidableEq

/-! ### UTF-8 -/

/-- a code point `str.encode('utf-8')` accepts (no surrogates) -/
def isScalar (c : Nat) : Bool := c < 0xD800 || (0xE000 ≤ c && c < 0x110000)

def encodeCp (c : Nat) : Bytes :=
  if c < 0x80 then [c]
  else if c < 0x800 then [0xC0 + c / 64, 0x80 + c % 64]
  else if c < 0x10000 then [0xE0 + c / 4096, 0x80 + c / 64 % 64, 0x80 + c % 64]
  else [0xF0 + c / 262144, 0x80 + c / 4096 % 64, 0x80 + c / 64 % 64, 0x80 + c % 64]

/-- `s.encode('utf-8')`; `none` = `UnicodeEncodeError` -/
def utf8Encode : Str → Option Bytes
  | [] => some []
  | c :: cs =>
    if isScalar c then
      match utf8Encode cs with
      | some bs => some (encodeCp c ++ bs)
      | none => none
    else none

def isCont (b : Nat) : Bool := 0x80 ≤ b && b < 0xC0

/-- one step of the strict decoder: the code point and the number of bytes used -/
def decodeStep : Bytes → Option (Nat × Nat)
  | [] => none
  | b0 :: rest =>
    if b0 < 0x80 then some (b0, 1)
    else if b0 < 0xC2 then none                    -- continuation byte or overlong lead
    else if b0 < 0xE0 then
      match rest with
      | b1 :: _ => if isCont b1 then some ((b0 - 0xC0) * 64 + (b1 - 0x80), 2) else none
      | _ => none
    else if b0 < 0xF0 then
      match rest with
      | b1 :: b2 :: _ =>
        if isCont b1 && isCont b2 then
          let c := (b0 - 0xE0) * 4096 + (b1 - 0x80) * 64 + (b2 - 0x80)
          if c < 0x800 || (0xD800 ≤ c && c < 0xE000) then none else some (c, 3)
        else none
      | _ => none
    else if b0 < 0xF5 then
      match rest with
      | b1 :: b2 :: b3 :: _ =>
        if isCont b1 && isCont b2 && isCont b3 then
          let c := (b0 - 0xF0) * 262144 + (b1 - 0x80) * 4096 + (b2 - 0x80) * 64 + (b3 - 0x80)
          if c < 0x10000 || 0x110000 ≤ c then none else some (c, 4)
        else none
      | _ => none
    else none

/-- `bs.decode('utf-8')` (strict); `none` = `UnicodeDecodeError`.  The fuel is
the number of bytes. -/
def utf8DecodeAux : Nat → Bytes → Option Str
  | 0, bs => if bs.isEmpty then some [] else none
  | fuel + 1, bs =>
    if bs.isEmpty then some []
    else
      match decodeStep bs with
      | none => none
      | some (c, k) =>
        match utf8DecodeAux fuel (bs.drop k) with
        | some s => some (c :: s)
        | none => none

def utf8Decode (bs : Bytes) : Option Str := utf8DecodeAux bs.length bs

/-! ### newline handling of text-mode files -/

/-- reading with `newline=None`: `\r\n` and `\r` are returned as `\n`.  The flag
says that the previous character was a `\r` (already returned as `\n`), as
the `pendingcr` of `io.IncrementalNewlineDecoder`. -/
def unl : Bool → Str → Str
  | _, [] => []
  | prevCR, c :: rest =>
    if c = 13 then 10 :: unl true rest
    else if c = 10 then (if prevCR then unl false rest else 10 :: unl false rest)
    else c :: unl false rest

def universalNewlines (s : Str) : Str := unl false s

/-- writing with `newline=None`: `\n` is written as `os.linesep` -/
def translateOut (linesep : Str) : Str → Str
  | [] => []
  | c :: cs => if c = 10 then linesep ++ translateOut linesep cs else c :: translateOut linesep cs

/-- `open(path, 'r', encoding='utf-8').read()` -/
def readText (file : Bytes) : Except Err Str :=
  match utf8Decode file with
  | none => .error .unicodeDecodeError
  | some s => .ok (universalNewlines s)

/-- `open(path, 'w', encoding='utf-8').write(text)`: the bytes of the file -/
def writeFile (linesep : Str) (text : Str) : Except Err Bytes :=
  match utf8Encode (translateOut linesep text) with
  | none => .error .unicodeEncodeError
  | some bs => .ok bs

/-- `open(path, 'w')` on a path that is absent (`none`) or holds some bytes: the
file is created, or truncated to length 0 -/
def openForWriting (_previous : Option Bytes) : Bytes := []

/-- `f.write(bs)` at offset `pos` of a file holding `content`: the bytes are
stored over what is there; nothing behind them is removed -/
def storeAt (content : Bytes) (pos : Nat) (bs : Bytes) : Bytes :=
  content.take pos ++ bs ++ content.drop (pos + bs.length)

/-- `with open(output, 'w', encoding='utf-8') as f: f.write(text)` when the
output path is in the state `previous` before the command: the bytes of the
file afterwards -/
def writeFileOnto (linesep : Str) (previous : Option Bytes) (text : Str) : Except Err Bytes :=
  match utf8Encode (translateOut linesep text) with
  | none => .error .unicodeEncodeError
  | some bs => .ok (storeAt (openForWriting previous) 0 bs)

/-- `sys.stdout.write(text)` (stdout has `newline="\n"`: no translation) -/
def writeStdout (text : Str) : Except Err Bytes :=
  match utf8Encode text with
  | none => .error .unicodeEncodeError
  | some bs => .ok bs

/-! ### the command line and the API -/

/-- where the C source goes: a path, or `-` -/
inductive Output where
  | file
  | stdout
  deriving Repr, DecidableEq

/-- What arrives at the destination `OUTPUT` designates.  The command line
generates into a `StringIO`; `_make_c_or_py_source` announces
`"generating <file name>"` on stdout only for real file names, never for a
file-like target, so nothing but the source is written to stdout. -/
def deliver (linesep : Str) (o : Output) (text : Str) : Except Err Bytes :=
  match o with
  | .file => writeFile linesep text
  | .stdout => writeStdout text

/-- `cffi-gen-src read-sources NAME CDEF CSRC OUTPUT`: the prelude is read
first, then the cdef (order of `read_sources`) -/
def cliReadSources (gen : Str → Str → Str → Except Err Str) (linesep : Str) (o : Output)
    (name : Str) (cdefFile csrcFile : Bytes) : Except Err Bytes := do
  let csrc ← readText csrcFile
  let cdef ← readText cdefFile
  let text ← gen name cdef csrc
  deliver linesep o text

/-- `read-sources` with a path as OUTPUT that is in the state `previous` (absent,
or a file with any content) before the command -/
def cliReadSourcesOnto (gen : Str → Str → Str → Except Err Str) (linesep : Str)
    (previous : Option Bytes) (name : Str) (cdefFile csrcFile : Bytes) : Except Err Bytes := do
  let csrc ← readText csrcFile
  let cdef ← readText cdefFile
  let text ← gen name cdef csrc
  writeFileOnto linesep previous text

/-- `exec-python` with a path as OUTPUT in the state `previous` -/
def cliExecPythonOnto (exec : Str → Str → Except Err Str) (linesep : Str)
    (previous : Option Bytes) (ffiVar : Str) (pyFile : Bytes) : Except Err Bytes := do
  let src ← readText pyFile
  let text ← exec src ffiVar
  writeFileOnto linesep previous text

/-- `ffi = FFI(); ffi.cdef(cdef); ffi.set_source(name, prelude); ffi.emit_c_code(path)`:
the contents of `path` -/
def apiEmit (gen : Str → Str → Str → Except Err Str) (linesep : Str)
    (name cdef csrc : Str) : Except Err Bytes := do
  let text ← gen name cdef csrc
  writeFile linesep text

/-- `cffi-gen-src exec-python [--ffi-var V] PYFILE OUTPUT` -/
def cliExecPython (exec : Str → Str → Except Err Str) (linesep : Str) (o : Output)
    (ffiVar : Str) (pyFile : Bytes) : Except Err Bytes := do
  let src ← readText pyFile
  let text ← exec src ffiVar
  deliver linesep o text

/-- executing the script text and calling `emit_c_code(path)` on what it binds -/
def apiExec (exec : Str → Str → Except Err Str) (linesep : Str)
    (ffiVar : Str) (src : Str) : Except Err Bytes := do
  let text ← exec src ffiVar
  writeFile linesep text

end CffiVerif.GenSrcIO
