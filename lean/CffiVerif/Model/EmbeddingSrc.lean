import CffiVerif.Model.Embedding

/-!
Source-level operations of `_cffi_carefully_make_gil`, `_cffi_start_python` and
`_cffi_start_and_call_python` (the vocabulary of `Generated/EmbeddingSteps.lean`, which
`translate/c28_steps.py` re-extracts from `_embedding.h` on every run), and the operation
sequences the hand-written transition system performs: `opsAt…` names the source operation(s)
each internal step of `Embedding.stepPc` stands for, `trace` runs `step?` for one thread and
collects them.  `Props/C28.lean` proves the generated control paths equal these traces.
-/
namespace CffiVerif.Embedding

inductive SrcOp
  | spinAcquire            -- the `while (1)` CAS loop on the lock word in libpython
  | pyIsInit (b : Bool)    -- outcome of `Py_IsInitialized()`
  | pyInitialize           -- `_cffi_py_initialize()` = `Py_InitializeEx(0)`
  | saveThread             -- `PyEval_SaveThread()`
  | spinRelease            -- `while (!CAS(lock, locked_value, old_value));`
  | retZero                -- `return 0`
  | makeGilOk (b : Bool)   -- `_cffi_carefully_make_gil() == 0`
  | acquireMutex           -- `_cffi_acquire_reentrant_mutex()`
  | called (b : Bool)      -- value of the static `called`
  | setCalled              -- `called = 1`
  | initOk (b : Bool)      -- `_cffi_initialize_python() == 0`
  | writeBarrier
  | publish                -- `_cffi_call_python = _cffi_call_python_org`
  | clearOrg               -- `_cffi_call_python_org = NULL`
  | releaseMutex           -- `_cffi_release_reentrant_mutex()`
  | retOrg                 -- `return _cffi_call_python_org`
  | retNull                -- `return NULL`
  | callStartPython        -- `fnptr = _cffi_start_python()`
  | fnNull (b : Bool)      -- `fnptr == NULL`
  | zeroResult             -- `memset(args, 0, externpy->size_of_result)`
  | callFn                 -- `fnptr(externpy, args)`
  | fallOffEnd             -- end of a `void` function
  deriving DecidableEq, Repr

/-- operations of `_cffi_carefully_make_gil` behind each internal step -/
def opsGil (s : State) (_ : Lib) : Pc → List SrcOp
  | .spinWait => [.spinAcquire]
  | .spinHeld => [.pyIsInit s.pyInit]
  | .needPyInit => [.pyInitialize]
  | .pyInitDone => [.saveThread]
  | .spinRelease => [.spinRelease, .retZero]
  | _ => []

/-- operations of `_cffi_start_python` (after `_cffi_carefully_make_gil` returned) behind each internal step;
the steps `initGil`, `initStartup`, `py init` are inside `_cffi_initialize_python()`, whose outcome
is known at `initEnd` -/
def opsStart (s : State) (L : Lib) : Pc → List SrcOp
  | .mutexWait => [.acquireMutex]
  | .mutexHeld => [.called (s.lib L).called]
  | .needLibInit => [.setCalled]
  | .initEnd ok => [.initOk ok]
  | .initResult true => [.writeBarrier, .publish]
  | .initResult false => [.clearOrg]
  | .mutexRelease => [.releaseMutex]
  | .gotFn => [.retOrg]
  | _ => []

/-- operations of `_cffi_start_and_call_python` behind each internal step -/
def opsCall (s : State) (L : Lib) : Pc → List SrcOp
  | .entry => if (s.lib L).fast then [] else [.callStartPython]
  | .gotFn => [.fnNull (!(s.lib L).org)]
  | .fnNull => [.zeroResult, .fallOffEnd]
  | .callPy => [.callFn, .fallOffEnd]
  | _ => []

/-- Run thread 0 alone (init code ends with outcome `initOk`) until `stop` holds of its head pc,
collecting the source operations of the steps taken. -/
def trace (ops : State → Lib → Pc → List SrcOp) (stop : Pc → Bool) (initOk : Bool) : Nat → State → List SrcOp
  | 0, _ => []
  | n + 1, s =>
    match s.thr 0 with
    | [] => []
    | f :: _ =>
      if stop f.pc then [] else
      let next := match f.pc with
        | .py .init => step? s (.finish 0 initOk)
        | _ => step? s (.step 0)
      match next with
      | some s' => ops s f.lib f.pc ++ trace ops stop initOk n s'
      | none => ops s f.lib f.pc

/-- thread 0 at `pc` in a call of library 0, nobody else around -/
def soloState (pc : Pc) (pyInit called org : Bool) : State :=
  { pyInit := pyInit, pyInitCount := if pyInit then 1 else 0,
    lib := fun L => if L = 0 then { called := called, org := org, initRuns := if called then 1 else 0,
                                     status := if called then (if org then .ok else .failed) else .notStarted }
                    else {},
    thr := fun t => if t = 0 then [⟨0, pc⟩] else [] }

def gilTrace (pyInit : Bool) : List SrcOp :=
  trace opsGil (· == .mutexWait) true 16 (soloState .spinWait pyInit false false)

def startTrace (called initOk : Bool) : List SrcOp :=
  trace opsStart (fun pc => pc == .callPy || pc == .fnNull) initOk 32 (soloState .mutexWait true called called)

def callTrace (org : Bool) : List SrcOp :=
  trace opsCall (fun pc => pc == .py .body || pc == .returned true) true 32 (soloState .entry true true org)

end CffiVerif.Embedding
