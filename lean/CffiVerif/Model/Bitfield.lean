import CffiVerif.Generated.BitfieldExprs

/-
Model of `convert_to_object_bitfield` (src/c/_cffi_backend.c:1184) and
`convert_from_object_bitfield` (1815).  The control structure is transcribed
by hand; every arithmetic expression is the regenerated definition of
`Generated/BitfieldExprs.lean`.

The storage unit of the field (the `ct_size` bytes at `data`, little endian)
is a `BitVec 64` holding the unit's value zero-extended; `write_raw_integer_data`
keeps the `ct_size` low bytes.  Python ints are `Int`.
-/
namespace CffiVerif.Bitfield
open CffiVerif CffiVerif.CBits
open CffiVerif.Generated.Bitfield

structure Field where
  size : Nat          -- ct_size of the field's integer type: 1, 2, 4 or 8
  signed : Bool       -- CT_PRIMITIVE_SIGNED
  bitshift : Nat      -- cf_bitshift
  bitsize : Nat       -- cf_bitsize
deriving Repr, DecidableEq

inductive Err | overflow
deriving Repr, DecidableEq

/-- `read_raw_signed_data(data, size)` as a 64-bit value. -/
def rawSigned (size : Nat) (mem : BitVec 64) : BitVec 64 :=
  (BitVec.setWidth (8 * size) mem).signExtend 64

/-- `read_raw_unsigned_data(data, size)`. -/
def rawUnsigned (size : Nat) (mem : BitVec 64) : BitVec 64 :=
  (BitVec.setWidth (8 * size) mem).setWidth 64

/-- `convert_to_object` on an integer type (the full-width path). -/
def plainRead (f : Field) (mem : BitVec 64) : Int :=
  if f.signed then (rawSigned f.size mem).toInt else (rawUnsigned f.size mem).toNat

def read (f : Field) (mem : BitVec 64) : Int :=
  if some f.bitsize = readGuard then plainRead f mem
  else if f.signed then
    let value := rawSigned f.size mem
    let valuemask := rd_s_valuemask f.bitsize f.bitshift
    let shiftforsign := rd_s_shiftforsign f.bitsize f.bitshift
    let value := rd_s_value value valuemask shiftforsign f.bitsize f.bitshift
    (rd_s_result value shiftforsign).toInt            -- PyLong_FromLongLong(result)
  else
    let value := rawUnsigned f.size mem
    let valuemask := rd_u_valuemask f.bitsize f.bitshift
    (rd_u_value value valuemask f.bitsize f.bitshift).toNat   -- PyLong_FromUnsignedLongLong(value)

/-- `convert_from_object` on an integer type of `size` bytes: range check, then
the `size` low bytes are written. -/
def plainWrite (f : Field) (_mem : BitVec 64) (v : Int) : Except Err (BitVec 64) :=
  let n := 8 * f.size
  if f.signed then
    if -(2 : Int) ^ (n - 1) ≤ v ∧ v < (2 : Int) ^ (n - 1) then .ok (rawUnsigned f.size (BitVec.ofInt 64 v))
    else .error .overflow
  else
    if 0 ≤ v ∧ v < (2 : Int) ^ n then .ok (rawUnsigned f.size (BitVec.ofInt 64 v)) else .error .overflow

/-- The decision part of `convert_from_object_bitfield`: `true` iff the store
raises OverflowError (before anything is written). -/
def rejects (f : Field) (v : Int) : Bool :=
  if v < -(2 : Int) ^ 63 ∨ (2 : Int) ^ 63 ≤ v then true                    -- PyLong_AsLongLong fails
  else
    let value := BitVec.ofInt 64 v
    let fmin := if f.signed then wr_s_fmin f.bitsize f.bitshift else wr_u_fmin
    let fmax := if f.signed then
        (let m := wr_s_fmax f.bitsize f.bitshift
         if wr_special_cond m then wr_special_fmax else m)
      else wr_u_fmax f.bitsize f.bitshift
    wr_overflow value fmin fmax

/-- The storage unit after an accepted store. -/
def stored (f : Field) (mem : BitVec 64) (v : Int) : BitVec 64 :=
  let value := BitVec.ofInt 64 v
  let rawmask := wr_rawmask f.bitsize f.bitshift
  let rawvalue := wr_rawvalue value f.bitsize f.bitshift
  let rawfielddata := rawUnsigned f.size mem                       -- read_raw_unsigned_data
  let rawfielddata := wr_combine rawfielddata rawmask rawvalue
  rawUnsigned f.size rawfielddata                                  -- write_raw_integer_data(data, …, size)

def write (f : Field) (mem : BitVec 64) (v : Int) : Except Err (BitVec 64) :=
  if some f.bitsize = writeGuard then plainWrite f mem v           -- full width: convert_from_object
  else if rejects f v then .error .overflow
  else .ok (stored f mem v)

end CffiVerif.Bitfield
