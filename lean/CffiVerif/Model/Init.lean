import CffiVerif.Model.InitBase
import CffiVerif.Generated.InitExprs

/-
Model of `ffi.new` and of assignment into existing C memory
(`src/c/_cffi_backend.c`): `direct_newp` (3843), `convert_from_object` (1644),
`convert_array_from_object` (1480), `convert_struct_from_object` (1578),
`convert_vfield_from_object` (1418), `convert_field_from_object` (1385),
`convert_from_object_bitfield` (1819), `get_new_array_length` (1345),
`add_varsize_length` (1395), `_cdata_var_byte_size` (2195),
`direct_sizeof_cdata` (6590).

C memory is a `List UInt8`, little endian.  Types carry the layout *as data*
(field offsets, struct sizes, array item sizes are what the real
`ffi.typeof(T).fields` / `ffi.sizeof` report); the model never computes a
layout.  A write outside the allocation is the outcome `Err.oob`
(undefined behaviour in C, not an exception), so memory safety of the var-size
pre-pass is a statement about the model never producing it.

Not modelled: float/complex/wide-char leaves, integer-typed or char-typed cdata
used as scalar initialisers, `str` initialisers (always `TypeError` for the
types modelled), custom allocators, anonymous nested struct/union members
(their fields are flattened by the real `fields` attribute and appear here as
ordinary fields).  Type identity of a cdata initialiser (`cd->c_type == ct`) is
an input (`same`).

Tie to the source: every size expression and size-related condition below (`InitExprs.*`) is
regenerated from `_cffi_backend.c` by translate/init_exprs.py on each check run
(`Generated/InitExprs.lean`); Proofs/Init.lean shows that the definitions built from them equal
the reference forms (`…Ref`) the theorems are proved about, so a change of the C expressions is
re-checked by the kernel.
-/
namespace CffiVerif.Init
open CffiVerif.Generated

/-- Exception *types* of the real code plus the undefined-behaviour outcome. -/
inductive Err
  | type | overflow | index | value | key | system | memory
  | oob        -- a write outside the allocated block
  | protocol   -- malformed model input (a cdata payload shorter than what is copied, a bit-field of a non-integer type)
  deriving DecidableEq, Repr, Inhabited

abbrev Mem := List UInt8
abbrev R := Except Err

instance instDecEqR {α : Type} [DecidableEq α] : DecidableEq (R α)
  | .ok a, .ok b => if h : a = b then isTrue (by rw [h]) else isFalse (by intro h'; cases h'; exact h rfl)
  | .error a, .error b => if h : a = b then isTrue (by rw [h]) else isFalse (by intro h'; cases h'; exact h rfl)
  | .ok _, .error _ => isFalse (by intro h; cases h)
  | .error _, .ok _ => isFalse (by intro h; cases h)

def zeros (n : Nat) : Mem := List.replicate n 0

/-- `memcpy(data + off, bs, len bs)` into a block of `m.length` bytes. -/
def write (m : Mem) (off : Nat) (bs : List UInt8) : R Mem :=
  if off + bs.length ≤ m.length then .ok (m.take off ++ bs ++ m.drop (off + bs.length))
  else .error .oob

/-- `write_raw_integer_data`: the low `size` bytes of `v`, little endian. -/
def leBytes : Nat → Nat → List UInt8
  | 0, _ => []
  | s + 1, v => UInt8.ofNat (v % 256) :: leBytes s (v / 256)

/-- `read_raw_unsigned_data`. -/
def leValue : List UInt8 → Nat
  | [] => 0
  | b :: bs => b.toNat + 256 * leValue bs

inductive Prim
  | int (size : Nat) (signed : Bool)   -- CT_PRIMITIVE_SIGNED / CT_PRIMITIVE_UNSIGNED, size 1,2,4,8
  | bool                               -- `_Bool`: CT_PRIMITIVE_UNSIGNED | CT_IS_BOOL
  | char                               -- `char`: CT_PRIMITIVE_CHAR of size 1
  | ptr                                -- any data pointer
  deriving DecidableEq, Repr

def Prim.size : Prim → Nat
  | .int s _ => s
  | .bool => 1
  | .char => 1
  | .ptr => 8

structure FieldInfo where
  name : Nat                       -- interned field name
  off : Nat                        -- cf_offset
  bits : Option (Nat × Nat)        -- (cf_bitshift, cf_bitsize) of a bit-field
  ignore : Bool                    -- BF_IGNORE_IN_CTOR
  deriving DecidableEq, Repr

mutual
inductive Ty
  | prim (p : Prim)
  | arr (item : Ty) (isz : Nat) (len : Option Nat)   -- `len = none`: open `T[]` (ct_length < 0)
  | agg (size : Nat) (fields : Fields)               -- struct or union (a union's later fields carry `ignore`)
inductive Fields
  | nil
  | cons (info : FieldInfo) (ty : Ty) (rest : Fields)
end

mutual
inductive Init
  | int (v : Int)                            -- Python int / bool
  | bytes (b : List UInt8)
  | seq (items : Inits)                      -- list or tuple
  | dict (kvs : KVs)                         -- in iteration order
  | cdata (same : Bool) (data : List UInt8)  -- a cdata object; `same`: its ctype is the target's ctype (for pointers: an accepted pointer type); `data`: the bytes memcpy would read
  | other                                    -- None, float: an object no converter accepts
inductive Inits
  | nil
  | cons (x : Init) (xs : Inits)
inductive KVs
  | nil
  | cons (key : Nat) (v : Init) (rest : KVs)
end

def Inits.length : Inits → Nat
  | .nil => 0
  | .cons _ xs => xs.length + 1

def Init.isCData : Init → Bool
  | .cdata _ _ => true
  | _ => false

/-- `ct_size` (`none`: −1, an open array). -/
def Ty.size? : Ty → Option Nat
  | .prim p => some p.size
  | .arr _ isz (some l) => some (isz * l)
  | .arr _ _ none => none
  | .agg size _ => some size

def Ty.isOpenArr : Ty → Bool
  | .arr _ _ none => true
  | _ => false

mutual
/-- `CT_WITH_VAR_ARRAY` as `b_complete_struct_or_union` sets it (5224-5246). -/
def Ty.withVar : Ty → Bool
  | .agg _ fs => fs.anyVar
  | _ => false
def Fields.anyVar : Fields → Bool
  | .nil => false
  | .cons _ ty rest => ty.isOpenArr || ty.withVar || rest.anyVar
end

/-- The `while (cf != NULL && (cf->cf_flags & BF_IGNORE_IN_CTOR)) cf = cf->cf_next;` loop. -/
def Fields.skipIgnored : Fields → Fields
  | .nil => .nil
  | .cons info ty rest => if info.ignore then rest.skipIgnored else .cons info ty rest

/-- `PyDict_GetItem(ct->ct_stuff, key)`. -/
def Fields.find (name : Nat) : Fields → Option (FieldInfo × Ty)
  | .nil => none
  | .cons info ty rest => if info.name = name then some (info, ty) else rest.find name

/-- Array items that accept a `bytes` initialiser: CT_PRIMITIVE_CHAR, or a signed/unsigned
integer (including `_Bool`) of size 1. -/
def Ty.isByteLike : Ty → Bool
  | .prim .char => true
  | .prim .bool => true
  | .prim (.int s _) => s == 1
  | _ => false

def Ty.isBool : Ty → Bool
  | .prim .bool => true
  | _ => false

/-- `get_new_array_length`: the length, and whether `value` was replaced by `None`
(an explicit integer length). -/
def newArrayLength : Init → R (Nat × Bool)
  | .seq items => .ok (items.length, false)
  | .bytes b => .ok ((InitExprs.nalBytes b.length).toNat, false)
  | .int v =>
      if v < -(2:Int)^63 ∨ v ≥ (2:Int)^63 then .error .overflow      -- PyNumber_AsSsize_t
      else if InitExprs.nalNegative v then .error .value
      else .ok (v.toNat, true)
  | _ => .error .type

/-- `add_varsize_length(offset, itemsize, varsizelength, &optvarsize)`. -/
def addVarsize (offset itemsize n cur : Nat) : R Nat :=
  let size := InitExprs.avSize offset itemsize n
  if InitExprs.avOverflow size offset itemsize n then .error .overflow
  else .ok (if InitExprs.avUpdate size cur then size.toNat else cur)

/-- One store performed by a conversion (or the exception that stops it). -/
inductive Op
  | store (off : Nat) (bs : List UInt8)                 -- `memcpy` / `write_raw_integer_data`
  | rmw (off s shift bsz : Nat) (v : Int)               -- bit-field update of the `s`-byte storage unit at `off`
  | fail (e : Err)
  deriving DecidableEq, Repr

/-- The storage unit after `convert_from_object_bitfield` stored `v` (1872-1877). -/
def rmwValue (raw shift bsz : Nat) (v : Int) : Nat :=
  let mask := ((2^bsz - 1) <<< shift) % 2^64
  let rawvalue := ((v % (2:Int)^64).toNat <<< shift) % 2^64
  (raw &&& (2^64 - 1 - mask)) ||| (rawvalue &&& mask)

def Op.exec (m : Mem) : Op → R Mem
  | .store off bs => write m off bs
  | .rmw off s shift bsz v =>
      if off + s ≤ m.length then
        write m off (leBytes s (rmwValue (leValue ((m.drop off).take s)) shift bsz v))
      else .error .oob
  | .fail e => .error e

/-- `convert_from_object` on an integer, `_Bool`, `char` or pointer type: the store it makes. -/
def primOp (off : Nat) (p : Prim) (init : Init) : Op :=
  match p, init with
  | .int s true, .int v =>
      if v < -(2:Int)^63 ∨ v ≥ (2:Int)^63 then .fail .overflow      -- _my_PyLong_AsLongLong
      else if v < -(2:Int)^(8*s-1) ∨ v ≥ (2:Int)^(8*s-1) then .fail .overflow
      else .store off (leBytes s (v % (2:Int)^64).toNat)
  | .int s false, .int v =>
      if v < 0 ∨ v ≥ (2:Int)^64 then .fail .overflow                 -- _my_PyLong_AsUnsignedLongLong(strict)
      else if v ≥ (2:Int)^(8*s) then .fail .overflow
      else .store off (leBytes s v.toNat)
  | .bool, .int v =>
      if v < 0 ∨ v ≥ (2:Int)^64 then .fail .overflow
      else if v > 1 then .fail .overflow
      else .store off (leBytes 1 v.toNat)
  | .char, .bytes [b] => .store off [b]
  | .ptr, .cdata true data => if data.length = 8 then .store off data else .fail .protocol
  | _, _ => .fail .type

def convertPrim (m : Mem) (off : Nat) (p : Prim) (init : Init) : R Mem :=
  (primOp off p init).exec m

/-- `convert_from_object_bitfield(data, cf, init)`; `s` is the size of the storage unit. -/
def bitfieldOp (off : Nat) (p : Prim) (shift bsz : Nat) (init : Init) : Op :=
  let go (s : Nat) (signed : Bool) : Op :=
    if bsz = 64 then primOp off p init        -- full 64-bit width: a regular field
    else match init with
    | .int v =>
        if v < -(2:Int)^63 ∨ v ≥ (2:Int)^63 then .fail .overflow    -- PyLong_AsLongLong
        else
          let fmin : Int := if signed then -(2:Int)^(bsz-1) else 0
          let fmax : Int := if signed then (if (2:Int)^(bsz-1) - 1 = 0 then 1 else (2:Int)^(bsz-1) - 1)
                            else (2:Int)^bsz - 1
          if v < fmin ∨ v > fmax then .fail .overflow
          else .rmw off s shift bsz v
    | _ => .fail .type
  match p with
  | .int s signed => go s signed
  | .bool => go 1 false
  | _ => .fail .protocol

def convertBitfield (m : Mem) (off : Nat) (p : Prim) (shift bsz : Nat) (init : Init) : R Mem :=
  (bitfieldOp off p shift bsz init).exec m

/-- How `convert_from_object` was reached: directly (item assignment, array item,
top level of `ffi.new`) or through `convert_vfield_from_object` for a field. -/
inductive FieldCtx
  | plain
  | field (bits : Option (Nat × Nat))
  deriving DecidableEq, Repr

/-- `ct_length` as the C code sees it: −1 for an open array. -/
def ctLength (len : Option Nat) : Int :=
  match len with
  | some l => l
  | none => -1

/-- `ct->ct_length >= 0 && n > ct->ct_length` (too many initialisers / bytes too long). -/
def tooMany (len : Option Nat) (n : Nat) : Bool :=
  InitExprs.caTooMany n (ctLength len)

/-- The bytes `memcpy` copies for a `bytes` initialiser: `if (n != ct->ct_length) n++;` takes the
terminating NUL of the bytes object along. -/
def bytesPayload (len : Option Nat) (b : List UInt8) : List UInt8 :=
  if InitExprs.caAddNul b.length (ctLength len) then b ++ [0] else b

mutual
/-- `convert_from_object(data + off, ty, init)`, or for `fc = .field bits` the body of
`convert_vfield_from_object(data, cf, init, NULL)` with `off` already advanced by
`cf_offset`. -/
def convert (m : Mem) (off : Nat) (ty : Ty) (fc : FieldCtx) (init : Init) : R Mem :=
  match ty with
  | .prim p =>
      match fc with
      | .field (some (shift, bsz)) => convertBitfield m off p shift bsz init
      | _ => convertPrim m off p init
  | .agg size fs =>
      match fc with
      | .field (some _) => .error .protocol
      | _ =>
        match init with
        | .cdata true data =>
            if size ≤ data.length then write m off (data.take size) else .error .protocol
        | .seq items => convertSeq m off fs items
        | .dict kvs => convertDict m off fs kvs
        | _ => .error .type
  | .arr item isz len =>
      match fc with
      | .field (some _) => .error .protocol
      | _ =>
        match init with
        | .seq items =>
            if tooMany len items.length then .error .index
            else convertItems m off item isz items
        | .bytes b =>
            if item.isByteLike then
              if tooMany len b.length then .error .index
              else
                let payload := bytesPayload len b
                if item.isBool && payload.any (fun c => decide (c > 1)) then .error .value
                else write m off payload
            else .error .type
        | .int v =>
            match fc, len with
            | .field _, none =>
                -- explicit length of a var-sized field: nothing is written
                match newArrayLength (.int v) with
                | .ok _ => .ok m
                | .error e => .error e
            | _, _ => .error .type
        | .cdata same data =>
            match fc, len with
            | .field _, none => .error .type       -- get_new_array_length rejects a cdata
            | _, some l =>
                -- same array ctype: get_array_length(cd) * itemsize bytes are copied
                if same then (if data.length = isz * l then write m off data else .error .protocol)
                else .error .type
            | _, none => if same then write m off data else .error .type
        | .dict _ => .error .type
        | .other => .error .type

/-- The item loop of `convert_array_from_object`. -/
def convertItems (m : Mem) (off : Nat) (item : Ty) (isz : Nat) (items : Inits) : R Mem :=
  match items with
  | .nil => .ok m
  | .cons x xs =>
      match convert m off item .plain x with
      | .ok m' => convertItems m' (off + isz) item isz xs
      | .error e => .error e

/-- The list/tuple loop of `convert_struct_from_object(data, ct, init, NULL)`; `cf` is the
current position in the field list. -/
def convertSeq (m : Mem) (off : Nat) (cf : Fields) (items : Inits) : R Mem :=
  match items with
  | .nil => .ok m
  | .cons x xs =>
      match cf.skipIgnored with
      | .nil => .error .value
      | .cons info ty rest =>
          match convert m (off + info.off) ty (.field info.bits) x with
          | .ok m' => convertSeq m' off rest xs
          | .error e => .error e

/-- The dict loop of `convert_struct_from_object(data, ct, init, NULL)`. -/
def convertDict (m : Mem) (off : Nat) (fs : Fields) (kvs : KVs) : R Mem :=
  match kvs with
  | .nil => .ok m
  | .cons k v rest =>
      match fs.find k with
      | none => .error .key
      | some (info, ty) =>
          match convert m (off + info.off) ty (.field info.bits) v with
          | .ok m' => convertDict m' off fs rest
          | .error e => .error e
end

/-! The same control flow as `convert`, but only *listing* the stores (in execution order,
ending with the failure if the conversion raises).  `convert_eq_exec` (Proofs/Init.lean)
shows that `convert` is `execOps` of this list; the list is the specification of
"where `init` writes" used by `untouched_bytes_zero`. -/

def execOps (m : Mem) : List Op → R Mem
  | [] => .ok m
  | op :: rest =>
      match op.exec m with
      | .ok m' => execOps m' rest
      | .error e => .error e

mutual
def plan (off : Nat) (ty : Ty) (fc : FieldCtx) (init : Init) : List Op :=
  match ty with
  | .prim p =>
      match fc with
      | .field (some (shift, bsz)) => [bitfieldOp off p shift bsz init]
      | _ => [primOp off p init]
  | .agg size fs =>
      match fc with
      | .field (some _) => [.fail .protocol]
      | _ =>
        match init with
        | .cdata true data =>
            if size ≤ data.length then [.store off (data.take size)] else [.fail .protocol]
        | .seq items => planSeq off fs items
        | .dict kvs => planDict off fs kvs
        | _ => [.fail .type]
  | .arr item isz len =>
      match fc with
      | .field (some _) => [.fail .protocol]
      | _ =>
        match init with
        | .seq items =>
            if tooMany len items.length then [.fail .index]
            else planItems off item isz items
        | .bytes b =>
            if item.isByteLike then
              if tooMany len b.length then [.fail .index]
              else
                let payload := bytesPayload len b
                if item.isBool && payload.any (fun c => decide (c > 1)) then [.fail .value]
                else [.store off payload]
            else [.fail .type]
        | .int v =>
            match fc, len with
            | .field _, none =>
                match newArrayLength (.int v) with
                | .ok _ => []
                | .error e => [.fail e]
            | _, _ => [.fail .type]
        | .cdata same data =>
            match fc, len with
            | .field _, none => [.fail .type]
            | _, some l =>
                if same then (if data.length = isz * l then [.store off data] else [.fail .protocol])
                else [.fail .type]
            | _, none => if same then [.store off data] else [.fail .type]
        | .dict _ => [.fail .type]
        | .other => [.fail .type]

def planItems (off : Nat) (item : Ty) (isz : Nat) (items : Inits) : List Op :=
  match items with
  | .nil => []
  | .cons x xs => plan off item .plain x ++ planItems (off + isz) item isz xs

def planSeq (off : Nat) (cf : Fields) (items : Inits) : List Op :=
  match items with
  | .nil => []
  | .cons x xs =>
      match cf.skipIgnored with
      | .nil => [.fail .value]
      | .cons info ty rest => plan (off + info.off) ty (.field info.bits) x ++ planSeq off rest xs

def planDict (off : Nat) (fs : Fields) (kvs : KVs) : List Op :=
  match kvs with
  | .nil => []
  | .cons k v rest =>
      match fs.find k with
      | none => [.fail .key]
      | some (info, ty) => plan (off + info.off) ty (.field info.bits) v ++ planDict off fs rest
end

/-- The bytes an operation may change. -/
def Op.covers (i : Nat) : Op → Bool
  | .store off bs => decide (off ≤ i ∧ i < off + bs.length)
  | .rmw off s _ _ _ => decide (off ≤ i ∧ i < off + s)
  | .fail _ => false

/-- The operation stays inside a block of `n` bytes (and is not itself the
undefined-behaviour outcome). -/
def Op.fitsIn (n : Nat) : Op → Bool
  | .store off bs => decide (off + bs.length ≤ n)
  | .rmw off s _ _ _ => decide (off + s ≤ n)
  | .fail e => e != .oob

mutual
/-- `convert_vfield_from_object(NULL, cf, value, &optvarsize)`: `cur` is `*optvarsize`. -/
def prepassField (info : FieldInfo) (ty : Ty) (v : Init) (cur : Nat) : R Nat :=
  match ty with
  | .arr _ isz none =>
      match newArrayLength v with
      | .ok (n, _) => addVarsize info.off isz n cur
      | .error e => .error e
  | .agg size fs =>
      if fs.anyVar then
        match v with
        | .cdata _ _ => .ok cur
        | .seq items =>
            match prepassSeq fs items size with
            | .ok sub => addVarsize info.off 1 sub cur
            | .error e => .error e
        | .dict kvs =>
            match prepassDict fs kvs size with
            | .ok sub => addVarsize info.off 1 sub cur
            | .error e => .error e
        | _ => .error .type
      else .ok cur
  | _ => .ok cur

/-- List/tuple loop of `convert_struct_from_object(NULL, ct, init, &optvarsize)`. -/
def prepassSeq (cf : Fields) (items : Inits) (cur : Nat) : R Nat :=
  match items with
  | .nil => .ok cur
  | .cons x xs =>
      match cf.skipIgnored with
      | .nil => .error .value
      | .cons info ty rest =>
          match prepassField info ty x cur with
          | .ok cur' => prepassSeq rest xs cur'
          | .error e => .error e

def prepassDict (fs : Fields) (kvs : KVs) (cur : Nat) : R Nat :=
  match kvs with
  | .nil => .ok cur
  | .cons k v rest =>
      match fs.find k with
      | none => .error .key
      | some (info, ty) =>
          match prepassField info ty v cur with
          | .ok cur' => prepassDict fs rest cur'
          | .error e => .error e
end

/-- `convert_struct_from_object(NULL, ct, init, &optvarsize)` as called by `direct_newp`:
it does not accept a cdata (`_convert_error`: `SystemError` when the ctype is the very same,
`TypeError` otherwise). -/
def prepassStruct (fs : Fields) (init : Init) (cur : Nat) : R Nat :=
  match init with
  | .seq items => prepassSeq fs items cur
  | .dict kvs => prepassDict fs kvs cur
  | .cdata true _ => .error .system
  | _ => .error .type

/-- The memory block owned by the result of `ffi.new` and the `length` slot of
`CDataObject_own_length` when the object has one (bytes for a var-sized struct,
items for an open array). -/
structure Owned where
  data : Mem
  length : Option Nat
  deriving DecidableEq, Repr

def Ty.isCharPrim : Ty → Bool
  | .prim .char => true
  | _ => false

/-- `ct_size` as the C code sees it: −1 when unknown. -/
def Ty.ctSize (ty : Ty) : Int :=
  match ty.size? with
  | some s => s
  | none => -1

/-- Size computation of `direct_newp` for `ct = ty *`. -/
def allocPtr (ty : Ty) (init : Option Init) : R (Nat × Option Nat) :=
  if InitExprs.npUnknownSize ty.ctSize then .error .type    -- "cannot instantiate ctype of unknown size"
  else
    -- forcefully add another character: a null
    let sz1 := if ty.isCharPrim then (InitExprs.npCharSize ty.ctSize).toNat else ty.ctSize.toNat
    match ty with
    | .agg _ fs =>
        if fs.anyVar then
          -- `if (init != Py_None && !CData_Check(init))`: no initialiser or a cdata gives no extra length
          if InitExprs.npPrepassGuard init.isSome (match init with | some i => i.isCData | none => false) then
            match init with
            | some i =>
                match prepassStruct fs i sz1 with
                | .ok d => .ok (d, some d)
                | .error e => .error e
            | none => .error .protocol      -- not reachable: the guard is false without an initialiser
          else .ok (sz1, some sz1)
        else .ok (sz1, none)
    | _ => .ok (sz1, none)

/-- Size computation of `direct_newp` for an array ctype; also returns the initialiser that
is left (an integer length is replaced by `None`). -/
def allocArr (isz : Nat) (len : Option Nat) (init : Option Init) : R (Nat × Option Nat × Option Init) :=
  let ctsize : Int := match len with
    | some l => ((isz * l : Nat) : Int)
    | none => -1
  if InitExprs.npOpenArray ctsize then
    match init with
    | none => .error .type                  -- get_new_array_length(None)
    | some i =>
        match newArrayLength i with
        | .error e => .error e
        | .ok (n, wasInt) =>
            let datasize := InitExprs.npArrSize n isz
            if InitExprs.npArrOverflow datasize n isz then .error .overflow
            else .ok (datasize.toNat, some n, if wasInt then none else some i)
  else .ok (ctsize.toNat, none, init)

/-- `direct_newp(ct, init, &default_allocator)`: `isPtr` selects `ct = ty *` or `ct = ty`
(an array type).  `limit`: the largest block `calloc` hands out. -/
def newp (limit : Nat) (isPtr : Bool) (ty : Ty) (init : Option Init) : R Owned :=
  if isPtr then
    match allocPtr ty init with
    | .error e => .error e
    | .ok (datasize, length) =>
        if datasize > limit then .error .memory
        else match init with
          | none => .ok ⟨zeros datasize, length⟩
          | some i =>
              match convert (zeros datasize) 0 ty .plain i with
              | .ok m => .ok ⟨m, length⟩
              | .error e => .error e
  else
    match ty with
    | .arr _ isz len =>
        match allocArr isz len init with
        | .error e => .error e
        | .ok (datasize, length, init') =>
            if datasize > limit then .error .memory
            else match init' with
              | none => .ok ⟨zeros datasize, length⟩
              | some i =>
                  match convert (zeros datasize) 0 ty .plain i with
                  | .ok m => .ok ⟨m, length⟩
                  | .error e => .error e
    | _ => .error .type                       -- "expected a pointer or array ctype"

/-- `_cdata_var_byte_size`: the length slot of an owning object of a var-sized struct type, else −1. -/
def varByteSize (withVar : Bool) (o : Owned) : Option Int :=
  if withVar then o.length.map (fun n => (n : Int)) else some (-1)

/-- `ffi.sizeof(p[0])` for `p = ffi.new("T *", …)`, `T` a struct or union
(`direct_sizeof_cdata` → `_cdata_var_byte_size`), and `len(ffi.buffer(p))`. -/
def sizeofDeref (ty : Ty) (o : Owned) : Option Nat :=
  match ty with
  | .agg size fs =>
      (varByteSize fs.anyVar o).map fun v =>
        if InitExprs.szFallback v then size else v.toNat
  | _ => none

/-- `ffi.sizeof(a)` for `a = ffi.new("T[n]" / "T[]", …)`: `get_array_length(cd) * itemsize`. -/
def sizeofArr (isz : Nat) (len : Option Nat) (o : Owned) : Option Nat :=
  match len with
  | some l => some (InitExprs.szArray (l : Int) (isz : Int)).toNat
  | none => o.length.map fun (n : Nat) => (InitExprs.szArray (n : Int) (isz : Int)).toNat

/-! Well-formedness of a type description (what the layout code guarantees; checked on
every real type by the correspondence run). -/

def Prim.wf : Prim → Bool
  | .int s _ => s == 1 || s == 2 || s == 4 || s == 8
  | _ => true

def bitsWf (p : Prim) (bits : Option (Nat × Nat)) : Bool :=
  match bits with
  | none => true
  | some (shift, bsz) =>
      match p with
      | .int s _ => decide (1 ≤ bsz) && decide (shift + bsz ≤ 8 * s)
      | .bool => decide (1 ≤ bsz) && decide (shift + bsz ≤ 8)
      | _ => false

mutual
/-- Every field lies inside its aggregate (an open array starts inside it), array item
sizes are the sizes of the item types, bit-fields sit on integer storage units, sizes fit a
`Py_ssize_t`. -/
def Ty.wf : Ty → Bool
  | .prim p => p.wf
  | .arr item isz _ => item.wf && (item.size? == some isz)
  | .agg size fs => decide (size < 2^63) && fs.wf size
def Fields.wf (size : Nat) : Fields → Bool
  | .nil => true
  | .cons info ty rest =>
      ty.wf && rest.wf size &&
      (match ty with
       | .prim p => bitsWf p info.bits && decide (info.off + p.size ≤ size)
       | .arr _ isz (some l) => info.bits.isNone && decide (info.off + isz * l ≤ size)
       | .arr _ _ none => info.bits.isNone && decide (info.off ≤ size)
       | .agg sz _ => info.bits.isNone && decide (info.off + sz ≤ size))
end

mutual
/-- No array (fixed or open, top level or field) has items of a var-sized struct type. -/
def Ty.noVarItems : Ty → Bool
  | .prim _ => true
  | .arr item _ _ => !item.withVar && item.noVarItems
  | .agg _ fs => fs.noVarItems
def Fields.noVarItems : Fields → Bool
  | .nil => true
  | .cons _ ty rest => ty.noVarItems && rest.noVarItems
end

/-! Vocabulary of the property statements. -/

/-- Item-by-item assignment `a[k] = x_k`, `k = start, start+1, …` (`cdata_ass_sub`). -/
def assignItems (m : Mem) (k : Nat) (item : Ty) (isz : Nat) : Inits → R Mem
  | .nil => .ok m
  | .cons x xs =>
      match convert m (k * isz) item .plain x with
      | .ok m' => assignItems m' (k + 1) item isz xs
      | .error e => .error e


/-- All fields carry `BF_IGNORE_IN_CTOR` (the members of a union after the first). -/
def Fields.allIgnored : Fields → Bool
  | .nil => true
  | .cons info _ rest => info.ignore && Fields.allIgnored rest


/-- Number of fields a list/tuple initialiser can reach. -/
def Fields.ctorCount : Fields → Nat
  | .nil => 0
  | .cons info _ rest => (if info.ignore then 0 else 1) + Fields.ctorCount rest


end CffiVerif.Init
