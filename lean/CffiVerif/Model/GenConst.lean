import CffiVerif.Model.CheckIntOps
import CffiVerif.Generated.VerifyMacros
/-!
Model of the integer-constant protocols of `ffi.verify()` (C33).

* generic engine (vengine_gen.py): the generated `int _cffi_const_NAME(long long *out_value)`
  stores `(long long)(NAME)` and returns `(NAME) <= 0`; `_load_constant` reads both and, when the
  stored value is negative although the constant is positive, adds 2^64.
* both engines: when the cdef gave a value (`#define NAME 5`, non-partial enums) the generated
  `_check_int_constant_value` test makes the load fail with `VerificationError`.
* CPython engine (vengine_cpy.py): `_cffi_from_c_int_const(NAME)` builds the Python int directly.
The C expressions are the regenerated terms of `Generated/VerifyMacros.lean`; `x` is the value
the C compiler gives to the constant expression.
-/
namespace CffiVerif.GenConst
open CffiVerif.CheckIntOps
open CffiVerif.Generated

/-- `_load_constant` (vengine_gen.py:437), the `is_int` branch without `check_value`:
    `negative = function(p); value = int(p[0]); if value < 0 and not negative: value += 1 << 64`. -/
def loadConstant (outValue negative : Int) : Int :=
  if outValue < 0 ∧ negative = 0 then outValue + two64 else outValue

/-- The generic engine's value of an integer constant whose C value is `x`. -/
def genConst (x : Int) : Int :=
  loadConstant (VerifyMacros.genOutValue x) (VerifyMacros.genNegative x)

inductive Err where
  | verificationError
  deriving Repr, DecidableEq

/-- `_check_int_constant_value`: the condition under which the generated function returns -1
    (the Python side then raises `VerificationError`); `e` is the cdef's value. -/
def genCheckFires (e x : Int) : Bool :=
  if e ≤ 0 then VerifyMacros.genCheckNonpos x e ≠ 0 else VerifyMacros.genCheckPos x e ≠ 0

def cpyCheckFires (e x : Int) : Bool :=
  if e ≤ 0 then VerifyMacros.cpyCheckNonpos x e ≠ 0 else VerifyMacros.cpyCheckPos x e ≠ 0

/-- What `lib.NAME` is after `verify()`; `cdefValue = none` for `#define NAME ...`, partial enums
    and `static const`.  With a value in the cdef both engines publish *the cdef's value* after the
    check passed (`_load_constant`: `value = check_value`; `_loaded_cpy_enum`: `tp.enumvalues`). -/
def genLib (cdefValue : Option Int) (x : Int) : Except Err Int :=
  match cdefValue with
  | none => .ok (genConst x)
  | some e => if genCheckFires e x then .error .verificationError else .ok e

def cpyLib (cdefValue : Option Int) (x : Int) : Except Err Int :=
  match cdefValue with
  | none => .ok (VerifyMacros.cpyFromCIntConst x)
  | some e => if cpyCheckFires e x then .error .verificationError else .ok (VerifyMacros.cpyFromCIntConst x)

end CffiVerif.GenConst
