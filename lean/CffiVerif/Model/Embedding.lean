/-
Model of the start-up protocol of CFFI-embedded libraries
(`src/cffi/_embedding.h`: `_cffi_start_and_call_python`, `_cffi_start_python`,
`_cffi_carefully_make_gil`, `_cffi_acquire/_release_reentrant_mutex`,
`_cffi_initialize_python`; `src/c/call_python.c`: `cffi_call_python`).

A transition system over
  * the process-wide spin lock (`PyCapsule_Type.tp_as_buffer`), `Py_IsInitialized()`
    and the GIL,
  * per library: the static `called` flag, `_cffi_call_python_org` (`org`, NULL or not),
    the function pointer `_cffi_call_python` (`fast` = already switched from the
    start-up trampoline to `cffi_call_python`), the reentrant start-up mutex
    (owner + depth),
  * per thread: a stack of frames, one per (possibly nested) call of an
    `extern "Python"` function; the head frame is the running one, the frames
    below it are Python code (init code or a function body) that called out to C.

Any number of threads and libraries (`Tid`, `Lib` are `Nat`).  The init code may
fail (`finish t false`, or `startupFail`), and Python code may call into any
library (`callOut`/`call`).  Ghost fields (`pyInitCount`, `initRuns`, `initBy`,
`status`) only record history; no guard reads them.

External (assumed, not modelled): sequential consistency of the accesses to
`called`/`org`/`_cffi_call_python` (the write/read barriers), correctness of
`pthread_mutex` (recursive) and of the CAS spin lock primitive, CPython's
interpreter start-up and GIL implementation, fairness of the spin loops.  Python
code that calls C is assumed to release the GIL (cffi does); every extern function
has its `@ffi.def_extern()` attached before it is called.
-/
namespace CffiVerif.Embedding

abbrev Tid := Nat
abbrev Lib := Nat

/-- Which Python code a frame is running. -/
inductive PyKind
  | init   -- the code given to `ffi.embedding_init_code()`
  | body   -- the body of an `extern "Python"` function
  deriving DecidableEq, Repr

/-- Program counter of a frame (one call of an `extern "Python"` function of a library). -/
inductive Pc
  | entry                 -- reads the function pointer `_cffi_call_python`
  | spinWait              -- `_cffi_carefully_make_gil`: CAS loop on the global spin lock
  | spinHeld              -- lock taken; about to test `Py_IsInitialized()`
  | needPyInit            -- saw `!Py_IsInitialized()`; about to call `Py_InitializeEx(0)`
  | pyInitDone            -- interpreter created, this thread holds the GIL; `PyEval_SaveThread()` next
  | spinRelease           -- about to release the spin lock
  | mutexWait             -- `_cffi_acquire_reentrant_mutex()`
  | mutexHeld             -- mutex held; about to test `called`
  | needLibInit           -- saw `!called`
  | initGil               -- `called = 1` done; `PyGILState_Ensure()` in `_cffi_initialize_python`
  | initStartup           -- holds the GIL; about to call `PyInit_<module>()` (sets `org`)
  | py (k : PyKind)       -- running Python code, holding the GIL
  | pyYield (k : PyKind)  -- Python code that dropped the GIL (switch interval, I/O) and wants it back
  | pyOut (k : PyKind)    -- Python code that called out to C (GIL released by cffi)
  | initEnd (ok : Bool)   -- init code returned / raised; `PyGILState_Release` next
  | initResult (ok : Bool) -- GIL released; about to switch `_cffi_call_python` (ok) or clear `org` (failure)
  | mutexRelease          -- `_cffi_release_reentrant_mutex()` next
  | gotFn                 -- about to read `org` as the return value of `_cffi_start_python`
  | fnNull                -- `fnptr == NULL`: message, `memset(args, 0, size_of_result)`
  | callPy                -- in `cffi_call_python`: `gil_ensure()`
  | bodyEnd               -- body returned; `gil_release()` next
  | returned (zero : Bool) -- the call is over; `zero` = the result is the zeroed one
  deriving DecidableEq, Repr

structure Frame where
  lib : Lib
  pc : Pc
  deriving DecidableEq, Repr

/-- Ghost: where the one-time initialisation of a library stands. -/
inductive Status
  | notStarted | running | ok | failed
  deriving DecidableEq, Repr

structure LibSt where
  called : Bool := false          -- `static char called`
  org : Bool := false             -- `_cffi_call_python_org != NULL`
  fast : Bool := false            -- `_cffi_call_python == _cffi_call_python_org` (switched)
  owner : Option Tid := none      -- reentrant mutex
  depth : Nat := 0
  initRuns : Nat := 0             -- ghost: how many times `_cffi_initialize_python` was entered
  initBy : Option Tid := none     -- ghost: by which thread
  status : Status := .notStarted  -- ghost
  deriving Repr

structure State where
  spin : Option Tid := none       -- holder of the process-wide spin lock
  pyInit : Bool := false          -- `Py_IsInitialized()`
  pyInitCount : Nat := 0          -- ghost: number of `Py_InitializeEx` calls
  gil : Option Tid := none
  lib : Lib → LibSt := fun _ => {}
  thr : Tid → List Frame := fun _ => []

def init : State := {}

def upd {α : Type} (f : Nat → α) (i : Nat) (v : α) : Nat → α :=
  fun j => if j = i then v else f j

/-- Steps.  `step` is the (unique) internal step of the head frame at pcs where the C code
has no choice; the others are the choices of Python code and of the callers. -/
inductive Label
  | call (t : Tid) (L : Lib)     -- an idle thread, or C code called from Python code, calls an extern function of `L`
  | ret (t : Tid)                -- the finished head frame returns to its caller
  | step (t : Tid)
  | yield (t : Tid)              -- running Python code drops the GIL
  | callOut (t : Tid)            -- running Python code calls a C function
  | callBack (t : Tid)           -- that C function returns into Python
  | finish (t : Tid) (ok : Bool) -- init code ends normally (`ok`) or raises; a body ends
  | startupFail (t : Tid)        -- `PyInit_<module>()` fails (e.g. `_cffi_backend` not importable)
  deriving DecidableEq, Repr

def Label.isCall : Label → Bool
  | .call _ _ => true
  | _ => false

def setHead (s : State) (t : Tid) (L : Lib) (pc : Pc) (rest : List Frame) : Tid → List Frame :=
  upd s.thr t (⟨L, pc⟩ :: rest)

def setLib (s : State) (L : Lib) (l : LibSt) : Lib → LibSt := upd s.lib L l

/-- The internal step of thread `t` whose head frame is `⟨L, pc⟩` above `rest`. -/
def stepPc (s : State) (t : Tid) (L : Lib) (rest : List Frame) : Pc → Option State
  | .entry =>
    some { s with thr := setHead s t L (if (s.lib L).fast then .callPy else .spinWait) rest }
  | .spinWait =>
    if s.spin = none then some { s with spin := some t, thr := setHead s t L .spinHeld rest } else none
  | .spinHeld =>
    some { s with thr := setHead s t L (if s.pyInit then .spinRelease else .needPyInit) rest }
  | .needPyInit =>   -- Py_InitializeEx(0): creates the interpreter and the GIL, held by this thread
    some { s with pyInit := true, pyInitCount := s.pyInitCount + 1, gil := some t,
                  thr := setHead s t L .pyInitDone rest }
  | .pyInitDone =>
    some { s with gil := none, thr := setHead s t L .spinRelease rest }
  | .spinRelease =>
    some { s with spin := none, thr := setHead s t L .mutexWait rest }
  | .mutexWait =>
    let l := s.lib L
    if l.owner = none ∨ l.owner = some t then
      some { s with lib := setLib s L { l with owner := some t, depth := l.depth + 1 },
                    thr := setHead s t L .mutexHeld rest }
    else none
  | .mutexHeld =>
    some { s with thr := setHead s t L (if (s.lib L).called then .mutexRelease else .needLibInit) rest }
  | .needLibInit =>
    let l := s.lib L
    some { s with lib := setLib s L { l with called := true, initRuns := l.initRuns + 1,
                                             initBy := some t, status := .running },
                  thr := setHead s t L .initGil rest }
  | .initGil =>
    if s.gil = none then some { s with gil := some t, thr := setHead s t L .initStartup rest } else none
  | .initStartup =>   -- PyInit_<module>() succeeds: `_cffi_exports[]` (hence `org`) filled in
    some { s with lib := setLib s L { s.lib L with org := true }, thr := setHead s t L (.py .init) rest }
  | .py _ => none
  | .pyYield k =>
    if s.gil = none then some { s with gil := some t, thr := setHead s t L (.py k) rest } else none
  | .pyOut _ => none
  | .initEnd ok =>
    some { s with gil := none, thr := setHead s t L (.initResult ok) rest }
  | .initResult true =>    -- write barrier; `_cffi_call_python = _cffi_call_python_org`
    some { s with lib := setLib s L { s.lib L with fast := true, status := .ok },
                  thr := setHead s t L .mutexRelease rest }
  | .initResult false =>   -- `_cffi_call_python_org = NULL`
    some { s with lib := setLib s L { s.lib L with org := false, status := .failed },
                  thr := setHead s t L .mutexRelease rest }
  | .mutexRelease =>
    let l := s.lib L
    some { s with lib := setLib s L { l with depth := l.depth - 1,
                                             owner := if l.depth - 1 = 0 then none else l.owner },
                  thr := setHead s t L .gotFn rest }
  | .gotFn =>
    some { s with thr := setHead s t L (if (s.lib L).org then .callPy else .fnNull) rest }
  | .fnNull =>
    some { s with thr := setHead s t L (.returned true) rest }
  | .callPy =>
    if s.gil = none then some { s with gil := some t, thr := setHead s t L (.py .body) rest } else none
  | .bodyEnd =>
    some { s with gil := none, thr := setHead s t L (.returned false) rest }
  | .returned _ => none

def step? (s : State) : Label → Option State
  | .call t L =>
    match s.thr t with
    | [] => some { s with thr := upd s.thr t [⟨L, .entry⟩] }
    | f :: rest =>
      match f.pc with
      | .pyOut _ => some { s with thr := upd s.thr t (⟨L, .entry⟩ :: f :: rest) }
      | _ => none
  | .ret t =>
    match s.thr t with
    | f :: rest =>
      match f.pc with
      | .returned _ => some { s with thr := upd s.thr t rest }
      | _ => none
    | [] => none
  | .step t =>
    match s.thr t with
    | f :: rest => stepPc s t f.lib rest f.pc
    | [] => none
  | .yield t =>
    match s.thr t with
    | f :: rest =>
      match f.pc with
      | .py k => some { s with gil := none, thr := setHead s t f.lib (.pyYield k) rest }
      | _ => none
    | [] => none
  | .callOut t =>
    match s.thr t with
    | f :: rest =>
      match f.pc with
      | .py k => some { s with gil := none, thr := setHead s t f.lib (.pyOut k) rest }
      | _ => none
    | [] => none
  | .callBack t =>
    match s.thr t with
    | f :: rest =>
      match f.pc with
      | .pyOut k => some { s with thr := setHead s t f.lib (.pyYield k) rest }
      | _ => none
    | [] => none
  | .finish t ok =>
    match s.thr t with
    | f :: rest =>
      match f.pc with
      | .py .init => some { s with thr := setHead s t f.lib (.initEnd ok) rest }
      | .py .body => some { s with thr := setHead s t f.lib .bodyEnd rest }
      | _ => none
    | [] => none
  | .startupFail t =>
    match s.thr t with
    | f :: rest =>
      match f.pc with
      | .initStartup => some { s with thr := setHead s t f.lib (.initEnd false) rest }
      | _ => none
    | [] => none

/-- States reachable from the initial one (nothing initialised, all threads outside every library). -/
inductive Reachable : State → Prop
  | init : Reachable init
  | step {s s' : State} (l : Label) : Reachable s → step? s l = some s' → Reachable s'

/-- Run a list of labels (used by the driver and by the concrete examples). -/
def run : State → List Label → Option State
  | s, [] => some s
  | s, l :: ls => match step? s l with
    | some s' => run s' ls
    | none => none

theorem run_reachable {s s' : State} (ls : List Label) (h : Reachable s) (hr : run s ls = some s') :
    Reachable s' := by
  induction ls generalizing s with
  | nil => simp [run] at hr; exact hr ▸ h
  | cons l ls ih =>
    simp only [run] at hr
    cases hs : step? s l with
    | none => simp [hs] at hr
    | some s1 => simp only [hs] at hr; exact ih (Reachable.step l h hs) hr

/-! ### Classification of program counters -/

/-- The frame holds the global spin lock. -/
def spinPc : Pc → Bool
  | .spinHeld | .needPyInit | .pyInitDone | .spinRelease => true
  | _ => false

/-- The frame holds the GIL. -/
def gilPc : Pc → Bool
  | .pyInitDone | .initStartup | .py _ | .initEnd _ | .bodyEnd => true
  | _ => false

/-- The frame holds (one level of) its library's start-up mutex. -/
def holdsPc : Pc → Bool
  | .mutexHeld | .needLibInit | .initGil | .initStartup | .py .init | .pyYield .init | .pyOut .init
  | .initEnd _ | .initResult _ | .mutexRelease => true
  | _ => false

/-- The frame is inside `_cffi_initialize_python` of its library (it is *the* initialiser). -/
def initPc : Pc → Bool
  | .initGil | .initStartup | .py .init | .pyYield .init | .pyOut .init | .initEnd _ | .initResult _ => true
  | _ => false

/-- The frame is executing (or suspended inside) the Python body of the extern function. -/
def bodyPc : Pc → Bool
  | .py .body | .pyYield .body | .pyOut .body | .bodyEnd => true
  | _ => false

/-- The frame got past the start-up gate: it is in `cffi_call_python` or returned a non-zeroed result. -/
def gatePc : Pc → Bool
  | .callPy | .py .body | .pyYield .body | .pyOut .body | .bodyEnd | .returned false => true
  | _ => false

/-- The frame is past the spin-lock section (so `Py_IsInitialized()` held when it left it). -/
def afterSpinPc : Pc → Bool
  | .entry | .spinWait | .spinHeld | .needPyInit => false
  | _ => true

/-- Number of levels of `L`'s mutex held by the frames of one stack. -/
def countHold (L : Lib) (st : List Frame) : Nat :=
  st.countP (fun f => f.lib == L && holdsPc f.pc)

end CffiVerif.Embedding
