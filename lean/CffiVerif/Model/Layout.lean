import CffiVerif.Model.LayoutDecl
/-
Model of `b_complete_struct_or_union_lock_held` (src/c/_cffi_backend.c, the
field loop and the final rounding) for the flags this platform selects in
`complete_sflags`: `SF_GCC_X86_BITFIELDS | SF_GCC_LITTLE_ENDIAN`, plus
`SF_PACKED` / `pack` as passed by `StructOrUnion.finish_backend_type`
(src/cffi/model.py): `packed == 1` -> sflags 8, `packed == N` -> pack = N.
The call made for a cdef without "..." has totalsize = totalalignment = -1 and no
forced field offsets, so the `detect_custom_layout` paths are not taken.

The statements of the C function are transcribed one by one; every C variable of
the loop keeps its name.  `x & ~(a-1)` is written `x - x % a`
(`Proofs/Layout.lean: andnot_eq_alignDown` shows the two agree on 64-bit words
when `a` is a power of two).  C `int`/`Py_ssize_t` overflow is not modelled.
The MSVC / ARM / big-endian branches are not modelled (never taken on x86-64
Linux through `ffi.cdef`).
-/
namespace CffiVerif.Layout

/-- exception *type* raised by the backend -/
inductive Reject where
  | typeError
  | notImplemented
deriving DecidableEq, Repr

/-- One `CFieldObject` made by `_add_field`: `cf_offset`, and for bit-fields
`(cf_bitshift, cf_bitsize)`; `fsize` is `cf_type->ct_size` (`none` when < 0). -/
structure CField where
  offset : Nat
  bits : Option (Nat × Nat)
  fsize : Option Nat
deriving DecidableEq, Repr

/-- loop state: `byteoffset, bitoffset, alignment, byteoffsetmax` -/
structure St where
  byteoffset : Nat
  bitoffset : Nat
  alignment : Nat
  byteoffsetmax : Nat
deriving DecidableEq, Repr

/-- `alignment = 1; byteoffset = 0; bitoffset = 0; byteoffsetmax = 0;` -/
def St.init : St := ⟨0, 0, 1, 0⟩

/-- `#define ROUNDUP_BYTES(bytes, bits) ((bytes) + ((bits) > 0))` -/
def roundupBytes (bytes bits : Nat) : Nat := bytes + (if bits > 0 then 1 else 0)

/-- `x & ~(a-1)` -/
def alignDown (x a : Nat) : Nat := x - x % a

/-- `(x + a-1) & ~(a-1)` -/
def alignUp (x a : Nat) : Nat := alignDown (x + (a - 1)) a

/-- `SF_DEFAULT_PACKING` (not MS_WIN32): "a huge power of two" -/
def defaultPacking : Nat := 0x40000000

/-- The prologue:
```
if (sflags & SF_PACKED) pack = 1;
else if (pack <= 0)     pack = SF_DEFAULT_PACKING;
else                    sflags |= SF_PACKED;
```
with the arguments `finish_backend_type` passes for `tp.packed = p`
(`p == 1`: sflags = 8; otherwise sflags = 0, pack = p).  Result: `(pack, sflags & SF_PACKED)`. -/
def packCfg (p : Nat) : Nat × Bool :=
  if p = 1 then (1, true)
  else if p = 0 then (defaultPacking, false)
  else (p, true)

/-- record the running maximum (end of the loop body) -/
def St.bump (alignment byteoffset bitoffset byteoffsetmax : Nat) : St :=
  { byteoffset := byteoffset, bitoffset := bitoffset, alignment := alignment,
    byteoffsetmax :=
      if roundupBytes byteoffset bitoffset > byteoffsetmax
      then roundupBytes byteoffset bitoffset else byteoffsetmax }

/-- One iteration of `for (i=0; i<nb_fields; i++)`.  `isLast` is `i == nb_fields - 1`.
Returns the new state and the fields appended to the `ct_extra` chain. -/
def stepC (isUnion : Bool) (pack : Nat) (sfPacked : Bool) (isLast : Bool)
    (s : St) (f : FField CField) : Except Reject (St × List CField) :=
  -- if (cffi_get_size(ftype) < 0) { only an array, not a bit-field, in last position }
  if f.size.isNone && !(f.isArray && f.bits.isNone && isLast) then .error .typeError else
  -- if (is_union) byteoffset = bitoffset = 0;
  let byteoffset := if isUnion then 0 else s.byteoffset
  let bitoffset := if isUnion then 0 else s.bitoffset
  let falignorg := f.align
  let falign := if pack < falignorg then pack else falignorg
  -- GCC: anonymous bitfields (of any size) don't cause alignment
  let doAlign := match f.bits with
    | some _ => f.named
    | none => true
  let alignment := if s.alignment < falign && doAlign then falign else s.alignment
  match f.bits with
  | none =>
    -- not a bitfield: pad to the next byte, then to 'falign'
    let byteoffset := alignUp (roundupBytes byteoffset bitoffset) falign
    let outs : List CField :=
      if !f.named && f.isAgg then
        -- a nested anonymous struct or union: its fields are copied at byteoffset + cf_offset
        f.sub.map fun c => { c with offset := byteoffset + c.offset }
      else
        [{ offset := byteoffset, bits := none, fsize := f.size }]
    -- if (ftype->ct_size >= 0) byteoffset += ftype->ct_size;
    let byteoffset := match f.size with
      | some n => byteoffset + n
      | none => byteoffset
    .ok (St.bump alignment byteoffset 0 s.byteoffsetmax, outs)
  | some fbitsize =>
    if !f.intlike then .error .typeError else     -- "cannot be a bit field"
    match f.size with
    | none => .error .typeError                     -- (already rejected above)
    | some ctSize =>
    if fbitsize > 8 * ctSize then .error .typeError else   -- "exceeds the width of the type"
    let fieldOffsetBytes := alignDown byteoffset falign
    if fbitsize = 0 then
      if f.named then .error .typeError else       -- "is declared with :0"
      -- GCC's notion of "ftype :0;": pad byteoffset to a value aligned for "ftype"
      let fieldOffsetBytes :=
        if roundupBytes byteoffset bitoffset > fieldOffsetBytes
        then fieldOffsetBytes + falign else fieldOffsetBytes
      .ok (St.bump alignment fieldOffsetBytes 0 s.byteoffsetmax, [])
    else
      -- GCC's algorithm
      let bitsAlreadyOccupied := (byteoffset - fieldOffsetBytes) * 8 + bitoffset
      if bitsAlreadyOccupied + fbitsize > 8 * ctSize then
        -- it would not fit, we need to start at the next allowed position
        if sfPacked && bitsAlreadyOccupied % 8 ≠ 0 then .error .notImplemented else
        let fieldOffsetBytes := fieldOffsetBytes + falign
        let byteoffset := fieldOffsetBytes
        let bitoffset := 0 + fbitsize
        let outs : List CField :=
          if f.named then [{ offset := fieldOffsetBytes, bits := some (0, fbitsize), fsize := some ctSize }] else []
        .ok (St.bump alignment (byteoffset + bitoffset / 8) (bitoffset % 8) s.byteoffsetmax, outs)
      else
        let bitshift := bitsAlreadyOccupied
        let bitoffset := bitoffset + fbitsize
        let outs : List CField :=
          if f.named then [{ offset := fieldOffsetBytes, bits := some (bitshift, fbitsize), fsize := some ctSize }] else []
        .ok (St.bump alignment (byteoffset + bitoffset / 8) (bitoffset % 8) s.byteoffsetmax, outs)

/-- the whole field loop -/
def loopC (isUnion : Bool) (pack : Nat) (sfPacked : Bool) :
    List (FField CField) → St → Except Reject (St × List CField)
  | [], s => .ok (s, [])
  | f :: rest, s =>
    match stepC isUnion pack sfPacked rest.isEmpty s f with
    | .error e => .error e
    | .ok (s', o) =>
      match loopC isUnion pack sfPacked rest s' with
      | .error e => .error e
      | .ok (s'', os) => .ok (s'', o ++ os)

/-- `ct_size`, `ct_length` (= alignment) and the `ct_extra` chain of a completed aggregate -/
structure CLayout where
  size : Nat
  align : Nat
  fields : List CField
deriving DecidableEq, Repr

/-- after the loop:
```
alignedsize = (byteoffsetmax + alignment - 1) & ~(alignment-1);
if (alignedsize == 0) alignedsize = 1;
totalsize = alignedsize;  totalalignment = alignment;
``` -/
def finishC (s : St) (fields : List CField) : CLayout :=
  let alignedsize := alignUp s.byteoffsetmax s.alignment
  { size := if alignedsize = 0 then 1 else alignedsize, align := s.alignment, fields := fields }

/-- `complete_struct_or_union(BType, lst, self, -1, -1, *extra_flags)` for `tp.packed = p` -/
def completeC (isUnion : Bool) (p : Nat) (fields : List (FField CField)) : Except Reject CLayout :=
  match loopC isUnion (packCfg p).1 (packCfg p).2 fields St.init with
  | .error e => .error e
  | .ok (s, fs) => .ok (finishC s fs)

/-! ### types: sizes and alignments the loop reads from `ftype` -/

/-- what the loop reads from a field's `ftype` -/
structure CInfo where
  size : Nat
  align : Nat
  intlike : Bool
  isArray : Bool
  isAgg : Bool
  sub : List CField
deriving DecidableEq, Repr

def CInfo.toField (i : CInfo) (named : Bool) (bits : Option Nat) (flex : Bool) : FField CField :=
  { named := named, size := if flex then none else some i.size, align := i.align, bits := bits,
    intlike := if flex then false else i.intlike,
    isArray := flex || i.isArray, isAgg := if flex then false else i.isAgg,
    sub := if flex then [] else i.sub }

mutual
/-- lay out a type: primitives carry their size/alignment; `new_array_type` gives
`length * itemsize` and `get_alignment` of an array is its item's; aggregates run
the loop on their (recursively laid out) fields. -/
def infoC : Ty → Except Reject CInfo
  | .prim size align intlike =>
    .ok { size := size, align := align, intlike := intlike, isArray := false, isAgg := false, sub := [] }
  | .arr elem len =>
    match infoC elem with
    | .error e => .error e
    | .ok i => .ok { size := len * i.size, align := i.align, intlike := false, isArray := true,
                     isAgg := false, sub := [] }
  | .agg isUnion p fields =>
    match fieldsC fields with
    | .error e => .error e
    | .ok fs =>
      match completeC isUnion p fs with
      | .error e => .error e
      | .ok l => .ok { size := l.size, align := l.align, intlike := false, isArray := false,
                       isAgg := true, sub := l.fields }
def fieldsC : Fields → Except Reject (List (FField CField))
  | .nil => .ok []
  | .cons named bits flex ty rest =>
    match infoC ty with
    | .error e => .error e
    | .ok i =>
      match fieldsC rest with
      | .error e => .error e
      | .ok fs => .ok (i.toField named bits flex :: fs)
end

/-- `ffi.sizeof / ffi.alignof / typeof(T).fields` of the aggregate declared by `d` -/
def layoutCffi : Ty → Except Reject CLayout
  | .agg isUnion p fields =>
    match fieldsC fields with
    | .error e => .error e
    | .ok fs => completeC isUnion p fs
  | _ => .error .typeError        -- "first arg must be a non-initialized struct or union ctype"

end CffiVerif.Layout
