import CffiVerif.Model.LayoutDecl
import CffiVerif.Generated.LayoutExprs
/-
Model of `b_complete_struct_or_union_lock_held` (src/c/_cffi_backend.c, the
field loop and the final rounding) for the flags this platform selects in
`complete_sflags`: `SF_GCC_X86_BITFIELDS | SF_GCC_LITTLE_ENDIAN`, plus
`SF_PACKED` / `pack` as passed by `StructOrUnion.finish_backend_type`
(src/cffi/model.py): `packed == 1` -> sflags 8, `packed == N` -> pack = N.
The call made for a cdef without "..." has totalsize = totalalignment = -1 and no
forced field offsets, so the `detect_custom_layout` paths are not taken.

The *control structure* of the C function (order of statements, nesting of the
branches) is transcribed by hand, every C variable of the loop keeps its name.
Every arithmetic expression and every condition of the path is a definition of
`Generated/LayoutExprs.lean`, which `translate/layout_exprs.py` re-extracts from
the working tree on every check run (and which refuses to run when the shape of
the function changed).  So a changed constant, operator or comparison in the C
source changes the term the kernel checks the C01 theorems against.
`Proofs/Layout.lean` gives the arithmetic meaning of the generated definitions
(`stepC_eq_ref`: the hand-written reference form used by the proofs; `x & ~(a-1)`
is `x - x % a` for the alignments 1, 2, 4, 8, 16).  C `int`/`Py_ssize_t`
overflow is not modelled (values are `Nat`).
The MSVC / ARM / big-endian branches are not modelled (never taken on x86-64
Linux through `ffi.cdef`).
-/
namespace CffiVerif.Layout
open CffiVerif.Generated

/-- exception *type* raised by the backend -/
inductive Reject where
  | typeError
  | notImplemented
deriving DecidableEq, Repr

/-- One `CFieldObject` made by `_add_field`: `cf_offset`, and for bit-fields
`(cf_bitshift, cf_bitsize)`; `fsize` is `cf_type->ct_size` (`none` when < 0). -/
structure CField where
  offset : Nat
  bits : Option (Nat × Nat)
  fsize : Option Nat
deriving DecidableEq, Repr

/-- loop state: `byteoffset, bitoffset, alignment, byteoffsetmax` -/
structure St where
  byteoffset : Nat
  bitoffset : Nat
  alignment : Nat
  byteoffsetmax : Nat
deriving DecidableEq, Repr

/-- `alignment = 1; byteoffset = 0; bitoffset = 0; byteoffsetmax = 0;` -/
def St.init : St := ⟨LX.initByteoffset, LX.initBitoffset, LX.initAlignment, LX.initByteoffsetmax⟩

/-- `#define ROUNDUP_BYTES(bytes, bits) ((bytes) + ((bits) > 0))` -/
def roundupBytes (bytes bits : Nat) : Nat := LX.roundupBytes bytes bits

/-- `field_offset_bytes = byteoffset; field_offset_bytes &= ~(falign - 1);` -/
def alignDown (x a : Nat) : Nat := LX.fieldOffsetBytes x a

/-- `(byteoffset + falign-1) & ~(falign-1)` -/
def alignUp (x a : Nat) : Nat := LX.nbfAlign x a

/-- `SF_DEFAULT_PACKING` (not MS_WIN32): "a huge power of two" -/
def defaultPacking : Nat := LX.defaultPacking

/-- The prologue:
```
if (sflags & SF_PACKED) pack = 1;
else if (pack <= 0)     pack = SF_DEFAULT_PACKING;
else                    sflags |= SF_PACKED;
```
with the arguments `finish_backend_type` passes for `tp.packed = p`
(`p == 1`: sflags = 8; otherwise sflags = 0, pack = p).  Result: `(pack, sflags & SF_PACKED)`. -/
def packCfg (p : Nat) : Nat × Bool :=
  if p = 1 then (LX.packedPack, true)
  else if LX.noPackCond (p : Int) then (LX.defaultPacking, false)
  else (p, true)

/-- record the running maximum (end of the loop body):
`if (ROUNDUP_BYTES(byteoffset, bitoffset) > byteoffsetmax) byteoffsetmax = ROUNDUP_BYTES(byteoffset, bitoffset);` -/
def St.bump (alignment byteoffset bitoffset byteoffsetmax : Nat) : St :=
  { byteoffset := byteoffset, bitoffset := bitoffset, alignment := alignment,
    byteoffsetmax :=
      if LX.maxCond byteoffset bitoffset byteoffsetmax
      then LX.maxNew byteoffset bitoffset else byteoffsetmax }

/-- `sflags & SF_GCC_ARM_BITFIELDS` and `sflags & SF_MSVC_BITFIELDS` after `complete_sflags` on this
platform (not Windows, not ARM: `SF_GCC_X86_BITFIELDS` is added; the translator checks that) -/
def sfArm : Nat := 0
def sfMsvc : Nat := 0

/-- `int fbitsize = -1` unless the field item carries a bit size -/
def fbitsizeOf (bits : Option Nat) : Int :=
  match bits with
  | some w => (w : Int)
  | none => -1

/-- `PyUnicode_GetLength(fname)`: only ever compared with 0 -/
def fnamelenOf (named : Bool) : Nat := if named then 1 else 0

/-- a flag test `x & FLAG` as a C int: only its truth value is used -/
def flagVal (b : Bool) : Nat := if b then 1 else 0

/-- One iteration of `for (i=0; i<nb_fields; i++)`.  `isLast` is `i == nb_fields - 1`.
Returns the new state and the fields appended to the `ct_extra` chain. -/
def stepC (isUnion : Bool) (pack : Nat) (sfPacked : Bool) (isLast : Bool)
    (s : St) (f : FField CField) : Except Reject (St × List CField) :=
  -- if (cffi_get_size(ftype) < 0) { only an array, not a bit-field, in last position }
  if f.size.isNone && !(f.isArray && f.bits.isNone && isLast) then .error .typeError else
  -- if (is_union) byteoffset = bitoffset = 0;
  let byteoffset := if isUnion then LX.unionReset else s.byteoffset
  let bitoffset := if isUnion then LX.unionReset else s.bitoffset
  let falignorg := f.align
  let falign := LX.falign pack falignorg
  let fbitsizeI := fbitsizeOf f.bits
  let fnamelen := fnamelenOf f.named
  -- do_align = 1; if (!(sflags & ARM) && fbitsize >= 0) { if (!(sflags & MSVC)) do_align = namelen > 0; else ... }
  let doAlign :=
    if LX.doAlignGuard sfArm fbitsizeI then
      if LX.gccStyle sfMsvc then LX.doAlignGcc fnamelen else LX.doAlignMsvc fbitsizeI
    else LX.doAlignDefault
  let alignment := if LX.alignUpdateCond s.alignment falign doAlign then LX.alignUpdateNew falign else s.alignment
  match f.bits with
  | none =>
    -- not a bitfield: pad to the next byte, then to 'falign'
    let byteoffset := LX.nbfAlign (LX.nbfRoundup byteoffset bitoffset) falign
    let outs : List CField :=
      if LX.anonCond fnamelen (flagVal f.isAgg) then
        -- a nested anonymous struct or union: its fields are copied at byteoffset + cf_offset
        f.sub.map fun c => { c with offset := LX.anonOffset byteoffset c.offset }
      else
        [{ offset := LX.nbfOffset byteoffset, bits := none, fsize := f.size }]
    -- if (ftype->ct_size >= 0) byteoffset += ftype->ct_size;
    let byteoffset := match f.size with
      | some n => LX.nbfAdvance byteoffset n
      | none => byteoffset
    .ok (St.bump alignment byteoffset LX.nbfBitoffset s.byteoffsetmax, outs)
  | some fbitsize =>
    if !f.intlike then .error .typeError else     -- "cannot be a bit field"
    match f.size with
    | none => .error .typeError                     -- (already rejected above)
    | some ctSize =>
    if LX.tooWide fbitsize ctSize then .error .typeError else   -- "exceeds the width of the type"
    let fieldOffsetBytes := LX.fieldOffsetBytes byteoffset falign
    if LX.isZeroWidth fbitsize then
      if LX.namedCond fnamelen then .error .typeError else       -- "is declared with :0"
      if LX.gccStyle sfMsvc then
        -- GCC's notion of "ftype :0;": pad byteoffset to a value aligned for "ftype"
        let fieldOffsetBytes :=
          if LX.zeroWidthPad byteoffset bitoffset fieldOffsetBytes
          then LX.nextUnit fieldOffsetBytes falign else fieldOffsetBytes
        .ok (St.bump alignment (LX.zeroWidthByteoffset fieldOffsetBytes) LX.zeroWidthBitoffset s.byteoffsetmax, [])
      else
        .ok (St.bump alignment byteoffset bitoffset s.byteoffsetmax, [])   -- MSVC: not on this platform
    else
      -- GCC's algorithm (`if (!(sflags & SF_MSVC_BITFIELDS))`; the MSVC branch is in Model/LayoutFlags.lean)
      let bitsAlreadyOccupied := LX.bitsAlreadyOccupied byteoffset fieldOffsetBytes bitoffset
      if LX.fitFails bitsAlreadyOccupied fbitsize ctSize then
        -- it would not fit, we need to start at the next allowed position
        if LX.packedReuse (flagVal sfPacked) bitsAlreadyOccupied then .error .notImplemented else
        let fieldOffsetBytes := LX.nextUnit fieldOffsetBytes falign
        let byteoffset := LX.noFitByteoffset fieldOffsetBytes
        let bitshift := LX.noFitBitshift
        let bitoffset := LX.bitoffsetAdd LX.noFitBitoffset fbitsize
        let outs : List CField :=
          if LX.namedCond fnamelen then
            [{ offset := LX.bfOffset fieldOffsetBytes, bits := some (LX.bfBitshift bitshift, LX.bfBitsize fbitsize),
               fsize := some ctSize }]
          else []
        .ok (St.bump alignment (LX.byteoffsetCarry byteoffset bitoffset) (LX.bitoffsetMask bitoffset)
              s.byteoffsetmax, outs)
      else
        let bitshift := LX.fitBitshift bitsAlreadyOccupied
        let bitoffset := LX.bitoffsetAdd bitoffset fbitsize
        let outs : List CField :=
          if LX.namedCond fnamelen then
            [{ offset := LX.bfOffset fieldOffsetBytes, bits := some (LX.bfBitshift bitshift, LX.bfBitsize fbitsize),
               fsize := some ctSize }]
          else []
        .ok (St.bump alignment (LX.byteoffsetCarry byteoffset bitoffset) (LX.bitoffsetMask bitoffset)
              s.byteoffsetmax, outs)

/-- the whole field loop -/
def loopC (isUnion : Bool) (pack : Nat) (sfPacked : Bool) :
    List (FField CField) → St → Except Reject (St × List CField)
  | [], s => .ok (s, [])
  | f :: rest, s =>
    match stepC isUnion pack sfPacked rest.isEmpty s f with
    | .error e => .error e
    | .ok (s', o) =>
      match loopC isUnion pack sfPacked rest s' with
      | .error e => .error e
      | .ok (s'', os) => .ok (s'', o ++ os)

/-- `ct_size`, `ct_length` (= alignment) and the `ct_extra` chain of a completed aggregate -/
structure CLayout where
  size : Nat
  align : Nat
  fields : List CField
deriving DecidableEq, Repr

/-- after the loop:
```
alignedsize = (byteoffsetmax + alignment - 1) & ~(alignment-1);
if (alignedsize == 0) alignedsize = 1;
totalsize = alignedsize;  totalalignment = alignment;
``` -/
def finishC (s : St) (fields : List CField) : CLayout :=
  let alignedsize := LX.alignedSize s.byteoffsetmax s.alignment
  let alignedsize := if LX.sizeIsZero alignedsize then LX.sizeIfZero else alignedsize
  { size := LX.totalSize alignedsize, align := LX.totalAlignment s.alignment, fields := fields }

/-- `complete_struct_or_union(BType, lst, self, -1, -1, *extra_flags)` for `tp.packed = p` -/
def completeC (isUnion : Bool) (p : Nat) (fields : List (FField CField)) : Except Reject CLayout :=
  match loopC isUnion (packCfg p).1 (packCfg p).2 fields St.init with
  | .error e => .error e
  | .ok (s, fs) => .ok (finishC s fs)

/-! ### types: sizes and alignments the loop reads from `ftype` -/

/-- what the loop reads from a field's `ftype` -/
structure CInfo where
  size : Nat
  align : Nat
  intlike : Bool
  isArray : Bool
  isAgg : Bool
  sub : List CField
deriving DecidableEq, Repr

def CInfo.toField (i : CInfo) (named : Bool) (bits : Option Nat) (flex : Bool) : FField CField :=
  { named := named, size := if flex then none else some i.size, align := i.align, bits := bits,
    intlike := if flex then false else i.intlike,
    isArray := flex || i.isArray, isAgg := if flex then false else i.isAgg,
    sub := if flex then [] else i.sub }

mutual
/-- lay out a type: primitives carry their size/alignment; `new_array_type` gives
`length * itemsize` and `get_alignment` of an array is its item's; aggregates run
the loop on their (recursively laid out) fields. -/
def infoC : Ty → Except Reject CInfo
  | .prim size align intlike =>
    .ok { size := size, align := align, intlike := intlike, isArray := false, isAgg := false, sub := [] }
  | .arr elem len =>
    match infoC elem with
    | .error e => .error e
    | .ok i => .ok { size := len * i.size, align := i.align, intlike := false, isArray := true,
                     isAgg := false, sub := [] }
  | .agg isUnion p fields =>
    match fieldsC fields with
    | .error e => .error e
    | .ok fs =>
      match completeC isUnion p fs with
      | .error e => .error e
      | .ok l => .ok { size := l.size, align := l.align, intlike := false, isArray := false,
                       isAgg := true, sub := l.fields }
def fieldsC : Fields → Except Reject (List (FField CField))
  | .nil => .ok []
  | .cons named bits flex ty rest =>
    match infoC ty with
    | .error e => .error e
    | .ok i =>
      match fieldsC rest with
      | .error e => .error e
      | .ok fs => .ok (i.toField named bits flex :: fs)
end

/-- `ffi.sizeof / ffi.alignof / typeof(T).fields` of the aggregate declared by `d` -/
def layoutCffi : Ty → Except Reject CLayout
  | .agg isUnion p fields =>
    match fieldsC fields with
    | .error e => .error e
    | .ok fs => completeC isUnion p fs
  | _ => .error .typeError        -- "first arg must be a non-initialized struct or union ctype"

end CffiVerif.Layout
