/-
Declarations of C aggregates as the layout code sees them (shared by the model
of cffi's field loop, `Model/Layout.lean`, and by the independent specification
of the compiler's layout, `Spec/GccLayout.lean`).

A type is a primitive/pointer (only its size, alignment and "is an integer or
char type" matter to the layout code), a fixed-length array, or a struct/union
with its packing value and field list.  A field is `(named, bit width, is an
open-ended array T[], T)`.
-/
namespace CffiVerif.Layout

mutual
inductive Ty where
  /-- primitive or pointer type: `ct_size`, alignment (`ct_length` of a primitive,
  `offsetof(struct{char x; char *y;}, y)` for pointers), and whether
  `ct_flags & (CT_PRIMITIVE_SIGNED|CT_PRIMITIVE_UNSIGNED|CT_PRIMITIVE_CHAR)`. -/
  | prim (size align : Nat) (intlike : Bool)
  /-- `elem[len]` -/
  | arr (elem : Ty) (len : Nat)
  /-- `struct`/`union` declared with `pack` (0 = no packing, 1 = `packed=True`,
  N = `pack=N`) -/
  | agg (isUnion : Bool) (pack : Nat) (fields : Fields)
inductive Fields where
  | nil
  /-- `named`: the field has a name; `bits`: `some w` for `T name : w`;
  `flex`: the declared type is the open-ended array `ty[]`. -/
  | cons (named : Bool) (bits : Option Nat) (flex : Bool) (ty : Ty) (rest : Fields)
end

/-- What either layout procedure knows about one member once its type has been
laid out.  `α` is the description of one (flattened) sub-member of a nested
aggregate: `CField` on the cffi side, `GField` on the compiler side. -/
structure FField (α : Type) where
  named : Bool
  /-- size of the member's type in bytes; `none`: unknown (open-ended array) -/
  size : Option Nat
  /-- alignment of the member's type -/
  align : Nat
  /-- `some w` for a bit-field of width `w` -/
  bits : Option Nat
  /-- integer / char / _Bool type (may carry a bit-field) -/
  intlike : Bool
  isArray : Bool
  isAgg : Bool
  /-- the members of a nested aggregate type, relative to its start -/
  sub : List α

end CffiVerif.Layout
