/-
Arithmetic vocabulary shared by `Model/Init.lean` and the expressions regenerated from the C source
(`Generated/InitExprs.lean`, written by translate/init_exprs.py).
-/
namespace CffiVerif.Init

/-- Two's-complement wrap to a signed 64-bit `Py_ssize_t`: the meaning of
`(Py_ssize_t)((size_t)x OP (size_t)y)` (macros ADD_WRAPAROUND / MUL_WRAPAROUND) applied to the exact
result of `x OP y`. -/
def wrap64 (x : Int) : Int := (x + (2:Int)^63) % (2:Int)^64 - (2:Int)^63

end CffiVerif.Init
