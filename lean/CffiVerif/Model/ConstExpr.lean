/-
Model of cffi's evaluator of integer constant expressions in a `cdef`
(`/repo/src/cffi/cparser.py`): `Parser._parse_constant`, `Parser._c_div`,
`Parser._add_integer_constant` (the `#define NAME literal` and
`static const int NAME = literal;` forms).

Python `int` = Lean `Int` (unbounded).  A literal is the raw token text that
pycparser hands over in `Constant.value`, as a `List Char`.

What is *not* modelled: pycparser itself (tokenizer and grammar; the token texts and
the tree shape are inputs of the model); of Python's `int(s, base)` only the part
reachable from pycparser tokens is modelled (no surrounding white space, no sign, no
`_` digit separators, no `0o` prefix -- pycparser's lexer produces none of them).
-/
import CffiVerif.Generated.ConstExprPy

namespace CffiVerif.ConstExpr
open CffiVerif.Generated

/-- Expression trees as pycparser builds them (`c_ast.Constant`, `UnaryOp`, `ID`,
`BinaryOp`).  A `BinaryOp` with an operator outside the ten (`<`, `==`, `&&`, `||` …) is
`binOther`: both operands are evaluated before the operator is looked at, so their errors win.
Every other node kind (casts, `sizeof`, `~`, `!`, `?:` …) is `unsupported`. -/
inductive Expr where
  | const (tok : List Char)
  | pos (e : Expr)
  | neg (e : Expr)
  | ref (name : String)
  | bin (op : BinOp) (l r : Expr)
  | binOther (l r : Expr)
  | unsupported
  deriving Repr, Inhabited

/-- `Parser._int_constants`. -/
abbrev Env := String → Option Int

def Env.empty : Env := fun _ => none

/-! ### Literal tokens -/

/-- Value of one digit character as Python's `int(s, base)` reads it (`0-9`, `a-z`, `A-Z`). -/
def digitVal (c : Char) : Option Nat :=
  let n := c.toNat
  if 48 ≤ n ∧ n ≤ 57 then some (n - 48)
  else if 97 ≤ n ∧ n ≤ 122 then some (n - 97 + 10)
  else if 65 ≤ n ∧ n ≤ 90 then some (n - 65 + 10)
  else none

/-- Digits of `s` in base `base`, most significant first, on top of `acc`;
`none` = Python's `ValueError` (a character that is not a digit of that base). -/
def digitsVal (base : Nat) : List Char → Nat → Option Nat
  | [], acc => some acc
  | c :: cs, acc =>
    match digitVal c with
    | some d => if d < base then digitsVal base cs (acc * base + d) else none
    | none => none

/-- `int(s, base)` for a prefix-less digit string (`none` = `ValueError`). -/
def pyInt (base : Nat) (s : List Char) : Option Nat :=
  match s with
  | [] => none
  | _ => digitsVal base s 0

/-- A character of the argument of `s.rstrip('uUlL')` (regenerated from the source). -/
def isSuffixChar (c : Char) : Bool := ConstExprPy.rstripChars.contains c

/-- `s.rstrip('uUlL')`. -/
def rstripSuffix (s : List Char) : List Char := (s.reverse.dropWhile isSuffixChar).reverse

def lowerChar (c : Char) : Char :=
  if 65 ≤ c.toNat ∧ c.toNat ≤ 90 then Char.ofNat (c.toNat + 32) else c

/-- `_SIMPLE_ESCAPES[c]` (the dictionary is regenerated from the source). -/
def simpleEscape (c : Char) : Option Nat :=
  (ConstExprPy.simpleEscapes.find? (fun p => p.1 == c)).map (·.2)

/-- `except ValueError:` -- the first fall-back whose prefix equals `s.lower()[0:n]` reads the rest
in its base (`int(s, 16)` accepts the `0x` prefix); its own `ValueError` is swallowed and, like no
matching fall-back, ends in the `raise` after the try. -/
def parseFallback : List (List Char × Nat) → List Char → Except Err Int
  | [], _ => .error ConstExprPy.fallbackFailure
  | (pre, base) :: rest, s =>
    if (s.take pre.length).map lowerChar = pre then
      match pyInt base (s.drop pre.length) with
      | some v => .ok v
      | none => .error ConstExprPy.fallbackFailure
    else parseFallback rest s

/-- The numeric branch of `_parse_constant` (`'0' <= s[0] <= '9'`), driven by the regenerated
tables: rstrip, `startswith('0')` -> base 8 else base 10, then the fall-backs. -/
def parseNumber (tok : List Char) : Except Err Int :=
  let s := rstripSuffix tok
  let first := if (s.take ConstExprPy.octalPrefix.length = ConstExprPy.octalPrefix)
    then pyInt ConstExprPy.octalBase s else pyInt ConstExprPy.defaultBase s
  match first with
  | some v => .ok v
  | none => parseFallback ConstExprPy.fallbacks s

/-- `_parse_constant` on a `c_ast.Constant`. -/
def parseConst (tok : List Char) : Except Err Int :=
  match tok with
  | [] => .error .index
  | c0 :: _ =>
    if ConstExprPy.digitFirst.1.toNat ≤ c0.toNat ∧ c0.toNat ≤ ConstExprPy.digitFirst.2.toNat then
      parseNumber tok                                        -- '0' <= s[0] <= '9'
    else match tok with
      | ['\'', c, '\''] => .ok c.toNat                       -- ord(s[-2])
      | ['\'', '\\', c, '\''] =>
        match simpleEscape c with
        | some v => .ok v
        | none => .error ConstExprPy.otherConstantFailure
      | _ => .error ConstExprPy.otherConstantFailure

/-! ### Operators -/

/-- `Parser._c_div`, as translated from the source. -/
def cDiv (a b : Int) : Except Err Int := ConstExprPy.c_div a b

/-- `exprnode.op` of a `BinaryOp`. -/
def BinOp.symbol : BinOp → String
  | .add => "+" | .sub => "-" | .mul => "*" | .div => "/" | .mod => "%"
  | .shl => "<<" | .shr => ">>" | .band => "&" | .bor => "|" | .bxor => "^"

/-- The `BinaryOp` branch, given both operand values: the dispatch translated from the source. -/
def applyBin (op : BinOp) (l r : Int) : Except Err Int :=
  ConstExprPy.parse_constant_binop l r op.symbol

/-- `Parser._parse_constant` (left operand first, as in the code, so that the first error wins). -/
def eval (env : Env) : Expr → Except Err Int
  | .const tok => parseConst tok
  | .pos e => eval env e
  | .neg e => do let v ← eval env e; pure (-v)
  | .ref name =>
    match env name with
    | some v => .ok v
    | none => .error .ffi
  | .bin op l r => do
    let a ← eval env l
    let b ← eval env r
    applyBin op a b
  | .binOther l r => do
    let _ ← eval env l
    let _ ← eval env r
    .error .ffi                      -- no branch matches: falls through to the final `raise FFIError`
  | .unsupported => .error .ffi

/-! ### `_add_integer_constant`: `#define NAME literal`, `static const int NAME = literal;` -/

/-- `_r_int_literal = -?0?x?[0-9a-f]+[lu]*$` (IGNORECASE), anchored at the start by `match`. -/
def isHexDigitCI (c : Char) : Bool :=
  let n := c.toNat
  (48 ≤ n && n ≤ 57) || (97 ≤ n && n ≤ 102) || (65 ≤ n && n ≤ 70)

def isLU (c : Char) : Bool := c == 'l' || c == 'L' || c == 'u' || c == 'U'

/-- After the optional `-`, `0`, `x`: one or more hex digits, then only `l`/`u` up to the end.
(The regex engine backtracks over the optional `0` and `x`; `0` is itself a hex digit, `x` is
not, so trying the three prefix choices is exhaustive.) -/
def matchDigitsLU (s : List Char) : Bool :=
  let rest := s.dropWhile isHexDigitCI
  decide (rest.length < s.length) && rest.all isLU

/-- `0?x?[0-9a-f]+[lu]*$` on what follows the optional `-`. -/
def matchAfterSign (s : List Char) : Bool :=
  -- choices for "0?x?": take none / "0" / "x" / "0x"
  matchDigitsLU s ||
  (match s with | c :: t => (c == '0' && matchDigitsLU t) || ((c == 'x' || c == 'X') && matchDigitsLU t) | [] => false) ||
  (match s with | c :: d :: t => c == '0' && (d == 'x' || d == 'X') && matchDigitsLU t | _ => false)

def matchIntLiteral (s : List Char) : Bool :=
  matchAfterSign (match s with | '-' :: t => t | _ => s)

/-- Python `int(s, 0)` for the strings `_add_integer_constant` builds (lower-case, no sign):
`0x…`, `0o…`, `0b…`, `0`/`00…0`, or a decimal without leading zero. -/
def pyIntBase0 (s : List Char) : Option Nat :=
  match s with
  | '0' :: 'x' :: rest => pyInt 16 rest
  | '0' :: 'o' :: rest => pyInt 8 rest
  | '0' :: 'b' :: rest => pyInt 2 rest
  | '0' :: rest => if rest.all (· == '0') then some 0 else none     -- "0", "00": zero; "012": ValueError
  | _ => pyInt 10 s

/-- `int_str.lower().rstrip("ul")`. -/
def lowerStripUL (s : List Char) : List Char :=
  ((s.map lowerChar).reverse.dropWhile (fun c => c == 'u' || c == 'l')).reverse

/-- `"010"` is not valid octal for Python 3's `int(s, 0)`: rewrite to `"0o10"`
(`startswith("0") and != "0" and not startswith("0x")`). -/
def octalRewrite (s : List Char) : List Char :=
  match s with
  | '0' :: c :: rest => if c = 'x' then s else '0' :: 'o' :: c :: rest
  | _ => s

/-- `_add_integer_constant(name, int_str)`: the value bound to the name, or the error. -/
def addIntegerConstant (intStr : List Char) : Except Err Int :=
  let s := lowerStripUL intStr
  let neg := s.head? = some '-'
  let s := if neg then s.drop 1 else s
  match pyIntBase0 (octalRewrite s) with
  | some v => .ok (if neg then -(v : Int) else v)
  | none => .error .cdef

/-- `_process_macros` / the `static const` branch of `_parse_decl` for one textual value:
`none` = the text does not match `_r_int_literal` (the macro form then raises `CDefError`, the
`static const` form declares a plain variable instead). -/
def literalConstant (text : List Char) : Option (Except Err Int) :=
  if matchIntLiteral text then some (addIntegerConstant text) else none

end CffiVerif.ConstExpr
