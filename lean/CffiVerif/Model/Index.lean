import CffiVerif.Model.Mem
import CffiVerif.Model.IndexBase
import CffiVerif.Generated.IndexExprs
/-
Model of cdata indexing, slicing and pointer arithmetic
(src/c/_cffi_backend.c: `_cdata_get_indexed_ptr`, `_cdata_getslicearg`,
`cdata_slice`, `cdata_ass_slice`, `cdata_subscript`, `cdata_ass_sub`,
`_cdata_add_or_sub`, `cdata_sub`, `direct_typeoffsetof` (integer branch),
`ffi_addressof` / `ffi_offsetof` with one integer index).

Python `int` = `Int` (any magnitude).  `Py_ssize_t` is 64 bit; pointer
arithmetic wraps modulo 2^64 (`wrapU`), `Py_ssize_t` results wrap two's
complement (`wrapS`) -- what gcc/x86-64 does for the (formally undefined)
overflowing cases.  Element *values* are not modelled here (C03/C04 do that):
an item to be stored is the result `Item` of `convert_from_object`, either the
bytes to write or the exception kind it raises.

`Err.Fault` is not a Python exception: the C code would touch memory outside
the modelled allocation.

Not modelled: item types of unknown size in `x[i]`/`x[i:j]` (the real code
fails earlier, when the array type is built); struct-field arguments of
addressof/offsetof; several indexes in one addressof/offsetof call.
-/
namespace CffiVerif.Index
open CffiVerif.Mem

/- Every condition and every arithmetic expression below comes from
Generated/IndexExprs.lean, re-extracted from the C source on every check run
(translate/c16_exprs.py); only the control structure is written by hand. -/
namespace G
export CffiVerif.Generated.IndexExprs (mulWraparound ownPtrIndexRejected ptrIsNull arrayIndexNegative
  arrayIndexTooLarge itemAddr sliceStartAfterStop sliceStartNegative sliceStopTooLarge sliceBound0 sliceBound1
  sliceAddr sliceLength assSliceAddr assSliceLength assSliceMoveBytes assSliceBytesLenMismatch addScaled
  addItemSizeUnknown addVoidItemSize addAddr subItemSizeNotPositive subByteDiff subNeedsDivision subNotMultiple
  subItemDiff offsetofItemSizeUnknown offsetofOffset offsetofOverflow)
end G

inductive Kind
  | array (n : Nat)   -- `T[n]` / `T[]` of length n (owning, slice view, from_buffer …)
  | ptr               -- `T *` that does not own its memory
  | ownptr            -- `T *` returned by `ffi.new("T *")`: `CDataOwn_Check`
  | other             -- any other cdata (primitive, struct …)
deriving Repr, DecidableEq

structure CData where
  kind : Kind
  addr : Nat            -- `c_data`
  isize : Int           -- `ct_itemdescr->ct_size` (-1: unknown)
  tid : Nat             -- identity of the item ctype
  isChar : Bool         -- item type is a one-byte char type (fast path of slice assignment)
  voidp : Bool          -- `CT_IS_VOID_PTR`
deriving Repr, DecidableEq

/-- One allocation placed at absolute address `base`. -/
structure Memory where
  base : Nat
  bytes : Bytes
deriving Repr, DecidableEq

def Memory.load (m : Memory) (addr len : Nat) : Except Err Bytes :=
  if m.base ≤ addr then
    match read m.bytes (addr - m.base) len with
    | some b => .ok b
    | none => .error .Fault
  else .error .Fault

def Memory.store (m : Memory) (addr : Nat) (bs : Bytes) : Except Err Memory :=
  if m.base ≤ addr then
    match write m.bytes (addr - m.base) bs with
    | some b => .ok { m with bytes := b }
    | none => .error .Fault
  else .error .Fault

/-- `_cdata_get_indexed_ptr`: the address of `cd[key]`, or the exception. -/
def indexedPtr (cd : CData) (key : PyArg) : Except Err Nat :=
  match key with
  | .none => .error .TypeError
  | .other => .error .TypeError
  | .int i =>
    if ¬ fitsSsize i then .error .IndexError      -- PyNumber_AsSsize_t(key, PyExc_IndexError)
    else match cd.kind with
      | .ownptr =>
        if G.ownPtrIndexRejected i then .error .IndexError
        else .ok (wrapU (G.itemAddr cd.addr i cd.isize))
      | .ptr =>
        if G.ptrIsNull cd.addr then .error .RuntimeError
        else .ok (wrapU (G.itemAddr cd.addr i cd.isize))
      | .array n =>
        if G.arrayIndexNegative i then .error .IndexError
        else if G.arrayIndexTooLarge i n then .error .IndexError
        else .ok (wrapU (G.itemAddr cd.addr i cd.isize))
      | .other => .error .TypeError

/-- `cdata_subscript` with an integer key: the bytes of the item. -/
def getitem (m : Memory) (cd : CData) (key : PyArg) : Except Err Bytes :=
  match indexedPtr cd key with
  | .error e => .error e
  | .ok a => m.load a cd.isize.toNat

/-- Result of `convert_from_object` on the value to store. -/
abbrev Item := Except Err Bytes

/-- `convert_from_object(c, ctitem, v)` at address `a`. -/
def storeItem (m : Memory) (a : Nat) (isz : Nat) (v : Item) : Memory × Except Err Unit :=
  match v with
  | .error e => (m, .error e)
  | .ok bs =>
    if bs.length ≠ isz then (m, .error .Fault)
    else match m.store a bs with
      | .error e => (m, .error e)
      | .ok m' => (m', .ok ())

/-- `cdata_ass_sub` with an integer key. -/
def setitem (m : Memory) (cd : CData) (key : PyArg) (v : Item) : Memory × Except Err Unit :=
  match indexedPtr cd key with
  | .error e => (m, .error e)
  | .ok a => storeItem m a cd.isize.toNat v

/-- `PyLong_AsSsize_t(slice->start)` plus the `None` special case. -/
def ssizeArg (a : PyArg) : Except Err Int :=
  match a with
  | .none => .error .IndexError
  | .other => .error .TypeError
  | .int i => if fitsSsize i then .ok i else .error .OverflowError

/-- `_cdata_getslicearg`: `(start, length)` of an accepted slice. -/
def sliceArg (cd : CData) (start stop step : PyArg) : Except Err (Int × Int) :=
  match ssizeArg start with
  | .error e => .error e
  | .ok s =>
    match ssizeArg stop with
    | .error e => .error e
    | .ok e =>
      if step ≠ .none then .error .IndexError
      else if G.sliceStartAfterStop s e then .error .IndexError
      else match cd.kind with
        | .array n =>
          if G.sliceStartNegative s then .error .IndexError
          else if G.sliceStopTooLarge e n then .error .IndexError
          else .ok (G.sliceBound0 s e, G.sliceBound1 s e)
        | .ptr => .ok (G.sliceBound0 s e, G.sliceBound1 s e)
        | .ownptr => .ok (G.sliceBound0 s e, G.sliceBound1 s e)
        | .other => .error .TypeError

/-- `cdata_slice`: the view `cd[start:stop]`. -/
def slice (cd : CData) (start stop step : PyArg) : Except Err CData :=
  match sliceArg cd start stop step with
  | .error e => .error e
  | .ok (s, l) =>
    .ok { cd with kind := .array (G.sliceLength l).toNat, addr := wrapU (G.sliceAddr cd.addr cd.isize s) }

/-- Right-hand side of a slice assignment. -/
inductive Rhs
  | items (vs : List Item)                 -- an iterable: conversion result of each item in iteration order
  | bytes (bs : Bytes) (vs : List Item)    -- a bytes/bytearray: its content, and what iterating it converts to
  | carray (addr : Nat) (k : Nat)          -- a cdata array of the *same* item ctype: k items at addr
  | notIterable                            -- `PyObject_GetIter` fails
  | del                                    -- `del x[i:j]`

/-- The item loop of `cdata_ass_slice`: what was written stays written. -/
def assLoop (m : Memory) (addr : Nat) (isz : Nat) : Nat → List Item → Memory × Except Err Unit
  | 0, [] => (m, .ok ())
  | 0, _ :: _ => (m, .error .ValueError)          -- "got more than %zd values to unpack"
  | _ + 1, [] => (m, .error .ValueError)          -- "need %zd values to unpack, got %zd"
  | n + 1, v :: vs =>
    match storeItem m addr isz v with
    | (m', .error e) => (m', .error e)
    | (m', .ok ()) => assLoop m' (addr + isz) isz n vs

/-- The same loop when the iterable is a cdata array of the same item type:
items are read from memory when the iterator reaches them. -/
def assLoopLazy (m : Memory) (dst src : Nat) (isz : Nat) : Nat → Nat → Memory × Except Err Unit
  | 0, 0 => (m, .ok ())
  | 0, _ + 1 => (m, .error .ValueError)
  | _ + 1, 0 => (m, .error .ValueError)
  | n + 1, k + 1 =>
    match m.load src isz with
    | .error e => (m, .error e)
    | .ok bs =>
      match m.store dst bs with
      | .error e => (m, .error e)
      | .ok m' => assLoopLazy m' (dst + isz) (src + isz) isz n k

/-- `memmove` inside the allocation. -/
def Memory.move (m : Memory) (dst src n : Nat) : Memory × Except Err Unit :=
  if m.base ≤ dst ∧ m.base ≤ src then
    match memmove m.bytes (dst - m.base) (src - m.base) n with
    | some b => ({ m with bytes := b }, .ok ())
    | none => (m, .error .Fault)
  else (m, .error .Fault)

/-- `cdata_ass_slice`. -/
def assSlice (m : Memory) (cd : CData) (start stop step : PyArg) (rhs : Rhs) :
    Memory × Except Err Unit :=
  match sliceArg cd start stop step with
  | .error e => (m, .error e)
  | .ok (s, l) =>
    let addr := wrapU (G.assSliceAddr cd.addr cd.isize s)
    let len := (G.assSliceLength l).toNat
    let isz := cd.isize.toNat
    match rhs with
    | .del => (m, .error .TypeError)
    | .carray src k =>
      if k = len then m.move addr src (G.assSliceMoveBytes isz len).toNat      -- fast path: memmove
      else assLoopLazy m addr src isz len k
    | .bytes bs vs =>
      if cd.isChar ∧ isz = 1 then
        if G.assSliceBytesLenMismatch bs.length len then (m, .error .ValueError)
        else match m.store addr bs with                  -- memcpy
          | .error e => (m, .error e)
          | .ok m' => (m', .ok ())
      else assLoop m addr isz len vs
    | .notIterable => (m, .error .TypeError)
    | .items vs => assLoop m addr isz len vs

/-- `_cdata_add_or_sub(v, w, sign)` with `v` the cdata. -/
def addInt (cd : CData) (w : PyArg) (sign : Int) : Except Err CData :=
  match w with
  | .none => .error .TypeError
  | .other => .error .TypeError
  | .int i0 =>
    if ¬ fitsSsize i0 then .error .OverflowError    -- PyNumber_AsSsize_t(w, PyExc_OverflowError)
    else
      let i := wrapS (G.addScaled i0 sign)
      match cd.kind with
      | .other => .error .TypeError
      | _ =>
        if G.addItemSizeUnknown cd.isize then
          if cd.voidp then
            .ok { cd with kind := .ptr, addr := wrapU (G.addAddr cd.addr i (G.addVoidItemSize cd.isize)) }
          else .error .TypeError
        else .ok { cd with kind := .ptr, addr := wrapU (G.addAddr cd.addr i cd.isize) }

def Kind.isPtr : Kind → Bool
  | .ptr => true
  | .ownptr => true
  | _ => false

def Kind.isPtrOrArray : Kind → Bool
  | .other => false
  | _ => true

/-- `cdata_sub` with two cdata operands `v - w`. -/
def ptrSub (v w : CData) : Except Err Int :=
  if ¬ (v.kind.isPtr = true ∧ w.kind.isPtrOrArray = true ∧ v.tid = w.tid) then .error .TypeError
  else if G.subItemSizeNotPositive v.isize ∧ v.voidp = false then .error .TypeError
  else
    let diff := wrapS (G.subByteDiff v.addr w.addr)
    if G.subNeedsDivision v.isize then
      if G.subNotMultiple diff v.isize then .error .ValueError
      else .ok (G.subItemDiff diff v.isize)
    else .ok diff

/-- Integer branch of `direct_typeoffsetof`: byte offset of item `idx`. -/
def typeOffsetof (arrayOrPtr : Bool) (isize : Int) (idx : PyArg) : Except Err Int :=
  match idx with
  | .none => .error .TypeError
  | .other => .error .TypeError
  | .int i =>
    if ¬ fitsSsize i then .error .TypeError       -- "field name or array index expected"
    else if arrayOrPtr = false ∨ G.offsetofItemSizeUnknown isize then .error .TypeError
    else
      let off := G.offsetofOffset i isize         -- MUL_WRAPAROUND
      -- the overflow test divides by the item size; it is skipped for zero-sized items
      if G.offsetofOverflow off i isize then .error .OverflowError else .ok off

/-- `ffi.offsetof("T[]", i)` / `ffi.offsetof("T *", i)`. -/
def offsetof (isize : Int) (idx : PyArg) : Except Err Int := typeOffsetof true isize idx

/-- `ffi.addressof(cd, idx)`. -/
def addressof (cd : CData) (idx : PyArg) : Except Err CData :=
  match typeOffsetof cd.kind.isPtrOrArray cd.isize idx with
  | .error e => .error e
  | .ok off => .ok { cd with kind := .ptr, addr := wrapU (cd.addr + off) }

end CffiVerif.Index
