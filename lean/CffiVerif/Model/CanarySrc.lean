import CffiVerif.Model.Canary

/-!
Source-level operations of `thread_canary_free_zombies`, `thread_canary_register`,
`thread_canary_make_zombie`, `cffi_thread_shutdown`, `gil_ensure`, `gil_release` (the vocabulary of
`Generated/CanarySteps.lean`, re-extracted from `misc_thread_common.h` by `translate/c36_steps.py`),
what the operations of one zombie-loop iteration do to the model state (`runIter`), and the
operation lists the hand-written model functions stand for (`…Model` below, each next to the name
of the `Canary` definition it describes).  `Props/C36.lean` proves the generated lists equal these and
that `Canary.freeHead` *is* the interpretation of the generated loop iteration.
-/
namespace CffiVerif.Canary

inductive CanOp
  | zomLock | zomUnlock | takeHead | zombiePresent (b : Bool) | readTstate | detach | tstateNull (b : Bool)
  | clearTs | clearBoundGilstate | deleteTs | loopBreak | fallOffEnd
  | freeZombies | getTls | getDict | newCanary | canaryNotZombie | canarySetTstate | canarySetTls
  | storeInDict | setLocalCanary | counterIncr
  | fatalIfZombie | appendZombie
  | hasCanary (b : Bool) | clearCanaryTls | makeZombie | freeTls
  | getThisThreadState | hasTs (b : Bool) | isCurrent (b : Bool) | restoreThread | pyGILStateEnsure | register
  | retUnlocked | retLocked | retResult | pyGILStateRelease
  deriving DecidableEq, Repr

/-- registers of one loop iteration of `thread_canary_free_zombies`: `ob`, `tstate` (a canary is
named by the thread state that owns it, so both are `TsId`s) -/
structure IterSt where
  s : State
  ob : Option TsId := none
  tstate : Option TsId := none

/-- effect of one source operation of the loop body on the model state -/
def iterOp (x : IterSt) : CanOp → IterSt
  | .takeHead => { x with ob := x.s.zombies.head? }
  | .readTstate => { x with tstate := x.ob }
  | .detach =>      -- `_thread_canary_detach_with_lock(ob)`: unlink, `zombie_next = NULL`
    match x.ob with
    | some i => { x with s := { x.s with zombies := x.s.zombies.erase i,
                                         ts := upd x.s.ts i { x.s.ts i with zombie := false } } }
    | none => x
  | .clearTs => match x.tstate with
    | some i => { x with s := clearTs x.s i }
    | none => x
  | .clearBoundGilstate => x   -- resets a CPython-internal flag of the dying thread state (external)
  | .deleteTs => match x.tstate with
    | some i => { x with s := deleteTs x.s i }
    | none => x
  | _ => x                      -- lock / unlock, branch markers

def runIter (ops : List CanOp) (s : State) : State := (ops.foldl iterOp { s := s }).s

/-- `Canary.freeHead`, zombie present -/
def freeHeadModel : List CanOp :=
  [.zomLock, .takeHead, .zombiePresent true, .readTstate, .detach, .tstateNull false, .zomUnlock,
   .clearTs, .clearBoundGilstate, .deleteTs, .fallOffEnd]

/-- `Canary.freeHead` / `freeZombies`, list empty: the loop ends -/
def freeLastModel : List CanOp :=
  [.zomLock, .takeHead, .zombiePresent false, .zomUnlock, .tstateNull true, .loopBreak]

/-- the `none` branch of `step? _ (.enter t)` after `PyGILState_Ensure`: `freeZombies`, then
`registerFor` (tls := true; canary := true, canTls := some t; thr.canary := some i; counter + 1) -/
def registerModel : List CanOp :=
  [.freeZombies, .getTls, .getDict, .newCanary, .canaryNotZombie, .canarySetTstate, .canarySetTls,
   .storeInDict, .setLocalCanary, .counterIncr]

/-- `Canary.tlsDestructor`, canary present: `none` if already a zombie, else `canTls := none`,
appended to `zombies`, `zombie := true` -/
def shutdownCanaryModel : List CanOp :=
  [.zomLock, .hasCanary true, .clearCanaryTls, .makeZombie, .zomUnlock, .freeTls, .fallOffEnd]
def makeZombieModel : List CanOp := [.fatalIfZombie, .appendZombie]

/-- `Canary.tlsDestructor`, no canary -/
def shutdownPlainModel : List CanOp := [.zomLock, .hasCanary false, .zomUnlock, .freeTls, .fallOffEnd]

/-- `step? _ (.enter t)`: `some i` branch (counter + 1; current or made current), `none` branch
(`PyGILState_Ensure`, then register) -/
def gilEnsureModel : List (List CanOp) :=
  [[.getThisThreadState, .hasTs true, .counterIncr, .isCurrent false, .restoreThread, .retUnlocked],
   [.getThisThreadState, .hasTs true, .counterIncr, .isCurrent true, .retLocked],
   [.getThisThreadState, .hasTs false, .pyGILStateEnsure, .getThisThreadState, .register, .retResult]]

/-- `step? _ (.exit t)` is `PyGILState_Release` -/
def gilReleaseModel : List CanOp := [.pyGILStateRelease]

end CffiVerif.Canary
