/-
Model of how `_cffi_backend.c` moves Python `bytes` / `str` into and out of
character arrays:

  convertArray   = convert_array_from_object, char / wchar branches (`_cffi_backend.c:1480`):
                   type check, `n > ct_length` -> IndexError, `if (n != ct_length) n++`,
                   then memcpy / _my_PyUnicode_AsChar16 / _my_PyUnicode_AsChar32
  newArrayLength = get_new_array_length for bytes / str (`:1345`)
  newOpen        = direct_newp for `T[]`  (zero-filled allocation of `explicitlength` items,
                   then convert_from_object with `ct_length = -1`)
  newFixed       = direct_newp for `T[n]`
  ffiString      = b_string (`:6769`): `length = maxlen`, else the array length, else unbounded;
                   memchr for 1-byte items, the `while (length < maxlen && start[length])`
                   loops for 2- and 4-byte items; then the unit-to-Python conversion
  ffiUnpack      = b_unpack for CT_PRIMITIVE_CHAR items (exactly `length` units, no scanning)

An array is the list of its units (`List Nat`; bytes for `char`, `signed char`,
`unsigned char` -- the three share every code path modelled here --, 16-bit units
for `char16_t`, 32-bit units for `char32_t` and, on Linux, `wchar_t`).  The
harness reads the units of the real array through `ffi.buffer` (little endian).

A store or a scan that leaves the modelled memory yields `Err.outOfBounds`
(undefined behaviour in C); the theorems show the stores never do and say
exactly when the scans do not.

The tests `n > ct_length`, `n != ct_length`, the `+ 1` of get_new_array_length, the window
and branch tests of b_string and its loop conditions are taken from `Generated/CharExprs.lean`
(re-extracted from the C source on every check run; `Proofs/CharArray.lean` proves what they mean).

Not modelled: `_Bool[]` initialised from bytes (`must_be_array_of_zero_or_one`),
list/tuple initialisers (C20), `ffi.string` on non-character cdata.
-/
import CffiVerif.Model.Utf16
namespace CffiVerif.CharArray
open CffiVerif.Utf16 CffiVerif.Generated.CharExprs

/-- `ctitem->ct_size` of the character item. -/
inductive Width
  | w1 | w2 | w4
  deriving DecidableEq, Repr

/-- `ctitem->ct_size` as a number. -/
def Width.bytes : Width → Nat
  | .w1 => 1
  | .w2 => 2
  | .w4 => 4

/-- The Python initialiser: `bytes` (a list of byte values) or `str` (code points). -/
inductive PyVal
  | bytes (b : List Nat)
  | str (s : Str)
  deriving DecidableEq, Repr

/-- The C array as the string it spells, before any terminator: what the
property calls "the string" in units. -/
def unitsOf : Width → PyVal → Except Err Units
  | .w1, .bytes b => .ok b
  | .w2, .str s => encode16 s
  | .w4, .str s => .ok s
  | .w1, .str _ => .error .typeError
  | .w2, .bytes _ => .error .typeError
  | .w4, .bytes _ => .error .typeError

/-- `get_new_array_length` (the type of the initialiser is *not* checked here:
a `str` for `char[]` is measured with `_my_PyUnicode_SizeAsChar32`). -/
def newArrayLength (w : Width) : PyVal → Nat
  | .bytes b => nalBytes b.length                                   -- PyBytes_GET_SIZE(value) + 1
  | .str s => nalUnicode (if nalUse16 w.bytes then size16 s else size32 s)   -- length + 1

/-- Storing `out` at the start of the array `mem`. -/
def store (mem : Units) (out : Units) : Except Err Units :=
  if out.length ≤ mem.length then .ok (out ++ mem.drop out.length) else .error .outOfBounds

/-- `ct->ct_length` as the C integer: `-1` for `T[]`. -/
def ctLengthInt : Option Nat → Int
  | some len => (len : Int)
  | none => -1

/-- `ct->ct_length >= 0 && n > ct->ct_length` -/
def tooLong (ctLength : Option Nat) (n : Nat) : Bool :=
  caTooLong (n : Int) (ctLengthInt ctLength)

/-- `if (n != ct->ct_length) n++;`  (`ct_length = -1` for `T[]`). -/
def bump (ctLength : Option Nat) (n : Nat) : Nat :=
  if caAddNul (n : Int) (ctLengthInt ctLength) then n + 1 else n

/-- `convert_array_from_object(data, ct, init)` for a character item type;
`ctLength = none` is `T[]` (`ct_length < 0`).  Result: the new contents of the array. -/
def convertArray (w : Width) (ctLength : Option Nat) (mem : Units) (init : PyVal) : Except Err Units :=
  match w, init with
  | .w1, .bytes b =>
    let n := b.length
    if tooLong ctLength n then .error .indexError
    else store mem ((b ++ [0]).take (bump ctLength n))   -- memcpy(data, srcdata, n); srcdata is NUL-terminated
  | .w1, .str _ => .error .typeError
  | .w2, .str s =>
    let n := size16 s
    if tooLong ctLength n then .error .indexError
    else match asChar16 s (bump ctLength n) with
      | .ok out => store mem out
      | .error e => .error e
  | .w4, .str s =>
    let n := size32 s
    if tooLong ctLength n then .error .indexError
    else match asChar32 s (bump ctLength n) with
      | .ok out => store mem out
      | .error e => .error e
  | .w2, .bytes _ => .error .typeError
  | .w4, .bytes _ => .error .typeError

/-- `ffi.new("T[]", init)`. -/
def newOpen (w : Width) (init : PyVal) : Except Err Units :=
  convertArray w none (List.replicate (newArrayLength w init) 0) init

/-- `ffi.new("T[len]", init)`. -/
def newFixed (w : Width) (len : Nat) (init : PyVal) : Except Err Units :=
  convertArray w (some len) (List.replicate len 0) init

/-- `length = 0; while (start[length]) length++;` (also `strlen`). -/
def scanUnbounded : Units → Except Err Nat
  | [] => .error .outOfBounds
  | u :: rest =>
    if scanGoUnbounded u then
      match scanUnbounded rest with
      | .ok k => .ok (k + 1)
      | .error e => .error e
    else .ok 0

/-- `while (length < maxlen && start[length]) length++;` from the current `length` on, `rest` being the
memory from `start + length`; the `&&` short-circuits, so `start[length]` is read only inside the window. -/
def scanLoopFrom (maxlen : Nat) : Units → Nat → Except Err Nat
  | [], length => if scanInWindow length maxlen then .error .outOfBounds else .ok length
  | u :: rest, length =>
    if scanInWindow length maxlen && scanNonZero u then scanLoopFrom maxlen rest (length + 1)
    else .ok length

/-- `maxlen = length; length = 0; while (length < maxlen && start[length]) length++;` -/
def scanLoop (mem : Units) (maxlen : Nat) : Except Err Nat :=
  scanLoopFrom maxlen mem 0

/-- `end = memchr(start, 0, length); if (end != NULL) length = end - start;`
(memchr reads sequentially and stops at the first match, C11 7.24.5.1). -/
def scanMemchr (mem : Units) (length : Nat) : Except Err Nat :=
  let window := mem.take length
  if 0 ∈ window then .ok (window.idxOf 0)
  else if length ≤ mem.length then .ok length
  else .error .outOfBounds

/-- The units `ffi.string` converts: `length = none` is a pointer without `maxlen`. -/
def cstringUnits (w : Width) (mem : Units) (length : Option Nat) : Except Err Units :=
  let n := match length with      -- `if (length < 0)`: the generated test must tell the two cases apart
    | none => if strUnbounded (-1) then scanUnbounded mem else .error .unmodelled
    | some len =>
      if strUnbounded (len : Int) then .error .unmodelled
      else if w = Width.w1 then scanMemchr mem len else scanLoop mem len
  match n with
  | .ok k => .ok (mem.take k)
  | .error e => .error e

/-- `Py_ssize_t length = maxlen; if (length < 0 && CT_ARRAY) length = get_array_length(cd);` -/
def effLength (maxlen arrayLen : Option Nat) : Option Nat :=
  if strUseArrayLen (ctLengthInt maxlen) arrayLen.isSome then arrayLen else maxlen

/-- units -> Python object, per item size. -/
def toPython (w : Width) (u : Units) : Except Err PyVal :=
  match w with
  | .w1 => .ok (.bytes u)
  | .w2 => .ok (.str (decode16 u))
  | .w4 => match fromChar32 u with
    | .ok s => .ok (.str s)
    | .error e => .error e

/-- `ffi.string(cd, maxlen)` where `mem` is the memory from `cd->c_data` on;
`arrayLen = some n` when `cd` is an array of `n` items. -/
def ffiString (w : Width) (mem : Units) (maxlen arrayLen : Option Nat) : Except Err PyVal :=
  match cstringUnits w mem (effLength maxlen arrayLen) with
  | .ok u => toPython w u
  | .error e => .error e

/-- The units `ffi.unpack(cd, n)` converts: exactly `n`, zero or not. -/
def unpackUnits (mem : Units) (n : Nat) : Except Err Units :=
  if n ≤ mem.length then .ok (mem.take n) else .error .outOfBounds

/-- `ffi.unpack(cd, n)` for `char`, `char16_t`, `char32_t`/`wchar_t` items. -/
def ffiUnpack (w : Width) (mem : Units) (n : Nat) : Except Err PyVal :=
  match unpackUnits mem n with
  | .ok u => toPython w u
  | .error e => .error e

end CffiVerif.CharArray
