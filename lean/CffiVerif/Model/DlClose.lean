/-
Model of symbol access through a `dlopen`ed library object and of `ffi.dlclose`,
for the two ABI-mode implementations:

* in-line (`cffi.FFI().dlopen`): `api.py` `_make_ffi_library` + the backend's
  `dl_load_function` / `dl_read_variable` / `dl_write_variable` / `dl_close_lib`
  (`_cffi_backend.c`), each of which starts with `dl_check_closed`.
  Functions are cached in `library.__dict__`; variables are properties on the
  library's class and go to the backend on every access (nothing holding an
  address is cached).  `__cffi_close__` = `close_lib()` then `__dict__.clear()`.
* out-of-line (`ffi.dlopen` of an `emit_python_code` module): `lib_obj.c`
  `lib_build_and_cache_attr` → `cdlopen_fetch` (fails when `l_libhandle == NULL`),
  which caches *both* function objects and global-variable accessors (holding
  the resolved address) in `l_dict`; a cached accessor is used without any
  closed check.  `ffi_dlclose` (`cdlopen.c`) sets the handle to NULL and clears
  `l_dict`.

A library is the set of symbols it exports: functions, and `int` globals with
their initial values (`dlsym` succeeds exactly on those).  Names are numbers.
Not modelled: the range check of the written value (`int`), `ffi.addressof(lib, …)`,
integer constants (they never touch the library), what calling a function
object fetched before the close does afterwards (undefined; outside the property).
-/
namespace CffiVerif.DlClose

abbrev Name := Nat

inductive Impl | inline | outOfLine
  deriving Repr, DecidableEq

structure State where
  /-- the handle is non-NULL -/
  isOpen : Bool
  /-- names of the function objects cached in `library.__dict__` / `l_dict` -/
  cachedF : List Name
  /-- out-of-line only: names of the global-variable accessors (with resolved address) cached in `l_dict` -/
  cachedV : List Name
  /-- exported functions of the loaded library -/
  funcs : List Name
  /-- memory of the library's globals: exported variable ↦ current value -/
  mem : List (Name × Int)
  deriving Repr, DecidableEq

/-- Freshly `dlopen`ed library. -/
def openLib (funcs : List Name) (vars : List (Name × Int)) : State :=
  { isOpen := true, cachedF := [], cachedV := [], funcs := funcs, mem := vars }

inductive Op
  | getFunc (n : Name)            -- `lib.n` for a name declared as a function
  | readVar (n : Name)            -- `lib.n` for a name declared as a variable
  | writeVar (n : Name) (v : Int) -- `lib.n = v`
  | close                         -- `ffi.dlclose(lib)`
  deriving Repr, DecidableEq

inductive Err | closed | notFound
  deriving Repr, DecidableEq

inductive Out
  | func (n : Name)     -- a function object for symbol `n`
  | value (v : Int)
  | done
  | err (e : Err)
  deriving Repr, DecidableEq

def setMem : List (Name × Int) → Name → Int → List (Name × Int)
  | [], _, _ => []
  | (m, x) :: rest, n, v => if m = n then (m, v) :: rest else (m, x) :: setMem rest n v

/-- Resolve the address of variable `n`: `dl_check_closed` / `cdlopen_fetch`'s NULL test, then `dlsym`. -/
def fetchVar (s : State) (n : Name) : Except Err Int :=
  if !s.isOpen then .error .closed
  else match s.mem.lookup n with
    | some v => .ok v
    | none => .error .notFound

def step (impl : Impl) (s : State) : Op → State × Out
  | .getFunc n =>
    if n ∈ s.cachedF then (s, .func n)                 -- dict hit: no library access
    else if !s.isOpen then (s, .err .closed)
    else if n ∈ s.funcs then ({ s with cachedF := n :: s.cachedF }, .func n)
    else (s, .err .notFound)
  | .readVar n =>
    match impl with
    | .inline =>
      match fetchVar s n with
      | .ok v => (s, .value v)
      | .error e => (s, .err e)
    | .outOfLine =>
      if n ∈ s.cachedV then
        -- cached accessor: dereferences the remembered address, no closed check
        match s.mem.lookup n with
        | some v => (s, .value v)
        | none => (s, .err .notFound)
      else match fetchVar s n with
        | .ok v => ({ s with cachedV := n :: s.cachedV }, .value v)
        | .error e => (s, .err e)
  | .writeVar n v =>
    match impl with
    | .inline =>
      match fetchVar s n with
      | .ok _ => ({ s with mem := setMem s.mem n v }, .done)
      | .error e => (s, .err e)
    | .outOfLine =>
      if n ∈ s.cachedV then
        match s.mem.lookup n with
        | some _ => ({ s with mem := setMem s.mem n v }, .done)
        | none => (s, .err .notFound)
      else match fetchVar s n with
        | .ok _ => ({ s with cachedV := n :: s.cachedV, mem := setMem s.mem n v }, .done)
        | .error e => (s, .err e)
  | .close =>
    if s.isOpen then ({ s with isOpen := false, cachedF := [], cachedV := [] }, .done)
    else (s, .done)

def run (impl : Impl) (s : State) : List Op → State
  | [] => s
  | op :: rest => run impl (step impl s op).1 rest

end CffiVerif.DlClose
