import CffiVerif.Generated.DlCloseSteps

/-
Model of symbol access through a `dlopen`ed library object and of `ffi.dlclose`,
for the two ABI-mode implementations:

* in-line (`cffi.FFI().dlopen`): `api.py` `_make_ffi_library` + the backend's
  `dl_load_function` / `dl_read_variable` / `dl_write_variable` / `dl_close_lib`
  (`_cffi_backend.c`), each of which starts with `dl_check_closed`.
  Functions are cached in `library.__dict__`; variables are properties on the
  library's class and go to the backend on every access (nothing holding an
  address is cached).  `__cffi_close__` = `close_lib()` then `__dict__.clear()`.
* out-of-line (`ffi.dlopen` of an `emit_python_code` module): `lib_obj.c`
  `lib_build_and_cache_attr` → `cdlopen_fetch` (fails when `l_libhandle == NULL`),
  which caches *both* function objects and global-variable accessors (holding
  the resolved address) in `l_dict`; a cached accessor is used without any
  closed check.  `ffi_dlclose` (`cdlopen.c`) sets the handle to NULL and clears
  `l_dict`.

A library is the set of symbols it exports: functions, and `int` globals with
their initial values (`dlsym` succeeds exactly on those).  Names are numbers.
The close is modelled both as one uninterrupted call (`Op.close`) and as the
sequence of its steps (`Op.closeStep`) with other threads' accesses in between.
Not modelled: the range check of the written value (`int`), `ffi.addressof(lib, …)`,
integer constants (they never touch the library), what calling a function
object fetched before the close does afterwards (undefined; outside the property).
-/
namespace CffiVerif.DlClose

abbrev Name := Nat

inductive Impl | inline | outOfLine
  deriving Repr, DecidableEq

/-- Where the `ffi.dlclose` call that is closing the library stands (`none`: no close in flight). -/
inductive Phase
  | none
  | nulled     -- the handle has been NULLed, the cache is not cleared yet
  | cleared    -- (out-of-line) handle NULLed and cache cleared, `dlclose()` not called yet
  deriving Repr, DecidableEq

structure State where
  /-- the handle is non-NULL -/
  isOpen : Bool
  /-- names of the function objects cached in `library.__dict__` / `l_dict` -/
  cachedF : List Name
  /-- out-of-line only: names of the global-variable accessors (with resolved address) cached in `l_dict` -/
  cachedV : List Name
  /-- exported functions of the loaded library -/
  funcs : List Name
  /-- memory of the library's globals: exported variable ↦ current value -/
  mem : List (Name × Int)
  /-- progress of the in-flight close -/
  phase : Phase
  /-- ghost: this handle's reference to the library has not been given back to `dlclose()` yet -/
  loaded : Bool
  deriving Repr, DecidableEq

/-- Freshly `dlopen`ed library. -/
def openLib (funcs : List Name) (vars : List (Name × Int)) : State :=
  { isOpen := true, cachedF := [], cachedV := [], funcs := funcs, mem := vars, phase := .none, loaded := true }

inductive Op
  | getFunc (n : Name)            -- `lib.n` for a name declared as a function
  | readVar (n : Name)            -- `lib.n` for a name declared as a variable
  | writeVar (n : Name) (v : Int) -- `lib.n = v`
  | close                         -- a whole `ffi.dlclose(lib)` call, executed without interruption
  | closeStep                     -- the next step of an `ffi.dlclose(lib)` call other threads interleave with
  deriving Repr, DecidableEq

inductive Err
  | closed
  | notFound
  | useAfterUnload    -- the access went to the library after `dlclose()`: what the property forbids
  deriving Repr, DecidableEq

inductive Out
  | func (n : Name)     -- a function object for symbol `n`
  | value (v : Int)
  | written             -- the assignment succeeded
  | closing             -- an intermediate step of a close
  | done                -- an `ffi.dlclose` call returned
  | err (e : Err)
  deriving Repr, DecidableEq

def setMem : List (Name × Int) → Name → Int → List (Name × Int)
  | [], _, _ => []
  | (m, x) :: rest, n, v => if m = n then (m, v) :: rest else (m, x) :: setMem rest n v

/-- Resolve the address of variable `n`: `dl_check_closed` / `cdlopen_fetch`'s NULL test, then `dlsym`. -/
def fetchVar (s : State) (n : Name) : Except Err Int :=
  if !s.isOpen then .error .closed
  else if !s.loaded then .error .useAfterUnload
  else match s.mem.lookup n with
    | some v => .ok v
    | none => .error .notFound

/-- Dereference a cached address (out-of-line accessor objects): no closed check. -/
def derefVar (s : State) (n : Name) : Except Err Int :=
  if !s.loaded then .error .useAfterUnload
  else match s.mem.lookup n with
    | some v => .ok v
    | none => .error .notFound

/-- `ffi.dlclose(lib)` as one uninterrupted call.
* out-of-line (`ffi_dlclose`): nothing if the handle is NULL; else NULL it, clear `l_dict`, `dlclose()`.
* in-line (`__cffi_close__`): `close_lib()` (`dlclose()` + NULL if not yet) then `__dict__.clear()`, unconditionally. -/
def closeAll (impl : Impl) (s : State) : State :=
  match impl with
  | .outOfLine => if s.isOpen then { s with isOpen := false, cachedF := [], cachedV := [], loaded := false } else s
  | .inline => { s with isOpen := false, cachedF := [], cachedV := [], loaded := (if s.isOpen then false else s.loaded) }

/-- What `closeStep` (below, built from the extracted step lists) amounts to for the source as it is
(`C37.closeStep_eq_spec`): the same call as the sequence of its steps, in the order the code performs them; any operation
of another thread may come between two `closeStep`s (this allows more interleavings than the GIL does
today: in `ffi_dlclose` all three steps run without a release point; in `__cffi_close__` there is one
between `close_lib()` and `__dict__.clear()`).
* out-of-line: (1) test + NULL the handle, (2) clear the cache, (3) `dlclose()`.
* in-line: (1) `close_lib()`: `dlclose()` and NULL the handle atomically, (2) clear `__dict__`. -/
def closeStepSpec (impl : Impl) (s : State) : State × Out :=
  match impl, s.phase with
  | .outOfLine, .none =>
    if s.isOpen then ({ s with isOpen := false, phase := .nulled }, .closing) else (s, .done)
  | .outOfLine, .nulled => ({ s with cachedF := [], cachedV := [], phase := .cleared }, .closing)
  | .outOfLine, .cleared => ({ s with loaded := false, phase := .none }, .done)
  | .inline, .none =>
    ({ s with isOpen := false, loaded := (if s.isOpen then false else s.loaded), phase := .nulled }, .closing)
  | .inline, .nulled => ({ s with cachedF := [], cachedV := [], phase := .none }, .done)
  | .inline, .cleared => ({ s with phase := .none }, .done)    -- no such step in-line (unreachable)

open CffiVerif.Generated.DlCloseSteps in
/-- One primitive action of a close. -/
def applyAct (s : State) : Act → State
  | .nullHandle => { s with isOpen := false }
  | .clearCache => { s with cachedF := [], cachedV := [] }
  | .sysDlclose => { s with loaded := false }

open CffiVerif.Generated.DlCloseSteps in
/-- The steps of `ffi.dlclose(lib)` between which other threads may run, each a list of actions done without
a release point, **in the order extracted from the source** (`Generated/DlCloseSteps.lean`).
* out-of-line: each statement of `ffi_dlclose`'s `if (libhandle != NULL)` block is its own step (more
  interleavings than the GIL allows today);
* in-line: the statements of `__cffi_close__`; `close_lib()` is one C call performing `inlineCloseLib`. -/
def closeGroups : Impl → List (List Act)
  | .outOfLine => outOfLineClose.map fun a => [a]
  | .inline => inlinePyClose.map fun
    | .closeLib => inlineCloseLib
    | .clearDict => [.clearCache]

def phaseIdx : Phase → Nat
  | .none => 0
  | .nulled => 1
  | .cleared => 2

def idxPhase : Nat → Phase
  | 0 => .none
  | 1 => .nulled
  | _ => .cleared

/-- The next step of the in-flight close: the `phaseIdx`-th group of `closeGroups`.  Guards as in the code:
out-of-line, the whole call returns at once when the handle is already NULL at its start; in-line, `close_lib()`
acts only `if (dlobj->dl_handle != NULL)` while `__dict__.clear()` is unconditional. -/
def closeStep (impl : Impl) (s : State) : State × Out :=
  let gs := closeGroups impl
  let k := phaseIdx s.phase
  match gs[k]? with
  | none => ({ s with phase := .none }, .done)
  | some acts =>
    if impl = .outOfLine ∧ k = 0 ∧ s.isOpen = false then (s, .done) else
    let guarded := impl = .inline ∧ k = 0
    let s' := if guarded ∧ s.isOpen = false then s else acts.foldl applyAct s
    if k + 1 = gs.length then ({ s' with phase := .none }, .done)
    else ({ s' with phase := idxPhase (k + 1) }, .closing)

def outOf : Except Err Int → (Int → State × Out) → State → State × Out
  | .ok v, k, _ => k v
  | .error e, _, s => (s, .err e)

def step (impl : Impl) (s : State) : Op → State × Out
  | .getFunc n =>
    if n ∈ s.cachedF then (s, .func n)                 -- dict hit: no library access
    else if !s.isOpen then (s, .err .closed)
    else if !s.loaded then (s, .err .useAfterUnload)
    else if n ∈ s.funcs then ({ s with cachedF := n :: s.cachedF }, .func n)
    else (s, .err .notFound)
  | .readVar n =>
    match impl with
    | .inline => outOf (fetchVar s n) (fun v => (s, .value v)) s
    | .outOfLine =>
      if n ∈ s.cachedV then outOf (derefVar s n) (fun v => (s, .value v)) s
      else outOf (fetchVar s n) (fun v => ({ s with cachedV := n :: s.cachedV }, .value v)) s
  | .writeVar n v =>
    match impl with
    | .inline => outOf (fetchVar s n) (fun _ => ({ s with mem := setMem s.mem n v }, .written)) s
    | .outOfLine =>
      if n ∈ s.cachedV then outOf (derefVar s n) (fun _ => ({ s with mem := setMem s.mem n v }, .written)) s
      else outOf (fetchVar s n) (fun _ => ({ s with cachedV := n :: s.cachedV, mem := setMem s.mem n v }, .written)) s
  | .close => (closeAll impl s, .done)
  | .closeStep => closeStep impl s

def run (impl : Impl) (s : State) : List Op → State
  | [] => s
  | op :: rest => run impl (step impl s op).1 rest

end CffiVerif.DlClose
