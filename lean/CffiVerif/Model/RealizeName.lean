import CffiVerif.Generated.RealizeNameExprs

/-
Model of `_realize_name` / `_unrealize_name` (src/c/realize_c_type.c:320,336): the mapping between the
tag under which a struct/union is stored in the generated `struct_unions` table ("xyz", "$xyz" for an
anonymous aggregate named only through `typedef … xyz`, "$1" for a numbered anonymous one) and the name of
the realized ctype ("struct xyz", "xyz", "struct $1"), and its reverse, which `do_realize_lazy_struct`
uses to look the tag up again by name (`search_in_struct_unions`).

C strings are `List UInt8` without the terminating NUL; reading at the terminator yields 0.
`target` is assumed large enough (the callers allocate `strlen + 8`; not modelled).
-/
namespace CffiVerif.RealizeName

abbrev CStr := List UInt8

/-- `s[i]` of a NUL-terminated string: 0 at (and, in the model, beyond) the terminator. -/
def charAt (s : CStr) (i : Nat) : Nat :=
  match s[i]? with
  | some b => b.toNat
  | none => 0

/-- `strncmp(a, b, n)` on two NUL-terminated strings. -/
def strncmpN : CStr → CStr → Nat → Int
  | _, _, 0 => 0
  | a, b, n + 1 =>
    if charAt a 0 ≠ charAt b 0 then (charAt a 0 : Int) - (charAt b 0 : Int)
    else if charAt a 0 = 0 then 0
    else strncmpN a.tail b.tail n

/-- `_realize_name(target, prefix, srcname)`: the value left in `target`.  (`&&` short-circuits in C, so
`srcname[1]` is only read when `srcname[0] == '$'`; evaluating it anyway gives the same answer.) -/
def realizeName (pfx src : CStr) : CStr :=
  if Generated.RealizeName.isTypedefNamed (charAt src 0) (charAt src 1) = true then
    src.drop Generated.RealizeName.typedefSkip
  else pfx ++ src

/-- The if / else-if chain of `_unrealize_name` over the regenerated branch table. -/
def unrealizeFrom : List (CStr × Nat × Nat) → CStr → CStr
  | [], s => Generated.RealizeName.unrealizeElse ++ s
  | (lit, n, k) :: rest, s => if strncmpN s lit n = 0 then s.drop k else unrealizeFrom rest s

def unrealizeName (s : CStr) : CStr := unrealizeFrom Generated.RealizeName.unrealizeCases s

def structPfx : CStr := [115, 116, 114, 117, 99, 116, 32]
def unionPfx : CStr := [117, 110, 105, 111, 110, 32]
def enumPfx : CStr := [101, 110, 117, 109, 32]

/-- No space and no NUL: what a C identifier (and a `$`-tag built from one) satisfies. -/
def NoSpace (s : CStr) : Prop := ∀ b ∈ s, b ≠ 32

end CffiVerif.RealizeName
