/-
Flat byte memory shared by the indexing / buffer models (C16, C19).

A memory is a `List UInt8`; position 0 of the list is the lowest modelled
address.  A *view* `(base, off, len)` denotes the `len` bytes that start `off`
bytes into the region that starts at flat position `base` (a region is one
allocation: a cdata owning array, a bytearray, an array.array …).  Reads and
writes outside the list are not given a default: they return `none`
(the C code would access memory it does not own).

`memmove` is modelled the way a libc implements it -- a byte loop whose
direction depends on the relative position of source and destination -- so that
"behaves as a copy through a temporary for any overlap" is a theorem
(`Proofs/Mem.lean`) and not the definition.  `memcpyFwd` is the naive ascending
loop (what `memcpy` is allowed to be).
-/
namespace CffiVerif.Mem

abbrev Bytes := List UInt8

/-- Results of model operations are compared by `decide` in examples and witnesses. -/
instance instDecEqExcept {ε α : Type} [DecidableEq ε] [DecidableEq α] : DecidableEq (Except ε α)
  | .ok a, .ok b => if h : a = b then isTrue (by rw [h]) else isFalse (fun e => h (by injection e))
  | .error a, .error b => if h : a = b then isTrue (by rw [h]) else isFalse (fun e => h (by injection e))
  | .ok _, .error _ => isFalse (fun e => by cases e)
  | .error _, .ok _ => isFalse (fun e => by cases e)

structure View where
  base : Nat
  off : Nat
  len : Nat
deriving Repr, DecidableEq

/-- First flat position of the view. -/
def View.start (v : View) : Nat := v.base + v.off

/-- Sub-view `[o, o+l)` of a view; rejected when it does not fit. -/
def View.sub (v : View) (o l : Nat) : Option View :=
  if o + l ≤ v.len then some { base := v.base, off := v.off + o, len := l } else none

/-- `len` bytes at flat position `off`. -/
def read (m : Bytes) (off len : Nat) : Option Bytes :=
  if off + len ≤ m.length then some ((m.drop off).take len) else none

/-- Overwrite `bs.length` bytes at flat position `off`. -/
def write (m : Bytes) (off : Nat) (bs : Bytes) : Option Bytes :=
  if off + bs.length ≤ m.length then some (m.take off ++ bs ++ m.drop (off + bs.length)) else none

def readView (m : Bytes) (v : View) : Option Bytes := read m v.start v.len

def writeView (m : Bytes) (v : View) (bs : Bytes) : Option Bytes :=
  if bs.length = v.len then write m v.start bs else none

/-- Ascending byte loop `for k in 0..n: m[dst+k] = m[src+k]`. -/
def copyFwd (m : Bytes) (dst src : Nat) : Nat → Option Bytes
  | 0 => some m
  | n + 1 =>
    match m[src]? with
    | none => none
    | some b => if dst < m.length then copyFwd (m.set dst b) (dst + 1) (src + 1) n else none

/-- Descending byte loop `for k in n-1..0: m[dst+k] = m[src+k]`. -/
def copyBwd (m : Bytes) (dst src : Nat) : Nat → Option Bytes
  | 0 => some m
  | n + 1 =>
    match m[src + n]? with
    | none => none
    | some b => if dst + n < m.length then copyBwd (m.set (dst + n) b) dst src n else none

/-- libc `memmove(dst, src, n)` inside one flat memory. -/
def memmove (m : Bytes) (dst src n : Nat) : Option Bytes :=
  if dst ≤ src then copyFwd m dst src n else copyBwd m dst src n

/-- The naive ascending copy (a legal `memcpy`). -/
def memcpyFwd (m : Bytes) (dst src n : Nat) : Option Bytes := copyFwd m dst src n

/-- Copy through a temporary buffer: read everything, then write. -/
def copyViaTemp (m : Bytes) (dst src n : Nat) : Option Bytes :=
  match read m src n with
  | none => none
  | some tmp => write m dst tmp

end CffiVerif.Mem
