import CffiVerif.Generated.IncludeSteps
/-!
Model of `ffi.include()` at run time in generated modules (C34).

A generated module (out-of-line ABI `.py` or API-mode extension) re-emits every declaration it
got from the FFIs it includes: structs/unions of included FFIs appear in `_cffi_struct_unions[]`
with `_CFFI_F_EXTERNAL` and no fields (recompiler.py `_struct_ctx`), enums are emitted again in
full, integer constants of included FFIs are *not* emitted.  At run time

* `_realize_c_struct_or_union` (realize_c_type.c:359) resolves an external entry with
  `_fetch_external_struct_or_union` (ffi_obj.c:1183): depth-first over `included_ffis`, skipping
  modules that do not know the name, returning the first non-external entry of the same kind,
  recursion bounded by 100;
* `ffi_fetch_int_constant` (ffi_obj.c:96) looks a name up in the module's own globals, then
  depth-first in the included FFIs, same bound; a non-integer global is an error;
* `lib_build_and_cache_attr` (lib_obj.c:208) delegates a missing `lib` attribute depth-first to the
  included libs, same bound;
* an enum type is built by `b_new_enum_type` in every module that declares it
  (realize_c_type.c:512): its identity is per module.

Modules are numbered by position in the table; `includes` lists indices in `ffi.include()` order.
`ObjId` stands for the identity of a ctype object.
-/
namespace CffiVerif.Include
open CffiVerif.Generated

abbrev ObjId := Nat

structure SDecl where
  isUnion : Bool
  external : Bool
  obj : ObjId            -- the ctype this module builds for it (used when not external)
  deriving Repr, DecidableEq

inductive GKind where
  | intConst (v : Int)   -- `_CFFI_OP_CONSTANT_INT` / `_CFFI_OP_ENUM`
  | other (id : Nat)     -- function, global variable, non-integer constant (id: which C object)
  deriving Repr, DecidableEq

structure Module where
  structs : List (String × SDecl)
  enums : List (String × ObjId)
  globals : List (String × GKind)
  includes : List Nat
  deriving Repr

abbrev Mods := List Module

inductive Err where
  | recursionOverflow    -- RuntimeError "recursion overflow in ffi.include() delegations"
  | ffiError             -- not found where it should come from an include / wrong kind of global
  | importError          -- an included module does not exist
  | attributeError       -- lib has no such attribute
  deriving Repr, DecidableEq


instance exceptDecEq {ε α : Type} [DecidableEq ε] [DecidableEq α] : DecidableEq (Except ε α) := fun a b =>
  match a, b with
  | .ok x, .ok y => if h : x = y then isTrue (by rw [h]) else isFalse (fun h' => by cases h'; exact h rfl)
  | .error x, .error y => if h : x = y then isTrue (by rw [h]) else isFalse (fun h' => by cases h'; exact h rfl)
  | .ok _, .error _ => isFalse (fun h => by cases h)
  | .error _, .ok _ => isFalse (fun h => by cases h)

/-! ### The order of steps this model implements, and the recursion bounds it takes from the source

`Generated/IncludeSteps.lean` holds the order in which the C functions perform their steps and the
`recursion > N` bounds, re-extracted every run; `Props/C34.lean` (`lookup_order_is_source`) proves by
`decide` that they are the ones written here. -/

/-- `libLookup` / `libGetattr`: own table first; on a miss the in-order scan of every included lib
    (recursively); only after the scan the early exit for recursive frames; at top level AttributeError. -/
def modelLibSteps : List IncludeSteps.Step :=
  [.ownTable, .scanIncludes, .earlyExitIfRecursive, .attributeError]

/-- `fetch` / `fetchList`. -/
def modelFetchStructSteps : List IncludeSteps.Step :=
  [.nullCheck, .depthGuard, .searchInclude, .skipIfAbsent, .realizeIfOrigin, .recurse, .propagate, .notFound]

/-- `fetchConst`. -/
def modelFetchConstSteps : List IncludeSteps.Step :=
  [.ownTable, .scanIncludes, .depthGuard, .recurse, .propagate, .notFound]

/-- Fuel of a first call (`recursion = 0`): frames with `recursion ≤ N` may loop, i.e. `N + 1` nested
    self-calls (each adds `…RecursionStep = 1`) before the guard `recursion > N` fires. -/
def structFuel : Nat := IncludeSteps.fetchStructRecursionLimit + 1
def constFuel : Nat := IncludeSteps.fetchConstRecursionLimit + 1
def libFuel : Nat := IncludeSteps.libRecursionLimit + 1

/-- The `for` loop of `_fetch_external_struct_or_union` over `included_ffis`; `deeper` is the
    recursive call with `recursion + 1`. -/
def fetchList (mods : Mods) (name : String) (isUnion : Bool)
    (deeper : List Nat → Except Err (Option ObjId)) : List Nat → Except Err (Option ObjId)
  | [] => .ok none
  | i :: rest =>
    match mods[i]? with
    | none => .error .importError
    | some m =>
      match m.structs.lookup name with
      | none => fetchList mods name isUnion deeper rest            -- "not found at all": continue
      | some s1 =>
        if !s1.external && s1.isUnion == isUnion then .ok (some s1.obj)
        else
          match deeper m.includes with
          | .error e => .error e
          | .ok (some o) => .ok (some o)
          | .ok none => fetchList mods name isUnion deeper rest

/-- `_fetch_external_struct_or_union(s, included_ffis, recursion)` with `fuel = 101 - recursion`. -/
def fetch (mods : Mods) (name : String) (isUnion : Bool) : Nat → List Nat → Except Err (Option ObjId)
  | _, [] => .ok none                         -- `included_ffis == NULL`
  | 0, _ :: _ => .error .recursionOverflow    -- `recursion > 100`
  | fuel + 1, i :: rest => fetchList mods name isUnion (fetch mods name isUnion fuel) (i :: rest)

/-- `ffi.typeof("struct name")` in module `k`: the module's own ctype, or the origin's. -/
def realizeStruct (mods : Mods) (k : Nat) (name : String) : Except Err ObjId :=
  match mods[k]? with
  | none => .error .importError
  | some m =>
    match m.structs.lookup name with
    | none => .error .ffiError
    | some s =>
      if !s.external then .ok s.obj
      else
        match fetch mods name s.isUnion structFuel m.includes with
        | .error e => .error e
        | .ok (some o) => .ok o
        | .ok none => .error .ffiError       -- "should come from ffi.include() but was not found"

/-- `ffi.typeof("enum name")` in module `k`: always the module's own object. -/
def realizeEnum (mods : Mods) (k : Nat) (name : String) : Except Err ObjId :=
  match mods[k]? with
  | none => .error .importError
  | some m =>
    match m.enums.lookup name with
    | none => .error .ffiError
    | some o => .ok o

/-- A depth-first delegation loop: first answer or first error. -/
def firstOf {α : Type} (deeper : Nat → Except Err (Option α)) : List Nat → Except Err (Option α)
  | [] => .ok none
  | i :: rest =>
    match deeper i with
    | .error e => .error e
    | .ok (some v) => .ok (some v)
    | .ok none => firstOf deeper rest

/-- `ffi_fetch_int_constant(ffi, name, recursion)` with `fuel = 101 - recursion`. -/
def fetchConst (mods : Mods) (name : String) : Nat → Nat → Except Err (Option Int)
  | fuel, k =>
    match mods[k]? with
    | none => .error .importError
    | some m =>
      match m.globals.lookup name with
      | some (.intConst v) => .ok (some v)
      | some (.other _) => .error .ffiError      -- "must be fetched from its original 'lib' object"
      | none =>
        match m.includes, fuel with
        | [], _ => .ok none
        | _ :: _, 0 => .error .recursionOverflow
        | i :: rest, f + 1 => firstOf (fetchConst mods name f) (i :: rest)

/-- `lib_build_and_cache_attr(lib, name, recursion)` up to the choice of the defining module:
    which module's global the attribute is (API mode: every included lib is a C module). -/
def libLookup (mods : Mods) (name : String) : Nat → Nat → Except Err (Option (Nat × GKind))
  | fuel, k =>
    match mods[k]? with
    | none => .error .importError
    | some m =>
      match m.globals.lookup name with
      | some g => .ok (some (k, g))
      | none =>
        match m.includes, fuel with
        | [], _ => .ok none
        | _ :: _, 0 => .error .recursionOverflow
        | i :: rest, f + 1 => firstOf (libLookup mods name f) (i :: rest)

/-- `getattr(lib, name)` at top level (`recursion == 0`): not found is `AttributeError`. -/
def libGetattr (mods : Mods) (k : Nat) (name : String) : Except Err (Nat × GKind) :=
  match libLookup mods name libFuel k with
  | .error e => .error e
  | .ok (some r) => .ok r
  | .ok none => .error .attributeError

/-! ### Specification side: the include graph -/

/-- Depth-first pre-order of the modules reachable from `k`, at most `d` edges deep. -/
def dfs (mods : Mods) : Nat → Nat → List Nat
  | 0, k => [k]
  | d + 1, k =>
    match mods[k]? with
    | none => [k]
    | some m => k :: m.includes.flatMap (dfs mods d)

/-- Every module reachable from `k` exists and no include chain from `k` is longer than `d`
    edges. -/
def depthOk (mods : Mods) : Nat → Nat → Bool
  | 0, k => match mods[k]? with
    | none => false
    | some m => m.includes.isEmpty
  | d + 1, k => match mods[k]? with
    | none => false
    | some m => m.includes.all (depthOk mods d)

end CffiVerif.Include
