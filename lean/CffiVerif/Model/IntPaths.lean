/-
The integer store paths of C03 that are not `convert_from_object` itself:

  * path B, API-mode function arguments: `_cffi_to_c_i8 … _cffi_to_c_u64`
    (`_cffi_to_c_SIGNED_FN` / `_cffi_to_c_UNSIGNED_FN`, _cffi_backend.c:7699-7726),
    dispatched by `_cffi_to_c_int(o, type)` (_cffi_include.h:165), followed by the
    check `if (x0 == (type)-1 && PyErr_Occurred())` that
    `Recompiler._convert_funcarg_to_c` emits (recompiler.py:527); `_cffi_to_c__Bool` (7760).
    The overflow conditions, the instantiation list, the dispatch table and the
    return types are *not* written here: they come from
    `Generated/IntMacros.lean`; the if/else chain of `_cffi_to_c__Bool` and the emitted
    error check (obtained by running the code generator) come from
    `Generated/CastExprs.lean`; both are regenerated on every run.
  * callback results: `convert_from_object_fficallback` (6086) and the error path of
    `general_invoke_callback` (6189), for libffi callbacks (`encode = true`) and
    `extern "Python"` (`encode = false`).

Errors are in band, as in the code: a converter returns a C value and the error
indicator; the caller compares with `(type)-1`.
-/
import CffiVerif.Model.CInt
import CffiVerif.Generated.IntMacros
import CffiVerif.Generated.CastExprs

namespace CffiVerif.IntPaths
open CffiVerif.CInt
open CffiVerif.Generated

/-- the 64-bit pattern of a C `long long` / `unsigned long long` value -/
def bv (x : Int) : BitVec 64 := BitVec.ofInt 64 x

/-- the conversion a macro initialises `tmp` with (name and `strict` argument as extracted) -/
def convBy (c : String × Bool) (v : Int) : Except ErrKind (Int × Pending) :=
  if c.1 = "_my_PyLong_AsLongLong" then .ok (myAsLongLong v)
  else if c.1 = "_my_PyLong_AsUnsignedLongLong" then .ok (myAsUnsignedLongLong v c.2)
  else .error .fatal

/-- body shared by the two macros: `overflow` is the extracted condition -/
def toCBody (overflow : Bool) (rbits : Nat) (rsigned : Bool) (tmp : Int) (err : Pending) : Int × Pending :=
  if overflow then
    match err with
    | none => (wrap rbits rsigned (-1), some .overflow)   -- `return (RETURNTYPE)_convert_overflow(...)`
    | some e => (wrap rbits rsigned tmp, some e)          -- falls through to `return (RETURNTYPE)tmp`
  else (wrap rbits rsigned tmp, err)

/-- `_cffi_to_c_i##SIZE(obj)`: the returned `RETURNTYPE` value and the error indicator -/
def toCSigned (SIZE : Nat) (v : Int) : Except ErrKind (Int × Pending) :=
  match IntMacros.signedFns.find? (·.1 = SIZE) with
  | none => .error .fatal
  | some (_, rbits, rsigned) =>
    match convBy IntMacros.signedConv v with
    | .error e => .error e
    | .ok (tmp, err) => .ok (toCBody (IntMacros.signedOverflow SIZE (bv tmp)) rbits rsigned tmp err)

/-- `_cffi_to_c_u##SIZE(obj)` -/
def toCUnsigned (SIZE : Nat) (v : Int) : Except ErrKind (Int × Pending) :=
  match IntMacros.unsignedFns.find? (·.1 = SIZE) with
  | none => .error .fatal
  | some (_, rbits, rsigned) =>
    match convBy IntMacros.unsignedConv v with
    | .error e => .error e
    | .ok (tmp, err) => .ok (toCBody (IntMacros.unsignedOverflow SIZE (bv tmp)) rbits rsigned tmp err)

/-- bits of RETURNTYPE of the instantiation a callee refers to -/
def retBits (isSigned : Bool) (SIZE : Nat) : Option Nat :=
  ((if isSigned then IntMacros.signedFns else IntMacros.unsignedFns).find? (·.1 = SIZE)).map (·.2.1)

/-- one arm of `_cffi_to_c_int(o, type)`: call the callee through the function pointer type of
_cffi_include.h, then the two `(type)` casts.  `fatal` when that function pointer type and the
backend's RETURNTYPE differ in width (then the ABI, not C, decides what is seen). -/
def calleeResult (T : IntType) (c : Bool × Nat × Nat × Bool) (v : Int) : Except ErrKind (Int × Pending) :=
  if retBits c.1 c.2.1 ≠ some c.2.2.1 then .error .fatal else
  match (if c.1 then toCSigned c.2.1 v else toCUnsigned c.2.1 v) with
  | .error e => .error e
  | .ok (r, err) => .ok (T.wrap (wrap c.2.2.1 c.2.2.2 r), err)

/-- `_cffi_to_c_int(o, type)`: value of type `type` and the error indicator; `fatal` when the
size is not dispatched (`Py_FatalError`). -/
def cffiToCInt (T : IntType) (v : Int) : Except ErrKind (Int × Pending) :=
  match IntMacros.dispatch.find? (·.1 = T.bytes) with
  | none => .error .fatal
  | some (_, cu, cs) => calleeResult T (if T.readsSigned then cs else cu) v    -- `((type)-1) > 0 ? … : …`

/-- `_cffi_to_c__Bool(obj)`: the `_Bool` returned and the error indicator.  The if/else chain is
`Generated.CastExprs.toCBoolBody`, extracted from the source; `_convert_overflow` returns -1 and
sets OverflowError unless an exception is already pending. -/
def toCBool (v : Int) : Except ErrKind (Int × Pending) :=
  match convBy (CastExprs.toCBoolConv, false) v with
  | .error e => .error e
  | .ok (tmp, err) =>
    let (r, called) := CastExprs.toCBoolBody (bv tmp) err.isSome (BitVec.ofInt 32 (-1))
    .ok ((r.toNat : Int), if called then some (convertOverflow err) else err)

/-- the check `Recompiler._convert_funcarg_to_c` emits after the conversion of an integer
argument (`if (x0 == (type)-1 && PyErr_Occurred()) return NULL;`), as extracted from the code the
generator really emits for each primitive (`Generated.CastExprs.argChecks`); `x0` has type `T` -/
def argCheck (T : IntType) (x0 : Int) (err : Bool) : Bool :=
  match T.kind, T.width with
  | .bool, _ => CastExprs.argErrBool (BitVec.ofInt 8 x0) err
  | .signed, .w8 => CastExprs.argErrS8 (BitVec.ofInt 8 x0) err
  | .signed, .w16 => CastExprs.argErrS16 (BitVec.ofInt 16 x0) err
  | .signed, .w32 => CastExprs.argErrS32 (BitVec.ofInt 32 x0) err
  | .signed, .w64 => CastExprs.argErrS64 (BitVec.ofInt 64 x0) err
  | .unsigned, .w8 => CastExprs.argErrU8 (BitVec.ofInt 8 x0) err
  | .unsigned, .w16 => CastExprs.argErrU16 (BitVec.ofInt 16 x0) err
  | .unsigned, .w32 => CastExprs.argErrU32 (BitVec.ofInt 32 x0) err
  | .unsigned, .w64 => CastExprs.argErrU64 (BitVec.ofInt 64 x0) err
  | _, _ => false

/-- name of the generated check that applies to `T` -/
def argCheckName (T : IntType) : String :=
  match T.kind with
  | .bool => "argErrBool"
  | .signed => "argErrS" ++ toString T.bits
  | .unsigned => "argErrU" ++ toString T.bits
  | _ => ""

/-- the code emitted for one integer argument: convert, then the emitted error check.
Result: the object representation of the argument the C function is called with. -/
def apiArg (T : IntType) (v : Int) : Except ErrKind (List UInt8) :=
  let finish (x0 : Int) (err : Pending) : Except ErrKind (List UInt8) :=
    if argCheck T x0 err.isSome then
      match err with
      | some e => .error e                   -- `return NULL` with the pending exception
      | none => .error .fatal                -- (the check requires PyErr_Occurred())
    else
      match err with
      | some _ => .error .systemError        -- the function is called with an exception set
      | none => .ok (writeRaw x0 T.width)
  match T.kind with
  | .signed | .unsigned =>
    match cffiToCInt T v with
    | .error e => .error e
    | .ok (x0, err) => finish x0 err
  | .bool =>
    match toCBool v with
    | .error e => .error e
    | .ok (x0, err) => finish x0 err
  | .char | .swchar => .error .typeError         -- `_cffi_to_c_char*`: an int is not a character

/-! ### callback results -/

/-- `sizeof(ffi_arg)` -/
def ffiArgBytes : Nat := 8

/-- `convert_from_object_fficallback(result, ctype, pyobj, encode_result_for_libffi)` for an
integer `ctype`; `result` is the result buffer (at least 8 bytes). -/
def fficallbackConvert (T : IntType) (result : List UInt8) (v : Int) (encode : Bool) :
    List UInt8 × Except ErrKind Unit :=
  if T.bytes < ffiArgBytes ∧ encode = true then
    match T.kind with
    | .signed =>
      -- "a first conversion only to detect overflows"
      match convertFromObject T result v with
      | (r1, .error e) => (r1, .error e)
      | (r1, .ok ()) =>
        let (value, err) := myAsLongLong v
        match (if value = -1 then err else none) with
        | some e => (r1, .error e)
        | none => (poke r1 (writeRaw value .w64), okUnless err)   -- a whole `ffi_arg`
    | _ =>
      -- zero extension: `memset(result, 0, sizeof(ffi_arg))`, then the plain conversion
      convertFromObject T (poke result (List.replicate ffiArgBytes 0)) v
  else convertFromObject T result v

/-- what the C caller finds in the result buffer after `general_invoke_callback`
when the Python function returned the int `v`: on a conversion error the
prepared error bytes `rawerr` are copied over it (`onerror` absent or returning None). -/
def callbackResult (T : IntType) (rawerr result : List UInt8) (v : Int) (encode : Bool) : List UInt8 :=
  match fficallbackConvert T result v encode with
  | (r, .ok ()) => r
  | (r, .error _) => poke r rawerr

/-- `prepare_callback_info_tuple`: the error bytes for `error=ev` (zeros when no error value is given);
an `ev` that does not convert makes `ffi.callback` itself fail -/
def prepareRawErr (T : IntType) (ev : Option Int) (encode : Bool) : Except ErrKind (List UInt8) :=
  let z := List.replicate (max T.bytes ffiArgBytes) 0
  match ev with
  | none => .ok z
  | some e =>
    match fficallbackConvert T z e encode with
    | (r, .ok ()) => .ok r
    | (_, .error k) => .error k

end CffiVerif.IntPaths
