/-
Model of the module-name computation of `ffi.verify()`:
`ffiplatform.flatten` / `_flatten` (src/cffi/ffiplatform.py:93-117) and the
key / name construction in `Verifier.__init__` (src/cffi/verifier.py:52-64).

Python `str` = `List Nat` of code points.  The values `_flatten` accepts are
`str`, `int` (`bool` is an `int`: `'%di' % True == '1i'`), `list`/`tuple` (both
written with the tag `l`) and `dict`; everything else raises `TypeError`.  A
`dict` is the list of its items in insertion order; `_flatten` writes them in
the order of `sorted(x.keys())`.  Keys are restricted to `int` and `str`
(tuple keys are not modelled); `sorted` raises `TypeError` on a dict that
has keys of both kinds, which is what `flatten?` returns.

The decimal printer (`'%d' %`) and the hexadecimal one (`hex()`) are written
out here (`natDigits`), they are not Lean's `toString`.

`binascii.crc32` is a parameter of `moduleName`.
-/
import CffiVerif.Model.PyText

namespace CffiVerif.Flatten

abbrev Str := List Nat

/-! ### printing numbers: `digitChar`, `digitsAux`, `natDigits`, `intDigits` of `Model/PyText.lean` -/

export CffiVerif.PyText (digitChar digitsAux natDigits intDigits pyHex)

/-! ### values -/

inductive Key where
  | int (i : Int)
  | str (s : Str)
  deriving Repr, DecidableEq, Inhabited

inductive Val where
  | int (i : Int)
  | str (s : Str)
  | list (xs : List Val)
  | dict (kvs : List (Key × Val))
  deriving Repr, Inhabited

/-- Python's `<=` on `str`: lexicographic on code points -/
def strLe : Str → Str → Bool
  | [], _ => true
  | _ :: _, [] => false
  | a :: as, b :: bs => if a < b then true else if b < a then false else strLe as bs

/-- The order `sorted(keys)` uses on a dict whose keys are all `int` or all
`str`; made total by putting every `int` before every `str` (a dict with both
kinds is rejected by `flatten?`, as `sorted` raises `TypeError`). -/
def Key.le : Key → Key → Bool
  | .int i, .int j => decide (i ≤ j)
  | .int _, .str _ => true
  | .str _, .int _ => false
  | .str s, .str t => strLe s t

/-- insertion into a list sorted by key -/
def insertPair {α : Type} (p : Key × α) : List (Key × α) → List (Key × α)
  | [] => [p]
  | q :: qs => if Key.le p.1 q.1 then p :: q :: qs else q :: insertPair p qs

/-- `sorted(x.keys())`, carried out on the items -/
def sortPairs {α : Type} : List (Key × α) → List (Key × α)
  | [] => []
  | p :: ps => insertPair p (sortPairs ps)

def flattenKey : Key → Str
  | .int i => intDigits i ++ [105]                          -- '%di'
  | .str s => natDigits 10 s.length ++ 115 :: s             -- '%ds%s'

def joinPairs : List (Key × Str) → Str
  | [] => []
  | (k, s) :: ps => flattenKey k ++ s ++ joinPairs ps

mutual
/-- `_flatten(x, f)`: what is written to `f` -/
def flatten : Val → Str
  | .int i => intDigits i ++ [105]
  | .str s => natDigits 10 s.length ++ 115 :: s
  | .list xs => natDigits 10 xs.length ++ 108 :: flattenList xs
  | .dict kvs => natDigits 10 kvs.length ++ 100 :: joinPairs (sortPairs (flattenPairs kvs))
def flattenList : List Val → Str
  | [] => []
  | x :: xs => flatten x ++ flattenList xs
/-- the items with their values flattened (sorting by key afterwards gives the
same text as flattening in sorted order) -/
def flattenPairs : List (Key × Val) → List (Key × Str)
  | [] => []
  | (k, v) :: kvs => (k, flatten v) :: flattenPairs kvs
end

def Key.isInt : Key → Bool
  | .int _ => true
  | .str _ => false

/-- all keys of one kind -/
def sameKind : List Key → Bool
  | [] => true
  | k :: ks => ks.all (fun k' => k'.isInt == k.isInt)

mutual
/-- `sorted(x.keys())` succeeds in every dict of the value -/
def keysOk : Val → Bool
  | .int _ => true
  | .str _ => true
  | .list xs => keysOkList xs
  | .dict kvs => sameKind (keysOf kvs) && keysOkPairs kvs
def keysOkList : List Val → Bool
  | [] => true
  | x :: xs => keysOk x && keysOkList xs
def keysOkPairs : List (Key × Val) → Bool
  | [] => true
  | (_, v) :: kvs => keysOk v && keysOkPairs kvs
def keysOf : List (Key × Val) → List Key
  | [] => []
  | (k, _) :: kvs => k :: keysOf kvs
end

inductive Err where
  | typeError
  deriving Repr, DecidableEq

/-- `ffiplatform.flatten(x)` with its exception -/
def flatten? (v : Val) : Except Err Str :=
  if keysOk v then .ok (flatten v) else .error .typeError

/-! ### canonical form of a value: every dict in key order -/

mutual
def canon : Val → Val
  | .int i => .int i
  | .str s => .str s
  | .list xs => .list (canonList xs)
  | .dict kvs => .dict (sortPairs (canonPairs kvs))
def canonList : List Val → List Val
  | [] => []
  | x :: xs => canon x :: canonList xs
def canonPairs : List (Key × Val) → List (Key × Val)
  | [] => []
  | (k, v) :: kvs => (k, canon v) :: canonPairs kvs
end

/-! ### a parser for the output of `flatten` (used to prove injectivity, and run
by the driver on the text the real `flatten` produces) -/

def isDec (c : Nat) : Bool := 48 ≤ c && c < 58

def readNat : List Nat → Nat → Nat × List Nat
  | [], a => (a, [])
  | c :: cs, a => if isDec c then readNat cs (a * 10 + (c - 48)) else (a, c :: cs)

/-- `p` applied `k` times -/
def parseMany {α : Type} (p : List Nat → Option (α × List Nat)) :
    Nat → List Nat → Option (List α × List Nat)
  | 0, inp => some ([], inp)
  | k + 1, inp =>
    match p inp with
    | none => none
    | some (v, r) =>
      match parseMany p k r with
      | none => none
      | some (vs, r') => some (v :: vs, r')

/-- optional `-`, decimal digits, one tag character: `(negative, n, tag, rest)` -/
def parseHeader (inp : List Nat) : Option (Bool × Nat × Nat × List Nat) :=
  match inp with
  | [] => none
  | c :: cs =>
    if c = 45 then
      match readNat cs 0 with
      | (n, t :: r) => some (true, n, t, r)
      | _ => none
    else
      match readNat (c :: cs) 0 with
      | (n, t :: r) => some (false, n, t, r)
      | _ => none

def parseKey (inp : List Nat) : Option (Key × List Nat) :=
  match parseHeader inp with
  | some (neg, n, 105, r) => some (.int (if neg then -(n : Int) else (n : Int)), r)
  | some (false, n, 115, r) => if n ≤ r.length then some (.str (r.take n), r.drop n) else none
  | _ => none

def parsePair (pv : List Nat → Option (Val × List Nat)) (inp : List Nat) :
    Option ((Key × Val) × List Nat) :=
  match parseKey inp with
  | none => none
  | some (k, r1) =>
    match pv r1 with
    | none => none
    | some (v, r2) => some ((k, v), r2)

def parseVal : Nat → List Nat → Option (Val × List Nat)
  | 0, _ => none
  | fuel + 1, inp =>
    match parseHeader inp with
    | some (neg, n, 105, r) => some (.int (if neg then -(n : Int) else (n : Int)), r)
    | some (false, n, 115, r) => if n ≤ r.length then some (.str (r.take n), r.drop n) else none
    | some (false, n, 108, r) =>
      match parseMany (parseVal fuel) n r with
      | some (xs, r') => some (.list xs, r')
      | none => none
    | some (false, n, 100, r) =>
      match parseMany (parsePair (parseVal fuel)) n r with
      | some (kvs, r') => some (.dict kvs, r')
      | none => none
    | _ => none

/-! ### the key and the module name -/

/-- `'\x00'.join(parts)` -/
def joinNul : List Str → Str
  | [] => []
  | [p] => p
  | p :: q :: ps => p ++ 0 :: joinNul (q :: ps)

/-- The text whose UTF-8 encoding is hashed: `'\x00'.join([pyver, vermod,
preamble, flattened_kwds] + ffi._cdefsources)`. -/
def key (pyver vermod preamble : Str) (kwds : Val) (cdefs : List Str) : Str :=
  joinNul (pyver :: vermod :: preamble :: flatten kwds :: cdefs)

/-- `key[0::2]` -/
def evens {α : Type} : List α → List α
  | [] => []
  | [a] => [a]
  | a :: _ :: rest => a :: evens rest

/-- `key[1::2]` -/
def odds {α : Type} : List α → List α
  | [] => []
  | [_] => []
  | _ :: b :: rest => b :: odds rest

/-- `s.lstrip(chars)` -/
def lstrip (chars : List Nat) (s : Str) : Str := s.dropWhile (fun c => chars.contains c)

/-- `k1 = hex(crc).lstrip('0x')` (the `rstrip('L')` of Python 2 removes nothing:
no hex digit is `L`) -/
def k1 (c : Nat) : Str := lstrip [48, 120] (pyHex c)

/-- `k2 = hex(crc).lstrip('0')` -/
def k2 (c : Nat) : Str := lstrip [48] (pyHex c)

/-- `'_cffi_%s_%s%s%s' % (tag, class_key, k1, k2)` with the two CRCs of the
even- and odd-indexed bytes of the encoded key -/
def moduleName (crc : List Nat → Nat) (tag classKey : Str) (keyBytes : List Nat) : Str :=
  [95, 99, 102, 102, 105, 95] ++ tag ++ [95] ++ classKey
    ++ k1 (crc (evens keyBytes)) ++ k2 (crc (odds keyBytes))

end CffiVerif.Flatten
