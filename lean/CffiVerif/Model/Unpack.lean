/-
Model of `b_unpack` (`_cffi_backend.c:6881`) and of the element read it must agree
with, `convert_to_object` (`:1085`, what `p[i]` evaluates to).

  Item            the item ctype: kind (ct_flags), ct_size, alignment (ct_length of a primitive)
  casenum         the fast-path selection, interpreted over the *generated* table
                  (`Generated/UnpackTable.lean`, re-extracted from the C source on every run)
  fastRead        the reader of `switch (casenum)`, interpreted over the generated table
  convertToObject the generic conversion
  unpack          the whole function: the bytes / str results for character items, else a list
  indexRead       `p[i]` = convert_to_object(data + i * itemsize, ctitem)

Memory is the list of bytes from `cd->c_data` on (`base` = that address, used for the
alignment test and nothing else); integers are little endian; platform = x86-64 SysV
(LP64: `UnpackTypes.CTy.size`).  A Python float is its IEEE binary64 bit pattern; the
`float -> double` widening (`cvtss2sd`, quiets signalling NaNs) is `widenF32`.  A
`long double` cdata is its 10 value bytes (x87 extended; the 6 padding bytes are not
copied by the load/store).  A cdata result is its address: `ptr a` = a cdata of the
(pointer) item type holding address `a`; `ref off` = a cdata of the (struct / union /
array) item type located `off` bytes from `base`.

Not modelled: items of unknown size under indexing (C16), `alignment <= 0`.
-/
import CffiVerif.Model.Utf16
import CffiVerif.Generated.UnpackTable
namespace CffiVerif.Unpack
open CffiVerif.Utf16 CffiVerif.UnpackTypes CffiVerif.Generated.UnpackTable

/-- What `ct_flags` says about the item type.  `bool` = CT_PRIMITIVE_UNSIGNED|CT_IS_BOOL,
`longdouble` = CT_PRIMITIVE_FLOAT|CT_IS_LONGDOUBLE, `pointer` = CT_POINTER or CT_FUNCTIONPTR,
`aggregate` = struct / union / array of known size, `unsized` = `ct_size < 0`
(void, opaque struct, `T[]`).  Enums are `signed` / `unsigned`. -/
inductive Kind
  | signed | unsigned | bool | float | longdouble | char | complex | pointer | aggregate | unsized
  deriving DecidableEq, Repr

structure Item where
  kind : Kind
  size : Nat      -- ct_size (ignored for `unsized`)
  align : Nat     -- ct_length of a primitive = its alignment
  deriving DecidableEq, Repr

/-- CT_PRIMITIVE_ANY -/
def Kind.isPrimitive : Kind → Bool
  | .signed | .unsigned | .bool | .float | .longdouble | .char | .complex => true
  | .pointer | .aggregate | .unsized => false

/-- A converted element. -/
inductive PyObj
  | int (v : Int)
  | bool (b : Bool)
  | float (bits : Nat)
  | complex (re im : Nat)
  | longdouble (bytes : List UInt8)
  | bytes (b : List Nat)
  | str (s : List Nat)
  | ptr (addr : Nat)
  | ref (off : Nat)
  deriving DecidableEq, Repr

/-- The result of `ffi.unpack`. -/
inductive Result
  | list (l : List PyObj)
  | bytes (b : List Nat)
  | str (s : List Nat)
  deriving DecidableEq, Repr

/-! ### reading memory -/

def leNat : List UInt8 → Nat
  | [] => 0
  | b :: bs => b.toNat + 256 * leNat bs

/-- `n` bytes at offset `off`. -/
def readBytes (mem : List UInt8) (off n : Nat) : Except Err (List UInt8) :=
  let s := (mem.drop off).take n
  if s.length = n then .ok s else .error .outOfBounds

/-- Two's complement value of an `bits`-bit pattern. -/
def toSigned (bits : Nat) (v : Nat) : Int :=
  if v < 2 ^ (bits - 1) then (v : Int) else (v : Int) - (2 ^ bits : Nat)

/-- Conversion of an integer value to `long` (64-bit, wraps). -/
def toLong (v : Int) : Int := (v + 2 ^ 63) % 2 ^ 64 - 2 ^ 63

/-- Conversion of an integer value to `unsigned long`. -/
def toULong (v : Int) : Int := v % 2 ^ 64

/-- `(double)f` on bit patterns (binary32 -> binary64). -/
def widenF32 (x : Nat) : Nat :=
  let s := x / 2 ^ 31 % 2
  let e := x / 2 ^ 23 % 256
  let m := x % 2 ^ 23
  if e = 255 then
    if m = 0 then s * 2 ^ 63 + 0x7FF * 2 ^ 52
    else s * 2 ^ 63 + 0x7FF * 2 ^ 52 + m * 2 ^ 29 + (if m / 2 ^ 22 % 2 = 1 then 0 else 2 ^ 51)   -- quiet bit forced
  else if e = 0 then
    if m = 0 then s * 2 ^ 63
    else
      let k := Nat.log2 m       -- subnormal: m * 2^-149 = 1.xxx * 2^(k-149)
      s * 2 ^ 63 + (k + 874) * 2 ^ 52 + (m - 2 ^ k) * 2 ^ (52 - k)
  else s * 2 ^ 63 + (e + 896) * 2 ^ 52 + m * 2 ^ 29

/-! ### the generic conversion: `convert_to_object(data, ct)` -/

/-- `read_raw_signed_data(target, size)`: memcpy into the integer type of that size, else Py_FatalError. -/
def readRawSigned (mem : List UInt8) (off size : Nat) : Except Err Int :=
  if size = 1 ∨ size = 2 ∨ size = 4 ∨ size = 8 then
    match readBytes mem off size with
    | .ok b => .ok (toSigned (8 * size) (leNat b))
    | .error e => .error e
  else .error .fatal

/-- `read_raw_unsigned_data(target, size)`. -/
def readRawUnsigned (mem : List UInt8) (off size : Nat) : Except Err Nat :=
  if size = 1 ∨ size = 2 ∨ size = 4 ∨ size = 8 then
    match readBytes mem off size with
    | .ok b => .ok (leNat b)
    | .error e => .error e
  else .error .fatal

/-- `read_raw_float_data(target, size)`, as the bits of the resulting double. -/
def readRawFloat (mem : List UInt8) (off size : Nat) : Except Err Nat :=
  if size = 4 then
    match readBytes mem off 4 with
    | .ok b => .ok (widenF32 (leNat b))
    | .error e => .error e
  else if size = 8 then
    match readBytes mem off 8 with
    | .ok b => .ok (leNat b)
    | .error e => .error e
  else .error .fatal

def convertToObject (it : Item) (mem : List UInt8) (off : Nat) : Except Err PyObj :=
  match it.kind with
  | .pointer =>                       -- `*(char **)data`
    match readBytes mem off 8 with
    | .ok b => .ok (.ptr (leNat b))
    | .error e => .error e
  | .unsized => .error .unmodelled
  | .aggregate =>                     -- new_simple_cdata(data, ct)
    match readBytes mem off it.size with
    | .ok _ => .ok (.ref off)
    | .error e => .error e
  | .signed =>                        -- PyLong_FromLong((long)value) / PyLong_FromLongLong(value)
    match readRawSigned mem off it.size with
    | .ok v => .ok (.int v)
    | .error e => .error e
  | .unsigned =>
    match readRawUnsigned mem off it.size with
    | .ok v => .ok (.int v)
    | .error e => .error e
  | .bool =>
    match readRawUnsigned mem off it.size with
    | .ok v => if v = 0 then .ok (.bool false) else if v = 1 then .ok (.bool true) else .error .valueError
    | .error e => .error e
  | .float =>
    match readRawFloat mem off it.size with
    | .ok v => .ok (.float v)
    | .error e => .error e
  | .longdouble =>                    -- a new <cdata 'long double'> holding the value
    match readBytes mem off it.size with
    | .ok b => .ok (.longdouble (b.take 10))
    | .error e => .error e
  | .char =>
    if it.size = 1 then
      match readBytes mem off 1 with
      | .ok b => .ok (.bytes (b.map (·.toNat)))
      | .error e => .error e
    else if it.size = 2 then
      match readBytes mem off 2 with
      | .ok b => .ok (.str (decode16 [leNat b]))
      | .error e => .error e
    else if it.size = 4 then
      match readBytes mem off 4 with
      | .ok b => match fromChar32 [leNat b] with
        | .ok s => .ok (.str s)
        | .error e => .error e
      | .error e => .error e
    else .error .systemError
  | .complex =>                       -- read_raw_complex_data: float _Complex / double _Complex
    if it.size = 8 then
      match readBytes mem off 4, readBytes mem (off + 4) 4 with
      | .ok re, .ok im => .ok (.complex (widenF32 (leNat re)) (widenF32 (leNat im)))
      | .error e, _ => .error e
      | _, .error e => .error e
    else if it.size = 16 then
      match readBytes mem off 8, readBytes mem (off + 8) 8 with
      | .ok re, .ok im => .ok (.complex (leNat re) (leNat im))
      | .error e, _ => .error e
      | _, .error e => .error e
    else .error .fatal

/-- `p[i]`. -/
def indexRead (it : Item) (mem : List UInt8) (i : Nat) : Except Err PyObj :=
  convertToObject it mem (i * it.size)

/-! ### the fast paths -/

/-- `ALIGNMENT_CHECK(align)`: `(align & (align-1)) == 0 && ((uintptr_t)src & (align-1)) == 0`. -/
def alignmentCheck (align addr : Nat) : Bool :=
  (align &&& (align - 1)) == 0 && (addr &&& (align - 1)) == 0

/-- First `itemsize == sizeof(T)` that holds, in source order. -/
def pick : List (CTy × Nat) → Nat → Option Nat
  | [], _ => none
  | (ty, c) :: rest, itemsize => if itemsize = ty.size then some c else pick rest itemsize

/-- The selection of `casenum` (`none` = -1, the generic fall-back). -/
def casenum (it : Item) (addr : Nat) : Option Nat :=
  if it.kind.isPrimitive && alignmentCheck it.align addr then
    match it.kind with
    | .signed => pick selSigned it.size
    | .bool => some selBool                  -- tested before the sizes, inside the unsigned branch
    | .unsigned => pick selUnsigned it.size
    | .float | .longdouble => pick selFloat it.size
    | _ => none
  else if it.kind = .pointer then some selPointer
  else none

def lookupReader : List (Nat × Conv × CTy) → Nat → Option (Conv × CTy)
  | [], _ => none
  | (k, conv, ty) :: rest, c => if c = k then some (conv, ty) else lookupReader rest c

/-- The value of `*(ty *)src` for an integer type. -/
def readCInt (ty : CTy) (mem : List UInt8) (off : Nat) : Except Err Int :=
  match ty.intSigned with
  | none => .error .unmodelled
  | some sg =>
    match readBytes mem off ty.size with
    | .ok b => .ok (if sg then toSigned (8 * ty.size) (leNat b) else (leNat b : Int))
    | .error e => .error e

/-- One `case k:` of `switch (casenum)`. -/
def fastRead (conv : Conv) (ty : CTy) (it : Item) (mem : List UInt8) (off : Nat) : Except Err PyObj :=
  match conv with
  | .fromLong =>
    match readCInt ty mem off with
    | .ok v => .ok (.int (toLong v))
    | .error e => .error e
  | .fromUnsignedLong =>
    match readCInt ty mem off with
    | .ok v => .ok (.int (toULong v))
    | .error e => .error e
  | .fromDouble =>
    match ty with
    | .float =>
      match readBytes mem off 4 with
      | .ok b => .ok (.float (widenF32 (leNat b)))
      | .error e => .error e
    | .double =>
      match readBytes mem off 8 with
      | .ok b => .ok (.float (leNat b))
      | .error e => .error e
    | _ => .error .unmodelled
  | .newSimpleCData =>
    match ty with
    | .charptr =>
      match readBytes mem off 8 with
      | .ok b => .ok (.ptr (leNat b))
      | .error e => .error e
    | _ => .error .unmodelled
  | .boolSwitch =>
    match readCInt ty mem off with
    | .ok v => if v = 0 then .ok (.bool false) else if v = 1 then .ok (.bool true)
               else convertToObject it mem off
    | .error e => .error e

/-- The body of the loop for element `i`: `switch (casenum) { default: generic; case k: … }`. -/
def unpackElem (it : Item) (mem : List UInt8) (c : Option Nat) (i : Nat) : Except Err PyObj :=
  match c.bind (lookupReader readers) with
  | none => convertToObject it mem (i * it.size)
  | some (conv, ty) => fastRead conv ty it mem (i * it.size)

/-- `xs.mapM f` in `Except` (first error wins), written out. -/
def mapExcept {α β : Type} (f : α → Except Err β) : List α → Except Err (List β)
  | [] => .ok []
  | a :: as =>
    match f a with
    | .error e => .error e
    | .ok b =>
      match mapExcept f as with
      | .ok bs => .ok (b :: bs)
      | .error e => .error e

/-- The `i`-th little-endian unit of `size` bytes. -/
def readUnit (mem : List UInt8) (size i : Nat) : Except Err Nat :=
  match readBytes mem (i * size) size with
  | .ok b => .ok (leNat b)
  | .error e => .error e

/-- `n` little-endian units of `size` bytes from the start of memory. -/
def readUnits (mem : List UInt8) (size n : Nat) : Except Err (List Nat) :=
  mapExcept (readUnit mem size) (List.range n)

/-- `ffi.unpack(cd, n)`; `base` = `cd->c_data`. -/
def unpack (it : Item) (mem : List UInt8) (base n : Nat) : Except Err Result :=
  if it.kind = .char ∧ it.size = 1 then      -- PyBytes_FromStringAndSize(cd->c_data, length)
    match readUnits mem 1 n with
    | .ok u => .ok (.bytes u)
    | .error e => .error e
  else if it.kind = .char ∧ it.size = 2 then
    match readUnits mem 2 n with
    | .ok u => .ok (.str (decode16 u))
    | .error e => .error e
  else if it.kind = .char ∧ it.size = 4 then
    match readUnits mem 4 n with
    | .ok u => match fromChar32 u with
      | .ok s => .ok (.str s)
      | .error e => .error e
    | .error e => .error e
  else if it.kind = .unsized then .error .valueError       -- "points to items of unknown size"
  else
    match mapExcept (unpackElem it mem (casenum it base)) (List.range n) with
    | .ok l => .ok (.list l)
    | .error e => .error e

end CffiVerif.Unpack
