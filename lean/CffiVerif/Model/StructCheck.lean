import CffiVerif.Generated.StructFlags
/-!
Model of the realisation of a struct/union of an API-mode module (C12).

The generated `_cffi_fields[]` / `_cffi_struct_unions[]` tables hold, for every field, the
cdef's field type together with `offsetof(...)` and `sizeof(...)` *expressions evaluated by the
C compiler*, and per struct `sizeof(struct)` and its alignment.  At first use
`do_realize_lazy_struct_lock_held` (realize_c_type.c:785) compares the size of the cdef's field
type with the compiler's field size (always an error when different) and calls
`b_complete_struct_or_union_lock_held` (_cffi_backend.c:5156) with the compiler's offsets as forced
positions, the compiler's total size and alignment, and `SF_STD_FIELD_POS` iff the struct was
declared without `...` (`_CFFI_F_CHECK_FIELDS`): `detect_custom_layout` (5133) then turns every
difference between the layout computed from the cdef and the compiler's numbers into `ffi.error`;
without the flag the compiler's numbers are adopted (`CT_CUSTOM_FIELD_POS`).

The `sflags` argument is assembled from the table's `_CFFI_F_*` flags by the statements regenerated
into `Generated/StructFlags.lean` (`sflagsOf`); `flagsOfTable` is what the layout code then reads out of
it (`sflags & SF_STD_FIELD_POS`, `sflags & SF_PACKED` → pack = 1) and out of `s->flags` (`_CFFI_F_UNION`).

Not modelled: bit-fields (offset `(size_t)-1`, never checked), nested anonymous structs (never
checked: `_CFFI_F_CHECK_FIELDS` is not set), MSVC/ARM variants.  Alignments are parameters (the
cdef field type's alignment as `get_alignment` returns it); rounding is written with `/` and `*`,
which equals the code's `(x + a-1) & ~(a-1)` for the powers of two that occur.
-/
namespace CffiVerif.StructCheck

/-- One entry of `_cffi_fields[]` seen from both sides. -/
structure Fld where
  csize : Int     -- `ctf->ct_size` of the cdef's field type (−1: open array `T a[]`)
  calign : Nat    -- alignment of the cdef's field type
  koffset : Int   -- `offsetof(struct, f)` computed by the compiler (−1: `(size_t)-1`, unnamed struct)
  ksize : Int     -- `sizeof(((struct *)0)->f)` computed by the compiler (−1: `(size_t)-1`)
  deriving Repr, DecidableEq

structure Flags where
  check : Bool     -- `_CFFI_F_CHECK_FIELDS` → `SF_STD_FIELD_POS`
  union : Bool     -- `_CFFI_F_UNION`
  packed : Bool    -- `_CFFI_F_PACKED` → `SF_PACKED`, pack = 1
  deriving Repr, DecidableEq


instance exceptDecEq {ε α : Type} [DecidableEq ε] [DecidableEq α] : DecidableEq (Except ε α) := fun a b =>
  match a, b with
  | .ok x, .ok y => if h : x = y then isTrue (by rw [h]) else isFalse (fun h' => by cases h'; exact h rfl)
  | .error x, .error y => if h : x = y then isTrue (by rw [h]) else isFalse (fun h' => by cases h'; exact h rfl)
  | .ok _, .error _ => isFalse (fun h => by cases h)
  | .error _, .ok _ => isFalse (fun h => by cases h)

inductive Err where
  | ffiError     -- `detect_custom_layout` under `SF_STD_FIELD_POS`; wrong field size
  | typeError    -- field of unknown size; total size smaller than the fields
  deriving Repr, DecidableEq

structure Layout where
  offsets : List Int
  size : Int
  align : Int
  custom : Bool      -- `CT_CUSTOM_FIELD_POS`
  deriving Repr, DecidableEq

/-- `(x + a-1) & ~(a-1)` for a power of two `a`. -/
def roundUp (x : Int) (a : Nat) : Int := ((x + (a : Int) - 1) / (a : Int)) * (a : Int)

/-- `detect_custom_layout(ct, sflags, cdef_value, compiler_value, …)`: `none` = error raised,
    `some c` = new value of the custom flag. -/
def detect (check : Bool) (custom : Bool) (cdefValue compilerValue : Int) : Option Bool :=
  if compilerValue ≠ cdefValue then (if check then none else some true) else some custom

/-- The per-field size check made by `do_realize_lazy_struct_lock_held` before the layout call
    (`detect_custom_layout(ct, SF_STD_FIELD_POS, ctf->ct_size, fld->field_size, …)`). -/
def sizeChecks : List Fld → Except Err Unit
  | [] => .ok ()
  | f :: rest =>
    if f.koffset = -1 then sizeChecks rest          -- unnamed struct: nothing to compare with
    else if f.csize ≠ f.ksize then .error .ffiError
    else sizeChecks rest

def falign (fl : Flags) (f : Fld) : Nat := if fl.packed then min 1 f.calign else f.calign

structure St where
  byteoffset : Int
  byteoffsetmax : Int
  alignment : Nat
  custom : Bool
  offsets : List Int      -- reversed
  deriving Repr, DecidableEq

/-- The field loop of `b_complete_struct_or_union_lock_held` for non-bit-fields. -/
def fieldLoop (fl : Flags) : List Fld → St → Except Err St
  | [], st => .ok st
  | f :: rest, st =>
    -- `if (cffi_get_size(ftype) < 0)`: only an open array that is last or has a forced position
    if f.csize < 0 ∧ ¬ (rest = [] ∨ f.koffset ≠ -1) then .error .typeError else
    let bo0 := if fl.union then 0 else st.byteoffset
    let fa := falign fl f
    let alignment := if st.alignment < fa then fa else st.alignment
    let bo1 := roundUp bo0 fa
    let forced : Option (Int × Bool) :=
      if 0 ≤ f.koffset then
        match detect fl.check st.custom bo1 f.koffset with
        | none => none
        | some c => some (f.koffset, c)
      else some (bo1, st.custom)
    match forced with
    | none => .error .ffiError
    | some (bo2, custom) =>
      let bo3 := if 0 ≤ f.csize then bo2 + f.csize else bo2
      let mx := if st.byteoffsetmax < bo3 then bo3 else st.byteoffsetmax
      fieldLoop fl rest ⟨bo3, mx, alignment, custom, bo2 :: st.offsets⟩

def initSt : St := ⟨0, 0, 1, false, []⟩

/-- The tail of `b_complete_struct_or_union_lock_held`: total size and alignment. -/
def finish (fl : Flags) (st : St) (totalsize totalalign : Int) : Except Err Layout :=
  let aligned0 := roundUp st.byteoffsetmax st.alignment
  let aligned := if aligned0 = 0 then 1 else aligned0
  let sizeStep : Except Err (Int × Bool) :=
    if totalsize < 0 then .ok (aligned, st.custom) else
    match detect fl.check st.custom aligned totalsize with
    | none => .error .ffiError
    | some c => if totalsize < st.byteoffsetmax then .error .typeError else .ok (totalsize, c)
  match sizeStep with
  | .error e => .error e
  | .ok (size, c1) =>
    if totalalign < 0 then .ok ⟨st.offsets.reverse, size, st.alignment, c1⟩ else
    match detect fl.check c1 (st.alignment : Int) totalalign with
    | none => .error .ffiError
    | some c2 => .ok ⟨st.offsets.reverse, size, totalalign, c2⟩

/-- First use of a struct/union of an API-mode module: size checks, then the layout call. -/
def realise (fl : Flags) (fs : List Fld) (totalsize totalalign : Int) : Except Err Layout :=
  match sizeChecks fs with
  | .error e => .error e
  | .ok () =>
    match fieldLoop fl fs initSt with
    | .error e => .error e
    | .ok st => finish fl st totalsize totalalign

/-! ### The layout the cdef alone denotes (what the same cdef gives in ABI mode):
independent of every compiler-provided number. -/

structure Nat3 where
  offsets : List Int
  size : Int
  align : Nat
  deriving Repr, DecidableEq

def naturalLoop (fl : Flags) : List Fld → (Int × Int × Nat) → List Int × (Int × Int × Nat)
  | [], s => ([], s)
  | f :: rest, (bo, mx, al) =>
    let bo0 := if fl.union then 0 else bo
    let fa := falign fl f
    let al' := if al < fa then fa else al
    let bo1 := roundUp bo0 fa
    let bo3 := if 0 ≤ f.csize then bo1 + f.csize else bo1
    let mx' := if mx < bo3 then bo3 else mx
    let (offs, s') := naturalLoop fl rest (bo3, mx', al')
    (bo1 :: offs, s')

def natural (fl : Flags) (fs : List Fld) : Nat3 :=
  let r := naturalLoop fl fs (0, 0, 1)
  let a0 := roundUp r.2.2.1 r.2.2.2
  ⟨r.1, if a0 = 0 then 1 else a0, r.2.2.2⟩

/-! ### From the table's `_CFFI_F_*` flags to the layout call -/
open CffiVerif.Generated

def hasBit (x b : Nat) : Bool := x &&& b ≠ 0

/-- What the layout code reads: `SF_STD_FIELD_POS` and `SF_PACKED` out of the assembled `sflags`
    (do_realize_lazy_struct_lock_held), the union bit out of the ctype's kind. -/
def flagsOfTable (flags : Nat) : Flags :=
  let sf := StructFlags.sflagsOf flags
  ⟨hasBit sf StructFlags.SF_STD_FIELD_POS, hasBit flags StructFlags.F_UNION, hasBit sf StructFlags.SF_PACKED⟩

/-- What the generated table *declares*: checked iff `_CFFI_F_CHECK_FIELDS`, packed iff `_CFFI_F_PACKED`. -/
def declaredFlags (flags : Nat) : Flags :=
  ⟨hasBit flags StructFlags.F_CHECK_FIELDS, hasBit flags StructFlags.F_UNION, hasBit flags StructFlags.F_PACKED⟩

/-- First use of the struct/union whose table entry carries `flags`. -/
def realiseTable (flags : Nat) (fs : List Fld) (totalsize totalalign : Int) : Except Err Layout :=
  realise (flagsOfTable flags) fs totalsize totalalign

end CffiVerif.StructCheck
