/-
Model of `ffi.cast(T, x)` for integer and character `T`
(`cast_to_integer_or_char`, _cffi_backend.c:4030; `do_cast` pointer branch for the way back),
of `int(cdata)` (`cdata_int`, 2306) and of the object-level integer conversions it goes
through (`_my_PyLong_AsUnsignedLongLong`, `_my_PyObject_AsBool`).

The arithmetic and the guards are *not* written here: every expression assigned to `value`,
`!!value`, the truncation of `write_raw_integer_data`, the widening of the raw reads, the
character reads of `cdata_int`, the negative test / refusal conditions / CPython calls of the
conversions come from `Generated/CastExprs.lean`, regenerated from the C source on every run.
Hand-written here: the control flow (which branch applies to which Python object; the order is
checked against the extracted `castBranches`) and CPython itself (`float.__int__` is exact
truncation, OverflowError for infinities, ValueError for nan; `PyLong_AsUnsignedLongLong(Mask)`).

Which objects cffi accepts is part of the model: `__index__` is never consulted; an object with
only `__float__` can be cast to `_Bool` but to nothing else; to `_Bool`, `__float__` wins over
`__int__`; a float cdata goes through `float()` then `int()`.
-/
import CffiVerif.Model.CInt
import CffiVerif.Generated.CastExprs

namespace CffiVerif.CInt
open CffiVerif.Generated

/-- a C `double` / Python float -/
inductive FloatVal
  | finite (m e : Int)      -- m * 2^e
  | inf (neg : Bool)
  | nan
  deriving Repr, DecidableEq

/-- Python's `int(x)` for the float `m * 2^e`: exact, truncating toward zero -/
def floatTrunc (m e : Int) : Int :=
  if e ≥ 0 then m * 2 ^ e.toNat else Int.tdiv m (2 ^ (-e).toNat)

/-- `x != 0.0` -/
def FloatVal.nonzero : FloatVal → Bool
  | .finite m _ => m != 0
  | _ => true

/-- `float.__int__` / `PyNumber_Long(float)` (CPython) -/
def FloatVal.toInt : FloatVal → Except ErrKind Int
  | .finite m e => .ok (floatTrunc m e)
  | .inf _ => .error .overflow        -- "cannot convert float infinity to integer"
  | .nan => .error .valueError        -- "cannot convert float NaN to integer"

/-- what a special method (`__int__`, `__float__`) returned -/
inductive PyRes
  | int (v : Int)
  | float (f : FloatVal)
  | other
  deriving Repr

/-- sources of `ffi.cast(T, x)` -/
inductive CastSrc
  | int (v : Int)                 -- Python int
  | bool (b : Bool)               -- Python bool (an int subclass: PyLong_Check holds)
  | float (f : FloatVal)          -- Python float
  | bytes (bs : List UInt8)       -- bytes object
  | str (cps : List Nat)          -- str as code points
  | ptr (addr : Nat)              -- pointer / array / function-pointer cdata, or a built-in API function, at `addr`
  | cdataInt (S : IntType) (bs : List UInt8)   -- integer, _Bool or character cdata with this representation
  | cdataFloat (f : FloatVal)     -- float / double / long double cdata (its value as a double)
  | cdataOther                    -- struct / union cdata: `int()` and `float()` unsupported
  | obj (hasIndex : Bool) (int? : Option PyRes) (float? : Option PyRes)
                                  -- instance of a Python class: what `__int__` / `__float__` return, if defined
  | noNumber                      -- an object without nb_int and nb_float (None, object(), complex, …)
  deriving Repr

/-! ### raw data through the generated expressions -/

/-- `write_raw_integer_data(target, source, size)`: dispatch on `size == sizeof(type)`,
then `type r = (type)source` -/
def writeRawGen (source : BitVec 64) (w : Width) : List UInt8 :=
  match w with
  | .w8 => toLE 1 (CastExprs.writeTrunc8 source).toNat
  | .w16 => toLE 2 (CastExprs.writeTrunc16 source).toNat
  | .w32 => toLE 4 (CastExprs.writeTrunc32 source).toNat
  | .w64 => toLE 8 (CastExprs.writeTrunc64 source).toNat

/-- `read_raw_signed_data` on the object `obj` (`memcpy(&r, target, sizeof(type)); return r;`) -/
def readSignedGen (w : Width) (obj : List UInt8) : BitVec 64 :=
  match w with
  | .w8 => CastExprs.readSigned8 (BitVec.ofNat 8 (fromLE obj))
  | .w16 => CastExprs.readSigned16 (BitVec.ofNat 16 (fromLE obj))
  | .w32 => CastExprs.readSigned32 (BitVec.ofNat 32 (fromLE obj))
  | .w64 => CastExprs.readSigned64 (BitVec.ofNat 64 (fromLE obj))

def readUnsignedGen (w : Width) (obj : List UInt8) : BitVec 64 :=
  match w with
  | .w8 => CastExprs.readUnsigned8 (BitVec.ofNat 8 (fromLE obj))
  | .w16 => CastExprs.readUnsigned16 (BitVec.ofNat 16 (fromLE obj))
  | .w32 => CastExprs.readUnsigned32 (BitVec.ofNat 32 (fromLE obj))
  | .w64 => CastExprs.readUnsigned64 (BitVec.ofNat 64 (fromLE obj))

/-- `int(cdata)` (`cdata_int`) of a primitive cdata of type `T` stored in the first `T.bytes` bytes of `data`.
The results are C `long` / `unsigned long long` values handed to `PyLong_From*`. -/
def cdataToInt (T : IntType) (data : List UInt8) : Except ErrKind Int :=
  let obj := data.take T.bytes
  match T.kind with
  | .signed => .ok (readSignedGen T.width obj).toInt
  | .unsigned => .ok (readUnsignedGen T.width obj).toNat
  | .bool =>
    let value := (readUnsignedGen T.width obj).toNat
    if value = 0 then .ok 0 else if value = 1 then .ok 1 else .error .valueError
  | .char | .swchar =>
    match T.width with
    | .w8 => .ok (CastExprs.charRead8 (BitVec.ofNat 8 (fromLE obj))).toInt
    | .w16 => .ok (CastExprs.charRead16 (BitVec.ofNat 16 (fromLE obj))).toInt
    | .w32 =>
      if T.kind = .swchar then .ok (CastExprs.swcharRead32 (BitVec.ofNat 32 (fromLE obj))).toInt
      else .ok (CastExprs.charRead32 (BitVec.ofNat 32 (fromLE obj))).toInt
    | .w64 => .error .typeError       -- no such case in the switch: "int() not supported"

/-! ### object → integer -/

/-- `_PyLong_Sign(ob)` as a C `int` -/
def signBV (v : Int) : BitVec 32 := BitVec.ofInt 32 (if v < 0 then -1 else if v = 0 then 0 else 1)

/-- the CPython conversion named in the source -/
def callPyLongULL (name : String) (v : Int) : Except ErrKind (BitVec 64) :=
  if name = "PyLong_AsUnsignedLongLong" then
    match pyLongAsUnsignedLongLong v with
    | (r, none) => .ok (BitVec.ofInt 64 r)
    | (_, some e) => .error e
  else if name = "PyLong_AsUnsignedLongLongMask" then .ok (BitVec.ofInt 64 (pyLongAsUnsignedLongLongMask v))
  else .error .fatal

/-- `_my_PyLong_AsUnsignedLongLong(ob, strict)` for `PyLong_Check(ob)` -/
def pyLongToULL (v : Int) (strict : Bool) : Except ErrKind (BitVec 64) :=
  if strict then
    if CastExprs.ullNegative (signBV v) then .error .overflow
    else callPyLongULL CastExprs.ullCalls.1 v
  else callPyLongULL CastExprs.ullCalls.2 v

/-- `CDataObject_Or_PyFloat_Check(ob)` -/
def CastSrc.isCDataOrFloat : CastSrc → Bool
  | .float _ | .cdataFloat _ => true
  | _ => false

def CastSrc.isCData : CastSrc → Bool
  | .ptr _ | .cdataInt .. | .cdataFloat _ | .cdataOther => true
  | _ => false

/-- the `nb_int` slot: `none` when NULL, else what calling it gives -/
def CastSrc.nbInt : CastSrc → Option (Except ErrKind PyRes)
  | .int v => some (.ok (.int v))
  | .bool b => some (.ok (.int (if b then 1 else 0)))
  | .float f => some (f.toInt.map .int)
  | .cdataInt S bs => some ((cdataToInt S bs).map .int)           -- cdata_int
  | .cdataFloat f => some (f.toInt.map .int)                    -- cdata_int: cdata_float, then PyNumber_Long
  | .cdataOther | .ptr _ => some (.error .typeError)            -- cdata_int: "int() not supported"
  | .obj _ i _ => i.map .ok
  | .bytes _ | .str _ | .noNumber => none

/-- the `nb_float` slot -/
def CastSrc.nbFloat : CastSrc → Option (Except ErrKind PyRes)
  | .int _ | .bool _ => some (.ok .other)                       -- (not reached: PyLong is handled first)
  | .float f | .cdataFloat f => some (.ok (.float f))
  | .cdataInt .. | .cdataOther | .ptr _ => some (.error .typeError)   -- cdata_float: "float() not supported"
  | .obj _ _ f => f.map .ok
  | .bytes _ | .str _ | .noNumber => none

/-- `_my_PyLong_AsUnsignedLongLong(ob, strict)` on any object -/
def asULL (src : CastSrc) (strict : Bool) : Except ErrKind (BitVec 64) :=
  match src with
  | .int v => pyLongToULL v strict
  | .bool b => pyLongToULL (if b then 1 else 0) strict
  | _ =>
    if CastExprs.ullRefuses strict src.isCDataOrFloat false src.nbInt.isNone then .error .typeError   -- "an integer is required"
    else match src.nbInt with
      | none => .error .fatal                      -- would call through a NULL slot
      | some (.error e) => .error e
      | some (.ok (.int v)) => pyLongToULL v strict
      | some (.ok _) => .error .typeError          -- "integer conversion failed"

/-- `_my_PyObject_AsBool(ob)`: the C `int` returned -/
def asBool (src : CastSrc) : Except ErrKind (BitVec 32) :=
  let ofFloat (f : FloatVal) : BitVec 32 := if f.nonzero then 1#32 else 0#32
  match src with
  | .int v => .ok (CastExprs.asBoolLong (signBV v))
  | .bool b => .ok (CastExprs.asBoolLong (signBV (if b then 1 else 0)))
  | .float f => .ok (ofFloat f)
  | .cdataFloat f => .ok (ofFloat f)
  | _ =>
    if CastExprs.asBoolRefuses false src.nbFloat.isNone src.nbInt.isNone then .error .typeError
    else
      let io := if CastExprs.asBoolUsesFloat src.nbFloat.isSome src.isCData then src.nbFloat else src.nbInt
      match io with
      | none => .error .fatal
      | some (.error e) => .error e
      | some (.ok r) =>
        let (isLong, isFloat) := match r with | .int _ => (true, false) | .float _ => (false, true) | .other => (false, false)
        if CastExprs.asBoolAcceptsResult isLong isFloat then
          match r with
          | .int v => .ok (CastExprs.asBoolLong (signBV v))
          | .float f => .ok (ofFloat f)
          | .other => .error .fatal
        else .error .typeError                     -- "integer/float conversion failed"

/-! ### `cast_to_integer_or_char` -/

/-- the branch conditions this model's `castValue` follows, in the order of the source -/
def modelledBranches : List String :=
  ["CData_Check(ob) && ((CDataObject *)ob)->c_type->ct_flags & (CT_POINTER|CT_FUNCTIONPTR|CT_ARRAY)",
   "PyUnicode_Check(ob)", "PyBytes_Check(ob)", "ct->ct_flags & CT_IS_BOOL", "else"]

/-- the `unsigned long long value` at label `got_value` -/
def castValue (T : IntType) (src : CastSrc) : Except ErrKind (BitVec 64) :=
  match src with
  | .ptr a => .ok (CastExprs.ptrValue (BitVec.ofNat 64 a))
  | .str cps =>
    match cps with
    | [cp] =>
      if T.kind = .swchar then .ok (CastExprs.swcharValue (BitVec.ofNat 32 cp))
      else .ok (CastExprs.charValue (BitVec.ofNat 32 cp))
    | _ => .error .typeError
  | .bytes bs =>
    match bs with
    | [b] => .ok (CastExprs.bytesValue (BitVec.ofNat 32 b.toNat))
    | _ => .error .typeError
  | _ =>
    if T.kind = .bool then
      match asBool src with
      | .error e => .error e
      | .ok res => .ok (CastExprs.boolResValue res)
    else asULL src CastExprs.castStrict

/-- `cast_to_integer_or_char(ct, ob)`: the bytes of the new cdata -/
def cast (T : IntType) (src : CastSrc) : Except ErrKind (List UInt8) :=
  match castValue T src with
  | .error e => .error e
  | .ok value =>
    let value := if T.kind = .bool then CastExprs.boolNormalize value else value
    .ok (writeRawGen value T.width)

/-- `int(ffi.cast(T, x))` -/
def castInt (T : IntType) (src : CastSrc) : Except ErrKind Int :=
  match cast T src with
  | .error e => .error e
  | .ok bs => cdataToInt T bs

/-- `ffi.cast("void *", x)` for a non-pointer `x` (`do_cast`): the address of the result -/
def castToPointerSrc (src : CastSrc) : Except ErrKind Nat :=
  match asULL src CastExprs.ptrCastStrict with
  | .error e => .error e
  | .ok value => .ok (CastExprs.intToPtr value).toNat

/-- `ffi.cast("void *", n)` for a Python int `n` -/
def castToPointer (v : Int) : Except ErrKind Nat := castToPointerSrc (.int v)

/-! ### what the property speaks about -/

/-- the mathematical integer a source denotes after truncation toward zero (code point / byte /
address / value of the cdata / result of `__int__`); `none` for the sources C04's "succeeds"
clause excludes (non-finite floats, non-single bytes/str, objects that are not numbers) -/
def CastSrc.trunc : CastSrc → Option Int
  | .int v => some v
  | .bool b => some (if b then 1 else 0)
  | .float (.finite m e) | .cdataFloat (.finite m e) => some (floatTrunc m e)
  | .bytes [b] => some b.toNat
  | .str [cp] => some cp
  | .ptr a => some a
  | .cdataInt S bs => match cdataToInt S bs with | .ok v => some v | .error _ => none
  | .obj _ (some (.int v)) _ => some v
  | _ => none

/-- `x != 0` of the source itself, as `_Bool` sees it (a float is non-zero even if it truncates to 0;
`__float__` is preferred to `__int__`) -/
def CastSrc.nonzero : CastSrc → Option Bool
  | .int v => some (v != 0)
  | .bool b => some b
  | .float f | .cdataFloat f => some f.nonzero
  | .bytes [b] => some (b.toNat != 0)
  | .str [cp] => some (cp != 0)
  | .ptr a => some (a != 0)
  | .cdataInt S bs => match cdataToInt S bs with | .ok v => some (v != 0) | .error _ => none
  | .obj _ _ (some (.float f)) => some f.nonzero
  | .obj _ _ (some (.int v)) => some (v != 0)
  | .obj _ (some (.int v)) none => some (v != 0)
  | .obj _ (some (.float f)) none => some f.nonzero
  | _ => none

end CffiVerif.CInt
