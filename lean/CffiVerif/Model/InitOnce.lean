import CffiVerif.Generated.InitOnceSteps

/-
Transition system of `ffi.init_once(f, tag)` for one FFI object and one tag
(DESIGN.md Appendix A), covering both implementations:

* `src/cffi/api.py` `FFI.init_once` (pure Python): `_init_once_cache[tag]` /
  `setdefault(tag, (False, lock))`, `with lock:`, recheck, `func()`, store;
* `src/c/ffi_obj.c` `ffi_init_once`: `PyDict_GetItemRef` / `setdefault`,
  `PyThread_acquire_lock` (GIL released while waiting), recheck with
  `PyDict_GetItem`, `PyObject_CallFunction`, `PyDict_SetItem`, release.

A *thread* here is one call of `init_once` (a Python thread calling twice is two
of them).  Any number of threads: `pc : Tid → Pc` with `Tid = Nat`, everybody
at `start` initially and free to take its steps at any time.  Each step is
atomic under the GIL exactly where the code has no release point; the C version
performs some consecutive steps without a release point (`fDone → stored →
returned`), which is one of the interleavings allowed here.

`f` is a black box that either returns some value or raises: the
nondeterminism is the `Choice` argument of `next`, consulted only at `inF`.
`succ` is a ghost list of the normal completions of `f`.
-/
namespace CffiVerif.InitOnce

abbrev Tid := Nat
abbrev Val := Int

/-- `cache[tag]` when present: `(False, lock)` or `(True, result)`. -/
inductive Entry
  | pending
  | done (r : Val)
  deriving Repr, DecidableEq

inductive Pc
  | start                 -- about to read `cache[tag]`
  | readNone              -- saw no entry; about to `setdefault`
  | got (e : Entry)       -- holds the tuple `x`
  | waiting               -- blocked in `with x[1]` / `PyThread_acquire_lock`
  | holding               -- owns the lock, about to re-read the cache
  | inF                   -- inside `func()`
  | fDone (v : Val)       -- `func()` returned `v`, about to store
  | stored (v : Val)      -- stored `(True, v)`, about to release
  | returned (r : Val)    -- `init_once` returned `r`
  | raised                -- `init_once` propagated `func`'s exception
  deriving Repr, DecidableEq

structure State where
  cache : Option Entry
  owner : Option Tid
  pc : Tid → Pc
  succ : List (Tid × Val)

def init : State := { cache := none, owner := none, pc := fun _ => .start, succ := [] }

/-- Outcome of `f` when it is the one running. -/
inductive Choice
  | ret (v : Val)
  | raise
  deriving Repr, DecidableEq

def State.setPc (s : State) (t : Tid) (p : Pc) : State :=
  { s with pc := fun u => if u = t then p else s.pc u }

/-- The step of thread `t` in state `s` (`none`: `t` is not enabled — blocked on
the lock, or finished). -/
def next (s : State) (t : Tid) (ch : Choice) : Option State :=
  match s.pc t with
  | .start =>                                   -- 1. `x = cache[tag]` / `PyDict_GetItemRef`
    match s.cache with
    | none => some (s.setPc t .readNone)
    | some e => some (s.setPc t (.got e))
  | .readNone =>                                -- 2. `setdefault(tag, (False, lock))`
    match s.cache with
    | none => some ({ s with cache := some .pending }.setPc t (.got .pending))
    | some e => some (s.setPc t (.got e))
  | .got (.done r) => some (s.setPc t (.returned r))   -- 3. `if x[0]: return x[1]`
  | .got .pending => some (s.setPc t .waiting)
  | .waiting =>                                 -- 4. acquire
    match s.owner with
    | none => some ({ s with owner := some t }.setPc t .holding)
    | some _ => none
  | .holding =>                                 -- 5. recheck under the lock
    match s.cache with
    | some (.done r) => some ({ s with owner := none }.setPc t (.returned r))
    | some .pending => some (s.setPc t .inF)
    | none => none      -- `cache[tag]` raises KeyError (Python) — unreachable, see `Inv.cache_some`
  | .inF =>                                     -- 6. `func()` returns or raises
    match ch with
    | .ret v => some ({ s with succ := s.succ ++ [(t, v)] }.setPc t (.fDone v))
    | .raise => some ({ s with owner := none }.setPc t .raised)
  | .fDone v => some ({ s with cache := some (.done v) }.setPc t (.stored v))   -- 7. store …
  | .stored v => some ({ s with owner := none }.setPc t (.returned v))          --    … release, return
  | .returned _ => none
  | .raised => none

/-- States reachable from `init` by any finite interleaving of any threads' steps
and any outcomes of `f`. -/
inductive Reachable : State → Prop
  | init : Reachable init
  | step {s s' : State} (t : Tid) (ch : Choice) : Reachable s → next s t ch = some s' → Reachable s'

/-- What the harness can observe of a step. -/
inductive Obs
  | tau
  | fenter            -- `f` starts running in this call
  | fret (v : Val)    -- `f` returns `v`
  | fraise            -- `f` raises
  deriving Repr, DecidableEq

/-- The label of the step `next s t ch` (when it is enabled). -/
def label (s : State) (t : Tid) (ch : Choice) : Obs :=
  match s.pc t with
  | .holding => match s.cache with
    | some .pending => .fenter
    | _ => .tau
  | .inF => match ch with
    | .ret v => .fret v
    | .raise => .fraise
  | _ => .tau

def finished : Pc → Bool
  | .returned _ => true
  | .raised => true
  | _ => false

/-- pcs between acquire and release -/
def locked : Pc → Bool
  | .holding => true
  | .inF => true
  | .fDone _ => true
  | .stored _ => true
  | _ => false

/-- Position of a pc along the (acyclic) control flow; every step strictly increases it. -/
def rank : Pc → Nat
  | .start => 0
  | .readNone => 1
  | .got _ => 2
  | .waiting => 3
  | .holding => 4
  | .inF => 5
  | .fDone _ => 6
  | .stored _ => 7
  | .returned _ => 8
  | .raised => 8

/-- Run a schedule (list of `(thread, outcome-if-asked)`); `none` if some step is not enabled. -/
def runSched (s : State) : List (Tid × Choice) → Option State
  | [] => some s
  | (t, ch) :: rest => match next s t ch with
    | some s' => runSched s' rest
    | none => none

/-- The source statement (abstract step of `Generated/InitOnceSteps.lean`) a call at this pc executes next. -/
def stepOf : Pc → Option Generated.InitOnceSteps.Step
  | .start => some .lookup
  | .readNone => some .setdefaultPending
  | .got _ => some .fastReturn
  | .waiting => some .acquire
  | .holding => some .recheck
  | .inF => some .callF
  | .fDone _ => some .store
  | .stored _ => some .release
  | .returned _ => some .ret
  | .raised => none

/-- The pcs of a lone call whose `f` returns `v`, as `next` moves it (see `C26.successPath_is_next`). -/
def successPath (v : Val) : List Pc :=
  [.start, .readNone, .got .pending, .waiting, .holding, .inF, .fDone v, .stored v, .returned v]

/-- The model's control flow as a list of source steps. -/
def modelSteps : List Generated.InitOnceSteps.Step := (successPath 0).filterMap stepOf

/-- pcs visited by call 0 when it is the only one stepping and `f` returns 0 -/
def visit : State → Nat → List Pc
  | s, 0 => [s.pc 0]
  | s, n + 1 => match next s 0 (.ret 0) with
    | some s' => s.pc 0 :: visit s' n
    | none => [s.pc 0]

end CffiVerif.InitOnce
