/-!
Model of the `#define NAME value` path of `cdef()` (`/repo/src/cffi/cparser.py`):

* `_r_int_literal = re.compile(r"-?0?x?[0-9a-f]+[lu]*$", re.IGNORECASE)` as a DFA
  (`dfaAccepts`), next to a direct reading of the regular expression (`RegexMatches`);
* `Parser._add_integer_constant`: `lower()`, `rstrip("ul")`, the sign, the rewrite of
  `0NNN` into `0oNNN`, `int(int_str, 0)` inside `try: … except ValueError: raise CDefError`;
* Python's `int(s, base)` for `str` arguments, bases 0, 2, 8, 10, 16 (`pyInt`): sign, base
  prefixes, `_` digit separators, the "leading zeros only for zero" rule of base 0 and the
  4300-digit limit of non-power-of-two bases (`sys.int_info.default_max_str_digits`).

Strings are `List Char` (Python `str`).  Not modelled in `pyInt`: surrounding white space and
non-ASCII decimal digits (both rejected here, accepted by Python) -- neither survives
`_r_int_literal` (checked over all code points by the harness) nor occurs in a token of
pycparser's lexer, which are the only callers.
-/
namespace CffiVerif.DefineLiteral

/-! ### `_r_int_literal` -/

def isX (c : Char) : Bool := c == 'x' || c == 'X'
/-- `lo ≤ c ≤ hi` on code points. -/
def inRange (c : Char) (lo hi : Nat) : Bool := decide (lo ≤ c.toNat) && decide (c.toNat ≤ hi)

def isHex (c : Char) : Bool := inRange c 48 57 || inRange c 97 102 || inRange c 65 70
def isLU (c : Char) : Bool := c == 'l' || c == 'L' || c == 'u' || c == 'U'

/-- A direct reading of `-?0?x?[0-9a-f]+[lu]*$` under `IGNORECASE`, anchored at both ends
(`match` anchors the start; the value has been `strip()`ped, so `$` is the end). -/
def RegexMatches (s : List Char) : Prop :=
  ∃ (neg zero x h l : List Char),
    s = neg ++ zero ++ x ++ h ++ l ∧
    (neg = [] ∨ neg = ['-']) ∧ (zero = [] ∨ zero = ['0']) ∧
    (x = [] ∨ ∃ c, x = [c] ∧ isX c = true) ∧
    h ≠ [] ∧ (∀ c ∈ h, isHex c = true) ∧ (∀ c ∈ l, isLU c = true)

/-- States of the DFA (subset construction of the expression above). -/
inductive St where
  | start      -- nothing read
  | neg        -- "-"
  | zero       -- "-?0": the `0` is `0?` or the first of `[0-9a-f]+` (accepting)
  | x          -- "-?0?x": at least one hex digit must follow
  | hex        -- inside `[0-9a-f]+` (accepting)
  | suf        -- inside `[lu]*` (accepting)
  | dead
  deriving DecidableEq, Repr, Inhabited

def step : St → Char → St
  | .start, c => if c == '-' then .neg else if c == '0' then .zero else if isX c then .x
                 else if isHex c then .hex else .dead
  | .neg, c => if c == '0' then .zero else if isX c then .x else if isHex c then .hex else .dead
  | .zero, c => if isX c then .x else if isHex c then .hex else if isLU c then .suf else .dead
  | .x, c => if isHex c then .hex else .dead
  | .hex, c => if isHex c then .hex else if isLU c then .suf else .dead
  | .suf, c => if isLU c then .suf else .dead
  | .dead, _ => .dead

def St.accepting : St → Bool
  | .zero | .hex | .suf => true
  | _ => false

def run (q : St) (s : List Char) : St := s.foldl step q

/-- `_r_int_literal.match(value)`. -/
def dfaAccepts (s : List Char) : Bool := (run .start s).accepting

/-! ### Python `int(s, base)` -/

/-- Value of a digit character (`0-9`, `a-z`, `A-Z`), as `int()` reads it. -/
def digitVal (c : Char) : Option Nat :=
  if inRange c 48 57 then some (c.toNat - 48)
  else if inRange c 97 122 then some (c.toNat - 97 + 10)
  else if inRange c 65 90 then some (c.toNat - 65 + 10)
  else none

/-- Digits of `base` with single `_` between digits.  `prev`: the previous character was a
digit (or the base prefix, after which one `_` is allowed).  Result: (value, number of
digits); `none` = ValueError. -/
def digits (base : Nat) : List Char → (prev : Bool) → (acc n : Nat) → Option (Nat × Nat)
  | [], prev, acc, n => if prev && decide (0 < n) then some (acc, n) else none
  | c :: cs, prev, acc, n =>
    if c = '_' then (if prev then digits base cs false acc n else none)
    else match digitVal c with
      | some d => if d < base then digits base cs true (acc * base + d) (n + 1) else none
      | none => none

/-- `sys.int_info.default_max_str_digits`. -/
def maxStrDigits : Nat := 4300

/-- The base prefix `0x`/`0o`/`0b` (any case) is consumed when `base` is 0 or agrees with it. -/
def prefixBase (base : Nat) : List Char → Option Nat
  | '0' :: c :: _ =>
    let pb := if isX c then 16 else if c == 'o' || c == 'O' then 8
              else if c == 'b' || c == 'B' then 2 else 0
    if pb ≠ 0 ∧ (base = 0 ∨ base = pb) then some pb else none
  | _ => none

/-- The unsigned part: (value, number of digits, effective base). -/
def pyNat (base : Nat) (s : List Char) : Option (Nat × Nat × Nat) :=
  match prefixBase base s with
  | some pb =>
    match digits pb (s.drop 2) true 0 0 with
    | some (v, n) => some (v, n, pb)
    | none => none
  | none =>
    if base = 0 then
      -- decimal; a leading `0` is only allowed when the whole number is zero
      match digits 10 s false 0 0 with
      | some (v, n) => if s.head? == some '0' && v != 0 then none else some (v, n, 10)
      | none => none
    else
      match digits base s false 0 0 with
      | some (v, n) => some (v, n, base)
      | none => none

/-- `int(s, base)` for `base ∈ {0, 2, 8, 10, 16}`; `none` = ValueError. -/
def pyInt (base : Nat) (s : List Char) : Option Int :=
  let neg := s.head? == some '-'
  let s := if neg || s.head? == some '+' then s.tail else s
  match pyNat base s with
  | none => none
  | some (v, n, b) =>
    -- the digit limit of the bases that are not a power of two
    if (b != 2 && b != 8 && b != 16) && decide (maxStrDigits < n) then none
    else some (if neg then -(v : Int) else (v : Int))

/-! ### `_add_integer_constant` -/

/-- `str.lower()` on the ASCII range (the only characters `_r_int_literal` lets through). -/
def lowerChar (c : Char) : Char :=
  if inRange c 65 90 then Char.ofNat (c.toNat + 32) else c

def isLowerLU (c : Char) : Bool := c == 'u' || c == 'l'

/-- `int_str.lower().rstrip("ul")`. -/
def lowerStrip (v : List Char) : List Char :=
  ((v.map lowerChar).reverse.dropWhile isLowerLU).reverse

/-- The text after `lower()`, `rstrip("ul")` and the removal of the sign: (neg, body). -/
def body (v : List Char) : Bool × List Char :=
  let s := lowerStrip v
  if s.head? == some '-' then (true, s.tail) else (false, s)

/-- `"010"` is not valid octal in py3: `0NNN` becomes `0oNNN`. -/
def octalRewrite (s : List Char) : List Char :=
  if s.head? == some '0' && s != ['0'] && !(s.take 2 == ['0', 'x']) then '0' :: 'o' :: s.tail else s

/-- The exception *types* that can leave `_process_macros`. -/
inductive Exc where
  | cdefError | valueError
  deriving DecidableEq, Repr, Inhabited

/-- `_add_integer_constant(name, int_str)`: the value bound to `name`. -/
def addIntegerConstant (v : List Char) : Except Exc Int :=
  match pyInt 0 (octalRewrite (body v).2) with       -- try: int(int_str, 0)
  | none => .error .cdefError                        -- except ValueError: raise CDefError
  | some pyvalue => .ok (if (body v).1 then -pyvalue else pyvalue)

/-- Result of one `#define`: an integer, the literal `...`, or the error. -/
inductive MacroVal where
  | int (n : Int) | dotdotdot
  deriving DecidableEq, Repr

/-- One iteration of `_process_macros` (`value` already `strip()`ped). -/
def processMacro (value : List Char) : Except Exc MacroVal :=
  if dfaAccepts value then (addIntegerConstant value).map .int
  else if value = ['.', '.', '.'] then .ok .dotdotdot
  else .error .cdefError

/-- What a C integer literal looks like once lower-cased and without sign and suffix:
`0`, a decimal without leading zero (of at most `maxStrDigits` digits -- longer ones are
refused by `int()`), `0x` + hex digits, `0` + octal digits. -/
def isCBody (s : List Char) : Bool :=
  match s with
  | ['0'] => true
  | '0' :: 'x' :: h => !h.isEmpty && h.all (fun c => inRange c 48 57 || inRange c 97 102)
  | '0' :: o => o.all (fun c => inRange c 48 55)
  | c :: d => inRange c 49 57 && d.all (fun c => inRange c 48 57) && decide (d.length < maxStrDigits)
  | [] => false

end CffiVerif.DefineLiteral
