/-
The few Python `str` / `list` / `dict` operations that the generated files
`Generated/PkgConfigPy.lean` and `Generated/FlattenPy.lean` (translations of
src/cffi/pkgconfig.py, ffiplatform.py, verifier.py) are expressed in.
`str` = `List Nat` (code points); a dict is the list of its items in
insertion order.
-/
namespace CffiVerif.PyText

abbrev Str := List Nat

/-! ### `'%d' %` and `hex()` -/

/-- character of the digit `d < 16`: `0-9`, `a-f` -/
def digitChar (d : Nat) : Nat := if d < 10 then 48 + d else 87 + d

/-- most significant digit first; `fuel > n` is always enough -/
def digitsAux (b : Nat) : Nat → Nat → List Nat → List Nat
  | 0, _, acc => acc
  | fuel + 1, n, acc =>
    if n < b then digitChar n :: acc
    else digitsAux b fuel (n / b) (digitChar (n % b) :: acc)

/-- digits of `n` in base `b` (`2 ≤ b ≤ 16`), no leading zero, `"0"` for 0 -/
def natDigits (b n : Nat) : List Nat := digitsAux b (n + 1) n []

/-- `'%d' % i` -/
def intDigits (i : Int) : List Nat :=
  if i < 0 then 45 :: natDigits 10 i.natAbs else natDigits 10 i.toNat

/-- `hex(n)` -/
def pyHex (n : Nat) : List Nat := 48 :: 120 :: natDigits 16 n

/-! ### strings -/

/-- `x.startswith(p)` -/
def startsWith (p x : Str) : Bool := p.isPrefixOf x

/-- `c in x` for a one-character `c` -/
def contains (c : Nat) (x : Str) : Bool := x.contains c

/-- `x.split(c, 1)` for a one-character separator that occurs in `x`: the text
before and after its first occurrence (`(x, "")` if it does not occur) -/
def split1 (c : Nat) : Str → Str × Str
  | [] => ([], [])
  | a :: as => if a = c then ([], as) else ((split1 c as).1 |> (a :: ·), (split1 c as).2)

/-- `sep.join(parts)` -/
def join (sep : Str) : List Str → Str
  | [] => []
  | [p] => p
  | p :: q :: ps => p ++ sep ++ join sep (q :: ps)

/-- `s[0::2]` -/
def everySecond {α : Type} : List α → List α
  | [] => []
  | [a] => [a]
  | a :: _ :: rest => a :: everySecond rest

/-- `s[start::2]` -/
def sliceStep2 {α : Type} (start : Nat) (s : List α) : List α := everySecond (s.drop start)

/-- `s.lstrip(chars)` -/
def lstrip (chars : Str) (s : Str) : Str := s.dropWhile (fun c => chars.contains c)

/-- `s.rstrip(chars)` -/
def rstrip (chars : Str) (s : Str) : Str := (s.reverse.dropWhile (fun c => chars.contains c)).reverse

/-! ### the `%` operator on a format string with `%d` / `%s` fields -/

inductive FmtPiece where
  | d                  -- `%d`
  | s                  -- `%s`
  | lit (t : Str)      -- literal text
  deriving Repr, DecidableEq

inductive FmtArg where
  | int (i : Int)
  | str (s : Str)
  deriving Repr, DecidableEq

/-- `fmt % args`; `none` = `TypeError` (wrong number or type of arguments) -/
def format : List FmtPiece → List FmtArg → Option Str
  | [], [] => some []
  | [], _ :: _ => none
  | .lit t :: ps, as => (format ps as).map (t ++ ·)
  | .d :: ps, .int i :: as => (format ps as).map (intDigits i ++ ·)
  | .s :: ps, .str s :: as => (format ps as).map (s ++ ·)
  | _, _ => none

/-! ### dicts with list values (`merge_flags`) -/

/-- `key in d` -/
def dictHas {κ α : Type} [DecidableEq κ] (d : List (κ × α)) (k : κ) : Bool := d.any (fun kv => kv.1 = k)

/-- `d[key] = value` for a key that is not in `d` yet: appended in insertion order -/
def dictSetNew {κ α : Type} (d : List (κ × α)) (k : κ) (v : α) : List (κ × α) := d ++ [(k, v)]

/-- `d[key].extend(value)` for a key that is in `d` -/
def dictExtend {κ α : Type} [DecidableEq κ] : List (κ × List α) → κ → List α → List (κ × List α)
  | [], _, _ => []
  | (k', v') :: rest, k, v =>
    if k' = k then (k', v' ++ v) :: rest else (k', v') :: dictExtend rest k v

end CffiVerif.PyText
