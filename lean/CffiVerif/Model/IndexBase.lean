/-
Basic vocabulary of the indexing / buffer models (C16, C19): exception kinds, Python
arguments, `Py_ssize_t` range and 64-bit wrap-around.  Separate from Model/Index.lean so
that Generated/IndexExprs.lean and Generated/BufferExprs.lean (regenerated from the C
source) can use `wrapS`, and Model/Index.lean can use the generated definitions.
-/
namespace CffiVerif.Index

inductive Err
  | IndexError | TypeError | OverflowError | ValueError | RuntimeError | Fault
deriving Repr, DecidableEq

/-- A Python object used as an index, slice bound or addend. -/
inductive PyArg
  | int (i : Int)     -- an `int` (or anything with `__index__`)
  | none              -- `None`
  | other             -- anything else (float, str …)
deriving Repr, DecidableEq

def ssizeMin : Int := -9223372036854775808
def ssizeMax : Int := 9223372036854775807
def two64 : Int := 18446744073709551616

def fitsSsize (i : Int) : Prop := ssizeMin ≤ i ∧ i ≤ ssizeMax
instance (i : Int) : Decidable (fitsSsize i) := by unfold fitsSsize; exact inferInstance

/-- `char *` / `size_t` arithmetic: modulo 2^64. -/
def wrapU (x : Int) : Nat := (x % two64).toNat

/-- `Py_ssize_t` arithmetic: two's complement wrap-around. -/
def wrapS (x : Int) : Int :=
  let r := x % two64
  if r > ssizeMax then r - two64 else r

end CffiVerif.Index
