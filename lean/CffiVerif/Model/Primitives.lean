import CffiVerif.Generated.Primitives
import CffiVerif.Generated.Platform

/-!
Model of the code that decides what a primitive type name *is* (C06).

All tables come from `Generated/Primitives.lean` (re-extracted from the source on
every run) and `Generated/Platform.lean` (printed by a gcc-compiled program on
every run).  This file only contains the *lookup functions* the code implements
over those tables:

* `cPrim` / `pyPrim` / `primitiveIndex` / `nameOfIndex` — `_CFFI_PRIM_x`,
  `cffi_opcode.PRIM_x`, `PRIMITIVE_TO_INDEX[name]`, and
  `build_primitive_type`'s `primitive_in_range(num) && primitive_name[num] != NULL`;
* `backendEntry` and `rowFlags/rowSize/rowAlign/fitsLong/ffiSupported` — the
  `types[]` row `new_primitive_type(name)` finds with its `strcmp` loop and what it
  stores in the ctype (`ct_size = sizeof(T)`, `ct_length = offsetof({char; T}, y)`,
  flags, `CT_PRIMITIVE_FITS_LONG`);
* `standardTypename` — `search_standard_typename` as the switch the C code
  implements (suffix guard, `case` labels, `size ==`/`memcmp` arms, first match);
* `tokKind`, `specifier`, `cTypeOfWords` — the keyword recognition of `next_token` and
  the specifier part of `parse_complete` (qualifiers, short/long/signed/unsigned
  counters, base keyword, `_Complex`, standard names, common types), restricted to
  strings that are a sequence of words.
-/
namespace CffiVerif.Primitives
open CffiVerif.Generated.Primitives
open CffiVerif.Generated

/-- First pair with the given key (the tables are scanned front to back; the
theorems assert the keys are distinct, so "first" is "the"). -/
def assoc {α : Type} : List (String × α) → String → Option α
  | [], _ => none
  | (k', v) :: rest, k => if k' = k then some v else assoc rest k

def assocInt {α : Type} : List (Int × α) → Int → Option α
  | [], _ => none
  | (k', v) :: rest, k => if k' = k then some v else assocInt rest k

/-- Value of `_CFFI_PRIM_<sfx>` (parse_c_type.h). -/
def cPrim (sfx : String) : Option Int := assoc cPrimDefs sfx
/-- Value of `PRIM_<sfx>` (cffi_opcode.py). -/
def pyPrim (sfx : String) : Option Int := assoc pyPrimDefs sfx
/-- `PRIMITIVE_TO_INDEX[name]`: what the code generator emits in `_CFFI_OP(_CFFI_OP_PRIMITIVE, n)`. -/
def primitiveIndex (name : String) : Option Int := (assoc primitiveToIndex name).bind pyPrim

/-- `build_primitive_type(num)`: the name handed to `new_primitive_type`
(`primitive_in_range(num) && primitive_name[num] != NULL`), else none. -/
def nameOfIndex (i : Int) : Option String :=
  if 0 ≤ i ∧ i < cNumPrim then (primitiveName[i.toNat]?).join else none

/-- The `types[]` row found by the `strcmp` loop of `new_primitive_type`. -/
def backendEntry (name : String) : Option BackendEntry := backendTypes.find? (fun e => e.name = name)

def factOfName (n : String) : Option Platform.Fact := assoc Platform.byName n
def factOfCType (t : String) : Option Platform.Fact := assoc Platform.byBackendType t

def has (fl : List String) (f : String) : Bool := fl.contains f

/-- The flags column as the compiler evaluates it: `(((T)-1) > 0 ? 0 : F)` adds `F`
exactly when `(T)-1` is not positive, i.e. `T` is signed. -/
def rowFlags (e : BackendEntry) : Option (List String) :=
  match e.condFlag with
  | none => some e.flags
  | some (t, f) => (factOfCType t).map fun ft => if ft.neg then e.flags ++ [f] else e.flags

/-- `sizeof(typename)`. -/
def rowSize (e : BackendEntry) : Option Nat := (factOfCType e.ctype).map (·.size)
/-- `offsetof(struct aligncheck_<code>, y)`. -/
def rowAlign (e : BackendEntry) : Option Nat := (factOfCType e.ctype).map (·.structAlign)

/-- Kind letter of a flag set: exactly one of the five `CT_PRIMITIVE_*` kind flags. -/
def kindOfFlags (fl : List String) : Option Char :=
  match ["CT_PRIMITIVE_CHAR", "CT_PRIMITIVE_SIGNED", "CT_PRIMITIVE_UNSIGNED", "CT_PRIMITIVE_FLOAT",
         "CT_PRIMITIVE_COMPLEX"].filter (has fl) with
  | ["CT_PRIMITIVE_CHAR"] => some 'c'
  | ["CT_PRIMITIVE_SIGNED"] => some 'i'
  | ["CT_PRIMITIVE_UNSIGNED"] => some 'i'
  | ["CT_PRIMITIVE_FLOAT"] => some 'f'
  | ["CT_PRIMITIVE_COMPLEX"] => some 'j'
  | _ => none

def cmpOp (op : String) (a b : Nat) : Option Bool :=
  if op = "<=" then some (decide (a ≤ b))
  else if op = "<" then some (decide (a < b))
  else if op = ">=" then some (decide (a ≥ b))
  else if op = ">" then some (decide (a > b))
  else if op = "==" then some (decide (a = b))
  else if op = "!=" then some (decide (a ≠ b))
  else none

/-- Whether `new_primitive_type` sets `CT_PRIMITIVE_FITS_LONG`: the first rule of the
`if / else if` chain whose mask meets the flags decides. -/
def fitsLongWith : List FitsRule → List String → Nat → Option Bool
  | [], _, _ => some false
  | r :: rest, fl, size =>
    if r.mask.any (has fl) then (factOfCType r.than).bind fun ft => cmpOp r.op size ft.size
    else fitsLongWith rest fl size

def fitsLong (fl : List String) (size : Nat) : Option Bool := fitsLongWith fitsLongRules fl size

/-- `new_primitive_type` finds a libffi type (otherwise it raises NotImplementedError). -/
def ffiSupported (e : BackendEntry) (fl : List String) (size : Nat) : Bool :=
  if has fl "CT_PRIMITIVE_SIGNED" then ffiSignedSizes.contains size
  else if has fl "CT_PRIMITIVE_FLOAT" then ffiFloatNames.contains e.name
  else if has fl "CT_PRIMITIVE_COMPLEX" then true
  else ffiOtherSizes.contains size

/-- Range of Python ints an integer ctype with these flags and size holds
(`CT_IS_BOOL`: 0..1; signed: two's complement; unsigned: 0..2^(8 size) - 1). -/
def intRange (fl : List String) (size : Nat) : Option (Int × Int) :=
  if has fl "CT_IS_BOOL" then some (0, 1)
  else if has fl "CT_PRIMITIVE_SIGNED" then some (-(2 : Int) ^ (8 * size - 1), (2 : Int) ^ (8 * size - 1) - 1)
  else if has fl "CT_PRIMITIVE_UNSIGNED" then some (0, (2 : Int) ^ (8 * size) - 1)
  else none

/-! ### `search_standard_typename` -/

/-- `size < stdMinSize || p[size-2] != '_' || p[size-1] != 't'` is false. -/
def guardOk (p : List Char) : Bool :=
  decide (stdMinSize ≤ p.length) &&
  stdSuffix.all fun dc => decide (dc.1 ≤ p.length) && p[p.length - dc.1]? == some dc.2

/-- The arm's `case` labels hold of `p`, the enclosing `size >=` guard, `size == N` and the `memcmp`. -/
def armMatches (p : List Char) (a : Arm) : Bool :=
  a.disc.all (fun pc => p[pc.1]? == some pc.2) && decide (a.minSize ≤ p.length) &&
  decide (p.length = a.size) && p.take a.cmpLen == a.lit.toList.take a.cmpLen

/-- `search_standard_typename(p, size)`; `none` is `-1`. -/
def standardTypename (p : List Char) : Option Int :=
  if guardOk p then (stdArms.find? (armMatches p)).bind fun a => cPrim a.result else none

/-! ### keywords and specifiers (`next_token`, `parse_complete`) -/

def kwMatches (w : List Char) (k : Keyword) : Bool :=
  w.head? == some k.first && decide (w.length = k.size) && w.take k.cmpLen == k.lit.toList.take k.cmpLen

/-- Token kind of an identifier-shaped word: the keyword tests are consecutive `if`s
without `else`, so the last one that matches wins. -/
def tokKind (w : List Char) : String :=
  match (keywords.filter (kwMatches w)).getLast? with
  | some k => k.tok
  | none => "TOK_IDENTIFIER"

/-- What a type string denotes, as far as this model goes. -/
inductive Spec where
  | prim (n : Int)     -- `_CFFI_OP(_CFFI_OP_PRIMITIVE, n)`
  | error              -- `parse_error`
  | other              -- accepted or rejected by code outside this model (struct/union/enum, declarators, …)
  deriving Repr, DecidableEq

/-- The `modifiers:` loop.  Result: (modifiers_length, modifiers_sign, remaining words); `none` = parse_error. -/
def parseMods : List (List Char) → Int → Int → Option (Int × Int × List (List Char))
  | [], l, s => some (l, s, [])
  | w :: ws, l, s =>
    let k := tokKind w
    if k = "TOK_SHORT" then (if l ≠ 0 then none else parseMods ws (l - 1) s)
    else if k = "TOK_LONG" then (if l < 0 then none else if l ≥ 2 then none else parseMods ws (l + 1) s)
    else if k = "TOK_SIGNED" then (if s ≠ 0 then none else parseMods ws l (s + 1))
    else if k = "TOK_UNSIGNED" then (if s ≠ 0 then none else parseMods ws l (s - 1))
    else some (l, s, w :: ws)

/-- The `qualifiers:` loop (also the `const`/`volatile` skipping at the head of `parse_sequel`). -/
def skipQuals : List (List Char) → List (List Char)
  | [] => []
  | w :: ws => if tokKind w = "TOK_CONST" ∨ tokKind w = "TOK_VOLATILE" then skipQuals ws else w :: ws

def kindOfHead : List (List Char) → String
  | [] => "TOK_END"
  | w :: _ => tokKind w

/-- After the base type: the `_Complex` suffix, then what `parse_sequel` and
`parse_c_type_from` accept without producing another opcode: qualifiers, one
optional identifier (a variable name), end of input. -/
def finish (t1 : Int) (t1complex : Option Int) (rest : List (List Char)) : Spec :=
  let go (t : Int) (rest : List (List Char)) : Spec :=
    let rest := skipQuals rest
    match rest with
    | [] => .prim t
    | w :: more =>
      let k := tokKind w
      if k = "TOK_IDENTIFIER" then (if more = [] then .prim t else .other)
      else if k = "TOK_CDECL" ∨ k = "TOK_STDCALL" then .other
      else .error                     -- "unexpected symbol"
  if kindOfHead rest = "TOK__COMPLEX" then
    match t1complex with
    | none => .error
    | some tc => go tc rest.tail
  else go t1 rest

/-- Split at spaces, dropping empty words (`next_token` skips spaces). -/
def splitSpaces : List Char → List Char → List (List Char)
  | [], acc => if acc = [] then [] else [acc.reverse]
  | c :: cs, acc =>
    if c = ' ' then (if acc = [] then splitSpaces cs [] else acc.reverse :: splitSpaces cs [])
    else splitSpaces cs (c :: acc)

def wordsOf (s : List Char) : List (List Char) := splitSpaces s []

/-- `parse_complete` on a sequence of words.  `fuel` bounds the common-type
replacement recursion (`bool` → `_Bool`). -/
def specifier : Nat → List (List Char) → Spec
  | 0, _ => .other
  | fuel + 1, ws =>
    match parseMods (skipQuals ws) 0 0 with
    | none => .error
    | some (l, s, rest) =>
      let k := kindOfHead rest
      if l ≠ 0 ∨ s ≠ 0 then
        if specRejected.contains k then .error
        else if k = "TOK_DOUBLE" then
          if s ≠ 0 ∨ l ≠ 1 then .error
          else match cPrim specLongDouble with
            | some t => finish t none rest.tail
            | none => .other
        else if k = "TOK_CHAR" ∧ l ≠ 0 then .error
        else
          let l' := if k = "TOK_CHAR" then specCharLength else l
          let rest' := if k = "TOK_CHAR" ∨ k = "TOK_INT" then rest.tail else rest
          let sfx :=
            if s ≥ 0 then (match assocInt specSigned l' with | some x => x | none => specSignedDefault)
            else (match assocInt specUnsigned l' with | some x => x | none => specUnsignedDefault)
          match cPrim sfx with
          | some t => finish t none rest'
          | none => .other
      else
        match rest with
        | [] => .error                  -- "identifier expected"
        | w :: more =>
          match specBare.find? (fun b => b.1 = k) with
          | some (_, p, c) =>
            match cPrim p with
            | some t => finish t (c.bind cPrim) more
            | none => .other
          | none =>
            if k = "TOK_IDENTIFIER" then
              -- (no typedefs declared: search_in_typenames finds nothing)
              match standardTypename w with
              | some n => finish n none more
              | none =>
                match assoc commonTypesC (String.ofList w) with
                | some repl =>
                  -- parse_common_type_replacement: the replacement must parse completely
                  match specifier fuel (wordsOf repl.toList) with
                  | .prim n => finish n none more
                  | .error => .error
                  | .other => .other
                | none => .error        -- "undefined type name"
            else if k = "TOK_STRUCT" ∨ k = "TOK_UNION" ∨ k = "TOK_ENUM" then .other
            else .error                 -- "identifier expected"

/-- What the C parser makes of a type string made of words. -/
def cTypeOfWords (ws : List (List Char)) : Spec := specifier 3 ws
def cTypeOfString (s : String) : Spec := cTypeOfWords (wordsOf s.toList)

end CffiVerif.Primitives
