import CffiVerif.Model.TypeParser
import CffiVerif.Model.Proto

/-!
Line protocol of the type-string models (shared by the drivers of C07 and C08).

Strings travel as lower-case hex of their bytes (`-` = empty); every byte becomes
one `Char` (the harness only sends ASCII).  Type trees travel in prefix form:
`P <name>` primitive, `S|U|E <tag>` struct/union/enum, `* T` pointer,
`A <n|-> T` array, `F <nargs> <0|1> T1 … Tn R` raw function type.

Operations (state = declaration context):
  reset                         -> ok
  td <name> <tree>              -> ok           typedef name ↦ type
  agg <tag> <s|u> <0|1>         -> ok           struct/union tag, complete?
  enum <tag>                    -> ok
  const <name> <int>            -> ok           integer constant / enumerator
  typeof <string>               -> ok <cname> <position> <histdep 0|1> <tree> | err Parse | err Realize
  cname <tree>                  -> ok <cname> <position>
  getctype <extra> <tree>       -> ok <C result> <Python result>
  tokens <string>               -> ok <n> <kinds…>
-/
namespace CffiVerif.TypeProto
open CffiVerif CffiVerif.Proto CffiVerif.CName CffiVerif.TypeParser

def strOfHex (h : String) : Option Str := (hexBytes? h).map (·.map fun b => Char.ofNat b.toNat)
def hexOfStr (s : Str) : String := bytesHex (s.map fun c => UInt8.ofNat c.toNat)

partial def readTy : List String → Option (Ty × List String)
  | "P" :: n :: r => (strOfHex n).map fun s => (.prim s, r)
  | "S" :: n :: r => (strOfHex n).map fun s => (.agg .struct s, r)
  | "U" :: n :: r => (strOfHex n).map fun s => (.agg .union s, r)
  | "E" :: n :: r => (strOfHex n).map fun s => (.agg .enum s, r)
  | "*" :: r => (readTy r).map fun (t, r) => (.ptr t, r)
  | "A" :: n :: r =>
      let len : Option (Option Nat) := if n == "-" then some none else (nat? n).map some
      match len, readTy r with
      | some l, some (t, r) => some (.arr t l, r)
      | _, _ => none
  | "F" :: k :: e :: r =>
      match nat? k with
      | none => none
      | some k =>
        let rec args (k : Nat) (r : List String) (acc : List Ty) : Option (List Ty × List String) :=
          match k with
          | 0 => some (acc.reverse, r)
          | k + 1 => match readTy r with
            | some (t, r) => args k r (t :: acc)
            | none => none
        match args k r [] with
        | some (as, r) => match readTy r with
          | some (res, r) => some (.func as res (e == "1"), r)
          | none => none
        | none => none
  | _ => none

partial def showTy : Ty → String
  | .prim n => s!"P {hexOfStr n}"
  | .agg .struct t => s!"S {hexOfStr t}"
  | .agg .union t => s!"U {hexOfStr t}"
  | .agg .enum t => s!"E {hexOfStr t}"
  | .ptr t => s!"* {showTy t}"
  | .arr t none => s!"A - {showTy t}"
  | .arr t (some n) => s!"A {n} {showTy t}"
  | .func as res e =>
      let a := String.intercalate " " (as.map showTy)
      s!"F {as.length} {if e then 1 else 0}{if as.isEmpty then "" else " " ++ a} {showTy res}"

/-- Identity of a function type ignores array-ness of parameters (`new_function_type`
stores the decayed pointer in the signature and in the unique key); its *name* keeps
the array text of whichever equal type was built first.  `canon` decays, and reports
whether anything was decayed (then the name is history dependent). -/
partial def canon : Ty → Ty × Bool
  | .ptr t => let (t', h) := canon t; (.ptr t', h)
  | .arr t n => let (t', h) := canon t; (.arr t' n, h)
  | .func as res e =>
      let (res', h) := canon res
      let as' := as.map fun a =>
        let (a', h) := canon a
        match a' with
        | .arr item _ => ((Ty.ptr item), true)
        | _ => (a', h)
      (.func (as'.map (·.1)) res' e, h || as'.any (·.2))
  | t => (t, false)

def kindOfTok : Tok → String
  | .sym c => s!"sym{c.toNat}"
  | .ident s => s!"id:{hexOfStr s}"
  | .int s => s!"int:{hexOfStr s}"
  | .dots => "dots"
  | .kw k => s!"kw:{repr k}"

def step (ctx : Ctx) : List String → Ctx × String
  | ["reset"] => ({ typedefs := [], aggs := [], enums := [], consts := [] }, "ok")
  | "td" :: n :: tree =>
      match strOfHex n, readTy tree with
      | some n, some (t, []) => ({ ctx with typedefs := ctx.typedefs ++ [(n, t)] }, "ok")
      | _, _ => (ctx, "bad-op")
  | ["agg", n, k, c] =>
      match strOfHex n with
      | some n => ({ ctx with aggs := ctx.aggs ++ [(n, if k == "u" then .union else .struct, c == "1")] }, "ok")
      | none => (ctx, "bad-op")
  | ["enum", n] =>
      match strOfHex n with
      | some n => ({ ctx with enums := ctx.enums ++ [n] }, "ok")
      | none => (ctx, "bad-op")
  | ["const", n, v] =>
      match strOfHex n, int? v with
      | some n, some v => ({ ctx with consts := ctx.consts ++ [(n, v)] }, "ok")
      | _, _ => (ctx, "bad-op")
  | ["typeof", h] =>
      match strOfHex h with
      | none => (ctx, "bad-op")
      | some s =>
        (ctx, match typeofC ctx s with
          | .ok t =>
              let (t', hist) := canon t
              let nm := cname t'
              s!"ok {hexOfStr nm.1} {nm.2} {if hist then 1 else 0} {showTy t'}"
          | .error .parse => "err Parse"
          | .error .realize => "err Realize"
          | .error .fuel => "err Fuel")
  | "cname" :: tree =>
      match readTy tree with
      | some (t, []) => (ctx, let nm := cname t; s!"ok {hexOfStr nm.1} {nm.2}")
      | _ => (ctx, "bad-op")
  | "getctype" :: x :: tree =>
      match strOfHex x, readTy tree with
      | some x, some (t, []) => (ctx, s!"ok {hexOfStr (getctypeC t x)} {hexOfStr (getctypePy t x)}")
      | _, _ => (ctx, "bad-op")
  | ["tokens", h] =>
      match strOfHex h with
      | some s => (ctx, let ts := tokenize s; s!"ok {ts.length} {String.intercalate " " (ts.map kindOfTok)}")
      | none => (ctx, "bad-op")
  | _ => (ctx, "bad-op")

def init : Ctx := { typedefs := [], aggs := [], enums := [], consts := [] }

end CffiVerif.TypeProto
