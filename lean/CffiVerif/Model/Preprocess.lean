/-
Model of the comment / `#define` stage of `cparser._preprocess` (src/cffi/cparser.py).

```
_r_comment = re.compile(r"/\*.*?\*/|//([^\n\\]|\\.)*?$", re.DOTALL | re.MULTILINE)
_r_define  = re.compile(r"^\s*#\s*define\s+([A-Za-z_][A-Za-z_0-9]*)"
                        r"\b((?:[^\n\\]|\\.)*?)$", re.DOTALL | re.MULTILINE)
    def replace_keeping_newlines(m):
        return ' ' + m.group().count('\n') * '\n'
    csource = _r_comment.sub(replace_keeping_newlines, csource)
    macros = {}
    for match in _r_define.finditer(csource):
        macroname, macrovalue = match.groups()
        macrovalue = macrovalue.replace('\\\n', '').strip()
        macros[macroname] = macrovalue
```

`Text` is a Python `str` as code points.  `re.sub` scans left to right; at each
position it tries the block-comment alternative, then the line-comment alternative,
else copies the character.  Both alternatives are deterministic, so the substitution
is a DFA with two look-ahead predicates:

* `/*` starts a comment iff a `*/` follows (`closes`), otherwise the two
  characters are ordinary text;
* `//` starts a comment unless the text ends in a backslash before any unescaped
  newline (`lineOk`): the body `([^\n\\]|\\.)*?` consumes units "ordinary character"
  or "backslash + any character (a newline too, DOTALL)" up to the first position
  that is followed by `\n` or is the end of the text (`$`, MULTILINE).

The replacement is one space followed by as many `\n` as the comment contained.

Not modelled: the line-directive stash (`_remove_line_directives`), the rewriting
stages after `#define` extraction (`__stdcall`, `extern "Python"`, `...`), what is
*removed* by `_r_define.sub('', …)`.  `defines` is modelled for ASCII text only
(`\s`, `\b` need the Unicode tables otherwise) and says so (`Err.nonAscii`).
-/
namespace CffiVerif.Preprocess

abbrev Text := List Nat

/-- Look-ahead of `/\*.*?\*/` after the opener: does `*/` occur?  `ps` = the previous
character (after the opener) was `*`. -/
def closes : Bool → Text → Bool
  | _, [] => false
  | ps, c :: r => if ps && c == 47 then true else closes (c == 42) r

/-- Look-ahead of `//([^\n\\]|\\.)*?$` after the `//`: the body can reach a `$`.
`esc` = a backslash is waiting for the character it escapes. -/
def lineOk : Bool → Text → Bool
  | esc, [] => !esc
  | false, c :: r => if c == 10 then true else lineOk (c == 92) r
  | true, _ :: r => lineOk false r

inductive Mode
  | code                       -- outside comments
  | slash                      -- outside comments, a `/` is pending (not yet emitted)
  | block (prevStar : Bool)    -- inside `/* … */`
  | line (esc : Bool)          -- inside `// …`
deriving DecidableEq, Repr

/-- `_r_comment.sub(replace_keeping_newlines, ·)` as a transducer. -/
def go : Mode → Text → Text
  | .code, [] => []
  | .slash, [] => [47]
  | .block _, [] => []
  | .line _, [] => []
  | .code, c :: r => if c = 47 then go .slash r else c :: go .code r
  | .slash, c :: r =>
      if c = 42 then
        if closes false r then 32 :: go (.block false) r else 47 :: 42 :: go .code r
      else if c = 47 then
        if lineOk false r then 32 :: go (.line false) r else 47 :: go .slash r
      else 47 :: c :: go .code r
  | .block ps, c :: r =>
      if ps && c == 47 then go .code r
      else if c = 10 then 10 :: go (.block false) r
      else go (.block (c == 42)) r
  | .line false, c :: r =>
      if c = 10 then 10 :: go .code r else go (.line (c == 92)) r
  | .line true, c :: r =>
      if c = 10 then 10 :: go (.line false) r else go (.line false) r

def stripComments (t : Text) : Text := go .code t

/-- The same automaton without look-ahead and without output: where a prefix ends. -/
def next : Mode → Nat → Mode
  | .code, c => if c = 47 then .slash else .code
  | .slash, c => if c = 42 then .block false else if c = 47 then .line false else .code
  | .block ps, c => if ps && c == 47 then .code else .block (c == 42)
  | .line false, c => if c = 10 then .code else .line (c == 92)
  | .line true, _ => .line false

def endMode (m : Mode) (t : Text) : Mode := t.foldl next m

/-- A prefix after which we are outside any comment, whatever follows: every comment
opened in it is closed in it and it does not end in a `/` that could pair with the
next character. -/
def Closed (t : Text) : Prop := endMode .code t = .code

instance (t : Text) : Decidable (Closed t) := inferInstanceAs (Decidable (_ = _))

def newlines (t : Text) : Text := t.filter (· == 10)

/-- The body of a `//` comment as the regex sees it: units "not newline, not backslash"
or "backslash + any character", ending on a complete unit. -/
def lineBody : Bool → Text → Bool
  | esc, [] => !esc
  | false, c :: r => c != 10 && lineBody (c == 92) r
  | true, _ :: r => lineBody false r

/-! ### `#define` extraction (ASCII) -/

/-- `Py_UNICODE_ISSPACE` on ASCII: what `\s` and `str.strip()` use. -/
def isSpace (c : Nat) : Bool := (9 ≤ c && c ≤ 13) || (28 ≤ c && c ≤ 32)

def isIdentStart (c : Nat) : Bool := (65 ≤ c && c ≤ 90) || (97 ≤ c && c ≤ 122) || c == 95
def isIdentChar (c : Nat) : Bool := isIdentStart c || (48 ≤ c && c ≤ 57)

/-- `((?:[^\n\\]|\\.)*?)$`: the shortest sequence of units that ends before a newline
or at the end of the text; `none` when the text ends inside an escape. -/
def rawValue : Bool → Text → Option Text
  | esc, [] => if esc then none else some []
  | false, c :: r =>
      if c = 10 then some []
      else (rawValue (c == 92) r).map (c :: ·)
  | true, c :: r => (rawValue false r).map (c :: ·)

/-- `str.replace('\\\n', '')`; `pend` = a backslash is held back. -/
def removeCont : Bool → Text → Text
  | pend, [] => if pend then [92] else []
  | false, c :: r => if c = 92 then removeCont true r else c :: removeCont false r
  | true, c :: r =>
      if c = 10 then removeCont false r
      else if c = 92 then 92 :: removeCont true r
      else 92 :: c :: removeCont false r

def trimLeft (t : Text) : Text := t.dropWhile isSpace
def trim (t : Text) : Text := (trimLeft (trimLeft t).reverse).reverse

/-- `macrovalue.replace('\\\n', '').strip()` -/
def macroValue (raw : Text) : Text := trim (removeCont false raw)

def dropPrefix : Text → Text → Option Text
  | [], t => some t
  | _ :: _, [] => none
  | p :: ps, c :: r => if p = c then dropPrefix ps r else none

/-- `_r_define` anchored at a line start: `(name, raw value, number of characters matched)`. -/
def matchDefine (t : Text) : Option (Text × Text × Nat) :=
  match t.dropWhile isSpace with
  | 35 :: t2 =>
    match dropPrefix [100, 101, 102, 105, 110, 101] (t2.dropWhile isSpace) with
    | some t4 =>
      let t5 := t4.dropWhile isSpace
      if t5.length = t4.length then none else
      let name := t5.takeWhile isIdentChar
      let rest := t5.dropWhile isIdentChar
      match name with
      | [] => none
      | n0 :: _ =>
        if !isIdentStart n0 then none else
        match rawValue false rest with
        | some raw => some (name, raw, t.length - rest.length + raw.length)
        | none => none
    | none => none
  | _ => none

/-- `_r_define.finditer`: `bol` = the position is at the start of a line (`^`, MULTILINE),
`skip` = characters still covered by the previous match. -/
def scanDefines : Bool → Nat → Text → List (Text × Text)
  | _, _, [] => []
  | bol, skip, c :: r =>
    if skip > 0 then scanDefines (c == 10) (skip - 1) r
    else if bol then
      match matchDefine (c :: r) with
      | some (name, raw, n) => (name, macroValue raw) :: scanDefines (c == 10) (n - 1) r
      | none => scanDefines (c == 10) 0 r
    else scanDefines (c == 10) 0 r

inductive Err | nonAscii
deriving DecidableEq, Repr

/-- The `(name, value)` pairs in match order (the code stores them in a dict: a later
pair with the same name overwrites the value). -/
def macros (t : Text) : Except Err (List (Text × Text)) :=
  let s := stripComments t
  if s.all (· < 128) then .ok (scanDefines true 0 s) else .error .nonAscii

end CffiVerif.Preprocess
