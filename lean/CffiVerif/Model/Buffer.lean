import CffiVerif.Model.Index
import CffiVerif.Generated.BufferExprs
/-
Model of the `ffi.buffer` object (src/c/minibuffer.h: `mb_item`, `mb_ass_item`,
`mb_slice`, `mb_ass_slice`, `mb_subscript`, `mb_ass_subscript`), of CPython's
`PySlice_Unpack` / `PySlice_AdjustIndices` (Objects/sliceobject.c, 3.12) as far
as `PySlice_GetIndicesEx` is used there, of `b_buffer_new`'s size rule, of
`direct_from_buffer` and of `b_memmove` (src/c/_cffi_backend.c).

All objects live in one flat memory (`Mem.Bytes`); a buffer is `(data, size)`:
`size` bytes at flat position `data`.  `pyGetSlice` / `pySetSlice` /
`pyGetItem` are the *specification*: Python's documented sequence semantics of
a `bytearray` (negative bound → `+ len`, then clamp into `[0, len]`; `s[i:j]` =
the items `i ≤ k < j`), written with `List.take` / `List.drop`.

A cdata right-hand side of `buf[i:j] = …` goes through `_fetch_as_buffer`, which
reports `length * itemsize` for an array cdata and -1 for a pointer cdata.

Assumed, not modelled: `memcpy` in `mb_ass_slice` is given `memmove`
semantics (the source may in principle overlap; glibc/x86-64 copies
correctly).
-/
namespace CffiVerif.Buffer
open CffiVerif.Mem
open CffiVerif.Index (PyArg ssizeMin ssizeMax fitsSsize)

/- Every bound test, clamp and length computation below comes from
Generated/BufferExprs.lean, re-extracted from minibuffer.h / _cffi_backend.c on every
check run (translate/c19_exprs.py); only the control structure is written by hand. -/
namespace G
export CffiVerif.Generated.BufferExprs (itemRejected assItemRejected sliceLeftNegative sliceLeftFloor
  sliceRightTooLarge sliceRightCeil sliceLeftAfterRight sliceLeftCollapse sliceCount assSliceLeftNegative
  assSliceLeftFloor assSliceRightTooLarge assSliceRightCeil assSliceLeftAfterRight assSliceLeftCollapse
  assSliceCount assSliceLenMismatch subIndexNegative subIndexFixup assSubIndexNegative assSubIndexFixup
  bufExplicitSize bufSizeAbsent bufArraySize bufSizeUnknown fbFixedLength fbMinimumLength fbFixedArrayLength
  fbItemSizeOne fbLengthSizeOne fbItemSizePositive fbLengthDiv fbTooSmall cdataLenUnknown cdataItemSizeKnown
  cdataArrayLen memmoveNegative)
end G

inductive Err
  | IndexError | TypeError | ValueError | OverflowError | BufferError | ZeroDivisionError | Fault
deriving Repr, DecidableEq

structure Buf where
  data : Nat
  size : Nat
deriving Repr, DecidableEq

/-- `PyNumber_AsSsize_t(v, NULL)`: clamps instead of raising. -/
def clampSsize (i : Int) : Int :=
  if i < ssizeMin then ssizeMin else if i > ssizeMax then ssizeMax else i

/-- The `step` part of `PySlice_Unpack`. -/
def unpackStep (step : PyArg) : Except Err Int :=
  match step with
  | .none => .ok 1
  | .other => .error .TypeError
  | .int s =>
    if s = 0 then .error .ValueError
    else
      let c := clampSsize s
      .ok (if c < -ssizeMax then -ssizeMax else c)

/-- A bound of `PySlice_Unpack` (`_PyEval_SliceIndex`), `dflt` for `None`. -/
def unpackBound (a : PyArg) (dflt : Int) : Except Err Int :=
  match a with
  | .none => .ok dflt
  | .other => .error .TypeError
  | .int i => .ok (clampSsize i)

/-- `PySlice_Unpack`. -/
def unpack (start stop step : PyArg) : Except Err (Int × Int × Int) :=
  match unpackStep step with
  | .error e => .error e
  | .ok st =>
    match unpackBound start (if st < 0 then ssizeMax else 0) with
    | .error e => .error e
    | .ok s =>
      match unpackBound stop (if st < 0 then ssizeMin else ssizeMax) with
      | .error e => .error e
      | .ok e => .ok (s, e, st)

/-- One index of `PySlice_AdjustIndices`. -/
def adjustIdx (len x step : Int) : Int :=
  if x < 0 then
    let y := x + len
    if y < 0 then (if step < 0 then -1 else 0) else y
  else if x ≥ len then (if step < 0 then len - 1 else len)
  else x

/-- `PySlice_GetIndicesEx(item, size, …)` followed by the `step == 1` test of
`mb_subscript` / `mb_ass_subscript`. -/
def sliceBounds (size : Nat) (start stop step : PyArg) : Except Err (Int × Int) :=
  match unpack start stop step with
  | .error e => .error e
  | .ok (s, e, st) =>
    let s' := adjustIdx size s st
    let e' := adjustIdx size e st
    if st = 1 then .ok (s', e') else .error .TypeError

/-- The three clamps at the top of `mb_slice`. -/
def clampLR (size left right : Int) : Int × Int :=
  let left := if G.sliceLeftNegative left then G.sliceLeftFloor left else left
  let right := if G.sliceRightTooLarge right size then G.sliceRightCeil size else right
  let left := if G.sliceLeftAfterRight left right then G.sliceLeftCollapse right else left
  (left, right)

/-- The three clamps at the top of `mb_ass_slice`. -/
def clampLRAss (size left right : Int) : Int × Int :=
  let left := if G.assSliceLeftNegative left then G.assSliceLeftFloor left else left
  let right := if G.assSliceRightTooLarge right size then G.assSliceRightCeil size else right
  let left := if G.assSliceLeftAfterRight left right then G.assSliceLeftCollapse right else left
  (left, right)

/-- `mb_subscript` with a slice. -/
def getslice (m : Bytes) (b : Buf) (start stop step : PyArg) : Except Err Bytes :=
  match sliceBounds b.size start stop step with
  | .error e => .error e
  | .ok (s, e) =>
    let (l, r) := clampLR b.size s e
    match read m (b.data + l.toNat) (G.sliceCount l r).toNat with
    | some bs => .ok bs
    | none => .error .Fault

/-- `mb_subscript` + `mb_item` with an index: position inside the buffer. -/
def normIndex (size : Nat) (key : PyArg) : Except Err Nat :=
  match key with
  | .none => .error .TypeError
  | .other => .error .TypeError
  | .int i =>
    if ¬ fitsSsize i then .error .IndexError
    else
      let j := if G.subIndexNegative i then G.subIndexFixup i size else i
      if G.itemRejected j size then .error .IndexError else .ok j.toNat

/-- `mb_ass_subscript` + `mb_ass_item` with an index. -/
def normIndexAss (size : Nat) (key : PyArg) : Except Err Nat :=
  match key with
  | .none => .error .TypeError
  | .other => .error .TypeError
  | .int i =>
    if ¬ fitsSsize i then .error .IndexError
    else
      let j := if G.assSubIndexNegative i then G.assSubIndexFixup i size else i
      if G.assItemRejected j size then .error .IndexError else .ok j.toNat

def getitem (m : Bytes) (b : Buf) (key : PyArg) : Except Err Bytes :=
  match normIndex b.size key with
  | .error e => .error e
  | .ok i =>
    match read m (b.data + i) 1 with
    | some bs => .ok bs
    | none => .error .Fault

/-- Value assigned to `buf[i]`. -/
inductive Val
  | byte (b : UInt8)      -- a `bytes` object of length 1
  | other                 -- anything else

def setitem (m : Bytes) (b : Buf) (key : PyArg) (v : Val) : Bytes × Except Err Unit :=
  match normIndexAss b.size key with
  | .error e => (m, .error e)
  | .ok i =>
    match v with
    | .other => (m, .error .TypeError)
    | .byte x =>
      match write m (b.data + i) [x] with
      | some m' => (m', .ok ())
      | none => (m, .error .Fault)

/-- Where the bytes of a cdata right-hand side are. -/
inductive Loc
  | ext (bs : Bytes)            -- outside the modelled memory, holding `bs`
  | at (pos : Nat)              -- at flat position `pos`

/-- Right-hand side of `buf[i:j] = …`. -/
inductive Src
  | bytes (bs : Bytes)          -- a bytes-like object outside the modelled memory
  | view (pos len : Nat)        -- a bytes-like object inside the modelled memory
  | notBuffer                   -- no buffer interface: TypeError
  | carray (n : Nat) (isize : Int) (loc : Loc)   -- a cdata array of n items of size isize
  | cptr                        -- a cdata pointer: `_fetch_as_buffer` reports the length -1
  | cother                      -- any other cdata: TypeError

/-- `view->len` that `_fetch_as_buffer` reports for a cdata array. -/
def carrayLen (n : Nat) (isize : Int) : Int :=
  if G.cdataItemSizeKnown isize then G.cdataArrayLen n isize else G.cdataLenUnknown isize

/-- `mb_ass_subscript` with a slice. -/
def setslice (m : Bytes) (b : Buf) (start stop step : PyArg) (src : Src) : Bytes × Except Err Unit :=
  match sliceBounds b.size start stop step with
  | .error e => (m, .error e)
  | .ok (s, e) =>
    match src with
    | .notBuffer => (m, .error .TypeError)
    | .bytes bs =>
      let (l, r) := clampLRAss b.size s e
      if G.assSliceLenMismatch (G.assSliceCount l r) bs.length then (m, .error .ValueError)
      else match write m (b.data + l.toNat) bs with
        | some m' => (m', .ok ())
        | none => (m, .error .Fault)
    | .view pos len =>
      let (l, r) := clampLRAss b.size s e
      if G.assSliceLenMismatch (G.assSliceCount l r) len then (m, .error .ValueError)
      else match memmove m (b.data + l.toNat) pos len with
        | some m' => (m', .ok ())
        | none => (m, .error .Fault)
    | .cother => (m, .error .TypeError)
    | .cptr =>
      let (l, r) := clampLRAss b.size s e
      if G.assSliceLenMismatch (G.assSliceCount l r) (G.cdataLenUnknown 0) then (m, .error .ValueError) else (m, .error .Fault)
    | .carray n isize loc =>
      let (l, r) := clampLRAss b.size s e
      if G.assSliceLenMismatch (G.assSliceCount l r) (carrayLen n isize) then (m, .error .ValueError)
      else match loc with
        | .ext bs =>
          if bs.length ≠ (G.assSliceCount l r).toNat then (m, .error .Fault)      -- ill-formed description
          else match write m (b.data + l.toNat) bs with
            | some m' => (m', .ok ())
            | none => (m, .error .Fault)
        | .at pos =>
          match memmove m (b.data + l.toNat) pos (G.assSliceCount l r).toNat with
          | some m' => (m', .ok ())
          | none => (m, .error .Fault)

/-! ### Specification: Python `bytearray` semantics -/

/-- A slice bound normalised as Python documents it for sequences. -/
def pyBound (n : Nat) (dflt : Nat) : Option Int → Nat
  | none => dflt
  | some x =>
    if x < 0 then (if x + n < 0 then 0 else (x + n).toNat)
    else if x > n then n else x.toNat

/-- `s[i:j]`. -/
def pyGetSlice (s : Bytes) (i j : Option Int) : Bytes :=
  (s.take (pyBound s.length s.length j)).drop (pyBound s.length 0 i)

/-- `s[i:j] = v` on a bytearray (may change the length). -/
def pySetSlice (s : Bytes) (i j : Option Int) (v : Bytes) : Bytes :=
  let a := pyBound s.length 0 i
  let b := pyBound s.length s.length j
  s.take a ++ v ++ s.drop (if b < a then a else b)

/-- Number of items `s[i:j]` denotes. -/
def pySliceLen (n : Nat) (i j : Option Int) : Nat :=
  pyBound n n j - pyBound n 0 i

/-- `s[i]` (negative `i` counts from the end); `none` = IndexError. -/
def pyGetItem (s : Bytes) (i : Int) : Option UInt8 :=
  if i < 0 then (if i + s.length < 0 then none else s[(i + s.length).toNat]?)
  else s[i.toNat]?

/-- `s[i] = x`; `none` = IndexError. -/
def pySetItem (s : Bytes) (i : Int) (x : UInt8) : Option Bytes :=
  let k := if i < 0 then i + s.length else i
  if k < 0 ∨ k ≥ s.length then none else some (s.set k.toNat x)

def argOfOpt : Option Int → PyArg
  | none => .none
  | some i => .int i

/-! ### `ffi.buffer(cd, size)` -/

/-- `b_buffer_new`: resulting size; `given` is the optional size argument,
`dflt` the size the cdata's type implies (`none`: unknown). -/
def bufferFinish (size : Int) (dflt : Option Nat) : Except Err Nat :=
  let size1 : Int :=
    if G.bufSizeAbsent size then
      match dflt with
      | some d => d
      | none => size
    else size
  if G.bufSizeUnknown size1 then .error .TypeError else .ok size1.toNat

def bufferSize (given : Option Int) (dflt : Option Nat) : Except Err Nat :=
  match given with
  | some g => if ¬ fitsSsize g then .error .OverflowError else bufferFinish g dflt
  | none => bufferFinish (-1) dflt          -- the C default of the optional argument

/-! ### `ffi.from_buffer` -/

inductive CT
  | ptr
  | arrayOpen (isize : Int)
  | arrayFixed (isize : Int) (n : Nat)
  | other
deriving Repr, DecidableEq

/-- The Python object handed to `from_buffer` / `memmove`. -/
inductive Obj
  | buf (pos len : Nat) (readonly contiguous : Bool)   -- exports the buffer interface
  | cdata (pos : Nat) (ptrOrArray : Bool)              -- a cdata (memmove only)
  | str
  | notBuffer
deriving Repr, DecidableEq

/-- The array branch of `direct_from_buffer`: `ctlength` is `ct->ct_length` (-1 for `T[]`),
`ctsize` is `ct->ct_size` of a fixed-length array type. -/
def fromBufferArray (isize ctlength ctsize : Int) (len : Nat) : Except Err Nat :=
  if G.fbFixedLength ctlength then
    if G.fbTooSmall len (G.fbMinimumLength ctsize) then .error .ValueError
    else .ok (G.fbFixedArrayLength ctlength).toNat
  else if G.fbItemSizeOne isize then
    if G.fbTooSmall len 0 then .error .ValueError else .ok (G.fbLengthSizeOne len).toNat
  else if G.fbItemSizePositive isize then
    if G.fbTooSmall len 0 then .error .ValueError else .ok (G.fbLengthDiv len isize).toNat
  else .error .ZeroDivisionError

/-- `direct_from_buffer`: the length stored in the new cdata. -/
def fromBuffer (ct : CT) (x : Obj) (requireWritable : Bool) : Except Err Nat :=
  match ct with
  | .other => .error .TypeError
  | _ =>
    match x with
    | .str => .error .TypeError
    | .notBuffer => .error .TypeError
    | .cdata _ _ => .error .TypeError            -- cdata objects export no buffer
    | .buf _ len ro contig =>
      if (requireWritable ∧ ro) ∨ ¬ contig then .error .BufferError
      else match ct with
        | .ptr => .ok len
        | .arrayFixed isize n => fromBufferArray isize n (isize * n) len
        | .arrayOpen isize => fromBufferArray isize (-1) (-1) len
        | .other => .error .TypeError

/-! ### `ffi.memmove` -/

/-- `_fetch_as_buffer`: flat position of the object's memory. -/
def fetch (x : Obj) (writableOnly : Bool) : Except Err Nat :=
  match x with
  | .cdata pos ok => if ok then .ok pos else .error .TypeError
  | .str => .error .TypeError
  | .notBuffer => .error .TypeError
  | .buf pos _ ro contig =>
    if (writableOnly ∧ ro) ∨ ¬ contig then .error .BufferError else .ok pos

/-- `b_memmove(dest, src, n)`. -/
def memmoveOp (m : Bytes) (dest src : Obj) (n : PyArg) : Bytes × Except Err Unit :=
  match n with
  | .none => (m, .error .TypeError)
  | .other => (m, .error .TypeError)
  | .int k =>
    if ¬ fitsSsize k then (m, .error .OverflowError)
    else if G.memmoveNegative k then (m, .error .ValueError)
    else match fetch src false with
      | .error e => (m, .error e)
      | .ok sp =>
        match fetch dest true with
        | .error e => (m, .error e)
        | .ok dp =>
          match memmove m dp sp k.toNat with
          | some m' => (m', .ok ())
          | none => (m, .error .Fault)

end CffiVerif.Buffer
