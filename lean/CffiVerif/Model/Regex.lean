/-
A small regular-expression machine for the automata that translate/c31_regex.py compiles from
the `re` patterns of src/cffi/cparser.py (`_r_comment`, `_r_define`, `_r_line_directive`).

* `Instr` is the instruction set of a backtracking NFA in the style of Python's `sre`: consume one
  code point of a class, split with priority (first alternative first -- greedy loops prefer the
  body, lazy loops prefer the exit), zero-width assertions, group marks, accept.
* `runVM` explores the alternatives depth first in priority order with an explicit stack: the
  first accepting path is the match, as in `re` (leftmost at a given start, priorities decide).
* `findAll` is `finditer`: non-overlapping matches from left to right.

Character categories (`\s`, `\d`, `\w`, `\b`) are given their ASCII meaning (the Unicode tables
are not modelled); `CC.usesCat` / `Instr.usesCat` tell whether an automaton depends on them, and
callers then refuse non-ASCII text instead of guessing.  Not supported (the translator raises):
back-references, look-around, possessive / atomic groups, IGNORECASE, repeats of a nullable body.
-/
namespace CffiVerif.Regex

inductive Cat | space | digit | word
deriving DecidableEq, Repr

def Cat.mem : Cat → Nat → Bool
  | .space, c => (9 ≤ c && c ≤ 13) || (28 ≤ c && c ≤ 32)
  | .digit, c => 48 ≤ c && c ≤ 57
  | .word, c => (48 ≤ c && c ≤ 57) || (65 ≤ c && c ≤ 90) || (97 ≤ c && c ≤ 122) || c == 95

inductive Item
  | range (lo hi : Nat)
  | cat (c : Cat) (negated : Bool)
deriving DecidableEq, Repr

def Item.mem : Item → Nat → Bool
  | .range lo hi, c => lo ≤ c && c ≤ hi
  | .cat k neg, c => k.mem c != neg

/-- A character class: the union of the items, complemented when `neg`. -/
structure CC where
  neg : Bool
  items : List Item
deriving DecidableEq, Repr

def CC.mem (cc : CC) (c : Nat) : Bool := cc.items.any (·.mem c) != cc.neg

def CC.usesCat (cc : CC) : Bool := cc.items.any fun | .cat _ _ => true | _ => false

inductive Assert
  | bol (multiline : Bool)     -- `^`
  | eol (multiline : Bool)     -- `$`
  | wordb                      -- `\b`
  | notWordb                   -- `\B`
deriving DecidableEq, Repr

/-- Is there a word character at index `i`?  Outside the text there is none. -/
def wordAt (text : Array Nat) (i : Nat) : Bool :=
  match text[i]? with
  | some c => Cat.mem .word c
  | none => false

def Assert.holds (text : Array Nat) (pos : Nat) : Assert → Bool
  | .bol m => pos == 0 || (m && text[pos - 1]? == some 10)
  | .eol m => pos == text.size || (m && text[pos]? == some 10) ||
              (!m && pos + 1 == text.size && text[pos]? == some 10)
  | .wordb => (pos > 0 && wordAt text (pos - 1)) != wordAt text pos
  | .notWordb => (pos > 0 && wordAt text (pos - 1)) == wordAt text pos

inductive Instr
  | char (cc : CC) (next : Nat)
  | split (first second : Nat)
  | assert (a : Assert) (next : Nat)
  | save (slot : Nat) (next : Nat)
  | accept
deriving DecidableEq, Repr

def Instr.usesCat : Instr → Bool
  | .char cc _ => cc.usesCat
  | .assert .wordb _ | .assert .notWordb _ => true
  | _ => false

structure Thread where
  pc : Nat
  pos : Nat
  caps : List (Nat × Nat)      -- (slot, position), latest first

inductive VmErr | fuel | badPc | emptyMatch
deriving DecidableEq, Repr

/-- Depth-first search in priority order. `none` = no match from this start. -/
def runVM (prog : Array Instr) (text : Array Nat) : Nat → Thread → List Thread → Except VmErr (Option Thread)
  | 0, _, _ => .error .fuel
  | fuel + 1, t, stack =>
    let backtrack : Unit → Except VmErr (Option Thread) := fun _ =>
      match stack with
      | [] => .ok none
      | t' :: rest => runVM prog text fuel t' rest
    match prog[t.pc]? with
    | none => .error .badPc
    | some .accept => .ok (some t)
    | some (.char cc next) =>
      match text[t.pos]? with
      | some c => if cc.mem c then runVM prog text fuel { t with pc := next, pos := t.pos + 1 } stack else backtrack ()
      | none => backtrack ()
    | some (.split a b) => runVM prog text fuel { t with pc := a } ({ t with pc := b } :: stack)
    | some (.assert a next) =>
      if a.holds text t.pos then runVM prog text fuel { t with pc := next } stack else backtrack ()
    | some (.save s next) => runVM prog text fuel { t with pc := next, caps := (s, t.pos) :: t.caps } stack

def vmFuel (prog : Array Instr) (text : Array Nat) : Nat := (text.size + 2) * (prog.size + 2) * 8

/-- `pattern.match(text, pos)`: end position and group marks. -/
def matchAt (prog : Array Instr) (text : Array Nat) (pos : Nat) : Except VmErr (Option Thread) :=
  runVM prog text (vmFuel prog text) ⟨0, pos, []⟩ []

structure Match where
  start : Nat
  stop : Nat
  caps : List (Nat × Nat)
deriving Repr

def Match.group (m : Match) (text : Array Nat) (g : Nat) : Option (List Nat) :=
  match m.caps.lookup (2 * g), m.caps.lookup (2 * g + 1) with
  | some a, some b => some ((text.extract a b).toList)
  | _, _ => none

/-- `finditer`: scan from the left, continue after each match.  An empty match is reported as an
error (none of the modelled patterns can match the empty string; the translator checks it). -/
def findAllFrom (prog : Array Instr) (text : Array Nat) : Nat → Nat → Except VmErr (List Match)
  | 0, _ => .ok []
  | steps + 1, pos =>
    if pos > text.size then .ok [] else
    match matchAt prog text pos with
    | .error e => .error e
    | .ok none => findAllFrom prog text steps (pos + 1)
    | .ok (some t) =>
      if t.pos == pos then .error .emptyMatch else
      match findAllFrom prog text steps t.pos with
      | .error e => .error e
      | .ok ms => .ok (⟨pos, t.pos, t.caps⟩ :: ms)

def findAll (prog : Array Instr) (text : Array Nat) : Except VmErr (List Match) :=
  findAllFrom prog text (text.size + 2) 0

/-- `pattern.sub(repl, text)` with `repl` a function of the matched text. -/
def subWith (prog : Array Instr) (text : Array Nat) (repl : List Nat → List Nat) : Except VmErr (List Nat) :=
  match findAll prog text with
  | .error e => .error e
  | .ok ms =>
    let rec build (pos : Nat) : List Match → List Nat
      | [] => (text.extract pos text.size).toList
      | m :: rest => (text.extract pos m.start).toList ++ repl (text.extract m.start m.stop).toList ++ build m.stop rest
    .ok (build 0 ms)

/-! ### The shapes the hand-written transducer of `Model/Preprocess.lean` assumes -/

/-- `(plain | esc any)*` -- the "logical line" loop shared by `//` comments and `#define` values. -/
structure UnitLoop where
  plain : CC
  esc : Nat
  escAny : CC
  lazy : Bool
deriving DecidableEq, Repr

/-- The text consumed by `(plain | esc escAny)*?` followed by an end anchor that holds before a
character satisfying `stopBefore` or at the end of the text: the shortest sequence of units that
reaches such a position; `none` when there is none.  `esc` = an escape character has been consumed
and waits for its partner.  (Meaningful when `plain` excludes the escape character, which makes the
decomposition into units unique; the generated classes are checked for that in `Props/C31.lean`.) -/
def UnitLoop.scan (u : UnitLoop) (stopBefore : Nat → Bool) : Bool → List Nat → Option (List Nat)
  | esc, [] => if esc then none else some []
  | false, c :: r =>
    if stopBefore c then some []
    else if u.plain.mem c then (u.scan stopBefore false r).map (c :: ·)
    else if c == u.esc then (u.scan stopBefore true r).map (c :: ·)
    else none
  | true, c :: r =>
    if u.escAny.mem c then (u.scan stopBefore false r).map (c :: ·) else none

/-- `blockOpen blockBody*? blockClose | lineOpen (plain | esc any)*? lineEnd` -/
structure CommentShape where
  blockOpen : List Nat
  blockBody : CC
  blockLazy : Bool
  blockClose : List Nat
  lineOpen : List Nat
  lineBody : UnitLoop
  lineEnd : Assert
deriving DecidableEq, Repr

/-- `start lead* hash gap1* keyword gap2+ (nameStart nameRest*) afterName ((plain | esc any)*?) stop` -/
structure DefineShape where
  start : Assert
  lead : CC
  hash : Nat
  gap1 : CC
  keyword : List Nat
  gap2 : CC
  nameStart : CC
  nameRest : CC
  afterName : Assert
  value : UnitLoop
  stop : Assert
deriving DecidableEq, Repr

end CffiVerif.Regex
