import CffiVerif.Generated.OwnershipSteps

/-
Model of the ownership / finalisation machinery of `_cffi_backend.c` (C21).

What is mirrored (all in `/repo/src/c/_cffi_backend.c`):

* `CDataObject_gcp {origobj, destructor}`  (`allocate_gcp_object`, `b_gcp`,
  `cdatagcp_finalize`, `cdatagcp_dealloc`, `gcp_finalize`): a wrapper keeps
  strong references to the original cdata and to the destructor; finalising
  (from `tp_finalize`, from `tp_dealloc`, from `ffi.release()` / `__exit__`)
  takes both fields out of the object *before* calling the destructor, so a
  later finalisation finds nothing to call; `ffi.gc(x, None)` clears only the
  destructor slot.
* `allocate_with_allocator`: an allocation made through `ffi.new_allocator(alloc,
  free)` is such a wrapper around the cdata returned by `alloc`, with `free`
  in the destructor slot.
* `direct_newp` for `struct *`: two objects, the returned pointer holds the
  only reference to the struct object (`CDataObject_own_structptr.structobj`);
  `p[0]` (`cdataowning_subscript`) returns that struct object.
* `direct_from_buffer`, `cdatafrombuf_dealloc/clear`, case 1 of `cdata_exit`:
  the view (export) on the source is held until release / deallocation / tp_clear.
* `newp_handle`, `b_from_handle`: the handle's address is the address of the
  handle object; `from_handle` reads the object stored in it.
* `cdata_exit` / `b_release` / `explicit_release_case`: what may be released.

Python's memory management is a parameter of the model: every object carries
the number of references held by the program (`ext`), references between
objects are the `edges`, and the collector may at any step finalise any set of
objects that nothing outside the set refers to (`collect`).  Which set is
finalised when is the implementation's choice; the trace supplies it and
`collectOk` checks that it is allowed.  Identities (`ObjId`) are never reused;
handle addresses may be.

Destructor and free-function calls have an extent: `cdatagcp_finalize` empties the
wrapper's slots and only then calls (`opRelease`, `opFinalize`), `cdatagcp_dealloc`
calls after the wrapper is gone (`opCollect`); each call is an activation record (a
`frame` object holding the references the C frame holds) that lasts until `ret`.
Operations between the start of a call and its `ret` are issued from inside the
callback — or by another thread while the first is blocked inside it.

Ghost state (not present in the C code): `calls` (how often the destructor /
free function of a wrapper has been called), `hadDtor`, `isAlloc`, `released`,
`noned`.  The export count of a buffer (`ob_exports` of a bytearray) is not stored:
it is the number of live `frombuf` objects whose view has not been released.
-/
namespace CffiVerif.Ownership

abbrev ObjId := Nat

/-- Python-level objects the histories use: plain containers, callables used
as destructors / free functions, and resizable buffers (`bytearray` subclass
instances, which can also hold references). -/
inductive PyTag
  | box | dtor | buf
  deriving DecidableEq, Repr

inductive Kind
  /-- a Python object and its outgoing references -/
  | py (tag : PyTag) (fields : List ObjId)
  /-- `CDataOwning_Type` whose memory is in-line: `ffi.new("int *")`,
  `ffi.new("char[]", n)` (`isStruct = false`) or the struct object behind
  `ffi.new("struct s *")` (`isStruct = true`). -/
  | owning (isStruct : Bool)
  /-- the pointer returned by `ffi.new("struct s *")`: `structobj = s`. -/
  | structptr (s : ObjId)
  /-- `CDataGCP_Type`: destructor slot and origobj slot. -/
  | gcp (dtor : Option ObjId) (orig : Option ObjId)
  /-- `CDataFromBuf_Type`: `released` ⇔ `bufferview->obj == NULL`. -/
  | frombuf (src : ObjId) (released : Bool)
  /-- `CDataOwningGC_Type` with `void *` type: `structobj = obj`, `c_data = addr`. -/
  | handle (obj : ObjId) (addr : Nat)
  /-- an activation of a destructor / free function (`gcp_finalize` in progress): the C frame holds
  references to the destructor, to the original cdata passed as argument and, when the call comes
  from `ffi.release()` / `__exit__` / `tp_finalize`, the caller holds the wrapper.  `ret` empties it. -/
  | frame (pins : List ObjId)
  deriving DecidableEq

structure Obj where
  kind : Kind
  alive : Bool
  /-- references held by the program (local variables of the history) -/
  ext : Nat
  /-- ghost: number of calls of this wrapper's destructor / free function -/
  calls : Nat
  /-- ghost: created with a destructor (or free function) in its slot -/
  hadDtor : Bool
  /-- ghost: created by an allocator (`allocate_with_allocator`) -/
  isAlloc : Bool
  /-- ghost: `cdatagcp_finalize` has been applied to the live object (`ffi.release()`, `__exit__`,
  or `tp_finalize` run by the cycle collector) -/
  released : Bool
  /-- ghost: `ffi.gc(x, None)` removed a destructor that was still in its slot -/
  noned : Bool
  deriving DecidableEq

def mkObj (k : Kind) (ext : Nat) (hadDtor isAlloc : Bool := false) : Obj :=
  { kind := k, alive := true, ext := ext, calls := 0, hadDtor := hadDtor,
    isAlloc := isAlloc, released := false, noned := false }

structure State where
  objs : ObjId → Option Obj
  next : Nat
  /-- the destructor calls in progress, innermost first (identities of `frame` objects) -/
  frames : List ObjId

def init : State := { objs := fun _ => none, next := 0, frames := [] }

def State.set (s : State) (i : ObjId) (o : Obj) : State :=
  { s with objs := fun j => if j = i then some o else s.objs j }

def State.push (s : State) (o : Obj) : State :=
  { objs := fun j => if j = s.next then some o else s.objs j, next := s.next + 1, frames := s.frames }

/-- The object with identity `i` if it exists and has not been deallocated. -/
def State.live (s : State) (i : ObjId) : Option Obj :=
  match s.objs i with
  | some o => if o.alive then some o else none
  | none => none

/-- Strong references held by an object (`tp_traverse` of the C types). -/
def edges (o : Obj) : List ObjId :=
  match o.kind with
  | .py _ fl => fl
  | .owning _ => []
  | .structptr s => [s]
  | .gcp d orig => d.toList ++ orig.toList
  | .frombuf src rel => if rel then [] else [src]
  | .handle obj _ => [obj]
  | .frame pins => pins

def isCData (o : Obj) : Bool :=
  match o.kind with
  | .py .. => false
  | .frame .. => false
  | _ => true

inductive Err
  | TypeError | ValueError | BufferError
  /-- operand is not a live object (protocol misuse by the trace) -/
  | Dead
  /-- `drop_ref` without a reference -/
  | NoRef
  /-- the trace claims a handle address that a live handle already has -/
  | AddrInUse
  /-- the trace claims finalisation of an object that is still referenced -/
  | Reachable
  /-- `from_handle` on an address no live handle has (undefined behaviour / fatal error in C) -/
  | Garbage
  /-- `ret` without a destructor call in progress -/
  | NoFrame
  deriving DecidableEq, Repr

inductive Op
  | newPy (tag : PyTag)
  | newPlain
  | newStruct
  | allocPlain (free : Option ObjId)
  | allocStruct (free : Option ObjId)
  | gc (p d : ObjId)
  | gcNone (g : ObjId)
  | release (x : ObjId)
  | withExit (x : ObjId)
  | dropRef (x : ObjId)
  | store (c x : ObjId)
  | clear (c : ObjId)
  | alias (p : ObjId)
  | newHandle (x : ObjId) (addr : Nat)
  | fromHandle (addr : Nat)
  | fromBuffer (b : ObjId)
  | resize (b : ObjId)
  | collect (S : List ObjId)
  /-- the collector runs `tp_finalize` of `x`, a member of the unreferenced set `S` -/
  | finalize (x : ObjId) (S : List ObjId)
  /-- the innermost destructor / free-function call returns -/
  | ret
  deriving DecidableEq

abbrev Out := Except Err (List Nat)

instance : DecidableEq Out := fun a b =>
  match a, b with
  | .ok x, .ok y => if h : x = y then isTrue (by rw [h]) else isFalse (fun e => h (by cases e; rfl))
  | .error x, .error y => if h : x = y then isTrue (by rw [h]) else isFalse (fun e => h (by cases e; rfl))
  | .ok _, .error _ => isFalse (fun e => by cases e)
  | .error _, .ok _ => isFalse (fun e => by cases e)

/-- `cdatagcp_finalize` / the tail of `cdatagcp_dealloc`: empty both slots,
call the destructor if there was one. -/
def finalizeGcp (o : Obj) : Obj :=
  match o.kind with
  | .gcp d _ => { o with kind := .gcp none none, calls := o.calls + (if d.isSome then 1 else 0) }
  | _ => o

/-- Does finalising `o` call a destructor? -/
def fires (o : Obj) : Bool :=
  match o.kind with
  | .gcp (some _) _ => true
  | _ => false

/-- what deallocation (or `tp_clear`) does to the object itself -/
def finalizeObj (o : Obj) : Obj :=
  match o.kind with
  | .gcp _ _ => finalizeGcp o
  | .frombuf src _ => { o with kind := .frombuf src true }
  | _ => o

/-- The set `S` may be finalised: every member is a live object the program holds
no reference to, and every live object referring to a member is itself a member. -/
def collectOk (s : State) (S : List ObjId) : Bool :=
  S.all (fun x => match s.live x with
    | some o => o.ext == 0
    | none => false) &&
  (List.range s.next).all (fun y => match s.live y with
    | some oy => decide (y ∈ S) || (edges oy).all (fun x => !decide (x ∈ S))
    | none => true)

def collectState (s : State) (S : List ObjId) : State :=
  { s with objs := fun i => match s.objs i with
      | some o =>
        if i ∈ S then some { finalizeObj o with alive := false } else some o
      | none => none }

/-- the live handle with address `addr`, if any -/
def findHandle (s : State) (addr : Nat) : Option (ObjId × ObjId) :=
  (List.range s.next).findSome? fun h => match s.live h with
    | some o => (match o.kind with
        | .handle obj a => if a = addr then some (h, obj) else none
        | _ => none)
    | none => none

/-- `cdata_exit` (= `ffi.release(x)`, `with x:`). -/
def release (s : State) (x : ObjId) : State × Out :=
  match s.live x with
  | none => (s, .error .Dead)
  | some o =>
    match o.kind with
    | .py .. => (s, .error .TypeError)
    | .frame .. => (s, .error .TypeError)
    | .owning false => (s, .ok [])
    | .owning true => (s, .error .ValueError)
    | .handle .. => (s, .error .ValueError)
    | .structptr sid =>
      (match s.live sid with
       | some os =>
         (match os.kind with
          | .gcp _ _ => (s.set sid { finalizeGcp os with released := true },
                         .ok (if fires os then [sid] else []))
          | _ => (s, .ok []))
       | none => (s, .ok []))
    | .gcp _ _ => (s.set x { finalizeGcp o with released := true }, .ok (if fires o then [x] else []))
    | .frombuf src rel =>
      if rel then (s, .ok []) else
      (s.set x { o with kind := .frombuf src true, released := true }, .ok [])

/-- What the activation started by finalising wrapper `w` holds on to: the destructor and its
argument (nothing if the destructor slot is empty: no call). -/
def callPins (s : State) (w : ObjId) : Option (List ObjId) :=
  match s.objs w with
  | some o =>
    (match o.kind with
     | .gcp (some d) orig => some (d :: orig.toList)
     | _ => none)
  | none => none

/-- start one activation: a `frame` object holding `pins`, on top of the stack -/
def State.pushFrame (s : State) (pins : List ObjId) : State :=
  { (s.push (mkObj (.frame pins) 1)) with frames := s.next :: s.frames }

def State.pushFrames (s : State) : List (List ObjId) → State
  | [] => s
  | pins :: rest => (s.pushFrame pins).pushFrames rest

def isAlive (s : State) (x : ObjId) : Bool := (s.live x).isSome

/-- `ffi.release(x)` / `with x:` including the destructor activation it starts: the wrapper is
emptied and marked *first* (`cdatagcp_finalize` takes the fields out of the object), then the
destructor is called; whatever happens until the matching `ret` happens inside that call. -/
def opRelease (s : State) (x : ObjId) : State × Out :=
  match (release s x).2 with
  | .ok (w :: _) =>
    (match callPins s w with
     | some pins => ((release s x).1.pushFrame ((if w = x then [x] else [x, w]) ++ pins), (release s x).2)
     | none => release s x)
  | _ => release s x

/-- `ret`: the innermost activation ends; its references are dropped -/
def opRet (s : State) : State × Out :=
  match s.frames with
  | f :: rest =>
    (match s.live f with
     | some o =>
       (match o.kind with
        | .frame _ => ({ (s.set f { o with kind := .frame [], ext := 0 }) with frames := rest }, .ok [])
        | _ => (s, .error .NoFrame))
     | none => (s, .error .NoFrame))
  | [] => (s, .error .NoFrame)

def freeOk (s : State) : Option ObjId → Bool
  | none => true
  | some f => (s.live f).isSome

def opNewPy (s : State) (tag : PyTag) : State × Out :=
  (s.push (mkObj (.py tag []) 1), .ok [s.next])

/-- `ffi.new("int *")`, `ffi.new("char[]", n)` -/
def opNewPlain (s : State) : State × Out :=
  (s.push (mkObj (.owning false) 1), .ok [s.next])

/-- `ffi.new("struct s *")`: the struct object, then the pointer holding the only reference to it -/
def opNewStruct (s : State) : State × Out :=
  ((s.push (mkObj (.owning true) 0)).push (mkObj (.structptr s.next) 1), .ok [s.next + 1, s.next])

/-- `allocator("int[n]")`: the cdata returned by `alloc`, wrapped with `free` in the destructor slot -/
def opAllocPlain (s : State) (free : Option ObjId) : State × Out :=
  if freeOk s free then
    ((s.push (mkObj (.owning false) 0)).push (mkObj (.gcp free (some s.next)) 1 free.isSome true),
     .ok [s.next + 1, s.next])
  else (s, .error .Dead)

/-- `allocator("struct s *")`: raw memory, the wrapper typed as the struct, the pointer to it -/
def opAllocStruct (s : State) (free : Option ObjId) : State × Out :=
  if freeOk s free then
    (((s.push (mkObj (.owning false) 0)).push (mkObj (.gcp free (some s.next)) 0 free.isSome true)).push
        (mkObj (.structptr (s.next + 1)) 1),
     .ok [s.next + 2, s.next + 1, s.next])
  else (s, .error .Dead)

/-- `ffi.gc(p, d)` with `d` not None (`b_gcp`) -/
def opGc (s : State) (p d : ObjId) : State × Out :=
  match s.live p, s.live d with
  | some op, some _ =>
    if isCData op then (s.push (mkObj (.gcp (some d) (some p)) 1 true false), .ok [s.next])
    else (s, .error .TypeError)
  | _, _ => (s, .error .Dead)

/-- `ffi.gc(g, None)` (`b_gcp`, destructor None): `Py_CLEAR(destructor)` only -/
def opGcNone (s : State) (g : ObjId) : State × Out :=
  match s.live g with
  | some o =>
    (match o.kind with
     | .gcp d orig => (s.set g { o with kind := .gcp none orig, noned := o.noned || d.isSome }, .ok [])
     | _ => (s, .error .TypeError))
  | none => (s, .error .Dead)

def opDropRef (s : State) (x : ObjId) : State × Out :=
  match s.live x with
  | some o => if o.ext = 0 then (s, .error .NoRef) else (s.set x { o with ext := o.ext - 1 }, .ok [])
  | none => (s, .error .Dead)

def opStore (s : State) (c x : ObjId) : State × Out :=
  match s.live c, s.live x with
  | some oc, some _ =>
    (match oc.kind with
     | .py t fl => (s.set c { oc with kind := .py t (x :: fl) }, .ok [])
     | _ => (s, .error .TypeError))
  | _, _ => (s, .error .Dead)

def opClear (s : State) (c : ObjId) : State × Out :=
  match s.live c with
  | some oc =>
    (match oc.kind with
     | .py t _ => (s.set c { oc with kind := .py t [] }, .ok [])
     | _ => (s, .error .TypeError))
  | none => (s, .error .Dead)

/-- `p[0]` on the result of `ffi.new("struct s *")` (`cdataowning_subscript`) -/
def opAlias (s : State) (p : ObjId) : State × Out :=
  match s.live p with
  | some op =>
    (match op.kind with
     | .structptr sid =>
       (match s.live sid with
        | some os => (s.set sid { os with ext := os.ext + 1 }, .ok [sid])
        | none => (s, .error .Dead))
     | _ => (s, .error .TypeError))
  | none => (s, .error .Dead)

/-- `ffi.new_handle(x)`; `addr` is the address the implementation chose -/
def opNewHandle (s : State) (x : ObjId) (addr : Nat) : State × Out :=
  match s.live x with
  | some _ =>
    if (findHandle s addr).isSome then (s, .error .AddrInUse)
    else (s.push (mkObj (.handle x addr) 1), .ok [s.next])
  | none => (s, .error .Dead)

/-- `ffi.from_handle(<void * with value addr>)` -/
def opFromHandle (s : State) (addr : Nat) : State × Out :=
  match findHandle s addr with
  | some (_, obj) =>
    (match s.live obj with
     | some oo => (s.set obj { oo with ext := oo.ext + 1 }, .ok [obj])
     | none => (s, .error .Garbage))
  | none => (s, .error .Garbage)

def opFromBuffer (s : State) (b : ObjId) : State × Out :=
  match s.live b with
  | some ob =>
    (match ob.kind with
     | .py .buf _ => (s.push (mkObj (.frombuf b false) 1), .ok [s.next])
     | _ => (s, .error .TypeError))
  | none => (s, .error .Dead)

/-- `f` is a live cdata holding an unreleased view on `b` -/
def exportsOn (s : State) (b f : ObjId) : Bool :=
  match s.live f with
  | some o => o.kind == .frombuf b false
  | none => false

/-- resizing a bytearray fails while `ob_exports > 0`, i.e. while some view
obtained by `PyObject_GetBuffer` has not been given back by `PyBuffer_Release` -/
def opResize (s : State) (b : ObjId) : State × Out :=
  match s.live b with
  | some ob =>
    (match ob.kind with
     | .py .buf _ => if (List.range s.next).any (exportsOn s b) then (s, .error .BufferError) else (s, .ok [])
     | _ => (s, .error .TypeError))
  | none => (s, .error .Dead)

def firedIn (s : State) (S : List ObjId) : List ObjId :=
  S.filter fun x => match s.objs x with
    | some o => fires o
    | none => false

/-- Deallocation of the set `S`; every member whose destructor slot is still full gets its
destructor called (`cdatagcp_dealloc`): one activation each, holding what is left of its arguments. -/
def opCollect (s : State) (S : List ObjId) : State × Out :=
  if collectOk s S then
    ((collectState s S).pushFrames ((firedIn s S).map fun w =>
        ((callPins s w).getD []).filter (isAlive (collectState s S))), .ok (firedIn s S))
  else (s, .error .Reachable)

/-- `tp_finalize` of `x` run by the cycle collector on the unreferenced set `S` (before anything
of `S` is deallocated): `cdatagcp_finalize`, as for `ffi.release()`. -/
def opFinalize (s : State) (x : ObjId) (S : List ObjId) : State × Out :=
  if collectOk s S && decide (x ∈ S) then
    match s.live x with
    | some o =>
      (match o.kind with
       | .gcp d orig =>
         (match d with
          | some dd => ((s.set x { finalizeGcp o with released := true }).pushFrame (x :: dd :: orig.toList), .ok [x])
          | none => (s.set x { finalizeGcp o with released := true }, .ok []))
       | _ => (s, .ok []))
    | none => (s, .error .Dead)
  else (s, .error .Reachable)

def step (s : State) : Op → State × Out
  | .newPy tag => opNewPy s tag
  | .newPlain => opNewPlain s
  | .newStruct => opNewStruct s
  | .allocPlain free => opAllocPlain s free
  | .allocStruct free => opAllocStruct s free
  | .gc p d => opGc s p d
  | .gcNone g => opGcNone s g
  | .release x => opRelease s x
  | .withExit x => opRelease s x
  | .dropRef x => opDropRef s x
  | .store c x => opStore s c x
  | .clear c => opClear s c
  | .alias p => opAlias s p
  | .newHandle x addr => opNewHandle s x addr
  | .fromHandle addr => opFromHandle s addr
  | .fromBuffer b => opFromBuffer s b
  | .resize b => opResize s b
  | .collect S => opCollect s S
  | .finalize x S => opFinalize s x S
  | .ret => opRet s

def run (s : State) (ops : List Op) : State := ops.foldl (fun st op => (step st op).1) s

/-- Number of destructor / free-function calls made so far for wrapper `x`. -/
def State.calls (s : State) (x : ObjId) : Nat :=
  match s.objs x with
  | some o => o.calls
  | none => 0

/-! ### The statement order of the C functions (regenerated from the source on every run)

`Generated/OwnershipSteps.lean` lists the statements of `cdatagcp_finalize`, `cdatagcp_dealloc`,
`cdata_exit` ... in source order.  `finRun` executes such a list on an abstract wrapper whose two
slots are full and records, for every call of `gcp_finalize`, whether its arguments were the
original destructor / origobj and what the wrapper looked like at that moment.  `modelReleaseRun`
and `modelDeallocRun` say what the transition system above assumes: `opRelease` / `opFinalize`
empty the slots (`finalizeGcp`) and only then start the activation; `opCollect` starts it after the
wrapper is deallocated, with the values it held. -/

open CffiVerif.Generated.OwnershipSteps in
structure FinRun where
  fieldD : Bool
  fieldO : Bool
  locD : Bool
  locO : Bool
  freed : Bool
  /-- per call: destructor argument is the original, origobj argument is the original,
  destructor slot still full, origobj slot still full, wrapper already deallocated -/
  calls : List (Bool × Bool × Bool × Bool × Bool)
  deriving DecidableEq, Repr

open CffiVerif.Generated.OwnershipSteps in
def finStep (r : FinRun) : FinStep → FinRun
  | .copyDtor => { r with locD := r.fieldD }
  | .copyOrig => { r with locO := r.fieldO }
  | .nullDtor => { r with fieldD := false }
  | .nullOrig => { r with fieldO := false }
  | .untrack => r
  | .dealloc => { r with freed := true }
  | .call d o =>
    let v (src : Src) (fld loc : Bool) : Bool :=
      match src with
      | .field => fld && !r.freed
      | .loc => loc
      | .null => false
    { r with calls := r.calls ++ [(v d r.fieldD r.locD, v o r.fieldO r.locO, r.fieldD, r.fieldO, r.freed)] }

open CffiVerif.Generated.OwnershipSteps in
def finRun (l : List FinStep) : FinRun :=
  l.foldl finStep { fieldD := true, fieldO := true, locD := false, locO := false, freed := false, calls := [] }

/-- `ffi.release` / `tp_finalize` in the model: slots emptied first (`finalizeGcp`), then exactly one
call, with the original destructor and origobj. -/
def modelReleaseRun : FinRun :=
  { fieldD := false, fieldO := false, locD := true, locO := true, freed := false,
    calls := [(true, true, false, false, false)] }

/-- deallocation in the model (`opCollect`): the wrapper is gone, then exactly one call with the
values it held. -/
def modelDeallocRun : FinRun :=
  { fieldD := true, fieldO := true, locD := true, locO := true, freed := true,
    calls := [(true, true, true, true, true)] }

open CffiVerif.Generated.OwnershipSteps in
/-- what `release` does per kind of cdata, as a table: `.owning false` and `.structptr` are the
`CDataOwning_Type` pointer/array objects, `.frombuf`, `.gcp` -/
def modelDispatch : RelType → ExitAct
  | .owningPtrOrArray => .finalizeStructIfWrapper
  | .frombuf => .bufferRelease
  | .wrapper => .finalizeSelf

open CffiVerif.Generated.OwnershipSteps in
def sourceDispatch (t : RelType) : Option ExitAct :=
  match release_case.lookup t with
  | some n => exit_actions.lookup n
  | none => none

open CffiVerif.Generated.OwnershipSteps in
/-- the objects `cdatagcp_traverse` reports for a wrapper with destructor `d` and origobj `o`: what the
cycle collector knows of the wrapper's references (a reference it is not told about keeps a cycle
through it alive for ever) -/
def traversed (d o : ObjId) : List ObjId :=
  gcp_traverse.map fun m => match m with
    | .destructor => d
    | .origobj => o

/-- `x` is reachable from the program's references. -/
inductive Reach (s : State) : ObjId → Prop
  | root (x : ObjId) (o : Obj) : s.live x = some o → 0 < o.ext → Reach s x
  | edge (y x : ObjId) (oy : Obj) : Reach s y → s.live y = some oy → x ∈ edges oy → Reach s x

end CffiVerif.Ownership
