/-
Line protocol helpers shared by the model drivers (`Drivers/Cxx.lean`).
One operation per input line (`op arg …`), one answer line per operation.
A line that cannot be parsed is answered `bad-op`; the harness treats that as
an infrastructure error -- a driver never substitutes a default.
-/
namespace CffiVerif.Proto

def hexDigit? (c : Char) : Option Nat :=
  if '0' ≤ c ∧ c ≤ '9' then some (c.toNat - '0'.toNat)
  else if 'a' ≤ c ∧ c ≤ 'f' then some (c.toNat - 'a'.toNat + 10)
  else none

/-- `"00ff"` → `[0, 255]`; `"-"` denotes the empty byte string. -/
def hexBytes? (s : String) : Option (List UInt8) :=
  if s == "-" then some [] else
  let rec go : List Char → Option (List UInt8)
    | [] => some []
    | [_] => none
    | a :: b :: rest => do
      let x ← hexDigit? a
      let y ← hexDigit? b
      let r ← go rest
      pure (UInt8.ofNat (16 * x + y) :: r)
  go s.toList

def hexOfNat (n : Nat) (digits : Nat) : String :=
  let ds := (Nat.toDigits 16 n)
  String.ofList (List.replicate (digits - ds.length) '0' ++ ds)

def bytesHex (bs : List UInt8) : String :=
  if bs.isEmpty then "-" else String.join (bs.map fun b => hexOfNat b.toNat 2)

def int? (s : String) : Option Int := s.toInt?
def nat? (s : String) : Option Nat := s.toNat?

/-- Words of a line (single spaces). -/
def words (line : String) : List String :=
  (line.splitOn " ").filter (· ≠ "")

partial def loop {σ : Type} (h : IO.FS.Stream) (out : IO.FS.Stream) (st : σ)
    (step : σ → List String → σ × String) : IO Unit := do
  let line ← h.getLine
  if line.isEmpty then
    out.flush
    return ()
  let line := (line.dropEndWhile (· == '\n')).toString
  let (st', o) := step st (words line)
  out.putStrLn o
  loop h out st' step

def runDriver {σ : Type} (init : σ) (step : σ → List String → σ × String) : IO Unit := do
  loop (← IO.getStdin) (← IO.getStdout) init step

end CffiVerif.Proto
