import CffiVerif.Model.CheckIntOps
import CffiVerif.Generated.CheckIntSrc
/-!
Model of the integer-constant protocol of API-mode modules (C12).

* `constBody x check` — the generated `static int _cffi_const_NAME(unsigned long long *o)`
  (recompiler.py `_generate_cpy_const`): `n = (x) <= 0; *o = (unsigned long long)((x)|0);`
  and, when the cdef gave a value `e`, `if (!_cffi_check_int(*o, n, e)) n |= 2;`.
  The expressions are the regenerated terms of `Generated/CheckIntSrc.lean`.
  `x` is the value the C compiler gives to the constant expression (a parameter of the model).
* `realizeGlobalInt` — `realize_global_int` (realize_c_type.c:228): flags 0 → the unsigned
  reading, 1 → the `long long` reading, anything else → `ffi.error`.
* `declCheck` — which declaration kinds hand the cdef's value to the generator
  (`#define NAME value` does, enumerators and `static const` do not: regenerated booleans).
-/
namespace CffiVerif.CheckInt
open CffiVerif.CheckIntOps
open CffiVerif.Generated

/-- Values a C integer constant expression can have: `long long` ∪ `unsigned long long`. -/
def InRange (a : Int) : Prop := -two63 ≤ a ∧ a < two64

instance (a : Int) : Decidable (InRange a) := by unfold InRange; exact inferInstance

/-- What the generated function hands back: its return value and `*o`. -/
structure ConstRet where
  flags : Int
  o : Int
  deriving Repr, DecidableEq

/-- Body of the generated `_cffi_const_NAME`. -/
def constBody (x : Int) (check : Option Int) : ConstRet :=
  let n := CheckIntSrc.const_n x
  let o := CheckIntSrc.const_o x
  match check with
  | none => ⟨n, o⟩
  | some e => ⟨if CheckIntSrc.const_mismatch o n e ≠ 0 then CheckIntSrc.const_flag n else n, o⟩

inductive Err where
  | ffiError
  deriving Repr, DecidableEq

/-- `realize_global_int`: `switch (neg) { case 0: unsigned value; case 1: (long long)value; default: error }`. -/
def realizeGlobalInt (r : ConstRet) : Except Err Int :=
  if r.flags = 0 then .ok r.o
  else if r.flags = 1 then .ok (cLL r.o)
  else .error .ffiError

/-- Declaration kinds that produce an integer `_cffi_const_` function in API mode. -/
inductive Kind where
  | define        -- `#define NAME value`
  | enumerator   -- `enum { NAME = value }`
  | constant     -- `static const T NAME;`
  deriving Repr, DecidableEq

/-- The `check_value` the generator receives: the cdef's value for kinds that pass it down;
    `cdefValue = none` is the `...` form (`#define NAME ...`, `NAME = ...`). -/
def declCheck (k : Kind) (cdefValue : Option Int) : Option Int :=
  match k with
  | .define => if CheckIntSrc.macro_decl_checks_value then cdefValue else none
  | .enumerator => if CheckIntSrc.enum_decl_checks_value then cdefValue else none
  | .constant => if CheckIntSrc.constant_decl_checks_value then cdefValue else none

/-- `lib.NAME` / `ffi.integer_const("NAME")` of an API-mode module. -/
def libConst (k : Kind) (cdefValue : Option Int) (x : Int) : Except Err Int :=
  realizeGlobalInt (constBody x (declCheck k cdefValue))

end CffiVerif.CheckInt
