import CffiVerif.Model.GenSrcIO

/-
Model of src/cffi/pkgconfig.py: `call`, `flags_from_pkgconfig` (with its local
`get_include_dirs` … `get_other_libs`, `kwargs`) and `merge_flags`.

`str` = `List Nat` (code points).  The output of `pkg-config` is a byte string
decoded with `sys.getfilesystemencoding()` (UTF-8, strict: the decoder of
`Model/GenSrcIO.lean`).  `os.altsep` is `None` (POSIX), so the backslash test
of `call` is active.  A dict is the list of its items in insertion order.

Not modelled: the text of the error messages; `OSError` other than "cannot
start the program" (`spawnOk = false`); `merge_flags`' `TypeError` for values
that are not lists (every value here is a list).
-/
namespace CffiVerif.PkgConfig
open CffiVerif.GenSrcIO (utf8Decode)

abbrev Str := List Nat
abbrev Bytes := List Nat

/-! ### tokens -/

/-- `chr(c).isspace()`: the characters `str.split()` splits on -/
def isSpace (c : Nat) : Bool :=
  (9 ≤ c && c ≤ 13) || (28 ≤ c && c ≤ 32) || c == 133 || c == 160 || c == 5760 ||
  (8192 ≤ c && c ≤ 8202) || c == 8232 || c == 8233 || c == 8239 || c == 8287 || c == 12288

/-- `s.split()`; `cur` is the token being read, reversed -/
def splitGo (cur : Str) : Str → List Str
  | [] => if cur.isEmpty then [] else [cur.reverse]
  | c :: cs =>
    if isSpace c then (if cur.isEmpty then splitGo [] cs else cur.reverse :: splitGo [] cs)
    else splitGo (c :: cur) cs

def split (s : Str) : List Str := splitGo [] s

/-- `x.startswith(p)` for a two-character `p = [a, b]` -/
def starts2 (a b : Nat) : Str → Bool
  | x :: y :: _ => x == a && y == b
  | _ => false

def isI (x : Str) : Bool := starts2 45 73 x     -- "-I"
def isD (x : Str) : Bool := starts2 45 68 x     -- "-D"
def isL (x : Str) : Bool := starts2 45 76 x     -- "-L"
def isl (x : Str) : Bool := starts2 45 108 x    -- "-l"

def includeDirs (ts : List Str) : List Str := (ts.filter isI).map (·.drop 2)
def libraryDirs (ts : List Str) : List Str := (ts.filter isL).map (·.drop 2)
def libraries (ts : List Str) : List Str := (ts.filter isl).map (·.drop 2)

/-- `x.split("=", 1)` when `'=' in x`: text before and after the first `=` -/
def splitEq : Str → Option (Str × Str)
  | [] => none
  | c :: cs =>
    if c = 61 then some ([], cs)
    else match splitEq cs with
      | some (a, b) => some (c :: a, b)
      | none => none

/-- `_macro(x)`: `"-Dfoo=bar"` ↦ `("foo", "bar")`, `"-Dfoo"` ↦ `("foo", None)` -/
def macroOf (x : Str) : Str × Option Str :=
  match splitEq (x.drop 2) with
  | some (n, v) => (n, some v)
  | none => (x.drop 2, none)

def macros (ts : List Str) : List (Str × Option Str) := (ts.filter isD).map macroOf
def otherCflags (ts : List Str) : List Str := ts.filter (fun x => !isI x && !isD x)
def otherLibs (ts : List Str) : List Str := ts.filter (fun x => !isL x && !isl x)

/-! ### running pkg-config -/

inductive Err where
  | pkgConfigError
  deriving Repr, DecidableEq

/-- what one `pkg-config --print-errors FLAG LIB` run did -/
structure Proc where
  spawnOk : Bool        -- `subprocess.Popen` did not raise `OSError`
  status : Nat          -- `pc.returncode`
  out : Bytes           -- stdout
  deriving Repr

/-- `call(libname, flag)` -/
def call (p : Proc) : Except Err Str :=
  if !p.spawnOk then .error .pkgConfigError
  else if p.status ≠ 0 then .error .pkgConfigError
  else match utf8Decode p.out with
    | none => .error .pkgConfigError
    | some s => if s.contains 92 then .error .pkgConfigError else .ok s

/-! ### the keyword dict -/

inductive KeyName where
  | include_dirs | library_dirs | libraries | define_macros | extra_compile_args | extra_link_args
  deriving Repr, DecidableEq

inductive Item where
  | tok (s : Str)
  | macro (name : Str) (value : Option Str)
  deriving Repr, DecidableEq

/-- a dict with list values, items in insertion order -/
abbrev Cfg (κ α : Type) := List (κ × List α)

/-- `kwargs(libname)` from the two outputs -/
def kwargsOf (cflags libs : Str) : Cfg KeyName Item :=
  let tc := split cflags
  let tl := split libs
  [(.include_dirs, (includeDirs tc).map .tok),
   (.library_dirs, (libraryDirs tl).map .tok),
   (.libraries, (libraries tl).map .tok),
   (.define_macros, (macros tc).map fun m => .macro m.1 m.2),
   (.extra_compile_args, (otherCflags tc).map .tok),
   (.extra_link_args, (otherLibs tl).map .tok)]

/-- one iteration of `merge_flags`' loop: `cfg1[key] = value` or `cfg1[key].extend(value)` -/
def mergeKey {κ α : Type} [DecidableEq κ] (cfg1 : Cfg κ α) (k : κ) (v : List α) : Cfg κ α :=
  match cfg1 with
  | [] => [(k, v)]
  | (k', v') :: rest => if k' = k then (k', v' ++ v) :: rest else (k', v') :: mergeKey rest k v

/-- `merge_flags(cfg1, cfg2)` -/
def mergeFlags {κ α : Type} [DecidableEq κ] (cfg1 cfg2 : Cfg κ α) : Cfg κ α :=
  cfg2.foldl (fun acc kv => mergeKey acc kv.1 kv.2) cfg1

/-- `cfg[k]`, every item with that key taken into account (a dict has one) -/
def vals {κ α : Type} [DecidableEq κ] (cfg : Cfg κ α) (k : κ) : List α :=
  (cfg.filter (fun kv => kv.1 = k)).flatMap (·.2)

def hasKey {κ α : Type} [DecidableEq κ] (cfg : Cfg κ α) (k : κ) : Bool :=
  cfg.any (fun kv => kv.1 = k)

inductive Flag where
  | cflags | libs
  deriving Repr, DecidableEq

/-- the loop of `flags_from_pkgconfig`: for each library `--cflags` then `--libs`,
then `merge_flags(ret, lib_flags)`; the first failing call ends it -/
def flagsLoop (env : Str → Flag → Proc) : List Str → Cfg KeyName Item → Except Err (Cfg KeyName Item)
  | [], ret => .ok ret
  | lib :: libs, ret =>
    match call (env lib .cflags) with
    | .error e => .error e
    | .ok cf =>
      match call (env lib .libs) with
      | .error e => .error e
      | .ok lb => flagsLoop env libs (mergeFlags ret (kwargsOf cf lb))

/-- `flags_from_pkgconfig(libs)` -/
def flagsFromPkgconfig (env : Str → Flag → Proc) (libs : List Str) : Except Err (Cfg KeyName Item) :=
  flagsLoop env libs []

end CffiVerif.PkgConfig
