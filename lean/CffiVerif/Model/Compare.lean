import CffiVerif.Generated.CompareExprs

/-!
# Model of `cdata_richcompare`, `cdata_hash` and of Python's dispatch around them (C17)

Mirrors `/repo/src/c/_cffi_backend.c`.  Every flag test, every comparison of
the pointer-like branch, the operand order of the delegated comparison and the
pointer that is hashed are *not* written here: they are the definitions of
`Generated/CompareExprs.lean`, re-extracted from the C source on every check
run (`translate/c17_exprs.py`); the control structure below is what that
translator matches textually.

* `cdata_richcompare(v, w, op)` (the `tp_richcompare` slot of every cdata type):
  `v_is_ptr = !(v->c_type->ct_flags & CT_PRIMITIVE_ANY)` (`Gen.vIsPtrTest`), `w_is_ptr`
  the same for a cdata `w` (`Gen.wIsPtrTest`).  `Gen.bothPtr`: compare the `c_data`
  addresses as `char *` with the six operators (`Gen.cmp_Py_*`).  `Gen.onePtr`:
  `Py_NotImplemented`.  Otherwise every cdata operand is replaced by
  `convert_to_object(...)` (first `v`, then `w`) and the result is
  `PyObject_RichCompare(aa[Gen.delegateLeft], aa[Gen.delegateRight], op)`; a cdata that
  converts to a cdata again (`long double`) raises `NotImplementedError`.
* `cdata_hash(v)`: `Gen.hashPrimTest` and the conversion is a Python object: that
  object's hash; otherwise `_Py_HashPointer(Gen.hashedPointer …)`.

CPython's `do_richcompare` (Objects/object.c) is modelled as well, so that the
statement "`a == b` implies `hash(a) == hash(b)`" is about what Python evaluates:
reflected slot first when the right operand's type is a proper subtype of the
left one's (the cdata types form such a hierarchy: `__CDataOwn` etc. derive
from `_CDataBase`), then the left slot, then the reflected slot, then identity
for `==`/`!=` and `TypeError` for the orderings.

Parameters (`PyOps V`): comparison and hash of the Python values that
primitives convert to — `int`, `float`, `bool`, `bytes`, `str` — are CPython's,
not cffi's.  Their contract (`==` implies equal hashes; they answer
`NotImplemented` to a cdata operand) appears as *hypotheses* of the theorems in
`Props/C17.lean`.

Not modelled: a primitive cdata always holds a convertible value (a `_Bool`
cdata made by `ffi.cast` holds 0 or 1; the `ValueError` branch of
`convert_to_object` for other `_Bool` bytes is reachable only when reading
memory, which yields no cdata); comparison results other than `True`/`False`.
-/
namespace CffiVerif.Compare
open CffiVerif.Generated

inductive Op where
  | eq | ne | lt | le | gt | ge
  deriving DecidableEq, Repr

/-- `_Py_SwappedOp`. -/
def Op.swap : Op → Op
  | .eq => .eq | .ne => .ne | .lt => .gt | .le => .ge | .gt => .lt | .ge => .le

inductive ErrKind where
  | typeError | notImplementedError | other
  deriving DecidableEq, Repr

/-- What a `tp_richcompare` slot returns. -/
inductive Res where
  | bool (b : Bool)
  | notImplemented
  | raise (k : ErrKind)
  deriving DecidableEq, Repr

/-- CPython's operations on the values that primitive cdata convert to. -/
structure PyOps (V : Type) where
  /-- `PyObject_RichCompare(a, b, op)` on two such values (complete protocol:
  a boolean, or the exception it raises). -/
  cmp : Op → V → V → Except ErrKind Bool
  /-- `PyObject_Hash`. -/
  hash : V → Except ErrKind Int
  /-- The value's own `tp_richcompare` slot facing a cdata operand. -/
  vsForeign : Op → V → Res

/-- What the theorems assume about the Python values that primitives convert
to (CPython's `int`/`float`/`bool`/`bytes`/`str`/`complex` satisfy it). -/
structure PyContract {V : Type} (P : PyOps V) : Prop where
  /-- equal values hash equal -/
  eq_hash : ∀ a b, P.cmp .eq a b = .ok true → P.hash a = P.hash b
  /-- a built-in value's own comparison slot does not know cdata -/
  foreign : ∀ op v, P.vsForeign op v = .notImplemented

/-- What `convert_to_object(c_data, c_type)` returns for a primitive cdata. -/
inductive Conv (V : Type) where
  /-- a Python value -/
  | value (v : V)
  /-- a cdata again (`long double`) -/
  | cdataAgain
  deriving Repr

/-- A cdata object: `c_type->ct_flags`, `c_data`, and (consulted only when the
flags say "primitive") the result of `convert_to_object`. -/
structure CData (V : Type) where
  flags : Nat
  addr : Nat
  conv : Conv V
  deriving Repr

inductive Obj (V : Type) where
  | cdata (oid : Nat) (c : CData V)
  | py (oid : Nat) (v : V)
  deriving Repr

def Obj.oid {V} : Obj V → Nat
  | .cdata o _ => o
  | .py o _ => o

def Obj.isCData {V} : Obj V → Bool
  | .cdata _ _ => true
  | .py _ _ => false

/-- Pointer-like = no `CT_PRIMITIVE_*` base flag (hand-written reading of the
generated tests; `vIsPtrTest_eq` / `wIsPtrTest_eq` / `hashPrimTest_eq` in
`Props/C17.lean` show the generated tests mean exactly this). -/
def isPtrFlags (flags : Nat) : Bool :=
  flags &&& (CompareExprs.CT_PRIMITIVE_SIGNED ||| CompareExprs.CT_PRIMITIVE_UNSIGNED |||
    CompareExprs.CT_PRIMITIVE_CHAR ||| CompareExprs.CT_PRIMITIVE_FLOAT ||| CompareExprs.CT_PRIMITIVE_COMPLEX) == 0

/-- `v_is_ptr` of the C code. -/
def CData.isPtr {V} (c : CData V) : Bool := CompareExprs.vIsPtrTest c.flags

/-- `w_is_ptr` of the C code. -/
def Obj.isPtr {V} : Obj V → Bool
  | .cdata _ c => CompareExprs.wIsPtrTest true c.flags
  | .py _ _ => CompareExprs.wIsPtrTest false 0

/-- The six C operators on two `char *`, as extracted. -/
def addrCmp (op : Op) (a b : Nat) : Bool :=
  match op with
  | .eq => CompareExprs.cmp_Py_EQ a b
  | .ne => CompareExprs.cmp_Py_NE a b
  | .lt => CompareExprs.cmp_Py_LT a b
  | .le => CompareExprs.cmp_Py_LE a b
  | .gt => CompareExprs.cmp_Py_GT a b
  | .ge => CompareExprs.cmp_Py_GE a b

/-- `convert_to_object` inside `cdata_richcompare`, followed by the
`CData_Check(w)` test. -/
def CData.toValue {V} (c : CData V) : Except ErrKind V :=
  match c.conv with
  | .value v => .ok v
  | .cdataAgain => .error .notImplementedError

def Obj.toValue {V} : Obj V → Except ErrKind V
  | .cdata _ c => c.toValue
  | .py _ v => .ok v

def resOf : Except ErrKind Bool → Res
  | .ok b => .bool b
  | .error k => .raise k

/-- `aa[i]` for `i` = 0 or 1. -/
def sel {α} (i : Nat) (a0 a1 : α) : α := if i = 0 then a0 else a1

/-- `cdata_richcompare(v, w, op)`. -/
def richcompare {V} (P : PyOps V) (op : Op) (v : CData V) (w : Obj V) : Res :=
  if CompareExprs.bothPtr v.isPtr w.isPtr then
    match w with
    | .cdata _ c => .bool (addrCmp op v.addr c.addr)
    | .py _ _ => .notImplemented     -- unreachable: a non-cdata is never pointer-like
  else if CompareExprs.onePtr v.isPtr w.isPtr then .notImplemented
  else
    match v.toValue with
    | .error k => .raise k
    | .ok a =>
      match w.toValue with
      | .error k => .raise k
      | .ok b => resOf (P.cmp op (sel CompareExprs.delegateLeft a b) (sel CompareExprs.delegateRight a b))

/-- `_Py_HashPointer` on a 64-bit platform: rotate right by 4, reinterpret as
signed, `-1` is reserved. -/
def hashPointer (addr : Nat) : Int :=
  let y : Nat := (addr % 2 ^ 64) / 16 + (addr % 16) * 2 ^ 60
  let x : Int := if y < 2 ^ 63 then Int.ofNat y else Int.ofNat y - 2 ^ 64
  if x = -1 then -2 else x

/-- `cdata_hash(v)`; `self` is the address of the cdata object itself. -/
def cdataHash {V} (P : PyOps V) (self : Nat) (c : CData V) : Except ErrKind Int :=
  if CompareExprs.hashPrimTest c.flags then
    match c.conv with
    | .value v => P.hash v
    | .cdataAgain => .ok (hashPointer (CompareExprs.hashedPointer c.addr self))
  else .ok (hashPointer (CompareExprs.hashedPointer c.addr self))

/-- `hash(x)` for either kind of object (the object id stands for its address). -/
def objHash {V} (P : PyOps V) : Obj V → Except ErrKind Int
  | .cdata o c => cdataHash P o c
  | .py _ v => P.hash v

/-- The `tp_richcompare` slot of `a`'s type applied to `(a, b, op)`; only used
with at least one cdata among `a`, `b`. -/
def slot {V} (P : PyOps V) (op : Op) (a b : Obj V) : Res :=
  match a with
  | .cdata _ c => richcompare P op c b
  | .py _ v => P.vsForeign op v

/-- CPython `do_richcompare(a, b, op)` = what `a op b` evaluates to, for two
objects of which at least one is a cdata.  `bSub`: the type of `b` is a proper
subtype of the type of `a` (then the reflected slot is tried first and not
again). -/
def binop {V} (P : PyOps V) (op : Op) (a b : Obj V) (bSub : Bool) : Except ErrKind Bool :=
  let fallback : Except ErrKind Bool :=
    match op with
    | .eq => .ok (a.oid == b.oid)
    | .ne => .ok (a.oid != b.oid)
    | _ => .error .typeError
  let direct (k : Unit → Except ErrKind Bool) : Except ErrKind Bool :=
    match slot P op a b with
    | .bool r => .ok r
    | .raise e => .error e
    | .notImplemented => k ()
  let reflected (k : Unit → Except ErrKind Bool) : Except ErrKind Bool :=
    match slot P op.swap b a with
    | .bool r => .ok r
    | .raise e => .error e
    | .notImplemented => k ()
  if bSub then reflected fun _ => direct fun _ => fallback
  else direct fun _ => reflected fun _ => fallback

/-! ## the kinds of cdata the harness builds -/

/-- pointer / array / struct / union / function pointer with the given base flag. -/
def CData.ptrlike {V} (addr : Nat) (baseflag : Nat := CompareExprs.CT_POINTER) : CData V :=
  ⟨baseflag, addr, .cdataAgain⟩

/-- primitive converting to the Python value `v`. -/
def CData.prim {V} (v : V) (baseflag : Nat := CompareExprs.CT_PRIMITIVE_SIGNED) : CData V :=
  ⟨baseflag, 0, .value v⟩

/-- `long double`. -/
def CData.longdouble {V} (addr : Nat) : CData V :=
  ⟨CompareExprs.CT_PRIMITIVE_FLOAT ||| CompareExprs.CT_IS_LONGDOUBLE, addr, .cdataAgain⟩

/-! ## a concrete instance: Python `int` values -/

/-- `hash(n)` of a Python `int`: sign · (|n| mod (2^61 − 1)), `-1` reserved. -/
def pyIntHash (n : Int) : Int :=
  let h : Int := (if n < 0 then -1 else 1) * ((n.natAbs % (2 ^ 61 - 1) : Nat) : Int)
  if h = -1 then -2 else h

def intCmp (op : Op) (a b : Int) : Bool :=
  match op with
  | .eq => decide (a = b)
  | .ne => decide (a ≠ b)
  | .lt => decide (a < b)
  | .le => decide (a ≤ b)
  | .gt => decide (a > b)
  | .ge => decide (a ≥ b)

def intOps : PyOps Int where
  cmp op a b := .ok (intCmp op a b)
  hash n := .ok (pyIntHash n)
  vsForeign _ _ := .notImplemented

end CffiVerif.Compare
