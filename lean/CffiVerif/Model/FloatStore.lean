import CffiVerif.Spec.Ieee
import CffiVerif.Generated.FloatExprs

/-!
# Model of the float / complex / long double store and read paths (C05)

Mirrors, in `/repo/src/c/_cffi_backend.c`, `write_raw_float_data`,
`read_raw_float_data`, `write_raw_complex_data`, `read_raw_complex_data`,
`read_raw_longdouble_data`, `write_raw_longdouble_data` and the float branches
of `convert_to_object`, `convert_from_object`, `do_cast` (with
`check_bytes_for_float_compatible`).

Which C types the size dispatch goes through and in which order, the size
tests, the `memcpy` lengths, the type `(type)source` converts from and `return
r` converts to, the two halves of a complex, the `CT_IS_LONGDOUBLE` tests and
the result-code dispatch of `do_cast` are *not* written here: they are the
definitions of `Generated/FloatExprs.lean`, re-extracted from the C source on
every check run (`translate/c05_exprs.py`).  The meaning lemmas
(`Proofs/FloatStore.lean`: `writeRawFloat_eq`, `readRawFloat_eq`, …) state what
these must amount to; the theorems of `Props/C05.lean` go through them.

A Python `float` is its binary64 bit pattern (`UInt64`); C objects are
little-endian byte lists.  The C conversions `(float)d` and `(double)f` are
`Ieee.narrow` and `Ieee.widen` (the FPU is external: that these *are* what the
hardware computes is checked by running, `harness/corr_C05.py`).

`long double` (x87 extended, `sizeof == 16` on x86-64 SysV) is opaque: the
value is the first 10 bytes; the 6 padding bytes written by a store are
whatever the C temporary `long double r` held and are a parameter (`junk`);
`(long double)value` of a double is a parameter too (`ext`).
-/
namespace CffiVerif.FloatStore
open CffiVerif.Ieee CffiVerif.Generated
open CffiVerif.Generated.FloatExprs (CFloatType Part)

abbrev Bytes := List UInt8

inductive Err where
  | fatalBadSize      -- Py_FatalError("…: bad float size")
  | typeError
  | unmodelled        -- a conversion involving `long double` arithmetic (the FPU's; no generated dispatch reaches it today)
  deriving Repr, DecidableEq

/-- `n` little-endian bytes of `x`. -/
def toLE : Nat → Nat → Bytes
  | 0, _ => []
  | n + 1, x => UInt8.ofNat (x % 256) :: toLE n (x / 256)

def ofLE : Bytes → Nat
  | [] => 0
  | b :: bs => b.toNat + 256 * ofLE bs

/-- `memcpy(buf + off, src, src.length)`; `none` when it would run past the end. -/
def blit (buf : Bytes) (off : Nat) (src : Bytes) : Option Bytes :=
  if off + src.length ≤ buf.length then
    some (buf.take off ++ src ++ buf.drop (off + src.length))
  else none

def slice (buf : Bytes) (off len : Nat) : Option Bytes :=
  if off + len ≤ buf.length then some ((buf.drop off).take len) else none

/-! ## float and double -/

/-- The C conversion `(dst)x` for `x` of type `src`, on bit patterns. -/
def cconv (src dst : CFloatType) (bits : Nat) : Option Nat :=
  match src, dst with
  | .double, .float => some (narrow (UInt64.ofNat bits)).toNat
  | .float, .double => some (widen (UInt32.ofNat bits)).toNat
  | .double, .double => some bits
  | .float, .float => some bits
  | _, _ => none

/-- A sequence of `_write_raw_data(type);` followed by `Py_FatalError`. -/
def writeCases (cases : List CFloatType) (srcTy : CFloatType) (source size : Nat) : Except Err Bytes :=
  match cases with
  | [] => .error .fatalBadSize
  | t :: ts =>
    if FloatExprs.writeMacroTest size t.sizeof then
      match cconv srcTy t source with               -- `type r = (type)source;`
      | some r => .ok (toLE (FloatExprs.writeMacroCopyLen t.sizeof) r)
      | none => .error .unmodelled
    else writeCases ts srcTy source size

/-- Object representation written by `write_raw_float_data(_, source, size)`. -/
def writeRawFloat (source : UInt64) (size : Nat) : Except Err Bytes :=
  writeCases FloatExprs.writeFloatCases FloatExprs.writeFloatSourceType source.toNat size

/-- A sequence of `_read_raw_data(type);` followed by `Py_FatalError`; `target`
is the object read (exactly the bytes the `memcpy` takes). -/
def readCases (cases : List CFloatType) (retTy : CFloatType) (target : Bytes) (size : Nat) : Except Err Nat :=
  match cases with
  | [] => .error .fatalBadSize
  | t :: ts =>
    if FloatExprs.readMacroTest size t.sizeof ∧ target.length = FloatExprs.readMacroCopyLen t.sizeof then
      match cconv t retTy (ofLE target) with         -- `return r;`
      | some r => .ok r
      | none => .error .unmodelled
    else readCases ts retTy target size

/-- `read_raw_float_data(target, size)`: the double handed to `PyFloat_FromDouble`. -/
def readRawFloat (target : Bytes) (size : Nat) : Except Err UInt64 :=
  (readCases FloatExprs.readFloatCases FloatExprs.readFloatReturnType target size).map UInt64.ofNat

/-- `check_bytes_for_float_compatible`: a 1-character `bytes`/`str` is cast to
its ordinal as a double (exact: ordinals are < 2^21). -/
def natToDouble (n : Nat) : Nat :=
  if n = 0 then 0
  else
    let k := Nat.log2 n
    if k ≤ 52 then (1023 + k) * 2 ^ 52 + n * 2 ^ (52 - k) % 2 ^ 52
    else 0   -- not reached for ordinals; the driver never asks for it

/-! ## complex: two parts, each stored like a float of half the size -/

def pickPart (p : Part) (re im : UInt64) : UInt64 :=
  match p with
  | .real => re
  | .imag => im

/-- The `memcpy`s of one `_write_raw_complex_data(type)`: `(type)source.part`
copied to `target + o`. -/
def writeHalves (t : CFloatType) (buf : Bytes) (off : Nat) (re im : UInt64) :
    List (Part × Nat × Nat) → Except Err (Option Bytes)
  | [] => .ok (some buf)
  | (p, o, len) :: rest =>
    match cconv .double t (pickPart p re im).toNat with   -- members of `Py_complex` are `double`
    | none => .error .unmodelled
    | some r =>
      match blit buf (off + o) (toLE len r) with
      | none => .ok none
      | some b => writeHalves t b off re im rest

def writeComplexCases (cases : List CFloatType) (buf : Bytes) (off : Nat) (re im : UInt64) (size : Nat) :
    Except Err (Option Bytes) :=
  match cases with
  | [] => .error .fatalBadSize
  | t :: ts =>
    if FloatExprs.cplxWriteTest size t.sizeof then
      writeHalves t buf off re im (FloatExprs.cplxWriteHalves t.sizeof)
    else writeComplexCases ts buf off re im size

/-- `write_raw_complex_data(target + off, {re, im}, size)` into `buf`. -/
def writeRawComplex (buf : Bytes) (off : Nat) (re im : UInt64) (size : Nat) : Except Err (Option Bytes) :=
  writeComplexCases FloatExprs.cplxWriteCases buf off re im size

def setPart (p : Part) (v : UInt64) (r : UInt64 × UInt64) : UInt64 × UInt64 :=
  match p with
  | .real => (v, r.2)
  | .imag => (r.1, v)

/-- The `float` branch of `read_raw_complex_data`: each half is copied into a
`float` and assigned (widened) to its member of `r`. -/
def readFloatHalves (buf : Bytes) (off : Nat) (r : UInt64 × UInt64) :
    List (Part × Nat × Nat) → Except Err (Option (UInt64 × UInt64))
  | [] => .ok (some r)
  | (p, o, len) :: rest =>
    match slice buf (off + o) len with
    | none => .ok none
    | some bs =>
      if len = FloatExprs.sizeofFloat then
        match cconv .float .double (ofLE bs) with
        | some v => readFloatHalves buf off (setPart p (UInt64.ofNat v) r) rest
        | none => .error .unmodelled
      else .error .fatalBadSize

/-- `read_raw_complex_data(target + off, size)`; `Py_complex r = {0.0, 0.0}`. -/
def readRawComplex (buf : Bytes) (off size : Nat) : Except Err (Option (UInt64 × UInt64)) :=
  if FloatExprs.cplxReadFloatTest size then
    readFloatHalves buf off (0, 0) FloatExprs.cplxReadFloatHalves
  else if FloatExprs.cplxReadDoubleTest size then
    -- `memcpy(&r, target, 2*sizeof(double))` into `{double real; double imag;}`
    match slice buf off FloatExprs.cplxReadDoubleCopyLen with
    | none => .ok none
    | some bs =>
      .ok (some (UInt64.ofNat (ofLE (bs.take FloatExprs.sizeofDouble)),
                 UInt64.ofNat (ofLE (bs.drop FloatExprs.sizeofDouble))))
  else .error .fatalBadSize

/-! ## long double: opaque objects of `sizeof(long double)` bytes, 10 value bytes -/

/-- `sizeof(long double)` as used by `read_raw_longdouble_data`. -/
def ldSize : Nat := FloatExprs.ldReadSize
def ldValueBytes : Nat := 10

/-- The value held by a `long double` object (x87 80-bit register image). -/
def ldValue (obj : Bytes) : Bytes := obj.take ldValueBytes

/-- `read_raw_longdouble_data(target)`: loads the 80-bit value; `none` if the
object is not `sizeof(long double)` bytes. -/
def readRawLongDouble (target : Bytes) : Option Bytes :=
  if target.length = ldSize then some (ldValue target) else none

/-- `write_raw_longdouble_data(target, source)`: `long double r = source;
memcpy(target, &r, sizeof(long double))` – the padding bytes come from the temporary. -/
def writeRawLongDouble (value : Bytes) (junk : Bytes) : Bytes :=
  value ++ (junk ++ List.replicate 6 0).take (FloatExprs.ldWriteSize - ldValueBytes)

/-- `convert_to_object(data, long double)`: reading `p[0]` / a field makes a
new cdata holding a copy. -/
def ldConvertToObject (data : Bytes) (junk : Bytes) : Option Bytes :=
  (readRawLongDouble data).map fun v => writeRawLongDouble v junk

/-- `convert_from_object(data, long double, init)` with `init` a `long double`
cdata: `ffi.new("long double *", x)`, `p[0] = x`, `s.field = x`. -/
def ldConvertFromObject (initdata : Bytes) (junk : Bytes) : Option Bytes :=
  (readRawLongDouble initdata).map fun v => writeRawLongDouble v junk

/-- `do_cast(long double, ob)` with `ob` a `long double` cdata:
`io = convert_to_object(ob)` (a first copy), then read `io` and write the
result cdata. -/
def ldCast (src : Bytes) (junk1 junk2 : Bytes) : Option Bytes :=
  (ldConvertToObject src junk1).bind fun io =>
    (readRawLongDouble io).map fun v => writeRawLongDouble v junk2

/-! ## the float branches of `convert_to_object`, `convert_from_object`, `do_cast` -/

/-- A Python object handed to a float store path, as far as these paths look at it. -/
structure FArg where
  /-- `CData_Check(ob)` -/
  isCData : Bool
  /-- `c_type->ct_flags` of a cdata -/
  flags : Nat
  /-- the object at `c_data` of a cdata -/
  data : Bytes
  /-- `PyFloat_AsDouble(ob)`; `none`: it raised (`TypeError` for a non-number) -/
  asDouble : Option UInt64

/-- What reading a float-typed item gives: a Python float or a new `long double` cdata. -/
inductive FObj where
  | pyfloat (bits : UInt64)
  | ldcdata (obj : Bytes)
  deriving Repr

def ofOpt {α} : Option α → Except Err α
  | some x => .ok x
  | none => .error .fatalBadSize

/-- `convert_to_object(data, ct)` for `ct->ct_flags & CT_PRIMITIVE_FLOAT`. -/
def convertToObjectFloat (ctflags ctsize : Nat) (data junk : Bytes) : Except Err FObj :=
  if FloatExprs.toObjectViaDouble ctflags then (readRawFloat data ctsize).map .pyfloat
  else (ofOpt (ldConvertToObject data junk)).map .ldcdata

/-- `convert_from_object(data, ct, init)` for `ct->ct_flags & CT_PRIMITIVE_FLOAT`;
`ext` is the FPU's `(long double)value`. -/
def convertFromObjectFloat (ctflags ctsize : Nat) (init : FArg) (ext : UInt64 → Bytes) (junk : Bytes) :
    Except Err Bytes :=
  if FloatExprs.fromObjectCopiesLongDouble ctflags init.isCData init.flags then
    ofOpt (ldConvertFromObject init.data junk)
  else
    match init.asDouble with
    | none => .error .typeError
    | some v =>
      if FloatExprs.fromObjectViaFloatStore ctflags then writeRawFloat v ctsize
      else .ok (writeRawLongDouble (ext v) junk)

/-- The argument of `ffi.cast(<float type>, ob)` after `io` has been computed:
`convert_to_object` of a primitive cdata source, or `ob` itself. -/
inductive CastArg where
  /-- `bytes` of length `len` whose first byte is `ord` -/
  | bytes (len ord : Nat)
  /-- `str`; `single`: it is one character, of code point `ord` -/
  | str (single : Bool) (ord : Nat)
  /-- anything else -/
  | other (a : FArg)

/-- `check_bytes_for_float_compatible(io, &value)`: result code and value. -/
def checkBytesForFloat : CastArg → Int × Option UInt64
  | .bytes len ord =>
    if FloatExprs.cbfBytesLenBad len then (FloatExprs.cbfError, none)
    else (FloatExprs.cbfGotValue, some (UInt64.ofNat (natToDouble ord)))
  | .str single ord =>
    if single then (FloatExprs.cbfGotValue, some (UInt64.ofNat (natToDouble ord))) else (FloatExprs.cbfError, none)
  | .other _ => (FloatExprs.cbfNoValue, none)

/-- `do_cast(ct, ob)` for `ct->ct_flags & CT_PRIMITIVE_FLOAT`, from the call of
`check_bytes_for_float_compatible` on (`srcIsCData`: `ob` is a cdata with flags
`srcflags`, and `io` is its conversion). -/
def castToFloat (ctflags ctsize : Nat) (srcIsCData : Bool) (srcflags : Nat) (io : CastArg)
    (ext : UInt64 → Bytes) (junk : Bytes) : Except Err Bytes :=
  if srcIsCData && FloatExprs.castSourceRejected srcflags then .error .typeError
  else
    let (res, value) := checkBytesForFloat io
    if FloatExprs.castResCannot res then .error .typeError
    else
      let store (v : UInt64) : Except Err Bytes :=
        if FloatExprs.castViaFloatStore ctflags then writeRawFloat v ctsize
        else .ok (writeRawLongDouble (ext v) junk)
      if FloatExprs.castResNoValue res then
        match io with
        | .other a =>
          if FloatExprs.castCopiesLongDouble ctflags a.isCData a.flags then
            -- `io` is already the copy made by `convert_to_object`
            ofOpt ((readRawLongDouble a.data).map fun v => writeRawLongDouble v junk)
          else
            match a.asDouble with
            | none => .error .typeError
            | some v => store v
        | _ => .error .typeError      -- unreachable: bytes/str never report "no value"
      else
        match value with
        | some v => store v
        | none => .error .typeError   -- unreachable: a reported value is present

end CffiVerif.FloatStore
