import CffiVerif.Spec.Ieee

/-!
# Model of the float / complex / long double store and read paths (C05)

Mirrors, in `/repo/src/c/_cffi_backend.c`:

* `write_raw_float_data(target, double source, size)` – `size == sizeof(float)`:
  `float r = (float)source; memcpy(target, &r, 4)`; `size == sizeof(double)`:
  `memcpy` of the 8 bytes; any other size: `Py_FatalError`.
* `read_raw_float_data(target, size)` – `memcpy` into a `float`/`double`,
  returned as `double` (the `float` case is the C widening `(double)r`).
* `write_raw_complex_data` / `read_raw_complex_data` – each part as above at
  `target + 0` and `target + sizeof(part)`.
* `read_raw_longdouble_data` / `write_raw_longdouble_data` and the three code
  paths that special-case `CT_IS_LONGDOUBLE` so that a `long double` never goes
  through a Python `float`: `convert_to_object` (a read makes a new cdata),
  `convert_from_object` (a cdata initialiser is copied), `do_cast`.

A Python `float` is its binary64 bit pattern (`UInt64`); C objects are
little-endian byte lists.  The two C conversions `(float)d` and `(double)f`
are `Ieee.narrow` and `Ieee.widen` (the FPU is external: that these *are* what
the hardware computes is checked by running, `harness/corr_C05.py`).

`long double` (x87 extended, `sizeof == 16` on x86-64 SysV) is opaque: the
value is the first 10 bytes; the 6 padding bytes written by a store are
whatever the C temporary `long double r` held and are a parameter (`junk`).
-/
namespace CffiVerif.FloatStore
open CffiVerif.Ieee

abbrev Bytes := List UInt8

inductive Err where
  | fatalBadSize      -- Py_FatalError("…: bad float size")
  | typeError
  deriving Repr, DecidableEq

/-- `n` little-endian bytes of `x`. -/
def toLE : Nat → Nat → Bytes
  | 0, _ => []
  | n + 1, x => UInt8.ofNat (x % 256) :: toLE n (x / 256)

def ofLE : Bytes → Nat
  | [] => 0
  | b :: bs => b.toNat + 256 * ofLE bs

/-- `memcpy(buf + off, src, src.length)`; `none` when it would run past the end. -/
def blit (buf : Bytes) (off : Nat) (src : Bytes) : Option Bytes :=
  if off + src.length ≤ buf.length then
    some (buf.take off ++ src ++ buf.drop (off + src.length))
  else none

def slice (buf : Bytes) (off len : Nat) : Option Bytes :=
  if off + len ≤ buf.length then some ((buf.drop off).take len) else none

/-! ## float and double -/

/-- Object representation written by `write_raw_float_data(_, source, size)`. -/
def writeRawFloat (source : UInt64) (size : Nat) : Except Err Bytes :=
  if size = 4 then .ok (toLE 4 (narrow source).toNat)
  else if size = 8 then .ok (toLE 8 source.toNat)
  else .error .fatalBadSize

/-- `read_raw_float_data(target, size)`: the double handed to `PyFloat_FromDouble`. -/
def readRawFloat (target : Bytes) (size : Nat) : Except Err UInt64 :=
  if size = 4 ∧ target.length = 4 then .ok (widen (UInt32.ofNat (ofLE target)))
  else if size = 8 ∧ target.length = 8 then .ok (UInt64.ofNat (ofLE target))
  else .error .fatalBadSize

/-- `check_bytes_for_float_compatible`: a 1-character `bytes`/`str` is cast to
its ordinal as a double (exact: ordinals are < 2^21). -/
def natToDouble (n : Nat) : Nat :=
  if n = 0 then 0
  else
    let k := Nat.log2 n
    if k ≤ 52 then (1023 + k) * 2 ^ 52 + n * 2 ^ (52 - k) % 2 ^ 52
    else 0   -- not reached for ordinals; the driver never asks for it

/-! ## complex: two parts, each stored like a float of half the size -/

/-- `write_raw_complex_data(target + off, {re, im}, size)` into `buf`. -/
def writeRawComplex (buf : Bytes) (off : Nat) (re im : UInt64) (size : Nat) : Except Err (Option Bytes) :=
  if size = 8 ∨ size = 16 then do
    let r ← writeRawFloat re (size / 2)
    let i ← writeRawFloat im (size / 2)
    -- two memcpy's: target, target + sizeof(type)
    pure ((blit buf off r).bind fun b => blit b (off + size / 2) i)
  else .error .fatalBadSize

/-- `read_raw_complex_data(target + off, size)`. -/
def readRawComplex (buf : Bytes) (off size : Nat) : Except Err (Option (UInt64 × UInt64)) :=
  if size = 8 ∨ size = 16 then
    match slice buf off (size / 2), slice buf (off + size / 2) (size / 2) with
    | some r, some i => do
      let re ← readRawFloat r (size / 2)
      let im ← readRawFloat i (size / 2)
      pure (some (re, im))
    | _, _ => pure none
  else .error .fatalBadSize

/-! ## long double: opaque 16-byte objects, 10 value bytes -/

def ldSize : Nat := 16
def ldValueBytes : Nat := 10

/-- The value held by a `long double` object (x87 80-bit register image). -/
def ldValue (obj : Bytes) : Bytes := obj.take ldValueBytes

/-- `read_raw_longdouble_data(target)`: loads the 80-bit value; `none` if the
object is not `sizeof(long double)` bytes. -/
def readRawLongDouble (target : Bytes) : Option Bytes :=
  if target.length = ldSize then some (ldValue target) else none

/-- `write_raw_longdouble_data(target, source)`: `long double r = source;
memcpy(target, &r, 16)` – the padding bytes come from the temporary. -/
def writeRawLongDouble (value : Bytes) (junk : Bytes) : Bytes :=
  value ++ (junk ++ List.replicate 6 0).take (ldSize - ldValueBytes)

/-- `convert_to_object(data, long double)`: reading `p[0]` / a field makes a
new cdata holding a copy. -/
def ldConvertToObject (data : Bytes) (junk : Bytes) : Option Bytes :=
  (readRawLongDouble data).map fun v => writeRawLongDouble v junk

/-- `convert_from_object(data, long double, init)` with `init` a `long double`
cdata: `ffi.new("long double *", x)`, `p[0] = x`, `s.field = x`. -/
def ldConvertFromObject (initdata : Bytes) (junk : Bytes) : Option Bytes :=
  (readRawLongDouble initdata).map fun v => writeRawLongDouble v junk

/-- `do_cast(long double, ob)` with `ob` a `long double` cdata:
`io = convert_to_object(ob)` (a first copy), then read `io` and write the
result cdata. -/
def ldCast (src : Bytes) (junk1 junk2 : Bytes) : Option Bytes :=
  (ldConvertToObject src junk1).bind fun io =>
    (readRawLongDouble io).map fun v => writeRawLongDouble v junk2

end CffiVerif.FloatStore
