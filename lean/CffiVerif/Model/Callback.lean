import CffiVerif.Model.Call
import CffiVerif.Generated.ExternPySize
import CffiVerif.Generated.Primitives

/-
Model of what happens between a C caller and a Python function installed with
`ffi.callback()` or `@ffi.def_extern()` (C14).

* `recompiler.py:_extern_python_decl` — the generated C function of an
  `extern "Python"` declaration packs its arguments into 8-byte slots of a local
  `char a[]`: `*(T *)(p + 8*i) = a_i`, or `*(T **)(p + 8*i) = &a_i` when `T` is a
  struct/union or `long double`; then `_cffi_call_python(&externpy, p)`; then
  `return *(R *)p`.
* `_cffi_backend.c:general_invoke_callback` — reads argument `i` at
  `args + i*8` (following the pointer for struct/union/long double) when
  `decode_args_from_libffi == 0`, calls the Python function, encodes the result
  with `convert_from_object_fficallback`, and on any error runs the error
  protocol (pre-encoded `error=` bytes, `onerror`).
* `prepare_callback_info_tuple` — pre-encodes the `error=` value.

Memory is a flat byte map; C objects are little-endian images.  libffi's closure
dispatch (how arguments reach `invoke_callback` and how the 8-byte result buffer
reaches the caller's register) is outside the model.
-/
namespace CffiVerif.Callback
open CffiVerif.Call

/-! ### memory -/

abbrev Mem := Nat → UInt8

def Mem.write (m : Mem) (addr : Nat) (bs : List UInt8) : Mem := fun a =>
  if a < addr then m a else
    match bs[a - addr]? with
    | some b => b
    | none => m a

def Mem.read (m : Mem) (addr len : Nat) : List UInt8 := (List.range len).map fun j => m (addr + j)

/-! ### argument slots of `extern "Python"` -/

/-- An argument of the generated function: passed in its slot (`val`: any type
of at most 8 bytes) or by reference (`ref`: struct/union/long double living at
`addr` in the generated function's frame). -/
inductive Arg where
  | val (bytes : List UInt8)
  | ref (addr : Nat) (bytes : List UInt8)
deriving DecidableEq, Repr

def Arg.bytes : Arg → List UInt8
  | .val b => b
  | .ref _ b => b

/-- What `*(T *)(p + 8*i) = …` stores. -/
def Arg.slot : Arg → List UInt8
  | .val b => b
  | .ref addr _ => leBytes 8 addr

/-- The generated function: one store per argument, in order. -/
def packFrom (m : Mem) (p : Nat) : Nat → List Arg → Mem
  | _, [] => m
  | i, a :: rest => packFrom (m.write (p + 8 * i) a.slot) p (i + 1) rest

def pack (m : Mem) (p : Nat) (args : List Arg) : Mem := packFrom m p 0 args

/-- `general_invoke_callback` with `decode_args_from_libffi == 0`: the image
handed to `convert_to_object` for argument `i` of the given shape/size. -/
def readArg (m : Mem) (p i : Nat) (byRef : Bool) (size : Nat) : List UInt8 :=
  let a_src := p + 8 * i
  if byRef then m.read (leNat (m.read a_src 8)) size     -- a_src = *(char **)a_src
  else m.read a_src size

def Arg.byRef : Arg → Bool
  | .val _ => false
  | .ref _ _ => true

/-- Where the generated function's objects live: a by-value argument has at most
8 bytes; a by-reference argument (struct/union/long double parameter `a_i`) is an
object at `addr` holding `bytes`, outside the local slot array `a[8*n]` at `p`. -/
def Placed (m : Mem) (p n : Nat) : Arg → Prop
  | .val b => b.length ≤ 8
  | .ref addr b => addr < 2 ^ 64 ∧ m.read addr b.length = b ∧ (addr + b.length ≤ p ∨ p + 8 * n ≤ addr)

/-! ### the argument / result area `char a[size_of_a]`

`size_of_a` as `_extern_python_decl` computes it; the constants and the list of
result types that enlarge it are regenerated from recompiler.py on every run
(`Generated/ExternPySize.lean`). -/

open CffiVerif.Generated in
/-- `max(len(tp.args)*8, 8)`. -/
def bufferSize (nargs : Nat) : Nat := max (nargs * ExternPySize.slot) ExternPySize.minArea

/-- The result type as the generator sees it: `void`; a primitive (or pointer /
enum) with the name the generator compares and its `sizeof`; a struct or union. -/
inductive ResT where
  | void
  | prim (name : String) (size : Nat)
  | aggregate (size : Nat)
deriving DecidableEq, Repr

open CffiVerif.Generated in
/-- `size_of_a`. -/
def sizeOfA (nargs : Nat) : ResT → Nat
  | .void => bufferSize nargs
  | .prim name _ =>
      ExternPySize.wideRules.foldl (fun acc rule => if rule.1.contains name then max acc rule.2 else acc)
        (bufferSize nargs)
  | .aggregate sz =>
      if ExternPySize.structRule then (if sz > bufferSize nargs then sz else bufferSize nargs)
      else bufferSize nargs

/-- Bytes the backend may write at the start of the area for the result:
`convert_from_object` writes `sizeof(R)`; the error path copies `py_rawerr`, which has
`max(sizeof(R), sizeof(ffi_arg))` bytes; `cffi_call_python` clears `sizeof(R)`;
nothing for `void`. -/
def resultWritten : ResT → Nat
  | .void => 0
  | .prim _ size => max size 8
  | .aggregate size => max size 8

open CffiVerif.Generated in
/-- Is an argument of this type stored as a pointer to the caller's object? -/
def passedByRef (name : String) (isAggregate : Bool) : Bool :=
  isAggregate || ExternPySize.byRefPrims.contains name

/-! ### who is passed by reference: writer (generator) and reader (backend)

The generator decides by model class / primitive name, the backend by `ct_flags`.
The flags a type carries: `CT_STRUCT` / `CT_UNION` for the `StructOrUnion` classes, and
for a primitive the `CT_IS_*` flags of its row in the backend's `EPTYPE` table
(`Generated/Primitives.backendTypes`, regenerated on every run). -/

def classFlags (cls : String) : List String :=
  if cls = "StructOrUnion" then ["CT_STRUCT", "CT_UNION"] else ["<unknown model class " ++ cls ++ ">"]

open CffiVerif.Generated in
def primByRefFlags (name : String) : List String :=
  match Primitives.backendTypes.find? (fun e => e.name = name) with
  | some e =>
      let fs := e.flags.filter (fun f => f.startsWith "CT_IS_")
      if fs.isEmpty then ["<no CT_IS_ flag distinguishes " ++ name ++ ">"] else fs
  | none => ["<not a backend primitive: " ++ name ++ ">"]

open CffiVerif.Generated in
/-- The flag set that selects exactly the types the *writer* stores by reference. -/
def writerByRefFlags : List String :=
  ExternPySize.byRefPrims.flatMap primByRefFlags ++ ExternPySize.byRefClasses.flatMap classFlags

/-! ### result encoding (`convert_from_object_fficallback`) -/

/-- Result type of the callback: `void`, an integer/_Bool/char type of the
`Call` model, or any other type of `size` bytes (float 4, double / pointer 8,
struct n) whose conversion is not modelled. -/
inductive RT where
  | void
  | prim (t : CType)
  | blob (size : Nat)
deriving DecidableEq, Repr

/-- `ct_size` (−1 for void). -/
def RT.size : RT → Int
  | .void => -1
  | .prim t => t.size.bytes
  | .blob n => n

def RT.bytes : RT → Nat
  | .void => 0
  | .prim t => t.size.bytes
  | .blob n => n

/-- What the Python function returned.  `image bs` stands for an object that
`convert_from_object` turns into exactly `bs` for a `blob` type (a float for
`double`, a pointer cdata, a struct cdata …); such an object is refused by the
integer converters.  For `blob` types every other object counts as not
convertible (the harness spells every convertible object as `image`). -/
inductive RetObj where
  | none
  | obj (o : PyObj)
  | image (bs : List UInt8)
deriving DecidableEq, Repr

/-- Plain `convert_from_object(result, ctype, pyobj)`. -/
def convRes : RT → RetObj → Except ErrKind (List UInt8)
  | .void, _ => .error .TypeError
  | .prim t, .obj o => argFfi t o
  | .prim t, .none => argFfi t .none
  | .prim _, .image _ => .error .TypeError
  | .blob n, .image bs => if bs.length = n then .ok bs else .error .TypeError
  | .blob _, _ => .error .TypeError

/-- Store at the start of the result buffer. -/
def setPrefix (bs buf : List UInt8) : List UInt8 := bs ++ buf.drop bs.length

/-- `sizeof(ffi_arg)`. -/
def ffiArg : Nat := 8

/-- The `skip:` label: plain `convert_from_object` into the buffer. -/
def plainEncode (rt : RT) (o : RetObj) (buf : List UInt8) : Except ErrKind Unit × List UInt8 :=
  match convRes rt o with
  | .error e => (.error e, buf)
  | .ok bs => (.ok (), setPrefix bs buf)

/-- `convert_from_object_fficallback(result, ctype, pyobj, encode_result_for_libffi)`:
status and the result buffer afterwards. -/
def encodeResult (rt : RT) (encode : Bool) (o : RetObj) (buf : List UInt8) :
    Except ErrKind Unit × List UInt8 :=
  match rt with
  | .void =>
      if o = .none then (.ok (), buf)
      else (.error .TypeError, buf)        -- "callback with the return type 'void' must return None"
  | .blob _ => plainEncode rt o buf        -- floats, and everything of at least sizeof(ffi_arg) bytes
  | .prim t =>
      if t.size.bytes < ffiArg ∧ encode then
        match t.kind with
        | .sint =>
            -- first conversion only detects errors; then the whole ffi_arg is written
            match convRes rt o, o with
            | .error e, _ => (.error e, buf)
            | .ok _, .obj po =>
                match asLongLong po with
                | .error e => (.error e, buf)
                | .ok value => (.ok (), setPrefix (leBytes ffiArg (trunc .s8 value)) buf)
            | .ok _, _ => (.error .TypeError, buf)
        | _ =>
            -- zero extension: memset(result, 0, sizeof(ffi_arg)) and the plain conversion
            let z := setPrefix (List.replicate ffiArg 0) buf
            match convRes rt o with
            | .error e => (.error e, z)
            | .ok bs => (.ok (), setPrefix bs z)
      else plainEncode rt o buf

/-- `prepare_callback_info_tuple`: the pre-encoded error value (`py_rawerr`), or
the exception raised by `ffi.callback()` / `ffi.def_extern()` itself. -/
def mkRawErr (rt : RT) (encode : Bool) (errorOb : Option RetObj) : Except ErrKind (List UInt8) :=
  let zeros := List.replicate (max rt.bytes ffiArg) (0 : UInt8)
  match errorOb with
  | none => .ok zeros
  | some o =>
      match encodeResult rt encode o zeros with
      | (.ok _, b) => .ok b
      | (.error e, _) => .error e

/-! ### the call and its error protocol (`general_invoke_callback`) -/

inductive Body where
  | returns (o : RetObj)
  | raises
deriving DecidableEq, Repr

inductive OnErr where
  | absent                   -- onerror=None
  | returnsNone
  | returns (o : RetObj)
  | raises
deriving DecidableEq, Repr

structure Outcome where
  buf : List UInt8           -- the result buffer handed back to C
  printed : Nat              -- tracebacks written through sys.unraisablehook / stderr
  pending : Bool             -- a Python exception still set when returning into C
deriving DecidableEq, Repr

/-- The `error:` label of `general_invoke_callback`: an exception is pending,
`buf` is the result buffer as the failed attempt left it. -/
def errorPath (rt : RT) (encode : Bool) (rawerr : List UInt8) (onerr : OnErr) (buf : List UInt8) : Outcome :=
  let buf1 := if rt.size > 0 then setPrefix rawerr buf else buf    -- memcpy(result, py_rawerr, size)
  match onerr with
  | .absent => ⟨buf1, 1, false⟩                       -- PyErr_Fetch; write unraisable; PyErr_Clear
  | .returnsNone => ⟨buf1, 0, false⟩                  -- PyErr_Fetch; onerror(); nothing pending
  | .raises => ⟨buf1, 2, false⟩                       -- double exception: both printed, cleared
  | .returns o =>
      match encodeResult rt encode o buf1 with
      | (.ok _, buf2) => ⟨buf2, 0, false⟩
      | (.error _, buf2) =>
          -- conversion of onerror's result failed: the attempt may have clobbered the buffer
          -- (memset of the ffi_arg), so the declared error value is copied again; both printed
          ⟨if rt.size > 0 then setPrefix rawerr buf2 else buf2, 2, false⟩

def invoke (rt : RT) (encode : Bool) (rawerr : List UInt8) (body : Body) (onerr : OnErr)
    (buf : List UInt8) : Outcome :=
  match body with
  | .raises => errorPath rt encode rawerr onerr buf
  | .returns o =>
      match encodeResult rt encode o buf with
      | (.ok _, buf') => ⟨buf', 0, false⟩
      | (.error _, buf') => errorPath rt encode rawerr onerr buf'

/-- What the C caller gets: the first `sizeof(R)` bytes of the buffer
(`return *(R *)p` for extern "Python"; the low bytes of the return register for
a libffi closure, little endian). -/
def received (rt : RT) (o : Outcome) : List UInt8 := o.buf.take rt.bytes

end CffiVerif.Callback
