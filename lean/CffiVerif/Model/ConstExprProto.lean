import CffiVerif.Model.ConstExpr
import CffiVerif.Spec.CConstExpr
import CffiVerif.Model.Proto

/-!
Parsing of the line protocol shared by the C09 and C10 drivers: literal tokens (`Lc.c.c`, code
points), prefix-notation expression trees, and the two scopes (cffi's `_int_constants`, C's).
Not part of any model: a wrong parse shows up as a disagreement or a `bad-op`.
-/
open CffiVerif CffiVerif.Proto CffiVerif.ConstExpr

namespace CffiVerif.ConstExprProto
open CffiVerif.CConstExpr (CExpr IntLit CType)

structure St where
  penv : List (String × Int) := []
  cenv : List (String × (CType × Int)) := []
  lastModel : Option Int := none
  lastSpec : Option (CType × Int) := none

def St.p (s : St) : ConstExpr.Env := fun n => (s.penv.find? (·.1 == n)).map (·.2)
def St.c (s : St) : CConstExpr.Env := fun n => (s.cenv.find? (·.1 == n)).map (·.2)

def codePoints? (w : String) : Option (List Char) :=
  if w == "L" then some [] else
  ((w.drop 1).toString.splitOn ".").mapM fun p => do
    let n ← p.toNat?
    if n < 0x110000 ∧ ¬ (0xD800 ≤ n ∧ n ≤ 0xDFFF) then some (Char.ofNat n) else none

def binOp? : String → Option BinOp
  | "add" => some .add | "sub" => some .sub | "mul" => some .mul | "div" => some .div
  | "mod" => some .mod | "shl" => some .shl | "shr" => some .shr | "band" => some .band
  | "bor" => some .bor | "bxor" => some .bxor | _ => none

/-- The C-grammar reading of a literal token, if it has one that renders back to the same text. -/
def cLit? (tok : List Char) : Option CExpr :=
  match tok with
  | ['\'', c, '\''] => some (.chr c)
  | ['\'', '\\', c, '\''] => some (.esc c)
  | _ =>
    match IntLit.parse tok with
    | some l => if l.render = tok then some (.int l) else none
    | none => none

/-- Prefix-notation parser; returns the tree for cffi's model, the C reading (if any), the rest. -/
partial def parse : List String → Option (Expr × Option CExpr × List String)
  | [] => none
  | w :: rest =>
    if w.startsWith "L" then do
      let tok ← codePoints? w
      pure (.const tok, cLit? tok, rest)
    else if w.startsWith "R" then
      let n := (w.drop 1).toString
      some (.ref n, some (.ref n), rest)
    else if w == "unsup" then some (.unsupported, none, rest)
    else if w == "unsupbin" then do
      let (l, _, rest) ← parse rest
      let (r, _, rest) ← parse rest
      pure (.binOther l r, none, rest)
    else if w == "pos" then do
      let (e, c, rest) ← parse rest
      pure (.pos e, c.map .pos, rest)
    else if w == "neg" then do
      let (e, c, rest) ← parse rest
      pure (.neg e, c.map .neg, rest)
    else do
      let op ← binOp? w
      let (l, cl, rest) ← parse rest
      let (r, cr, rest) ← parse rest
      pure (.bin op l r, (do let a ← cl; let b ← cr; pure (.bin op a b)), rest)

def errName : Err → String
  | .cdef => "cdef" | .ffi => "ffi" | .value => "value" | .index => "index" | .overflow => "overflow"

def showModel : Except Err Int → String
  | .ok v => s!"{v}"
  | .error e => "err:" ++ errName e

def showSpec : Option (CType × Int) → String
  | some (t, v) => s!"{t.tag}:{v}"
  | none => "undef"

def tag? : String → Option CType
  | "int" => some .int | "uint" => some .uint | "long" => some .long | "ulong" => some .ulong
  | "llong" => some .llong | "ullong" => some .ullong | _ => none

end CffiVerif.ConstExprProto
