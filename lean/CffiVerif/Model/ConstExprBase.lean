/-
Base vocabulary of the model of cffi's constant evaluator: exception kinds, operator names and
Python's integer operators on unbounded `Int`.  `Generated/ConstExprPy.lean` (translated from
the Python source on every run) is written in terms of these; `Model/ConstExpr.lean` builds on
the generated definitions.
-/
namespace CffiVerif.ConstExpr

/-- The exception *type* raised by the evaluator. -/
inductive Err where
  | cdef      -- cffi.CDefError
  | ffi       -- cffi.FFIError ("unsupported expression", "multiple declarations of constant")
  | value     -- ValueError escaping from `int(s, 16)` / `int(s, 2)` inside the `except` block
  | index     -- IndexError of `s[0]` on an empty token (unreachable from pycparser)
  | overflow  -- OverflowError / MemoryError of `left << right` with a count Python cannot materialise
  deriving DecidableEq, Repr, Inhabited

deriving instance DecidableEq for Except

/-- The ten binary operators `_parse_constant` handles. -/
inductive BinOp where
  | add | sub | mul | div | mod | shl | shr | band | bor | bxor
  deriving DecidableEq, Repr, Inhabited

/-- Python's `&` on unbounded integers (two's complement with infinite sign extension);
`-[m+1]` is `~m`. -/
def pyAnd : Int → Int → Int
  | .ofNat m, .ofNat n => .ofNat (m &&& n)
  | .ofNat m, .negSucc n => .ofNat (m ^^^ (m &&& n))        -- m & ~n
  | .negSucc m, .ofNat n => .ofNat (n ^^^ (n &&& m))        -- ~m & n
  | .negSucc m, .negSucc n => .negSucc (m ||| n)            -- ~m & ~n = ~(m | n)

/-- Python's `|`. -/
def pyOr : Int → Int → Int
  | .ofNat m, .ofNat n => .ofNat (m ||| n)
  | .ofNat m, .negSucc n => .negSucc (n ^^^ (n &&& m))      -- m | ~n = ~(n & ~m)
  | .negSucc m, .ofNat n => .negSucc (m ^^^ (m &&& n))
  | .negSucc m, .negSucc n => .negSucc (m &&& n)

/-- Python's `^`. -/
def pyXor : Int → Int → Int
  | .ofNat m, .ofNat n => .ofNat (m ^^^ n)
  | .ofNat m, .negSucc n => .negSucc (m ^^^ n)
  | .negSucc m, .ofNat n => .negSucc (m ^^^ n)
  | .negSucc m, .negSucc n => .ofNat (m ^^^ n)

/-- Python's `a // b` (floor) and `a % b` (sign of the divisor). -/
abbrev pyFloorDiv (a b : Int) : Int := a.fdiv b
abbrev pyMod (a b : Int) : Int := a.fmod b

/-- Python's `a << b` and `a >> b` for `b ≥ 0` (the evaluator guards `b < 0` itself). -/
abbrev pyShl (a b : Int) : Int := a * 2 ^ b.toNat
abbrev pyShr (a b : Int) : Int := a >>> b.toNat

/-- Counts above this bound are not materialised: `left << right` then answers `overflow`, as
CPython does (OverflowError / MemoryError) once the result cannot be allocated.  The exact
CPython threshold depends on the memory of the machine; between 4096 and that threshold the
model deviates (CPython still computes the number).  Such counts are undefined in C (>= the
width of any integer type), so no C09 theorem covers them and the harness never generates them. -/
def shiftBound : Int := 4096

/-- `left << right` inside `_parse_constant` (`right ≥ 0` was checked by the caller). -/
def pyShlChecked (a b : Int) : Except Err Int :=
  if b > shiftBound then .error .overflow else .ok (a * 2 ^ b.toNat)

end CffiVerif.ConstExpr
