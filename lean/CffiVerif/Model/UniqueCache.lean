import CffiVerif.Generated.UniqueCacheSteps

/-
Model of the cache that makes non-aggregate ctype objects canonical (C27):
`unique_cache`, `get_unique_type` / `get_or_insert_unique_type`,
`remove_dead_unique_reference`, `ctypedescr_dealloc`, and the keys built by
`new_primitive_type`, `new_void_type`, `new_pointer_type`, `new_array_type`,
`new_function_type` in `/repo/src/c/_cffi_backend.c`.

* `unique_cache` is a dict from a key (a byte string made of machine words) to a
  weak reference to a ctype object.  The words of a key are the *addresses* of
  the child ctype objects, plus small integers (array length, `abi<<1|ellipsis`,
  number of arguments) or the address of a static record (primitive types, the
  literal "void").  Keys of different kinds never collide: one-word keys are all
  addresses of distinct objects (heap ctype, static record, string literal),
  two-word keys are arrays only, longer keys are function types only — this is
  what the four constructors of `Word` express.
* A ctype holds strong references to its children (`ct_itemdescr`, `ct_stuff`),
  so the addresses in the key of a live ctype cannot be reused.
* Deallocation (`ctypedescr_dealloc`) first clears the weak references
  (`PyObject_ClearWeakRefs` — weakref callbacks, i.e. arbitrary Python code,
  run here), then `remove_dead_unique_reference` deletes the cache entry *if it
  is still a dead reference* (it may have been replaced by a rebuilt type in the
  meantime), then the children are released and the memory freed.  The model
  splits this into `clearweak` and `finish` and allows any operations between.
* Addresses are the identities; a freed address may be handed out again
  (`build … res` carries the address the implementation returned; the model
  checks that it is either the cached object or an unused address).
* Aggregates (`new_struct_type` etc.) are not cached: every call makes a new
  object.  They occur as leaves below pointers / arrays / function types.

Ghost: `gdesc`, the structural description of the C type (no addresses), and a
serial number that tells apart the aggregate objects ever created.
-/
namespace CffiVerif.UniqueCache

abbrev Addr := Nat

/-- What `new_*_type` was called with; children are ctype objects (addresses). -/
inductive Shape
  | prim (i : Nat)
  | void
  | ptr (item : Addr)
  /-- `new_array_type(ptr_to_item, length)`; `none` = `[]` -/
  | arr (ptrTo : Addr) (len : Option Nat)
  /-- function (pointer) type: result, arguments (arrays already decayed to pointers), ellipsis, ABI -/
  | func (res : Addr) (args : List Addr) (ellipsis : Bool) (abi : Nat)
  /-- struct / union / enum: not in the cache -/
  | agg
  deriving DecidableEq, Repr

inductive Word
  | obj (a : Addr)
  | static (i : Nat)
  | voidLit
  | int (n : Nat)
  deriving DecidableEq, Repr

abbrev Key := List Word

/-- `(void *)length`, with `-1` for an open array -/
def lenWord : Option Nat → Word
  | some n => .int n
  | none => .int (2 ^ 64 - 1)

/-- the `unique_key[]` arrays of the five constructors -/
def keyOf : Shape → Option Key
  | .prim i => some [.static i]
  | .void => some [.voidLit]
  | .ptr c => some [.obj c]
  | .arr p len => some [.obj p, lenWord len]
  | .func r args e abi => some (.obj r :: .int (2 * abi + e.toNat) :: .int args.length :: args.map .obj)
  | .agg => none

/-- ctype objects a ctype holds strong references to -/
def children : Shape → List Addr
  | .ptr c => [c]
  | .arr p _ => [p]
  | .func r args _ _ => r :: args
  | _ => []

/-- Structural description of a C type. -/
inductive Desc
  | prim (i : Nat)
  | void
  | ptr (d : Desc)
  | arr (item : Desc) (len : Option Nat)
  | func (res : Desc) (args : List Desc) (ellipsis : Bool) (abi : Nat)
  | opaque (serial : Nat)

structure Obj where
  shape : Shape
  /-- `ct_unique_key` -/
  key : Option Key
  /-- weak references cleared, deallocation in progress -/
  clearing : Bool
  /-- references held by the program -/
  refs : Nat
  gdesc : Desc

structure State where
  heap : Addr → Option Obj
  /-- the allocated addresses -/
  dom : List Addr
  /-- key ↦ weak reference (`some none` = a dead weak reference still in the dict) -/
  cache : Key → Option (Option Addr)
  serial : Nat

def init : State := { heap := fun _ => none, dom := [], cache := fun _ => none, serial := 0 }

/-- a ctype object the program can hold -/
def State.live (s : State) (a : Addr) : Option Obj :=
  match s.heap a with
  | some o => if o.clearing then none else some o
  | none => none

inductive Err
  | TypeError | ValueError | OverflowError
  /-- an operand is not a live ctype (protocol misuse) -/
  | Dead
  /-- the implementation returned something else than the cached object -/
  | NotCanonical
  /-- the implementation claims a new object at an address in use -/
  | AddrInUse
  | NoRef
  /-- deallocation of an object that is still referenced -/
  | Referenced
  deriving DecidableEq, Repr

inductive Res
  | hit | new | done
  deriving DecidableEq, Repr

inductive Op
  /-- `new_*_type(...)` returned the object at `res` -/
  | build (sh : Shape) (res : Addr)
  | drop (a : Addr)
  | clearweak (a : Addr)
  | finish (a : Addr)
  deriving DecidableEq

abbrev Out := Except Err Res

instance : DecidableEq Out := fun a b =>
  match a, b with
  | .ok x, .ok y => if h : x = y then isTrue (by rw [h]) else isFalse (fun e => h (by cases e; rfl))
  | .error x, .error y => if h : x = y then isTrue (by rw [h]) else isFalse (fun e => h (by cases e; rfl))
  | .ok _, .error _ => isFalse (fun e => by cases e)
  | .error _, .ok _ => isFalse (fun e => by cases e)

/-- all of `as` are live; returns their objects -/
def liveAll (s : State) : List Addr → Option (List Obj)
  | [] => some []
  | a :: rest => do
    let o ← s.live a
    let os ← liveAll s rest
    pure (o :: os)

/-- array arguments of a function type decay to the pointer type stored in `ct_stuff` -/
def decay (a : Addr) (o : Obj) : Addr :=
  match o.shape with
  | .arr p _ => p
  | _ => a

/-- The checks of `new_pointer_type` / `new_array_type` / `new_function_type`
that matter for histories; on success the shape as stored (arguments decayed)
and the structural description. -/
def validate (s : State) : Shape → Except Err (Shape × Desc)
  | .prim i => .ok (.prim i, .prim i)
  | .void => .ok (.void, .void)
  | .agg => .ok (.agg, .opaque s.serial)
  | .ptr c =>
    match s.live c with
    | some oc => .ok (.ptr c, .ptr oc.gdesc)
    | none => .error .Dead
  | .arr p len =>
    match s.live p with
    | none => .error .Dead
    | some op =>
      match op.shape with
      | .ptr item =>
        (match s.live item with
         | none => .error .Dead
         | some oi =>
           match oi.shape with
           | .void => .error .ValueError
           | .arr _ none => .error .ValueError
           | _ =>
             match len with
             | some n => if n < 2 ^ 63 then .ok (.arr p len, .arr oi.gdesc len) else .error .OverflowError
             | none => .ok (.arr p len, .arr oi.gdesc len))
      | _ => .error .TypeError
  | .func r args e abi =>
    match s.live r, liveAll s args with
    | some or_, some oargs =>
      (match or_.shape with
       | .arr _ _ => .error .TypeError
       | _ =>
         if oargs.any (fun o => o.shape == .void) then .error .TypeError
         else
           let dargs := (args.zip oargs).map (fun ao => decay ao.1 ao.2)
           match liveAll s dargs with
           | some odargs => .ok (.func r dargs e abi, .func or_.gdesc (odargs.map (·.gdesc)) e abi)
           | none => .error .Dead)
    | _, _ => .error .Dead

def State.setObj (s : State) (a : Addr) (o : Obj) : State :=
  { s with heap := fun b => if b = a then some o else s.heap b }

/-- a new ctype object at `res`; `get_or_insert_unique_type` stores a weak reference under its key -/
def State.insert (s : State) (res : Addr) (o : Obj) : State :=
  { heap := fun b => if b = res then some o else s.heap b,
    dom := res :: s.dom,
    cache := fun k' => if some k' = o.key then some (some res) else s.cache k',
    serial := s.serial }

/-- `get_unique_type` (and `new_struct_type` for aggregates) -/
def build (s : State) (sh : Shape) (res : Addr) : State × Out :=
  match validate s sh with
  | .error e => (s, .error e)
  | .ok (sh', d) =>
    match keyOf sh' with
    | none =>
      -- aggregate: always a new object
      if (s.heap res).isSome then (s, .error .AddrInUse)
      else
        ({ (s.insert res { shape := sh', key := none, clearing := false, refs := 1, gdesc := d }) with
            serial := s.serial + 1 }, .ok .new)
    | some k =>
      match s.cache k with
      | some (some a) =>
        -- a live weak reference: return the existing object
        (match s.heap a with
         | some oa =>
           if res = a then (s.setObj a { oa with refs := oa.refs + 1 }, .ok .hit)
           else (s, .error .NotCanonical)
         | none => (s, .error .NotCanonical))
      | _ =>
        -- no entry or a dead weak reference: insert the new object
        if (s.heap res).isSome then (s, .error .AddrInUse)
        else (s.insert res { shape := sh', key := some k, clearing := false, refs := 1, gdesc := d }, .ok .new)

def drop (s : State) (a : Addr) : State × Out :=
  match s.live a with
  | some o => if o.refs = 0 then (s, .error .NoRef) else (s.setObj a { o with refs := o.refs - 1 }, .ok .done)
  | none => (s, .error .Dead)

/-- some allocated ctype still holds a reference to `a` -/
def hasParent (s : State) (a : Addr) : Bool :=
  s.dom.any fun b => match s.heap b with
    | some ob => decide (a ∈ children ob.shape)
    | none => false

/-- start of `ctypedescr_dealloc`: `PyObject_ClearWeakRefs` -/
def clearweak (s : State) (a : Addr) : State × Out :=
  match s.live a with
  | some o =>
    if o.refs ≠ 0 || hasParent s a then (s, .error .Referenced)
    else
      ({ (s.setObj a { o with clearing := true }) with
          cache := fun k => match s.cache k with
            | some (some b) => if b = a then some none else some (some b)
            | v => v }, .ok .done)
  | none => (s, .error .Dead)

/-- rest of `ctypedescr_dealloc`: `remove_dead_unique_reference`, release the children, free -/
def finish (s : State) (a : Addr) : State × Out :=
  match s.heap a with
  | some o =>
    if o.clearing then
      -- `remove_dead_unique_reference`: delete the entry under the key only if it is a dead weak
      -- reference (it may have been replaced by a live one to a rebuilt type)
      let cache' : Key → Option (Option Addr) :=
        fun k' => if some k' = o.key ∧ s.cache k' = some none then none else s.cache k'
      ({ s with heap := fun b => if b = a then none else s.heap b, dom := s.dom.filter (· ≠ a),
                cache := cache' }, .ok .done)
    else (s, .error .Referenced)
  | none => (s, .error .Dead)

/-! ### The statements of the C functions (regenerated from the source on every run)

`Generated/UniqueCacheSteps.lean` lists the statements of `get_or_insert_unique_type`,
`remove_dead_unique_reference` and `ctypedescr_dealloc` with the conditions around them.
`runSteps` executes such a list on one cache entry (absent / a dead weak reference / a live
one); `modelInsert`, `modelRemove` say what `build` and `finish` above do with that entry. -/

inductive Entry | absent | dead | live
  deriving DecidableEq, Repr

structure StepRun where
  found : Option Bool
  resolvedLive : Option Bool
  deleted : Bool
  stored : Bool
  result : Option Bool      -- some true: the existing object is returned; some false: the new one
  deriving DecidableEq, Repr

open CffiVerif.Generated.UniqueCacheSteps in
def condHolds (r : StepRun) (hasKey : Bool) : Cond → Bool
  | .found => r.found == some true
  | .live => r.resolvedLive == some true
  | .dead => r.resolvedLive == some false
  | .hasKey => hasKey

open CffiVerif.Generated.UniqueCacheSteps in
def runStep (e : Entry) (r : StepRun) (st : Step) : StepRun :=
  if r.result.isSome || !(st.1.all (condHolds r true)) then r else
  match st.2 with
  | .lookup => { r with found := some (e != .absent) }
  | .resolve => { r with resolvedLive := some (e == .live) }
  | .delItem => { r with deleted := true }
  | .returnExisting => { r with result := some true }
  | .store => { r with stored := true }
  | .returnNew => { r with result := some false }
  | _ => r

open CffiVerif.Generated.UniqueCacheSteps in
def runSteps (l : List Step) (e : Entry) : StepRun :=
  l.foldl (runStep e) { found := none, resolvedLive := none, deleted := false, stored := false, result := none }

/-- `build` on a keyed shape: a live entry is returned as it is, anything else is overwritten by
a weak reference to the new object -/
def modelInsert (e : Entry) : Bool × Bool :=      -- (existing object returned, new weak reference stored)
  match e with
  | .live => (true, false)
  | _ => (false, true)

/-- `finish`: the entry under the key of the dying type is deleted iff it is a dead weak reference
(`s.cache k' = some none`) -/
def modelRemove (e : Entry) : Bool := e == .dead

open CffiVerif.Generated.UniqueCacheSteps in
/-- position of an action in `ctypedescr_dealloc` -/
def posOf (a : Act) (l : List Step) : Option Nat :=
  let i := l.findIdx (fun st => st.2 == a)
  if i < l.length then some i else none

def step (s : State) : Op → State × Out
  | .build sh res => build s sh res
  | .drop a => drop s a
  | .clearweak a => clearweak s a
  | .finish a => finish s a

def run (s : State) (ops : List Op) : State := ops.foldl (fun st op => (step st op).1) s

end CffiVerif.UniqueCache
