/-
Model of the backend's C type names (C07, C08).

  * the type tree `Ty` of what `ffi.typeof()` can denote;
  * `cname : Ty → Str × Nat` — the name and `ct_name_position` the backend
    builds: `ctypedescr_new_on_top` (src/c/_cffi_backend.c:426) for pointers
    (`new_pointer_type`, 4915: `" *"`, or `"(*)"` on top of an array, position
    + 2) and arrays (`new_array_type`, 4949: `"[N]"` / `"[]"`, position + 0),
    `fb_build_name` (5827) for function pointer types, `_realize_name`
    (realize_c_type.c:320) for struct/union/enum names;
  * `getcname` = `b_getcname` (6746) / `_combine_type_name_l` (ffi_obj.c:597);
  * `getctypeC` = `ffi_getctype` (ffi_obj.c:623, the add_paren/add_space rule)
    and `getctypePy` = `FFI.getctype` (api.py:398, the `'&['` rule, which is
    also `BaseTypeByIdentity.get_c_name`, model.py:29).

Strings are `List Char` (`Str`).  A raw function type `Ty.func` is what the
parser produces for `int(int)`; the backend only has function *pointer* ctypes,
which are `Ty.ptr (Ty.func …)` here (realize_c_type.c:478: OP_POINTER on top of
OP_FUNCTION reveals the hidden CT_FUNCTIONPTR).  `cname (.func …)` is given the
name of that function pointer type (as `unexpected_fn_type` does).

Not modelled: the Windows-only `(__stdcall *)` replacement text; names longer
than `int` (`strlen` results are stored in `int`).
-/
namespace CffiVerif.CName

abbrev Str := List Char

inductive AggKind where
  | struct | union | enum
  deriving DecidableEq, Repr, Inhabited

inductive Ty where
  | prim (name : Str)                               -- "int", "unsigned long", "void", "uint8_t", …
  | agg (k : AggKind) (tag : Str)                   -- entry `tag` of the struct_unions / enums table
  | ptr (t : Ty)
  | arr (t : Ty) (len : Option Nat)                 -- `none` = open array `[]`
  | func (args : List Ty) (res : Ty) (ell : Bool)   -- raw function type
  deriving Repr, Inhabited

def Ty.isArr : Ty → Bool
  | .arr _ _ => true
  | _ => false

def Ty.isFunc : Ty → Bool
  | .func _ _ _ => true
  | _ => false

/-! ### Decimal text of a length (`sprintf(extra_text, "[%llu]", length)`) -/

def digitChar (d : Nat) : Char := Char.ofNat (48 + d)

def decF : Nat → Nat → Str
  | 0, _ => []
  | f + 1, n => if n < 10 then [digitChar n] else decF f (n / 10) ++ [digitChar (n % 10)]

/-- `%llu` of `n`. -/
def dec (n : Nat) : Str := decF (n + 1) n

/-! ### Names -/

def isDigitC (c : Char) : Bool := '0' ≤ c && c ≤ '9'

/-- `_realize_name` (realize_c_type.c:320) plus the `struct _IO_FILE` → `FILE`
special case of `_realize_c_struct_or_union`. -/
def aggName (k : AggKind) (tag : Str) : Str :=
  let pre := match k with
    | .struct => "struct ".toList
    | .union => "union ".toList
    | .enum => "enum ".toList
  if k = .struct ∧ tag = "_IO_FILE".toList then "FILE".toList
  else match tag with
    | '$' :: c :: rest => if c ≠ '$' ∧ ¬ isDigitC c then c :: rest else pre ++ tag
    | _ => pre ++ tag

/-- `ctypedescr_new_on_top(ct_base, extra_text, extra_position)`: the three
`memcpy`s and `ct_name_position = base position + extra_position`. -/
def onTop (base : Str × Nat) (extra : Str) (extraPos : Nat) : Str × Nat :=
  (base.1.take base.2 ++ extra ++ base.1.drop base.2, base.2 + extraPos)

def lenText : Option Nat → Str
  | none => "[]".toList
  | some n => '[' :: (dec n ++ [']'])

def joinArgs : List Str → Str
  | [] => []
  | [a] => a
  | a :: b :: rest => a ++ ", ".toList ++ joinArgs (b :: rest)

/-- `fb_build_name` with `repl = "(*)"`: head of the result, `(*)`, the
argument names separated by `", "`, `...`, `)`, tail of the result; the
position is between `(*` and `)`. -/
def funcName (args : List Str) (res : Str × Nat) (ell : Bool) : Str × Nat :=
  let argText := joinArgs args ++
    (if ell then (if args.isEmpty then [] else ", ".toList) ++ "...".toList else [])
  (res.1.take res.2 ++ "(*)".toList ++ ('(' :: argText) ++ (')' :: res.1.drop res.2), res.2 + 2)

mutual
/-- Name and name position of the ctype denoted by a tree. -/
def cname : Ty → Str × Nat
  | .prim n => (n, n.length)
  | .agg k tag => (aggName k tag, (aggName k tag).length)
  | .ptr (.func args res ell) => funcName (cnames args) (cname res) ell
  | .ptr t => onTop (cname t) (if t.isArr then "(*)".toList else " *".toList) 2
  | .arr t len => onTop (cname t) (lenText len) 0
  | .func args res ell => funcName (cnames args) (cname res) ell

def cnames : List Ty → List Str
  | [] => []
  | t :: ts => (cname t).1 :: cnames ts
end

/-- `b_getcname(ct, replace_with)` / `_combine_type_name_l`. -/
def getcname (nm : Str × Nat) (x : Str) : Str :=
  nm.1.take nm.2 ++ x ++ nm.1.drop nm.2

/-- C `isspace` in the "C" locale. -/
def isSpaceC (c : Char) : Bool :=
  c = ' ' || c = '\t' || c = '\n' || c = '\x0b' || c = '\x0c' || c = '\r'

def strip (s : Str) : Str :=
  ((s.dropWhile isSpaceC).reverse.dropWhile isSpaceC).reverse

/-- `ffi_getctype` (ffi_obj.c:623). -/
def getctypeC (T : Ty) (replaceWith : Str) : Str :=
  let r := strip replaceWith
  let addParen := r.head? = some '*' && T.isArr
  let addSpace := !addParen && !r.isEmpty && r.head? ≠ some '[' && r.head? ≠ some '('
  getcname (cname T)
    ((if addParen then ['('] else []) ++ (if addSpace then [' '] else []) ++ r ++
     (if addParen then [')'] else []))

/-- `'&[' in s`. -/
def hasAmpBracket : Str → Bool
  | '&' :: '[' :: _ => true
  | _ :: rest => hasAmpBracket rest
  | [] => false

/-- `FFI.getctype` (api.py:398) = `get_c_name` (model.py:29) without qualifiers. -/
def getctypePy (T : Ty) (replaceWith : Str) : Str :=
  let r := strip replaceWith
  let r' :=
    if r.head? = some '*' && hasAmpBracket (getcname (cname T) ['&']) then
      '(' :: (r ++ [')'])
    else if !r.isEmpty && r.head? ≠ some '[' && r.head? ≠ some '(' then ' ' :: r
    else r
  getcname (cname T) r'

end CffiVerif.CName
