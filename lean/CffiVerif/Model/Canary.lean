/-
Model of the thread-state bookkeeping behind callbacks from threads that Python did not
create (`src/c/misc_thread_common.h`: `gil_ensure`, `gil_release`, `thread_canary_register`,
`thread_canary_free_zombies`, `thread_canary_dealloc`, `thread_canary_make_zombie`,
`cffi_thread_shutdown`; `src/c/misc_thread_posix.h`: the TLS key whose destructor is
`cffi_thread_shutdown`).

State: per OS thread the value of `PyGILState_GetThisThreadState()` (`ts`), whether its
`struct cffi_tls_s` exists (`tls`) and that struct's `local_thread_canary` (`canary`); per
`PyThreadState` its `gilstate_counter`, the `ThreadCanaryObj` stored in its dict (one canary
per thread state, so the canary is identified with the thread state that owns it: `canary`,
`canTls` = `canary->tls`, `zombie` = `canary->zombie_next != NULL`), and the thread-local
Python data (`data`, what `threading.local` stores in the thread state's dict); the zombie list.

Events: a thread starts (`spawn`; Python-created threads come with a thread state whose
counter is 1), a callback begins (`enter` = `gil_ensure`) or ends (`exit` = `gil_release`),
the callback body stores thread-local data (`setData`), a thread ends (`threadExit`: Python's
own epilogue for Python threads, then the TLS destructor), `finalize` (`Py_Finalize` clears and
deletes every thread state).  Freeing the zombies is part of the `enter` of a thread that has no
thread state yet (`thread_canary_register` calls `thread_canary_free_zombies` first).

External (assumed): CPython's `PyGILState_Ensure/Release`, `PyThreadState_Clear/Delete`, the
per-thread `autoTSSkey`, pthread TLS destructors running once per thread at thread exit, the
zombie lock; allocation failures (`ignore_error` paths) are not modelled.  Ghost fields:
`freed`, `owner`, `started`.
-/
namespace CffiVerif.Canary

abbrev Tid := Nat
abbrev TsId := Nat

structure Thr where
  started : Bool := false       -- ghost: this thread id has been used (ids are never reused)
  alive : Bool := false         -- the OS thread exists
  python : Bool := false        -- created by Python: has a thread state from the start
  ts : Option TsId := none      -- PyGILState_GetThisThreadState()
  tls : Bool := false           -- struct cffi_tls_s allocated (pthread_getspecific(cffi_tls_key) != NULL)
  canary : Option TsId := none  -- tls->local_thread_canary (named by the thread state that owns it)
  depth : Nat := 0              -- callbacks in progress (gil_ensure without gil_release)
  deriving Repr

structure Ts where
  live : Bool := false          -- allocated and not yet deleted
  counter : Nat := 0            -- gilstate_counter
  canary : Bool := false        -- tstate->dict["cffi.thread.canary"] exists
  canTls : Option Tid := none   -- canary->tls (which thread's cffi_tls_s)
  zombie : Bool := false        -- canary->zombie_next != NULL
  data : Option Nat := none     -- thread-local Python data stored through this thread state
  freed : Nat := 0              -- ghost: how many times PyThreadState_Delete ran on it
  owner : Tid := 0              -- ghost: the thread it was created for
  deriving Repr

structure State where
  thr : Tid → Thr := fun _ => {}
  ts : TsId → Ts := fun _ => {}
  zombies : List TsId := []     -- the chained list headed by cffi_zombie_head, in order
  nextTs : TsId := 0            -- allocation: thread states get fresh identities
  finalized : Bool := false

def init : State := {}

def upd {α : Type} (f : Nat → α) (i : Nat) (v : α) : Nat → α :=
  fun j => if j = i then v else f j

inductive Label
  | spawn (t : Tid) (python : Bool)
  | enter (t : Tid)
  | exit (t : Tid)
  | setData (t : Tid) (v : Nat)
  | threadExit (t : Tid)
  | finalize
  deriving DecidableEq, Repr

/-- `PyThreadState_Clear(i)`: the dict goes away — the thread-local data is dropped and the
canary, if any, is deallocated (`thread_canary_dealloc`: unlink from the zombie list if it is
there, reset `tls->local_thread_canary` if it still has a `tls`). -/
def clearTs (s : State) (i : TsId) : State :=
  let x := s.ts i
  if x.canary then
    { s with
      zombies := if x.zombie then s.zombies.erase i else s.zombies,
      thr := match x.canTls with
        | some t => upd s.thr t { s.thr t with canary := none }
        | none => s.thr,
      ts := upd s.ts i { x with canary := false, canTls := none, zombie := false, data := none } }
  else
    { s with ts := upd s.ts i { x with data := none } }

/-- `PyThreadState_Delete(i)` (no check that `i` is still allocated: the C code has none). -/
def deleteTs (s : State) (i : TsId) : State :=
  { s with ts := upd s.ts i { s.ts i with live := false, freed := (s.ts i).freed + 1 } }

/-- One iteration of `thread_canary_free_zombies`: take the first zombie, detach it, clear and
delete its thread state. -/
def freeHead (s : State) : State :=
  match s.zombies with
  | [] => s
  | i :: rest =>
    let s1 := { s with zombies := rest, ts := upd s.ts i { s.ts i with zombie := false } }
    deleteTs (clearTs s1 i) i

/-- `thread_canary_free_zombies()`: loop until the list is empty (`fuel` = its initial length). -/
def freeZombies : Nat → State → State
  | 0, s => s
  | n + 1, s => freeZombies n (freeHead s)

/-- `cffi_thread_shutdown(tls)`: the canary, if any, loses its `tls` and becomes a zombie.
`none` = `Py_FatalError("cffi: ThreadCanaryObj is already a zombie")`. -/
def tlsDestructor (s : State) (t : Tid) : Option State :=
  if (s.thr t).tls then
    match (s.thr t).canary with
    | some i =>
      if (s.ts i).zombie then none
      else some { s with zombies := s.zombies ++ [i],
                         ts := upd s.ts i { s.ts i with canTls := none, zombie := true } }
    | none => some s
  else some s

/-- A Python-created thread clears and deletes its own thread state when it ends (before the
TLS destructors run). -/
def pythonEpilogue (s : State) (t : Tid) : State :=
  if (s.thr t).python then
    match (s.thr t).ts with
    | some i => deleteTs (clearTs s i) i
    | none => s
  else s

def step? (s : State) : Label → Option State
  | .spawn t python =>
    if (s.thr t).started ∨ s.finalized then none
    else if python then
      let i := s.nextTs
      some { s with nextTs := i + 1,
                    ts := upd s.ts i { live := true, counter := 1, owner := t },
                    thr := upd s.thr t { started := true, alive := true, python := true, ts := some i } }
    else
      some { s with thr := upd s.thr t { started := true, alive := true } }
  | .enter t =>
    if (s.thr t).alive ∧ ¬ s.finalized then
      match (s.thr t).ts with
      | some i =>    -- `ts != NULL`: counter++ (and make it current)
        some { s with ts := upd s.ts i { s.ts i with counter := (s.ts i).counter + 1 },
                      thr := upd s.thr t { s.thr t with depth := (s.thr t).depth + 1 } }
      | none =>      -- PyGILState_Ensure() makes a thread state; thread_canary_register(ts)
        let i := s.nextTs
        let s1 : State := { s with nextTs := i + 1,
                                   ts := upd s.ts i { live := true, counter := 1, owner := t },
                                   thr := upd s.thr t { s.thr t with ts := some i, depth := (s.thr t).depth + 1 } }
        let s2 := freeZombies s1.zombies.length s1
        some { s2 with ts := upd s2.ts i { s2.ts i with canary := true, canTls := some t,
                                                        counter := (s2.ts i).counter + 1 },
                       thr := upd s2.thr t { s2.thr t with tls := true, canary := some i } }
    else none
  | .exit t =>
    if (s.thr t).depth = 0 then none else
    match (s.thr t).ts with
    | none => none
    | some i =>      -- PyGILState_Release: counter--; at 0 the thread state is cleared and deleted
      let c := (s.ts i).counter - 1
      let s1 : State := { s with ts := upd s.ts i { s.ts i with counter := c },
                                 thr := upd s.thr t { s.thr t with depth := (s.thr t).depth - 1 } }
      if c = 0 then
        let s2 := deleteTs (clearTs s1 i) i
        some { s2 with thr := upd s2.thr t { s2.thr t with ts := none } }
      else some s1
  | .setData t v =>
    if (s.thr t).depth = 0 then none else
    match (s.thr t).ts with
    | none => none
    | some i => some { s with ts := upd s.ts i { s.ts i with data := some v } }
  | .threadExit t =>
    if (s.thr t).alive ∧ (s.thr t).depth = 0 then
      match tlsDestructor (pythonEpilogue s t) t with
      | none => none
      | some s2 => some { s2 with thr := upd s2.thr t { started := true, alive := false, python := (s2.thr t).python } }
    else none
  | .finalize =>
    if s.finalized then none else
    some { s with finalized := true, zombies := [],
                  ts := fun i => if (s.ts i).live then
                      { s.ts i with live := false, freed := (s.ts i).freed + 1, canary := false,
                                    canTls := none, zombie := false, data := none }
                    else s.ts i,
                  thr := fun t => { s.thr t with ts := none, canary := none } }

inductive Reachable : State → Prop
  | init : Reachable init
  | step {s s' : State} (l : Label) : Reachable s → step? s l = some s' → Reachable s'

def run : State → List Label → Option State
  | s, [] => some s
  | s, l :: ls => match step? s l with
    | some s' => run s' ls
    | none => none

theorem run_reachable {s s' : State} (ls : List Label) (h : Reachable s) (hr : run s ls = some s') :
    Reachable s' := by
  induction ls generalizing s with
  | nil => simp [run] at hr; exact hr ▸ h
  | cons l ls ih =>
    simp only [run] at hr
    cases hs : step? s l with
    | none => simp [hs] at hr
    | some s1 => simp only [hs] at hr; exact ih (Reachable.step l h hs) hr

end CffiVerif.Canary
