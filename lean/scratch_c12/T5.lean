import CffiVerif.Model.GenConst
import CffiVerif.Proofs.CheckInt
namespace T
open CffiVerif.CheckIntOps CffiVerif.GenConst CffiVerif.Generated.VerifyMacros CffiVerif

theorem cLL_small (a : Int) (h1 : -9223372036854775808 ≤ a) (h2 : a < 9223372036854775808) : cLL a = a := by
  unfold cLL two64 two63; split <;> omega
theorem cULL_nonneg (a : Int) (h1 : 0 ≤ a) (h2 : a < 18446744073709551616) : cULL a = a := by
  unfold cULL two64; omega

theorem castT_eq (u size v : Int) (m : Int) (hm : (2 : Int) ^ (8 * size).toNat = m) :
    castT u size v = if u ≠ 0 then v % m else (if v % m < m / 2 then v % m else v % m - m) := by
  unfold castT; rw [hm]

/-- `x` is a value of the integer type of `size` bytes (unsigned iff `u ≠ 0`): casting keeps it. -/
def InType (u size x : Int) : Prop := castT u size x = x

theorem from_c_int_returns_value (u size x : Int) (hu : u = 0 ∨ u = 1)
    (hs : size = 1 ∨ size = 2 ∨ size = 4 ∨ size = 8) (hx : InType u size x) :
    cpyFromCInt u size x = x := by
  unfold InType at hx
  unfold cpyFromCInt cLong cULong
  rcases hs with rfl | rfl | rfl | rfl
  · rw [castT_eq u 1 _ 256 (by decide)] at hx ⊢
    rcases hu with rfl | rfl
    · simp at hx; simp [cGt, cLt, cEq, cLe, cBool]; apply cLL_small <;> omega
    · simp at hx; simp [cGt, cLt, cEq, cLe, cBool]; apply cLL_small <;> omega
  · rw [castT_eq u 2 _ 65536 (by decide)] at hx ⊢
    rcases hu with rfl | rfl
    · simp at hx; simp [cGt, cLt, cEq, cLe, cBool]; apply cLL_small <;> omega
    · simp at hx; simp [cGt, cLt, cEq, cLe, cBool]; apply cLL_small <;> omega
  · rw [castT_eq u 4 _ 4294967296 (by decide)] at hx ⊢
    rcases hu with rfl | rfl
    · simp at hx; simp [cGt, cLt, cEq, cLe, cBool]; apply cLL_small <;> omega
    · simp at hx; simp [cGt, cLt, cEq, cLe, cBool]; apply cLL_small <;> omega
  · rw [castT_eq u 8 _ 18446744073709551616 (by decide)] at hx ⊢
    rcases hu with rfl | rfl
    · simp at hx; simp [cGt, cLt, cEq, cLe, cBool]; apply cLL_small <;> omega
    · simp at hx; simp [cGt, cLt, cEq, cLe, cBool]; unfold two64; omega

theorem to_c_int_selects (u size : Int) (hu : u = 0 ∨ u = 1)
    (hs : size = 1 ∨ size = 2 ∨ size = 4 ∨ size = 8) :
    cpyToCInt u size = some (decide (u = 1), (8 * size).toNat) := by
  rcases hu with rfl | rfl <;> rcases hs with rfl | rfl | rfl | rfl <;> decide

theorem macros_text_equal :
    cpyFromCIntText = incFromCIntText ∧ cpyToCIntText = incToCIntText := ⟨rfl, rfl⟩
end T
