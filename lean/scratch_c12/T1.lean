import CffiVerif.Model.CheckInt
namespace T
open CffiVerif.CheckIntOps CffiVerif.CheckInt CffiVerif.Generated

theorem ofInt0 : BitVec.ofInt 128 0 = 0#128 := by decide
theorem cOr_zero (x : Int) (h : InRange x) : cOr x 0 = x := by
  unfold cOr InRange two63 two64 at *
  rw [ofInt0]
  simp only [BitVec.or_zero, BitVec.toInt_ofInt]
  apply Int.bmod_eq_of_le_mul_two <;> omega

theorem cOr_two_zero : cOr 0 2 = 2 := by decide
theorem cOr_two_one : cOr 1 2 = 3 := by decide

theorem check_int_iff (a e : Int) (ha : InRange a) (he : InRange e) :
    realizeGlobalInt (constBody a (some e)) = .error .ffiError ↔ a ≠ e := by
  unfold realizeGlobalInt constBody CheckIntSrc.const_mismatch CheckIntSrc.cffi_check_int
    CheckIntSrc.const_n CheckIntSrc.const_o CheckIntSrc.const_flag
  rw [cOr_zero a ha]
  unfold InRange two63 two64 at ha he
  simp only [cLe, cEq, cAnd, cNot, cULL, cBool, two64]
  by_cases h1 : a ≤ 0 <;> by_cases h2 : e ≤ 0 <;> by_cases h3 : a = e <;>
    by_cases h4 : a % 18446744073709551616 = e % 18446744073709551616 <;>
    simp [h1, h2, h3, h4, cOr_two_zero, cOr_two_one] <;> omega
end T
