import CffiVerif.Model.StructCheck
open CffiVerif.StructCheck
#synth DecidableEq (Except Err Layout)
#synth DecidableEq (Except Err Int)
#eval realise ⟨true,false,false⟩ [⟨4, 4, 0, 4⟩, ⟨1, 1, 4, 1⟩, ⟨4, 4, 8, 8⟩, ⟨6, 2, 16, 6⟩] 24 8
