import CffiVerif.Model.Include
namespace CffiVerif.Include

/-- The entry a module itself has for `name`. -/
def ownDef (mods : Mods) (name : String) (j : Nat) : Option (Nat × GKind) :=
  match mods[j]? with
  | none => none
  | some m => (m.globals.lookup name).map (fun g => (j, g))

/-- First definition of `name` along a list of modules. -/
def firstDef (mods : Mods) (name : String) (js : List Nat) : Option (Nat × GKind) :=
  js.findSome? (ownDef mods name)

theorem firstDef_append (mods : Mods) (name : String) (a b : List Nat) :
    firstDef mods name (a ++ b) = (firstDef mods name a).or (firstDef mods name b) := by
  unfold firstDef
  rw [List.findSome?_append]

theorem firstOf_spec {α : Type} (deeper : Nat → Except Err (Option α)) (spec : Nat → Option α)
    (l : List Nat) (h : ∀ i ∈ l, deeper i = .ok (spec i)) :
    firstOf deeper l = .ok (l.findSome? spec) := by
  induction l with
  | nil => simp [firstOf]
  | cons i rest ih =>
    have hi := h i (by simp)
    have hr : ∀ j ∈ rest, deeper j = .ok (spec j) := fun j hj => h j (by simp [hj])
    unfold firstOf
    rw [hi]
    cases hs : spec i with
    | none => simp [List.findSome?_cons, hs, ih hr]
    | some v => simp [List.findSome?_cons, hs]

theorem findSome_flatMap {α : Type} (f : Nat → List Nat) (g : Nat → Option α) (l : List Nat) :
    (l.flatMap f).findSome? g = l.findSome? (fun i => (f i).findSome? g) := by
  induction l with
  | nil => simp
  | cons i rest ih =>
    simp only [List.flatMap_cons, List.findSome?_append, List.findSome?_cons, ih]
    cases h : (f i).findSome? g <;> simp [h]

theorem libLookup_spec (mods : Mods) (name : String) (d : Nat) :
    ∀ k, depthOk mods d k = true → libLookup mods name d k = .ok (firstDef mods name (dfs mods d k)) := by
  induction d with
  | zero =>
    intro k hk
    unfold depthOk at hk
    unfold libLookup dfs firstDef
    cases hm : mods[k]? with
    | none => simp [hm] at hk
    | some m =>
      simp only [hm] at hk ⊢
      have hinc : m.includes = [] := by simpa using hk
      cases hg : m.globals.lookup name with
      | some g => simp [ownDef, hm, hg]
      | none => simp [ownDef, hm, hg, hinc]
  | succ d ih =>
    intro k hk
    unfold depthOk at hk
    unfold libLookup dfs
    cases hm : mods[k]? with
    | none => simp [hm] at hk
    | some m =>
      simp only [hm] at hk ⊢
      have hall : ∀ i ∈ m.includes, depthOk mods d i = true := by
        simpa [List.all_eq_true] using hk
      cases hg : m.globals.lookup name with
      | some g => simp [firstDef, ownDef, hm, hg]
      | none =>
        cases hinc : m.includes with
        | nil => simp [firstDef, ownDef, hm, hg]
        | cons i rest =>
          simp only []
          have hspec := firstOf_spec (libLookup mods name d) (fun i => firstDef mods name (dfs mods d i))
            (i :: rest) (fun j hj => ih j (hall j (by rw [hinc]; exact hj)))
          rw [hspec]
          congr 1
          have hown : ownDef mods name k = none := by simp [ownDef, hm, hg]
          have e : firstDef mods name (k :: List.flatMap (dfs mods d) (i :: rest)) =
              firstDef mods name (List.flatMap (dfs mods d) (i :: rest)) := by
            unfold firstDef; rw [List.findSome?_cons, hown]
          rw [e]
          unfold firstDef
          rw [findSome_flatMap]


/-- The integer constant a module itself defines under `name`. -/
def ownConst (mods : Mods) (name : String) (j : Nat) : Option Int :=
  match mods[j]? with
  | none => none
  | some m => match m.globals.lookup name with
    | some (.intConst v) => some v
    | _ => none

/-- No module of the list defines `name` as a function / variable / non-integer constant. -/
def NoOther (mods : Mods) (name : String) (js : List Nat) : Prop :=
  ∀ j ∈ js, ∀ m, mods[j]? = some m → ∀ id, m.globals.lookup name ≠ some (.other id)

theorem mem_dfs_succ (mods : Mods) (d k : Nat) (m : Module) (hm : mods[k]? = some m) (i j : Nat)
    (hi : i ∈ m.includes) (hj : j ∈ dfs mods d i) : j ∈ dfs mods (d + 1) k := by
  unfold dfs
  simp only [hm, List.mem_cons, List.mem_flatMap]
  exact Or.inr ⟨i, hi, hj⟩

theorem dfs_succ (mods : Mods) (d k : Nat) (m : Module) (hm : mods[k]? = some m) :
    dfs mods (d + 1) k = k :: m.includes.flatMap (dfs mods d) := by
  rw [dfs]; simp [hm]

theorem self_mem_dfs (mods : Mods) (d k : Nat) : k ∈ dfs mods d k := by
  cases d with
  | zero => simp [dfs]
  | succ d => unfold dfs; cases mods[k]? <;> simp

theorem fetchConst_spec (mods : Mods) (name : String) (d : Nat) :
    ∀ k, depthOk mods d k = true → NoOther mods name (dfs mods d k) →
      fetchConst mods name d k = .ok ((dfs mods d k).findSome? (ownConst mods name)) := by
  induction d with
  | zero =>
    intro k hk hno
    unfold depthOk at hk
    unfold fetchConst dfs
    cases hm : mods[k]? with
    | none => simp [hm] at hk
    | some m =>
      simp only [hm] at hk ⊢
      have hinc : m.includes = [] := by simpa using hk
      cases hg : m.globals.lookup name with
      | some g =>
        cases g with
        | intConst v => simp [ownConst, hm, hg]
        | other id => exact absurd hg (hno k (by simp [dfs]) m hm id)
      | none => simp [ownConst, hm, hg, hinc]
  | succ d ih =>
    intro k hk hno
    unfold depthOk at hk
    unfold fetchConst
    cases hm : mods[k]? with
    | none => simp [hm] at hk
    | some m =>
      simp only [hm] at hk ⊢
      have hall : ∀ i ∈ m.includes, depthOk mods d i = true := by
        simpa [List.all_eq_true] using hk
      have hdfs : dfs mods (d + 1) k = k :: m.includes.flatMap (dfs mods d) := dfs_succ mods d k m hm
      cases hg : m.globals.lookup name with
      | some g =>
        cases g with
        | intConst v => simp [hdfs, ownConst, hm, hg]
        | other id => exact absurd hg (hno k (self_mem_dfs mods (d + 1) k) m hm id)
      | none =>
        have hown : ownConst mods name k = none := by simp [ownConst, hm, hg]
        cases hinc : m.includes with
        | nil => simp [hdfs, hinc, hown]
        | cons i rest =>
          simp only []
          have hspec := firstOf_spec (fetchConst mods name d)
            (fun i => (dfs mods d i).findSome? (ownConst mods name))
            (i :: rest) (fun j hj => ih j (hall j (by rw [hinc]; exact hj))
              (fun j' hj' => hno j' (mem_dfs_succ mods d k m hm j j' (by rw [hinc]; exact hj) hj')))
          have e : (k :: List.flatMap (dfs mods d) m.includes).findSome? (ownConst mods name) =
              (List.flatMap (dfs mods d) (i :: rest)).findSome? (ownConst mods name) := by
            rw [List.findSome?_cons, hown, hinc]
          rw [hspec, hdfs, e, findSome_flatMap]


/-- Well-formedness of the tables of a family of generated modules w.r.t. one struct/union tag:
    the tag has one kind, one origin (the module where it is not external), and every external
    entry is backed by an entry in one of the module's includes (Parser.include copies every
    declaration of the included parser, own or inherited). -/
structure WF (mods : Mods) (name : String) (isUnion : Bool) (o : ObjId) : Prop where
  kind : ∀ (j : Nat) (m : Module) (s : SDecl), mods[j]? = some m → m.structs.lookup name = some s → s.isUnion = isUnion
  origin : ∀ (j : Nat) (m : Module) (s : SDecl), mods[j]? = some m → m.structs.lookup name = some s → s.external = false → s.obj = o
  backed : ∀ (j : Nat) (m : Module) (s : SDecl), mods[j]? = some m → m.structs.lookup name = some s → s.external = true →
    ∃ i ∈ m.includes, ∃ (mi : Module) (si : SDecl), mods[i]? = some mi ∧ mi.structs.lookup name = some si

theorem depthOk_some (mods : Mods) (d k : Nat) (h : depthOk mods d k = true) : ∃ m, mods[k]? = some m := by
  cases d <;> unfold depthOk at h <;> cases hm : mods[k]? <;> simp [hm] at h ⊢

theorem fetchList_origin (mods : Mods) (name : String) (isUnion : Bool) (o : ObjId)
    (wf : WF mods name isUnion o) (d : Nat)
    (ih : ∀ (k : Nat) (m : Module) (s : SDecl), depthOk mods d k = true → mods[k]? = some m → m.structs.lookup name = some s →
      s.external = true → fetch mods name isUnion d m.includes = .ok (some o))
    (l : List Nat) (hl : ∀ i ∈ l, depthOk mods d i = true)
    (hex : ∃ i ∈ l, ∃ (mi : Module) (si : SDecl), mods[i]? = some mi ∧ mi.structs.lookup name = some si) :
    fetchList mods name isUnion (fetch mods name isUnion d) l = .ok (some o) := by
  induction l with
  | nil => obtain ⟨i, hi, _⟩ := hex; simp at hi
  | cons i rest ihl =>
    obtain ⟨mi, hmi⟩ := depthOk_some mods d i (hl i (by simp))
    unfold fetchList
    simp only [hmi]
    cases hlk : mi.structs.lookup name with
    | none =>
      simp only []
      apply ihl (fun j hj => hl j (by simp [hj]))
      obtain ⟨j, hj, mj, sj, hmj, hsj⟩ := hex
      rcases List.mem_cons.mp hj with rfl | hjr
      · rw [hmi] at hmj; cases hmj; rw [hlk] at hsj; cases hsj
      · exact ⟨j, hjr, mj, sj, hmj, hsj⟩
    | some s1 =>
      simp only []
      have hk := wf.kind i mi s1 hmi hlk
      cases hext : s1.external with
      | false =>
        have := wf.origin i mi s1 hmi hlk hext
        simp [hext, hk, this]
      | true =>
        have := ih i mi s1 (hl i (by simp)) hmi hlk hext
        simp [hext, this]

theorem fetch_origin (mods : Mods) (name : String) (isUnion : Bool) (o : ObjId)
    (wf : WF mods name isUnion o) (d : Nat) :
    ∀ (k : Nat) (m : Module) (s : SDecl), depthOk mods d k = true → mods[k]? = some m →
      m.structs.lookup name = some s →
      s.external = true → fetch mods name isUnion d m.includes = .ok (some o) := by
  induction d with
  | zero =>
    intro k m s hk hm hs hext
    obtain ⟨i, hi, _⟩ := wf.backed k m s hm hs hext
    unfold depthOk at hk
    simp only [hm] at hk
    have : m.includes = [] := by simpa using hk
    rw [this] at hi; simp at hi
  | succ d ih =>
    intro k m s hk hm hs hext
    obtain ⟨i, hi, mi, si, hmi, hsi⟩ := wf.backed k m s hm hs hext
    unfold depthOk at hk
    simp only [hm] at hk
    have hall : ∀ j ∈ m.includes, depthOk mods d j = true := by
      simpa [List.all_eq_true] using hk
    cases hinc : m.includes with
    | nil => rw [hinc] at hi; simp at hi
    | cons i0 rest0 =>
      rw [fetch]
      rw [← hinc]
      exact fetchList_origin mods name isUnion o wf d ih m.includes hall ⟨i, hi, mi, si, hmi, hsi⟩


/-- Decidable form of `WF` for concrete tables. -/
def wfCheck (mods : Mods) (name : String) (isUnion : Bool) (o : ObjId) : Bool :=
  mods.all fun m =>
    match m.structs.lookup name with
    | none => true
    | some s =>
      s.isUnion == isUnion && (s.external || s.obj == o) &&
      (!s.external || m.includes.any fun i =>
        match mods[i]? with
        | some mi => (mi.structs.lookup name).isSome
        | none => false)

theorem wf_of_check (mods : Mods) (name : String) (isUnion : Bool) (o : ObjId)
    (h : wfCheck mods name isUnion o = true) : WF mods name isUnion o := by
  unfold wfCheck at h
  rw [List.all_eq_true] at h
  have key : ∀ (j : Nat) (m : Module) (s : SDecl), mods[j]? = some m → m.structs.lookup name = some s →
      (s.isUnion == isUnion && (s.external || s.obj == o) &&
      (!s.external || m.includes.any fun i =>
        match mods[i]? with
        | some mi => (mi.structs.lookup name).isSome
        | none => false)) = true := by
    intro j m s hm hs
    have := h m (List.mem_of_getElem? hm)
    simpa [hs] using this
  refine ⟨?_, ?_, ?_⟩
  · intro j m s hm hs
    have := key j m s hm hs
    simp only [Bool.and_eq_true, beq_iff_eq] at this
    exact this.1.1
  · intro j m s hm hs hext
    have := key j m s hm hs
    simp only [Bool.and_eq_true, Bool.or_eq_true, beq_iff_eq, hext] at this
    rcases this.1.2 with h1 | h1
    · cases h1
    · exact h1
  · intro j m s hm hs hext
    have := key j m s hm hs
    simp only [Bool.and_eq_true, Bool.or_eq_true, hext, Bool.not_true, List.any_eq_true] at this
    rcases this.2 with h1 | ⟨i, hi, h2⟩
    · cases h1
    · refine ⟨i, hi, ?_⟩
      cases hmi : mods[i]? with
      | none => simp [hmi] at h2
      | some mi =>
        simp only [hmi] at h2
        cases hsi : mi.structs.lookup name with
        | none => simp [hsi] at h2
        | some si => exact ⟨mi, si, rfl, hsi⟩

theorem findSome_unique {α : Type} (f : Nat → Option α) (l : List Nat) (v : α)
    (hex : ∃ j ∈ l, f j = some v) (hall : ∀ j ∈ l, ∀ w, f j = some w → w = v) :
    l.findSome? f = some v := by
  induction l with
  | nil => obtain ⟨j, hj, _⟩ := hex; simp at hj
  | cons i rest ih =>
    rw [List.findSome?_cons]
    cases hf : f i with
    | some w => simp [hall i (by simp) w hf]
    | none =>
      simp only []
      apply ih
      · obtain ⟨j, hj, hv⟩ := hex
        rcases List.mem_cons.mp hj with rfl | hjr
        · rw [hf] at hv; cases hv
        · exact ⟨j, hjr, hv⟩
      · exact fun j hj => hall j (by simp [hj])

end CffiVerif.Include
