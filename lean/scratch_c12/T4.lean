import CffiVerif.Model.GenConst
import CffiVerif.Proofs.CheckInt
namespace T
open CffiVerif.CheckIntOps CffiVerif.GenConst CffiVerif.Generated.VerifyMacros CffiVerif

theorem cLL_small (a : Int) (h1 : -9223372036854775808 ≤ a) (h2 : a < 9223372036854775808) : cLL a = a := by
  unfold cLL two64 two63; split <;> omega
theorem cLL_big (a : Int) (h1 : 9223372036854775808 ≤ a) (h2 : a < 18446744073709551616) :
    cLL a = a - 18446744073709551616 := by
  unfold cLL two64 two63; split <;> omega
theorem cULL_nonneg (a : Int) (h1 : 0 ≤ a) (h2 : a < 18446744073709551616) : cULL a = a := by
  unfold cULL two64; omega
theorem cULL_neg (a : Int) (h1 : -9223372036854775808 ≤ a) (h2 : a < 0) : cULL a = a + 18446744073709551616 := by
  unfold cULL two64; omega

theorem cpy_const_decodes_value (x : Int) (hx : CheckInt.InRange x) : cpyFromCIntConst x = x := by
  unfold CheckInt.InRange two63 two64 at hx
  have e1 : cULL longMax = 9223372036854775807 := by decide
  have e2 : cLL longMin = -9223372036854775808 := by decide
  unfold cpyFromCIntConst
  rw [e1, e2]
  unfold cLong
  by_cases h1 : 0 < x
  · rw [cULL_nonneg x (by omega) hx.2]
    by_cases h2 : x < 9223372036854775808
    · rw [cLL_small x (by omega) h2]; simp [cGt, cLe, cBool, h1]
    · simp [cGt, cLe, cBool, h1]; omega
  · rw [cLL_small x hx.1 (by omega)]
    simp [cGt, cGe, cBool, h1]

theorem gen_const_decodes_value (x : Int) (hx : CheckInt.InRange x) : genConst x = x := by
  unfold CheckInt.InRange two63 two64 at hx
  unfold genConst loadConstant genOutValue genNegative
  by_cases h2 : x < 9223372036854775808
  · rw [cLL_small x hx.1 h2]
    simp [cLe, cBool, two64]; omega
  · rw [cLL_big x (by omega) hx.2]
    simp [cLe, cBool, two64]; omega

theorem gen_enum_check_iff (a e : Int) (ha : CheckInt.InRange a) (he : CheckInt.InRange e) :
    genCheckFires e a = true ↔ a ≠ e := by
  unfold CheckInt.InRange two63 two64 at ha he
  unfold genCheckFires genCheckNonpos genCheckPos cLong
  by_cases h1 : e ≤ 0
  · by_cases h2 : 0 < a
    · simp [h1, cOrL, cGt, cBool, h2]; omega
    · rw [cLL_small a ha.1 (by omega)]
      simp [h1, cOrL, cGt, cNe, cBool, h2]
  · by_cases h2 : a ≤ 0
    · simp [h1, cOrL, cLe, cBool, h2]; omega
    · rw [show cULong a = a from cULL_nonneg a (by omega) ha.2]
      simp [h1, cOrL, cLe, cNe, cBool, h2]
end T
