import CffiVerif.Model.CInt
namespace CffiVerif.CInt

theorem toLE_length (k n : Nat) : (toLE k n).length = k := by
  induction k generalizing n with
  | zero => rfl
  | succ k ih => simp [toLE, ih]

theorem fromLE_toLE (k n : Nat) : fromLE (toLE k n) = n % 256 ^ k := by
  induction k generalizing n with
  | zero => simp [toLE, fromLE, Nat.mod_one]
  | succ k ih =>
    simp only [toLE, fromLE, ih]
    have h : (UInt8.ofNat (n % 256)).toNat = n % 256 := by
      simp [UInt8.toNat_ofNat']
    rw [h, Nat.pow_succ, Nat.mul_comm (256 ^ k) 256, Nat.mod_mul]

theorem readRawUnsigned_writeRaw (x : Int) (w : Width) :
    readRawUnsigned (writeRaw x w) = x % 2 ^ w.bits := by
  unfold readRawUnsigned writeRaw wrapU
  rw [fromLE_toLE]
  cases w <;> simp [Width.bits, Width.bytes] <;> omega

example (x : Int) : wrapS 8 x = x ↔ -128 ≤ x ∧ x ≤ 127 := by
  unfold wrapS; simp; omega
