import CffiVerif.Model.CInt
namespace CffiVerif.CInt
example (x : Int) (h : ((fromLE (writeRaw x .w16) : Nat) : Int) = wrapU Width.w16.bits x) (hl : (writeRaw x .w16).length = 2) :
   readRawSigned (writeRaw x .w16) = wrapS Width.w16.bits x := by
  unfold readRawSigned
  rw [h, hl]
  simp [Width.bits, Width.bytes, wrapS, wrapU]
  first | rfl | (congr 1) | skip
  trace_state
  sorry
end CffiVerif.CInt
