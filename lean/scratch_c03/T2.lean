import CffiVerif.Model.CInt
namespace CffiVerif.CInt

theorem toLE_length (k n : Nat) : (toLE k n).length = k := by
  induction k generalizing n with
  | zero => rfl
  | succ k ih => simp [toLE, ih]

theorem fromLE_toLE (k n : Nat) : fromLE (toLE k n) = n % 256 ^ k := by
  induction k generalizing n with
  | zero => simp [toLE, fromLE, Nat.mod_one]
  | succ k ih =>
    simp only [toLE, fromLE, ih]
    have h : (UInt8.ofNat (n % 256)).toNat = n % 256 := by
      simp [UInt8.toNat_ofNat']
    rw [h, Nat.pow_succ, Nat.mul_comm (256 ^ k) 256, Nat.mod_mul]

theorem writeRaw_length (x : Int) (w : Width) : (writeRaw x w).length = w.bytes := by
  simp [writeRaw, toLE_length]

theorem readRawUnsigned_writeRaw (x : Int) (w : Width) :
    readRawUnsigned (writeRaw x w) = wrapU w.bits x := by
  unfold readRawUnsigned writeRaw wrapU
  rw [fromLE_toLE]
  cases w <;> simp [Width.bits, Width.bytes] <;> omega

theorem readRawSigned_writeRaw (x : Int) (w : Width) :
    readRawSigned (writeRaw x w) = wrapS w.bits x := by
  have h := readRawUnsigned_writeRaw x w
  unfold readRawUnsigned at h
  unfold readRawSigned
  rw [h, writeRaw_length]
  cases w <;> simp [Width.bits, Width.bytes, wrapS, wrapU] <;> rfl

theorem poke_take (data bs : List UInt8) : (poke data bs).take bs.length = bs := by
  simp [poke]

theorem poke_drop (data bs : List UInt8) : (poke data bs).drop bs.length = data.drop bs.length := by
  simp [poke]

theorem poke_length (data bs : List UInt8) (h : bs.length ≤ data.length) :
    (poke data bs).length = data.length := by
  simp [poke]; omega

end CffiVerif.CInt
