import CffiVerif.Proofs.CInt
import CffiVerif.Model.IntPaths
namespace CffiVerif.IntPaths
open CffiVerif.CInt CffiVerif.Generated

theorem so8 (t : BitVec 64) : IntMacros.signedOverflow 8 t = decide (t.toInt > 127 ∨ t.toInt < -128) := by
  simp [IntMacros.signedOverflow, BitVec.slt_eq_decide]
theorem so64 (t : BitVec 64) : IntMacros.signedOverflow 64 t = decide (t.toInt > 2^63-1 ∨ t.toInt < -2^63) := by
  simp [IntMacros.signedOverflow, BitVec.slt_eq_decide]
theorem uo8 (t : BitVec 64) : IntMacros.unsignedOverflow 8 t = decide (t.toNat > 255) := by
  simp [IntMacros.unsignedOverflow, BitVec.ult_eq_decide]
theorem uo64 (t : BitVec 64) : IntMacros.unsignedOverflow 64 t = decide (t.toNat > 2^64-1) := by
  simp [IntMacros.unsignedOverflow, BitVec.ult_eq_decide]
end CffiVerif.IntPaths
