import CffiVerif.Proofs.IntPaths
namespace CffiVerif.IntPaths
open CffiVerif.CInt CffiVerif.Generated

theorem toCBool_eq (v : Int) :
    toCBool v = if v = 0 then (0, none) else if v = 1 then (1, none) else (1, some .overflow) := by
  unfold toCBool
  rcases myAsLongLong_cases v with ⟨h1, h2, e⟩ | ⟨h, e⟩
  · rw [e]
  · rw [e]
    have h0 : ¬ v = 0 := by omega
    have h1 : ¬ v = 1 := by omega
    simp [h0, h1]

theorem apiArg_bool (name : String) (w : Width) (v : Int) :
    apiArg ⟨name, w, .bool⟩ v =
      if 0 ≤ v ∧ v ≤ 1 then .ok (writeRaw v w) else .error .overflow := by
  simp only [apiArg, toCBool_eq]
  by_cases h0 : v = 0
  · subst h0; simp
  · by_cases h1 : v = 1
    · subst h1; simp
    · have : ¬ (0 ≤ v ∧ v ≤ 1) := by omega
      simp [h0, h1, this]

/-- closed form of `convertFromObject` on the integer kinds -/
theorem convert_eq (T : IntType) (hT : T.isInt = true) (data : List UInt8) (v : Int) :
    convertFromObject T data v =
      if T.InRange v then (poke data (writeRaw v T.width), .ok ()) else (data, .error .overflow) := by
  rcases T with ⟨name, w, k⟩
  cases k
  · rw [convert_signed]
    simp only [IntType.InRange, IntType.lo, IntType.hi, IntType.bits]
    cases w <;> simp [Width.bits, Width.bytes] <;> congr 1 <;> simp <;> omega
  · rw [convert_unsigned]
    simp only [IntType.InRange, IntType.lo, IntType.hi, IntType.bits]
    cases w <;> simp [Width.bits, Width.bytes] <;> congr 1 <;> simp <;> omega
  · rw [convert_bool]
    simp only [IntType.InRange, IntType.lo, IntType.hi]
    rfl
  · simp [IntType.isInt] at hT
  · simp [IntType.isInt] at hT
end CffiVerif.IntPaths
