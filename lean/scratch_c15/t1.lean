import CffiVerif.Model.Utf16
namespace CffiVerif.Utf16

theorem or_D800 (x : Nat) (hx : x < 1024) : 0xD800 ||| x = 0xD800 + x := by
  have := Nat.two_pow_add_eq_or_of_lt (i := 10) (b := x) (by omega) 54
  rw [show (2:Nat)^10 * 54 = 0xD800 from by decide] at this
  omega

theorem or_DC00 (x : Nat) (hx : x < 1024) : 0xDC00 ||| x = 0xDC00 + x := by
  have := Nat.two_pow_add_eq_or_of_lt (i := 10) (b := x) (by omega) 55
  rw [show (2:Nat)^10 * 55 = 0xDC00 from by decide] at this
  omega

theorem and_3FF (x : Nat) : x &&& 0x3FF = x % 1024 := by
  have := Nat.and_two_pow_sub_one_eq_mod x 10
  simpa using this

theorem shl10_or (a b : Nat) (hb : b < 1024) : (a <<< 10) ||| b = a * 1024 + b := by
  have := Nat.shiftLeft_add_eq_or_of_lt (i := 10) (b := b) (by omega) a
  rw [← this, Nat.shiftLeft_eq]

theorem shr10 (a : Nat) : a >>> 10 = a / 1024 := by
  rw [Nat.shiftRight_eq_div_pow]

end CffiVerif.Utf16
