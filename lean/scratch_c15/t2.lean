import CffiVerif.Model.Utf16
namespace CffiVerif.Utf16

theorem or_D800 (x : Nat) (hx : x < 1024) : 0xD800 ||| x = 0xD800 + x := by
  have := Nat.two_pow_add_eq_or_of_lt (i := 10) (b := x) (by omega) 54
  rw [show (2:Nat)^10 * 54 = 0xD800 from by decide] at this
  omega

theorem or_DC00 (x : Nat) (hx : x < 1024) : 0xDC00 ||| x = 0xDC00 + x := by
  have := Nat.two_pow_add_eq_or_of_lt (i := 10) (b := x) (by omega) 55
  rw [show (2:Nat)^10 * 55 = 0xDC00 from by decide] at this
  omega

theorem and_3FF (x : Nat) : x &&& 0x3FF = x % 1024 := by
  have := Nat.and_two_pow_sub_one_eq_mod x 10
  simpa using this

theorem shl10_or (a b : Nat) (hb : b < 1024) : (a <<< 10) ||| b = a * 1024 + b := by
  have := Nat.shiftLeft_add_eq_or_of_lt (i := 10) (b := b) (by omega) a
  rw [← this, Nat.shiftLeft_eq]

theorem shr10 (a : Nat) : a >>> 10 = a / 1024 := by
  rw [Nat.shiftRight_eq_div_pow]

theorem isHigh_iff (u : Nat) : isHigh u = true ↔ 0xD800 ≤ u ∧ u ≤ 0xDBFF := by simp [isHigh]
theorem isLow_iff (u : Nat) : isLow u = true ↔ 0xDC00 ≤ u ∧ u ≤ 0xDFFF := by simp [isLow]

/-- The two units written for an astral code point, in arithmetic form. -/
theorem hi_eq (c : Nat) (h1 : 0xFFFF < c) (h2 : c ≤ 0x10FFFF) :
    0xD800 ||| ((c - 0x10000) >>> 10) = 0xD800 + (c - 0x10000) / 1024 := by
  rw [shr10, or_D800 _ (by omega)]

theorem lo_eq (c : Nat) :
    0xDC00 ||| ((c - 0x10000) &&& 0x3FF) = 0xDC00 + (c - 0x10000) % 1024 := by
  rw [and_3FF, or_DC00 _ (by omega)]

/-- The value the decoder computes from a surrogate pair, in arithmetic form. -/
theorem join_eq (a b : Nat) : (((a &&& 0x3FF) <<< 10) ||| (b &&& 0x3FF)) + 0x10000
    = (a % 1024) * 1024 + b % 1024 + 0x10000 := by
  rw [and_3FF, and_3FF, shl10_or _ _ (by omega)]

theorem encode16_cons_astral (c : Nat) (cs : Str) (h1 : 0xFFFF < c) (h2 : c ≤ 0x10FFFF) :
    encode16 (c :: cs) = (match encode16 cs with
      | .ok r => .ok ((0xD800 + (c - 0x10000) / 1024) :: (0xDC00 + (c - 0x10000) % 1024) :: r)
      | .error e => .error e) := by
  rw [encode16]
  have : ¬ c > 0x10FFFF := by omega
  simp only [show c > 0xFFFF from h1, if_true, this, if_false, hi_eq c h1 h2, lo_eq]
  cases encode16 cs <;> rfl

theorem encode16_cons_bmp (c : Nat) (cs : Str) (h1 : c ≤ 0xFFFF) :
    encode16 (c :: cs) = (match encode16 cs with
      | .ok r => .ok (c :: r)
      | .error e => .error e) := by
  rw [encode16]
  have : ¬ c > 0xFFFF := by omega
  simp only [this, if_false]
  cases encode16 cs <;> rfl

theorem encode16_ok_of_valid (s : Str) (hv : ValidStr s) : ∃ u, encode16 s = .ok u := by
  induction s with
  | nil => exact ⟨[], rfl⟩
  | cons c cs ih =>
    obtain ⟨r, hr⟩ := ih (fun x hx => hv x (by simp [hx]))
    have hc : c ≤ 0x10FFFF := hv c (by simp)
    by_cases h : c ≤ 0xFFFF
    · exact ⟨_, by rw [encode16_cons_bmp c cs h, hr]⟩
    · exact ⟨_, by rw [encode16_cons_astral c cs (by omega) hc, hr]⟩

theorem encode16_length (s : Str) (u : Units) (h : encode16 s = .ok u) : u.length = size16 s := by
  induction s generalizing u with
  | nil => simp [encode16] at h; subst h; rfl
  | cons c cs ih =>
    by_cases hb : c ≤ 0xFFFF
    · rw [encode16_cons_bmp c cs hb] at h
      cases hr : encode16 cs with
      | error e => simp [hr] at h
      | ok r =>
        simp only [hr] at h
        injection h with h; subst h
        have := ih r hr
        have hn : ¬ c > 0xFFFF := by omega
        simp only [size16, countAstral, List.length_cons, hn, if_false] at *
        omega
    · by_cases hv : c ≤ 0x10FFFF
      · rw [encode16_cons_astral c cs (by omega) hv] at h
        cases hr : encode16 cs with
        | error e => simp [hr] at h
        | ok r =>
          simp only [hr] at h
          injection h with h; subst h
          have := ih r hr
          have hn : c > 0xFFFF := by omega
          simp only [size16, countAstral, List.length_cons, hn, if_true] at *
          omega
      · rw [encode16] at h
        have h1 : c > 0xFFFF := by omega
        have h2 : c > 0x10FFFF := by omega
        simp [h1, h2] at h

end CffiVerif.Utf16
