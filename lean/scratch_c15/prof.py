import sys, time, cProfile, pstats
sys.path.insert(0, '/verif/harness')
import common, corr_C15
ctx = common.Ctx("C15", "quick", 0, "/verif/lean/scratch_c15")
ctx.classes = corr_C15.CLASSES
t=time.time()
corr_C15._register_findings(ctx)
ctx.driver = lambda lines, name=None: ["x"]*len(lines)
cProfile.run("corr_C15.run_cases(ctx, 5000, True)", "/verif/lean/scratch_c15/prof.out")
print(time.time()-t)
pstats.Stats("/verif/lean/scratch_c15/prof.out").sort_stats("cumtime").print_stats(15)
