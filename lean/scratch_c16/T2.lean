import CffiVerif.Model.Mem
namespace CffiVerif.Mem

theorem copyFwd_spec (n : Nat) : ∀ (m : Bytes) (dst src : Nat), dst ≤ src → dst + n ≤ m.length →
    src + n ≤ m.length →
    ∃ r, copyFwd m dst src n = some r ∧ r.length = m.length ∧
      ∀ i, r[i]? = if dst ≤ i ∧ i < dst + n then m[src + (i - dst)]? else m[i]? := by
  induction n with
  | zero =>
    intro m dst src _ _ _
    refine ⟨m, rfl, rfl, ?_⟩
    intro i
    have : ¬ (dst ≤ i ∧ i < dst + 0) := by omega
    rw [if_neg this]
  | succ n ih =>
    intro m dst src hds hd hs
    have hsrc : src < m.length := by omega
    simp only [copyFwd, List.getElem?_eq_getElem hsrc]
    have hdl : dst < m.length := by omega
    simp only [hdl, if_true]
    obtain ⟨r, hr, hlen, hget⟩ := ih (m.set dst m[src]) (dst + 1) (src + 1) (by omega)
      (by simp; omega) (by simp; omega)
    refine ⟨r, hr, by simpa using hlen, ?_⟩
    intro i
    rw [hget i]
    simp only [List.getElem?_set]
    by_cases h1 : dst + 1 ≤ i ∧ i < dst + 1 + n
    · have h2 : dst ≤ i ∧ i < dst + (n + 1) := by omega
      have h3 : ¬ dst = src + 1 + (i - (dst + 1)) := by omega
      simp only [h1, h2, h3, and_self, if_true, if_false]
      congr 1; omega
    · by_cases h4 : i = dst
      · subst h4
        have h2 : i ≤ i ∧ i < i + (n + 1) := by omega
        simp [h1, h2, hdl, List.getElem?_eq_getElem hsrc]
      · have h2 : ¬ (dst ≤ i ∧ i < dst + (n + 1)) := by omega
        have h5 : ¬ dst = i := by omega
        simp only [h1, h2, h5, if_false]

theorem copyBwd_spec (n : Nat) : ∀ (m : Bytes) (dst src : Nat), src < dst → dst + n ≤ m.length →
    src + n ≤ m.length →
    ∃ r, copyBwd m dst src n = some r ∧ r.length = m.length ∧
      ∀ i, r[i]? = if dst ≤ i ∧ i < dst + n then m[src + (i - dst)]? else m[i]? := by
  induction n with
  | zero =>
    intro m dst src _ _ _
    refine ⟨m, rfl, rfl, ?_⟩
    intro i
    have : ¬ (dst ≤ i ∧ i < dst + 0) := by omega
    rw [if_neg this]
  | succ n ih =>
    intro m dst src hds hd hs
    have hsrc : src + n < m.length := by omega
    simp only [copyBwd, List.getElem?_eq_getElem hsrc]
    have hdl : dst + n < m.length := by omega
    simp only [hdl, if_true]
    obtain ⟨r, hr, hlen, hget⟩ := ih (m.set (dst + n) m[src + n]) dst src hds
      (by simp; omega) (by simp; omega)
    refine ⟨r, hr, by simpa using hlen, ?_⟩
    intro i
    rw [hget i]
    simp only [List.getElem?_set]
    by_cases h1 : dst ≤ i ∧ i < dst + n
    · have h2 : dst ≤ i ∧ i < dst + (n + 1) := by omega
      have h3 : ¬ dst + n = src + (i - dst) := by omega
      simp only [h1, h2, h3, and_self, if_true, if_false]
    · by_cases h4 : i = dst + n
      · subst h4
        have h2 : dst ≤ dst + n ∧ dst + n < dst + (n + 1) := by omega
        have h6 : src + (dst + n - dst) = src + n := by omega
        simp [h2, hdl, List.getElem?_eq_getElem hsrc]
      · have h2 : ¬ (dst ≤ i ∧ i < dst + (n + 1)) := by omega
        have h5 : ¬ dst + n = i := by omega
        simp only [h1, h2, h5, if_false]

theorem memmove_eq_copyViaTemp (m : Bytes) (dst src n : Nat)
    (hd : dst + n ≤ m.length) (hs : src + n ≤ m.length) :
    memmove m dst src n = copyViaTemp m dst src n := by
  have key : ∀ r : Bytes, r.length = m.length →
      (∀ i, r[i]? = if dst ≤ i ∧ i < dst + n then m[src + (i - dst)]? else m[i]?) →
      some r = copyViaTemp m dst src n := by
    intro r hlen hget
    unfold copyViaTemp read
    rw [if_pos hs]
    have htl : ((m.drop src).take n).length = n := by simp; omega
    simp only [write, htl, if_pos hd]
    congr 1
    apply List.ext_getElem?
    intro i
    rw [hget i]
    simp only [List.getElem?_append, List.length_append, List.length_take, List.getElem?_take,
      List.getElem?_drop, List.length_drop]
    by_cases h1 : i < dst
    · have : ¬ (dst ≤ i ∧ i < dst + n) := by omega
      have h2 : i < min dst m.length + min n (m.length - src) := by omega
      have h3 : i < min dst m.length := by omega
      simp only [this, h2, h3, h1, if_true, if_false]
    · by_cases h2 : i < dst + n
      · have h3 : dst ≤ i ∧ i < dst + n := by omega
        have h4 : i < min dst m.length + min n (m.length - src) := by omega
        have h5 : ¬ i < min dst m.length := by omega
        have h6 : i - min dst m.length < n := by omega
        have h7 : src + (i - min dst m.length) = src + (i - dst) := by omega
        simp only [h3, h4, h5, h6, h7, and_self, if_true, if_false]
      · have h3 : ¬ (dst ≤ i ∧ i < dst + n) := by omega
        have h4 : ¬ i < min dst m.length + min n (m.length - src) := by omega
        have h5 : dst + n + (i - (min dst m.length + min n (m.length - src))) = i := by omega
        simp only [h3, h4, h5, if_false]
  unfold memmove
  by_cases h : dst ≤ src
  · obtain ⟨r, hr, hlen, hget⟩ := copyFwd_spec n m dst src h hd hs
    rw [if_pos h, hr]; exact key r hlen hget
  · obtain ⟨r, hr, hlen, hget⟩ := copyBwd_spec n m dst src (by omega) hd hs
    rw [if_neg h, hr]; exact key r hlen hget

end CffiVerif.Mem
