import CffiVerif.Model.Mem
namespace CffiVerif.Mem

theorem write_length {m : Bytes} {off : Nat} {bs m' : Bytes} (h : write m off bs = some m') :
    m'.length = m.length := by
  unfold write at h
  split at h
  · injection h with h; subst h
    simp only [List.length_append, List.length_take, List.length_drop]; omega
  · cases h

theorem read_write_same {m : Bytes} {off : Nat} {bs m' : Bytes} (h : write m off bs = some m') :
    read m' off bs.length = some bs := by
  have hl := write_length h
  unfold write at h
  split at h
  · rename_i hb
    injection h with h; subst h
    unfold read
    rw [if_pos (by omega)]
    congr 1
    have : (List.take off m).length = off := by simp; omega
    simp [List.drop_append, this]
  · cases h

#check @List.getElem?_set
#check @List.getElem?_take
#check @List.getElem?_drop
#check @List.getElem?_append
#check @List.ext_getElem?
end CffiVerif.Mem
