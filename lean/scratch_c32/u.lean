import CffiVerif.Model.GenSrcIO
open CffiVerif.GenSrcIO
#eval utf8Encode [0x41, 0xe9, 0x20ac, 0x1d11e]
#eval utf8Decode [65, 195, 169, 226, 130, 172, 240, 157, 132, 158]
#eval utf8Decode [0xed, 0xa0, 0x80]
#eval utf8Decode [0xc0, 0x80]
#eval utf8Decode [0xf4, 0x90, 0x80, 0x80]
#eval utf8Decode [0xe2, 0x82]
#eval universalNewlines [13, 10, 65, 13, 13, 10, 10, 13]
