import CffiVerif.Model.Flatten
open CffiVerif.Flatten
#eval String.mk ((flatten (.dict [(.str [98], .int (-12)), (.str [97], .list [.int 0, .str [104,105]])])).map Char.ofNat)
#eval parseVal 5 (flatten (.dict [(.str [98], .int (-12)), (.str [97], .list [.int 0, .str [104,105]])]) ++ [1,2])
#eval String.mk ((moduleName (fun _ => 0x36efdf1) [] [120] []).map Char.ofNat)
#eval String.mk ((moduleName (fun _ => 0) [] [120] []).map Char.ofNat)
example : parseVal 5 (flatten (.dict [(.str [98], .int (-12)), (.str [97], .list [.int 0, .str [104,105]])])) = some (.dict [(.str [97], .list [.int 0, .str [104,105]]), (.str [98], .int (-12))], []) := by rfl
