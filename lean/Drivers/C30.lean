import CffiVerif.Model.Tokenizer
import CffiVerif.Model.DefineLiteral
import CffiVerif.Model.ConstErr
import CffiVerif.Model.Proto
open CffiVerif CffiVerif.Proto

/-!
Driver of the C30 models.  Operations (one per line):

* `tok <hex>`        bytes of the string (no terminator; the driver appends it): all tokens up to
                     TOK_END as `kind:offset:size:following:commas`, or `err oob` when the model
                     read outside `s ++ [0]`
* `tokl <hex>`       the same, tokens as `kind:offset:size` only (long strings)
* `std <hex>`        `search_standard_typename` on exactly these bytes: `ok <prim>` / `ok -1` / `err oob`
* `bad <hex> <n>`    `_ffi_bad_type`: `ok <cap> <hex of the bytes stored>` / `err overflow`
* `define <cp,cp,…>` one `#define` value (code points, `-` = empty): `ok <int>` / `ok dotdotdot` / `err CDefError`
* `const <0|1> <name=int,…|-> <prefix form…>`  `_parse_constant`; nodes: `c:<cp,cp,…>` Constant,
                     `u:<op>` UnaryOp, `i:<name>` ID, `b:<op>` BinaryOp, `o` any other node:
                     `ok <int>` / `ok dots` / `err <Kind>`
-/

namespace C30Driver
open CffiVerif.Tokenizer

def kindStr : Kind → String
  | .start => "start" | .eof => "end" | .error => "error" | .ident => "ident"
  | .integer => "integer" | .dotdotdot => "dotdotdot"
  | .punct c => s!"p{c.toNat}"
  | .kw name => name

def tokLine (b : Buf) (ts : List Tok) : Option String :=
  ts.foldlM (fun acc t => do
    let fc ← getFollowingChar b t
    let nc ← numberOfCommas b t
    pure (acc ++ (if acc.isEmpty then "" else " ") ++
      s!"{kindStr t.kind}:{t.p}:{t.size}:{fc.toNat}:{nc}")) ""

def tokLineLight (ts : List Tok) : String :=
  " ".intercalate (ts.map fun t => s!"{kindStr t.kind}:{t.p}:{t.size}")

def codePoints? (s : String) : Option (List Char) :=
  if s == "-" then some [] else
  (s.splitOn ",").mapM fun w => (w.toNat?).map Char.ofNat

open CffiVerif.ConstErr in
/-- prefix form → tree; returns the rest of the words -/
def parseExpr : Nat → List String → Option (Expr × List String)
  | 0, _ => none
  | _, [] => none
  | fuel + 1, w :: rest =>
    if w == "o" then some (.other, rest)
    else if w.startsWith "c:" then (codePoints? (w.drop 2).toString).map fun cs => (.const cs, rest)
    else if w.startsWith "i:" then some (.id (w.drop 2).toString, rest)
    else if w.startsWith "u:" then
      match parseExpr fuel rest with
      | some (e, rest') => some (.unary (w.drop 2).toString e, rest')
      | none => none
    else if w.startsWith "b:" then
      match parseExpr fuel rest with
      | some (l, rest') =>
        match parseExpr fuel rest' with
        | some (r, rest'') => some (.binop (w.drop 2).toString l r, rest'')
        | none => none
      | none => none
    else none

def parseEnv (s : String) : Option (List (String × Int)) :=
  if s == "-" then some [] else
  (s.splitOn ",").mapM fun w =>
    match w.splitOn "=" with
    | [n, v] => (v.toInt?).map fun i => (n, i)
    | _ => none

def excStr : CffiVerif.ConstErr.Exc → String
  | .cdefError => "CDefError" | .ffiError => "FFIError"
  | .overflowError => "OverflowError" | .indexError => "IndexError"

/-- `shlLimit` of the driver: the harness only sends counts ≤ 10^4 or ≥ 2^63·30. -/
def driverShlLimit : Nat := 1000000

def step (_ : Unit) : List String → Unit × String
  | ["tok", h] =>
    match hexBytes? h with
    | some s =>
      let b := s ++ [0]
      ((), match tokens b (s.length + 2) Tok.init with
        | none => "err oob"
        | some ts => match tokLine b ts with
          | none => "err oob"
          | some l => "ok " ++ l)
    | none => ((), "bad-op")
  | ["tokl", h] =>
    match hexBytes? h with
    | some s =>
      ((), match tokens (s ++ [0]) (s.length + 2) Tok.init with
        | none => "err oob"
        | some ts => "ok " ++ tokLineLight ts)
    | none => ((), "bad-op")
  | ["std", h] =>
    match hexBytes? h with
    | some s => ((), match searchStd s 0 s.length with
        | none => "err oob"
        | some none => "ok -1"
        | some (some n) => s!"ok {n}")
    | none => ((), "bad-op")
  | ["bad", h, n] =>
    match hexBytes? h, nat? n with
    | some s, some k => ((), match badType s k with
        | none => "err overflow"
        | some o => s!"ok {o.cap} {bytesHex o.data}")
    | _, _ => ((), "bad-op")
  | ["define", cps] =>
    match codePoints? cps with
    | some v => ((), match CffiVerif.DefineLiteral.processMacro v with
        | .ok (.int n) => s!"ok {n}"
        | .ok .dotdotdot => "ok dotdotdot"
        | .error .cdefError => "err CDefError"
        | .error .valueError => "err ValueError")
    | none => ((), "bad-op")
  | "const" :: pok :: envs :: ws =>
    match parseEnv envs, parseExpr (ws.length + 1) ws with
    | some env, some (e, []) =>
      let envf : CffiVerif.ConstErr.Env := fun n => (env.find? (·.1 == n)).map (·.2)
      ((), match CffiVerif.ConstErr.eval driverShlLimit envf (pok == "1") e with
        | .ok (.int n) => s!"ok {n}"
        | .ok .dots => "ok dots"
        | .error x => "err " ++ excStr x)
    | _, _ => ((), "bad-op")
  | _ => ((), "bad-op")

end C30Driver

def main : IO Unit := runDriver () C30Driver.step
