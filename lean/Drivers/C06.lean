import CffiVerif.Model.Primitives
import CffiVerif.Model.Proto
open CffiVerif CffiVerif.Primitives CffiVerif.Proto

/-- Words must be identifier-shaped (`is_ident_first` / `is_ident_next` without `$`):
the model's token classifier only covers such words. -/
def identWord (w : String) : Bool :=
  match w.toList with
  | [] => false
  | c :: cs => (c.isAlpha || c == '_') && cs.all (fun d => d.isAlphanum || d == '_')

/-- `ctype w…` — the C parser's reading of the word sequence (`ok prim n` / `ok error` / `ok other`);
`index w…` — `PRIMITIVE_TO_INDEX[name]`; `name i` — `primitive_name[i]` as `build_primitive_type` uses it
(spaces printed as `+`); `backend w…` — the row `new_primitive_type(name)` finds:
`ok <ct_size> <ct_length> <kind letter> <fits-long 0/1>`. -/
def step (_ : Unit) : List String → Unit × String
  | "ctype" :: ws =>
    if ws.all identWord then
      ((), match cTypeOfWords (ws.map String.toList) with
        | .prim n => s!"ok prim {n}"
        | .error => "ok error"
        | .other => "ok other")
    else ((), "bad-op")
  | "index" :: ws =>
    ((), match primitiveIndex (" ".intercalate ws) with
      | some n => s!"ok {n}"
      | none => "ok none")
  | ["name", i] =>
    match int? i with
    | some n => ((), match nameOfIndex n with
        | some s => "ok " ++ s.replace " " "+"
        | none => "ok none")
    | none => ((), "bad-op")
  | "backend" :: ws =>
    ((), match backendEntry (" ".intercalate ws) with
      | none => "ok none"
      | some e =>
        match rowFlags e, rowSize e, rowAlign e with
        | some fl, some sz, some al =>
          match kindOfFlags fl, fitsLong fl sz with
          | some k, some fits => s!"ok {sz} {al} {k} {if fits then 1 else 0}"
          | _, _ => "err model-incomplete"
        | _, _, _ => "err model-incomplete")
  | _ => ((), "bad-op")

def main : IO Unit := runDriver () step
