import CffiVerif.Model.Include
import CffiVerif.Model.Proto
open CffiVerif CffiVerif.Proto CffiVerif.Include

/-- Building the table (each answers `ok <n>`):
      `reset`                          empty table
      `newmod <i,j,…|->`               append a module including modules i, j, … (in that order)
      `struct <name> <union 0/1> <external 0/1> <obj>`   add to the last module
      `enum <name> <obj>` · `gint <name> <value>` · `gother <name> <id>`
    Queries:
      `typeof <k> <name>`   → `ok <obj>` | `err <Kind>`          (struct/union tag)
      `enumof <k> <name>`   → `ok <obj>` | `err <Kind>`
      `iconst <k> <name>`   → `ok <v>` | `ok none` | `err <Kind>`  (ffi.integer_const)
      `getattr <k> <name>`  → `ok <module> int <v>` | `ok <module> other <id>` | `err <Kind>`
      `depth <k>`           → `ok 1` iff no include chain from k exceeds the bound -/
def errName : Err → String
  | .recursionOverflow => "RuntimeError"
  | .ffiError => "FFIError"
  | .importError => "ImportError"
  | .attributeError => "AttributeError"

def modifyLast (mods : Mods) (f : Module → Module) : Option Mods :=
  match mods.reverse with
  | [] => none
  | m :: rest => some ((f m :: rest).reverse)

def natList? (s : String) : Option (List Nat) :=
  if s == "-" then some [] else (s.splitOn ",").mapM nat?

def bool? (s : String) : Option Bool :=
  if s == "1" then some true else if s == "0" then some false else none

def step (mods : Mods) : List String → Mods × String
  | ["reset"] => ([], "ok 0")
  | ["newmod", incs] =>
    match natList? incs with
    | some l => (mods ++ [⟨[], [], [], l⟩], s!"ok {mods.length}")
    | none => (mods, "bad-op")
  | ["struct", name, un, ext, obj] =>
    match bool? un, bool? ext, nat? obj with
    | some un, some ext, some obj =>
      match modifyLast mods (fun m => { m with structs := m.structs ++ [(name, ⟨un, ext, obj⟩)] }) with
      | some ms => (ms, s!"ok {ms.length}")
      | none => (mods, "bad-op")
    | _, _, _ => (mods, "bad-op")
  | ["enum", name, obj] =>
    match nat? obj with
    | some obj =>
      match modifyLast mods (fun m => { m with enums := m.enums ++ [(name, obj)] }) with
      | some ms => (ms, s!"ok {ms.length}")
      | none => (mods, "bad-op")
    | none => (mods, "bad-op")
  | ["gint", name, v] =>
    match int? v with
    | some v =>
      match modifyLast mods (fun m => { m with globals := m.globals ++ [(name, .intConst v)] }) with
      | some ms => (ms, s!"ok {ms.length}")
      | none => (mods, "bad-op")
    | none => (mods, "bad-op")
  | ["gother", name, id] =>
    match nat? id with
    | some id =>
      match modifyLast mods (fun m => { m with globals := m.globals ++ [(name, .other id)] }) with
      | some ms => (ms, s!"ok {ms.length}")
      | none => (mods, "bad-op")
    | none => (mods, "bad-op")
  | ["typeof", k, name] =>
    match nat? k with
    | some k => (mods, match realizeStruct mods k name with
        | .ok o => s!"ok {o}"
        | .error e => s!"err {errName e}")
    | none => (mods, "bad-op")
  | ["enumof", k, name] =>
    match nat? k with
    | some k => (mods, match realizeEnum mods k name with
        | .ok o => s!"ok {o}"
        | .error e => s!"err {errName e}")
    | none => (mods, "bad-op")
  | ["iconst", k, name] =>
    match nat? k with
    | some k => (mods, match fetchConst mods name constFuel k with
        | .ok (some v) => s!"ok {v}"
        | .ok none => "ok none"
        | .error e => s!"err {errName e}")
    | none => (mods, "bad-op")
  | ["getattr", k, name] =>
    match nat? k with
    | some k => (mods, match libGetattr mods k name with
        | .ok (j, .intConst v) => s!"ok {j} int {v}"
        | .ok (j, .other id) => s!"ok {j} other {id}"
        | .error e => s!"err {errName e}")
    | none => (mods, "bad-op")
  | ["depth", k] =>
    match nat? k with
    | some k => (mods, if depthOk mods libFuel k then "ok 1" else "ok 0")
    | none => (mods, "bad-op")
  | _ => (mods, "bad-op")

def main : IO Unit := runDriver ([] : Mods) step
