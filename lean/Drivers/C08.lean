import CffiVerif.Model.TypeProto
open CffiVerif

/-- Driver of the type-string models; protocol in `CffiVerif/Model/TypeProto.lean`. -/
def main : IO Unit := Proto.runDriver TypeProto.init TypeProto.step
