import CffiVerif.Model.ConstExprProto
import CffiVerif.Model.Enum
import CffiVerif.Spec.GccEnum
import CffiVerif.Spec.CConstExprNoWrap
open CffiVerif CffiVerif.Proto CffiVerif.ConstExpr CffiVerif.ConstExprProto

/-!
Line protocol of the C10 driver.

  reset
  macro NAME Lc.c.c…        as in the C09 driver (a `#define` in scope of the enum)
  enum ITEM ; ITEM ; …      ITEM = NAME -            (implicit value)
                                 | NAME TOKEN…        (explicit value, prefix notation as in C09)
      answer: ok model=<v,v,…|err:K> base=<int|uint|long|ulong|err:K>
                 spec=<v,v,…|reject|undef|nogrammar> sbase=<tag|none> itemsok=<0|1>
      (base / sbase are computed from the respective value lists; `-` when there are none)
  nameof INT                `ffi.string` of the last enum's cdata holding INT: ok <text>
  base INT INT …            `build_baseinttype` / gcc's `finish_enum` on a bare value list:
                            ok base=<…> sbase=<…>
-/

namespace C10Driver
open CffiVerif.CConstExpr (CExpr CType)
open CffiVerif.Enum

structure DSt where
  st : St := {}
  last : List (String × Int) := []

def splitItems (ws : List String) : List (List String) :=
  let rec go (cur : List String) (acc : List (List String)) : List String → List (List String)
    | [] => (cur.reverse :: acc).reverse
    | w :: rest => if w == ";" then go [] (cur.reverse :: acc) rest else go (w :: cur) acc rest
  go [] [] ws

def parseItem : List String → Option (Item × Option GccEnum.CItem)
  | [n, "-"] => some (⟨n, none⟩, some ⟨n, none⟩)
  | n :: toks =>
    match parse toks with
    | some (e, ce, []) => some (⟨n, some e⟩, ce.map fun c => ⟨n, some c⟩)
    | _ => none
  | [] => none

def baseName : Base → String
  | .int => "int" | .uint => "uint" | .long => "long" | .ulong => "ulong"

def showBase : Except Err Base → String
  | .ok b => baseName b
  | .error e => "err:" ++ errName e

def showInts (vs : List Int) : String := ",".intercalate (vs.map toString)

def sbaseOf (vals : List Int) : String :=
  match vals with
  | [] => "-"
  | _ => match GccEnum.baseType (range vals).1 (range vals).2 with
    | some t => t.tag
    | none => "none"

/-- Why the specification has no result: `undef` = an explicit value is not defined by C
(out of the property's scope), `reject` = gcc's own rules refuse the declaration. -/
def whyNone (env : CConstExpr.Env) (next : Option (CType × Int)) : List GccEnum.CItem → String
  | [] => "reject"
  | it :: rest =>
    match it.value with
    | some e =>
      match CConstExpr.eval env e with
      | none => "undef"
      | some _ =>
        match GccEnum.step env next it with
        | some (_, env', next') => whyNone env' next' rest
        | none => "reject"
    | none =>
      match GccEnum.step env next it with
      | some (_, env', next') => whyNone env' next' rest
      | none => "reject"

def step (s : DSt) : List String → DSt × String
  | ["reset"] => ({}, "ok")
  | ["macro", n, w] =>
    match codePoints? w with
    | none => (s, "bad-op")
    | some text =>
      let m := literalConstant text
      let (isNeg, body) := match text with | '-' :: t => (true, t) | _ => (false, text)
      let ce : Option CExpr := match cLit? body with
        | some (.int l) => some (if isNeg then .neg (.int l) else .int l)
        | _ => none
      let sp := ce.bind (CConstExpr.eval s.st.c)
      let s1 := match m with
        | some (.ok v) => { s.st with penv := (n, v) :: s.st.penv }
        | _ => s.st
      let s2 := match sp with
        | some tv => { s1 with cenv := (n, tv) :: s1.cenv }
        | none => s1
      let ms := match m with | none => "nomatch" | some r => showModel r
      let noW := match ce with | some c => CConstExpr.noWrap s.st.c c | none => false
      ({ s with st := s2 }, s!"ok model={ms} spec={showSpec sp} nowrap={if noW then 1 else 0}")
  | "enum" :: ws =>
    match (splitItems ws).mapM parseItem with
    | none => (s, "bad-op")
    | some its =>
      let items := its.map (·.1)
      let citems : Option (List GccEnum.CItem) := its.mapM (·.2)
      let m := Enum.build s.st.p 0 items
      let (mStr, bStr, last) := match m with
        | .ok out => (showInts (out.map Prod.snd), showBase (baseOfValues (out.map Prod.snd)), out)
        | .error e => ("err:" ++ errName e, "-", [])
      let (sStr, sbStr, okStr) := match citems with
        | none => ("nogrammar", "-", "0")
        | some cis =>
          let okS := if GccEnum.itemsOk s.st.c GccEnum.start cis then "1" else "0"
          match GccEnum.build s.st.c GccEnum.start cis with
          | some out =>
            let vs : List Int := out.map fun (x : String × CType × Int) => x.2.2
            (showInts vs, sbaseOf vs, okS)
          | none => (whyNone s.st.c GccEnum.start cis, "-", okS)
      ({ s with last := last }, s!"ok model={mStr} base={bStr} spec={sStr} sbase={sbStr} itemsok={okStr}")
  | ["nameof", v] =>
    match int? v with
    | some v => (s, "ok " ++ nameOf s.last v)
    | none => (s, "bad-op")
  | "base" :: vs =>
    match vs.mapM int? with
    | some vals => (s, s!"ok base={showBase (baseOfValues vals)} sbase={sbaseOf vals}")
    | none => (s, "bad-op")
  | _ => (s, "bad-op")

end C10Driver

def main : IO Unit := runDriver ({} : C10Driver.DSt) C10Driver.step
