import CffiVerif.Model.Index
import CffiVerif.Model.Proto
open CffiVerif CffiVerif.Mem CffiVerif.Index CffiVerif.Proto

/-!
Line protocol of the C16 model driver (one allocation, a table of cdata objects):

  new <base> <hex>                         reset: memory at absolute address base        -> ok
  obj <kind> <addr> <isize> <tid> <c> <v>  kind = arr:<n> | ptr | own | other ; c,v = 0/1  -> ok <id>
  get <id> <key>                                                                         -> ok <hex> | err K
  set <id> <key> <item>                    item = <hex> | !K                             -> ok <mem> | err K <mem>
  slice <id> <start> <stop> <step>                                                       -> ok <id> <addr> <len> | err K
  sset <id> <start> <stop> <step> <rhs>    rhs = items:<item>,… | bytes:<hex>:<item>,… | carr:<id> | noiter | del
                                                                                         -> ok <mem> | err K <mem>
  add <id> <w> <sign>                                                                    -> ok <id> <addr> | err K
  sub <id> <id>                                                                          -> ok <int> | err K
  addrof <id> <idx>                                                                      -> ok <id> <addr> | err K
  offsetof <isize> <idx> <arrayOrPtr 0/1>                                                           -> ok <int> | err K
  len <id>                                                                               -> ok <n> | err TypeError
Keys / bounds / addends: a decimal integer, `none`, or `other`.
-/

structure St where
  mem : Memory
  objs : Array CData

def errName : Err → String
  | .IndexError => "IndexError"
  | .TypeError => "TypeError"
  | .OverflowError => "OverflowError"
  | .ValueError => "ValueError"
  | .RuntimeError => "RuntimeError"
  | .Fault => "Fault"

def errOf? : String → Option Err
  | "IndexError" => some .IndexError
  | "TypeError" => some .TypeError
  | "OverflowError" => some .OverflowError
  | "ValueError" => some .ValueError
  | "RuntimeError" => some .RuntimeError
  | _ => none

def arg? (s : String) : Option PyArg :=
  if s == "none" then some .none
  else if s == "other" then some .other
  else (int? s).map .int

def item? (s : String) : Option Item :=
  if s.startsWith "!" then (errOf? (s.drop 1).toString).map .error
  else (hexBytes? s).map .ok

def items? (s : String) : Option (List Item) :=
  if s == "-" then some [] else (s.splitOn ",").mapM item?

def bool? (s : String) : Option Bool :=
  if s == "1" then some true else if s == "0" then some false else none

def kind? (s : String) : Option Kind :=
  if s == "ptr" then some .ptr
  else if s == "own" then some .ownptr
  else if s == "other" then some .other
  else if s.startsWith "arr:" then (nat? (s.drop 4).toString).map .array
  else none

def rhs? (st : St) (s : String) : Option Rhs :=
  if s == "noiter" then some .notIterable
  else if s == "del" then some .del
  else if s.startsWith "items:" then (items? (s.drop 6).toString).map .items
  else if s.startsWith "carr:" then do
    let id ← nat? (s.drop 5).toString
    let cd ← st.objs[id]?
    match cd.kind with
    | .array k => some (.carray cd.addr k)
    | _ => some .notIterable            -- a cdata that is not an array cannot be iterated
  else if s.startsWith "bytes:" then
    match (s.drop 6).toString.splitOn ":" with
    | [h, its] => do
      let bs ← hexBytes? h
      let vs ← items? its
      some (.bytes bs vs)
    | _ => none
  else none

def memHex (m : Memory) : String := bytesHex m.bytes

def answerMut (st : St) (r : Memory × Except Err Unit) : St × String :=
  match r with
  | (m, .ok ()) => ({ st with mem := m }, s!"ok {memHex m}")
  | (m, .error e) => ({ st with mem := m }, s!"err {errName e} {memHex m}")

def newObj (st : St) (r : Except Err CData) (withLen : Bool) : St × String :=
  match r with
  | .error e => (st, s!"err {errName e}")
  | .ok cd =>
    let id := st.objs.size
    let st' := { st with objs := st.objs.push cd }
    if withLen then
      match cd.kind with
      | .array n => (st', s!"ok {id} {cd.addr} {n}")
      | _ => (st', s!"ok {id} {cd.addr} -1")
    else (st', s!"ok {id} {cd.addr}")

def step (st : St) : List String → St × String
  | ["new", b, h] =>
    match nat? b, hexBytes? h with
    | some base, some bs => ({ mem := { base := base, bytes := bs }, objs := #[] }, "ok")
    | _, _ => (st, "bad-op")
  | ["obj", k, a, sz, tid, c, v] =>
    match kind? k, nat? a, int? sz, nat? tid, bool? c, bool? v with
    | some kind, some addr, some isize, some t, some ch, some vp =>
      let cd : CData := { kind := kind, addr := addr, isize := isize, tid := t, isChar := ch, voidp := vp }
      ({ st with objs := st.objs.push cd }, s!"ok {st.objs.size}")
    | _, _, _, _, _, _ => (st, "bad-op")
  | ["get", id, key] =>
    match (nat? id).bind (st.objs[·]?), arg? key with
    | some cd, some k =>
      match getitem st.mem cd k with
      | .ok bs => (st, s!"ok {bytesHex bs}")
      | .error e => (st, s!"err {errName e}")
    | _, _ => (st, "bad-op")
  | ["set", id, key, it] =>
    match (nat? id).bind (st.objs[·]?), arg? key, item? it with
    | some cd, some k, some v => answerMut st (setitem st.mem cd k v)
    | _, _, _ => (st, "bad-op")
  | ["slice", id, a, b, c] =>
    match (nat? id).bind (st.objs[·]?), arg? a, arg? b, arg? c with
    | some cd, some x, some y, some z => newObj st (slice cd x y z) true
    | _, _, _, _ => (st, "bad-op")
  | ["sset", id, a, b, c, r] =>
    match (nat? id).bind (st.objs[·]?), arg? a, arg? b, arg? c, rhs? st r with
    | some cd, some x, some y, some z, some rhs => answerMut st (assSlice st.mem cd x y z rhs)
    | _, _, _, _, _ => (st, "bad-op")
  | ["add", id, w, sg] =>
    match (nat? id).bind (st.objs[·]?), arg? w, int? sg with
    | some cd, some x, some s => newObj st (addInt cd x s) false
    | _, _, _ => (st, "bad-op")
  | ["sub", a, b] =>
    match (nat? a).bind (st.objs[·]?), (nat? b).bind (st.objs[·]?) with
    | some v, some w =>
      match ptrSub v w with
      | .ok d => (st, s!"ok {d}")
      | .error e => (st, s!"err {errName e}")
    | _, _ => (st, "bad-op")
  | ["addrof", id, i] =>
    match (nat? id).bind (st.objs[·]?), arg? i with
    | some cd, some x => newObj st (addressof cd x) false
    | _, _ => (st, "bad-op")
  | ["offsetof", sz, i, f] =>
    match int? sz, arg? i, bool? f with
    | some isize, some x, some ap =>
      match typeOffsetof ap isize x with
      | .ok d => (st, s!"ok {d}")
      | .error e => (st, s!"err {errName e}")
    | _, _, _ => (st, "bad-op")
  | ["len", id] =>
    match (nat? id).bind (st.objs[·]?) with
    | some cd =>
      match cd.kind with
      | .array n => (st, s!"ok {n}")
      | _ => (st, "err TypeError")
    | none => (st, "bad-op")
  | _ => (st, "bad-op")

/-- Object ids an operation refers to. -/
def idsOf : List String → List String
  | ["get", id, _] => [id]
  | ["set", id, _, _] => [id]
  | ["slice", id, _, _, _] => [id]
  | ["sset", id, _, _, _, r] => if r.startsWith "carr:" then [id, (r.drop 5).toString] else [id]
  | ["add", id, _, _] => [id]
  | ["sub", a, b] => [a, b]
  | ["addrof", id, _] => [id]
  | ["len", id] => [id]
  | _ => []

/-- An id the model never handed out is answered `err NoObject` (the harness sees a
disagreement at the operation that should have created it), not `bad-op`. -/
def stepChecked (st : St) (ws : List String) : St × String :=
  if (idsOf ws).any (fun s => match nat? s with
      | some i => decide (i ≥ st.objs.size)
      | none => false) then (st, "err NoObject")
  else step st ws

def main : IO Unit := runDriver ({ mem := { base := 0, bytes := [] }, objs := #[] } : St) stepChecked
