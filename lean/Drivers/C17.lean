import CffiVerif.Model.Compare
import CffiVerif.Model.Proto
open CffiVerif CffiVerif.Compare CffiVerif.Proto

/-!
Driver of the C17 model.

Object tokens (cdata tokens carry a 4th field, the kind of the ctype, mapped to the generated
`CT_*` flags: pointer array struct union function signed unsigned bool enum uenum char float complex
longdouble): `ptr:<oid>:<addr>:<kind>` pointer-like cdata, `ld:<oid>:<addr>:longdouble` long double cdata,
`pi:<oid>:<n>:<kind>` primitive cdata converting to the Python int/bool `n`, `po:<oid>:<vid>` primitive
converting to another Python value (identified by `vid`), `yi:<oid>:<n>` a Python int,
`yo:<oid>:<vid>` another Python value.

The Python-level outcome of comparing two *values* is a parameter of the model; for two ints
the driver computes it (`intOps`), otherwise the harness supplies it: `T`, `F`, `E<Kind>` or `-`.

* `slot <op> <A> <B> <py>`               → `ok True|False` | `ni` | `err <Kind>`    (cdata_richcompare(A, B, op))
* `binop <op> <A> <B> <bsub 0|1> <py> <pyswapped>` → `ok True|False` | `err <Kind>`  (A op B in Python)
* `hash <A> <pyhash or ->`                → `ok <int>`
* `hashptr <addr>` / `inthash <n>`        → `ok <int>`
-/

inductive DVal where
  | int (n : Int)
  | other (vid : Nat)
  deriving DecidableEq

def op? : String → Option Op
  | "eq" => some .eq | "ne" => some .ne | "lt" => some .lt
  | "le" => some .le | "gt" => some .gt | "ge" => some .ge
  | _ => none

def kindStr : ErrKind → String
  | .typeError => "TypeError"
  | .notImplementedError => "NotImplementedError"
  | .other => "Other"

def oracle? : String → Option (Option (Except ErrKind Bool))
  | "T" => some (some (.ok true))
  | "F" => some (some (.ok false))
  | "ETypeError" => some (some (.error .typeError))
  | "ENotImplementedError" => some (some (.error .notImplementedError))
  | "-" => some none
  | s => if s.startsWith "E" then some (some (.error .other)) else none

/-- Base flag of a kind word (4th field of a token): the generated `CT_*` values. -/
def kindFlags? : String → Option Nat
  | "pointer" => some Generated.CompareExprs.CT_POINTER
  | "array" => some Generated.CompareExprs.CT_ARRAY
  | "struct" => some Generated.CompareExprs.CT_STRUCT
  | "union" => some Generated.CompareExprs.CT_UNION
  | "function" => some Generated.CompareExprs.CT_FUNCTIONPTR
  | "signed" => some (Generated.CompareExprs.CT_PRIMITIVE_SIGNED ||| Generated.CompareExprs.CT_PRIMITIVE_FITS_LONG)
  | "unsigned" => some Generated.CompareExprs.CT_PRIMITIVE_UNSIGNED
  | "bool" => some (Generated.CompareExprs.CT_PRIMITIVE_UNSIGNED ||| Generated.CompareExprs.CT_IS_BOOL)
  | "enum" => some (Generated.CompareExprs.CT_PRIMITIVE_SIGNED ||| Generated.CompareExprs.CT_IS_ENUM)
  | "uenum" => some (Generated.CompareExprs.CT_PRIMITIVE_UNSIGNED ||| Generated.CompareExprs.CT_IS_ENUM)
  | "char" => some Generated.CompareExprs.CT_PRIMITIVE_CHAR
  | "float" => some Generated.CompareExprs.CT_PRIMITIVE_FLOAT
  | "complex" => some Generated.CompareExprs.CT_PRIMITIVE_COMPLEX
  | "longdouble" => some (Generated.CompareExprs.CT_PRIMITIVE_FLOAT ||| Generated.CompareExprs.CT_IS_LONGDOUBLE)
  | _ => none

def obj? (tok : String) : Option (Obj DVal) :=
  let mk (k o x : String) (flags : Nat) : Option (Obj DVal) :=
    match nat? o with
    | none => none
    | some oid =>
      match k with
      | "ptr" => (nat? x).map fun a => .cdata oid ⟨flags, a, .cdataAgain⟩
      | "ld" => (nat? x).map fun a => .cdata oid ⟨flags, a, .cdataAgain⟩
      | "pi" => (int? x).map fun n => .cdata oid ⟨flags, 0, .value (.int n)⟩
      | "po" => (nat? x).map fun v => .cdata oid ⟨flags, 0, .value (.other v)⟩
      | "yi" => (int? x).map fun n => .py oid (.int n)
      | "yo" => (nat? x).map fun v => .py oid (.other v)
      | _ => none
  match tok.splitOn ":" with
  | [k, o, x, kind] => (kindFlags? kind).bind (mk k o x)
  | [k, o, x] =>
    if k = "yi" ∨ k = "yo" then mk k o x 0 else none
  | _ => none

/-- The value operations for one line: ints natively, anything else from the
harness-supplied outcomes (`o1` for `(op, va, vb)`, `o2` for the reflected call). -/
def mkOps (op : Op) (va : Option DVal) (o1 o2 : Option (Except ErrKind Bool)) (h : Option Int) : PyOps DVal where
  cmp op' x y :=
    match x, y with
    | .int a, .int b => .ok (intCmp op' a b)
    | _, _ =>
      let pick := if op' = op ∧ some x = va then o1 else o2
      match pick with
      | some r => r
      | none => .error .other
  hash v :=
    match v with
    | .int n => .ok (pyIntHash n)
    | .other _ => match h with
      | some x => .ok x
      | none => .error .other
  vsForeign _ _ := .notImplemented

def valOf : Obj DVal → Option DVal
  | .cdata _ ⟨_, _, .value v⟩ => some v
  | .py _ v => some v
  | _ => none

def showB (b : Bool) : String := if b then "ok True" else "ok False"

def step (_ : Unit) : List String → Unit × String
  | ["slot", o, a, b, py] =>
    match op? o, obj? a, obj? b, oracle? py with
    | some op, some (.cdata _ c), some w, some o1 =>
      let P := mkOps op (valOf (.cdata 0 c)) o1 o1 none
      ((), match richcompare P op c w with
        | .bool r => showB r
        | .notImplemented => "ni"
        | .raise k => "err " ++ kindStr k)
    | _, _, _, _ => ((), "bad-op")
  | ["binop", o, a, b, sub, py, pys] =>
    match op? o, obj? a, obj? b, oracle? py, oracle? pys with
    | some op, some x, some y, some o1, some o2 =>
      if (sub = "0" ∨ sub = "1") ∧ (x.isCData ∨ y.isCData) then
        -- the direct slot compares (op, vx, vy), the reflected one (op.swap, vy, vx)
        let P := mkOps op (valOf x) o1 o2 none
        ((), match binop P op x y (sub == "1") with
          | .ok r => showB r
          | .error k => "err " ++ kindStr k)
      else ((), "bad-op")
    | _, _, _, _, _ => ((), "bad-op")
  | ["hash", a, h] =>
    match obj? a, (if h = "-" then some none else (int? h).map some) with
    | some x, some hv =>
      let P := mkOps .eq none none none hv
      ((), match objHash P x with
        | .ok r => s!"ok {r}"
        | .error k => "err " ++ kindStr k)
    | _, _ => ((), "bad-op")
  | ["hashptr", a] =>
    match nat? a with
    | some a => ((), s!"ok {hashPointer a}")
    | none => ((), "bad-op")
  | ["inthash", n] =>
    match int? n with
    | some n => ((), s!"ok {pyIntHash n}")
    | none => ((), "bad-op")
  | _ => ((), "bad-op")

def main : IO Unit := runDriver () step
