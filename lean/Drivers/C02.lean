import CffiVerif.Model.Bitfield
import CffiVerif.Model.Proto
open CffiVerif CffiVerif.Bitfield CffiVerif.Proto

/-- `read  size signed shift width mem`        → `ok <int>`
    `write size signed shift width mem v`      → `ok <mem'>` | `err overflow`
    (`mem`: the storage unit's little-endian value, decimal). -/
def field? (a b c d : String) : Option Field := do
  let size ← nat? a
  let sg ← nat? b
  let sh ← nat? c
  let w ← nat? d
  pure { size := size, signed := sg != 0, bitshift := sh, bitsize := w }

def step (_ : Unit) : List String → Unit × String
  | ["read", a, b, c, d, m] =>
    match field? a b c d, nat? m with
    | some f, some mem => ((), s!"ok {Bitfield.read f (BitVec.ofNat 64 mem)}")
    | _, _ => ((), "bad-op")
  | ["write", a, b, c, d, m, v] =>
    match field? a b c d, nat? m, int? v with
    | some f, some mem, some v =>
      match write f (BitVec.ofNat 64 mem) v with
      | .ok m' => ((), s!"ok {m'.toNat}")
      | .error _ => ((), "err overflow")
    | _, _, _ => ((), "bad-op")
  | _ => ((), "bad-op")

def main : IO Unit := runDriver () step
