import CffiVerif.Model.Flatten
import CffiVerif.Model.Proto
open CffiVerif CffiVerif.Flatten CffiVerif.Proto

/-!
Line protocol (code point lists are decimal numbers joined by `,`; `-` = empty):

* value syntax (prefix words): `I <int>` | `S <cps>` | `L <n> v…` | `D <n> (k v)…` with `k` = `I <int>` | `S <cps>`
* `flatten <value>`            → `ok <cps>` | `err TypeError`
* `parse <cps>`                → `ok <value>` | `ok none`     (the model's parser on a text)
* `key <cps> …`                → `ok <cps>`                   (`'\x00'.join(parts)`)
* `vkey <pyver> <vermod> <preamble> <n> <cdef>×n <value>` → `ok <cps>` (the text that is hashed)
* `name <tag> <classkey> <keybytes> <crcEven> <crcOdd>` → `ok <cps>`
-/

def cps? (s : String) : Option (List Nat) :=
  if s == "-" then some [] else (s.splitOn ",").mapM nat?

def cpsOut (l : List Nat) : String :=
  if l.isEmpty then "-" else ",".intercalate (l.map toString)

def key? : List String → Option (Key × List String)
  | "I" :: n :: r => (int? n).map fun i => (Key.int i, r)
  | "S" :: s :: r => (cps? s).map fun c => (Key.str c, r)
  | _ => none

partial def val? : List String → Option (Val × List String)
  | "I" :: n :: r => (int? n).map fun i => (Val.int i, r)
  | "S" :: s :: r => (cps? s).map fun c => (Val.str c, r)
  | "L" :: n :: r => do
    let k ← nat? n
    let mut xs := #[]
    let mut rest := r
    for _ in [0:k] do
      let (v, r') ← val? rest
      xs := xs.push v
      rest := r'
    pure (Val.list xs.toList, rest)
  | "D" :: n :: r => do
    let k ← nat? n
    let mut xs := #[]
    let mut rest := r
    for _ in [0:k] do
      let (ky, r1) ← key? rest
      let (v, r2) ← val? r1
      xs := xs.push (ky, v)
      rest := r2
    pure (Val.dict xs.toList, rest)
  | _ => none

def keyOut : Key → String
  | .int i => s!"I {i}"
  | .str s => s!"S {cpsOut s}"

partial def valOut : Val → String
  | .int i => s!"I {i}"
  | .str s => s!"S {cpsOut s}"
  | .list xs => " ".intercalate (s!"L {xs.length}" :: xs.map valOut)
  | .dict kvs => " ".intercalate (s!"D {kvs.length}" :: kvs.map fun (k, v) => keyOut k ++ " " ++ valOut v)

def step (_ : Unit) : List String → Unit × String
  | "flatten" :: ws =>
    match val? ws with
    | some (v, []) => ((), match flatten? v with
        | .ok s => "ok " ++ cpsOut s
        | .error .typeError => "err TypeError")
    | _ => ((), "bad-op")
  | ["parse", s] =>
    match cps? s with
    | some t => ((), match parseVal (t.length + 1) t with
        | some (v, []) => "ok " ++ valOut v
        | _ => "ok none")
    | none => ((), "bad-op")
  | "key" :: parts =>
    match parts.mapM cps? with
    | some ps => ((), "ok " ++ cpsOut (joinNul ps))
    | none => ((), "bad-op")
  | "vkey" :: pv :: vm :: pre :: n :: ws =>
    match cps? pv, cps? vm, cps? pre, nat? n with
    | some pv, some vm, some pre, some n =>
      match (ws.take n).mapM cps?, val? (ws.drop n) with
      | some cdefs, some (v, []) =>
        if cdefs.length == n then ((), "ok " ++ cpsOut (key pv vm pre v cdefs)) else ((), "bad-op")
      | _, _ => ((), "bad-op")
    | _, _, _, _ => ((), "bad-op")
  | ["name", tag, ck, kb, ce, co] =>
    match cps? tag, cps? ck, cps? kb, nat? ce, nat? co with
    | some tag, some ck, some kb, some ce, some co =>
      ((), "ok " ++ cpsOut (moduleName (fun l => if l == evens kb then ce else co) tag ck kb))
    | _, _, _, _, _ => ((), "bad-op")
  | _ => ((), "bad-op")

def main : IO Unit := runDriver () step
