import CffiVerif.Model.Init
import CffiVerif.Model.Proto
open CffiVerif CffiVerif.Init CffiVerif.Proto

/-!
Line protocol of the C20 model driver.  Types and initialisers are written in prefix form.

type  ::= `i<size>` | `u<size>` | `b` | `c` | `p`
        | `A` isz (len | `-`) type
        | `S` size nfields { name off (`-` | shift`:`bitsize) ignore(0|1) type }
init  ::= `I` int | `B` hex | `L` n init… | `D` n { key init }… | `C` (0|1) hex | `O`
top   ::= `N` | init

`new <limit> (ptr|arr) type top`  → `ok <hex data> <length slot|-> <sizeof|->`   or `err <Kind>`
`assign <bufsize> type init`      → `ok <hex data>` (convert into a zero-filled block) or `err <Kind>`
`wf type`                         → `ok <wf> <noVarItems> <withVar>` (0/1 each)
-/

abbrev P := StateT (List String) Option

def tok : P String := fun s => match s with
  | [] => none
  | t :: r => some (t, r)

def pNat : P Nat := do
  let t ← tok
  match nat? t with
  | some n => pure n
  | none => failure

def pBits : P (Option (Nat × Nat)) := do
  let t ← tok
  if t == "-" then pure none else
  match t.splitOn ":" with
  | [a, b] => match nat? a, nat? b with
    | some x, some y => pure (some (x, y))
    | _, _ => failure
  | _ => failure

mutual
partial def pTy : P Ty := do
  let t ← tok
  match t with
  | "b" => pure (.prim .bool)
  | "c" => pure (.prim .char)
  | "p" => pure (.prim .ptr)
  | "A" => do
      let isz ← pNat
      let l ← tok
      let len ← (if l == "-" then pure none else match nat? l with
        | some n => pure (some n)
        | none => failure : P (Option Nat))
      let item ← pTy
      pure (.arr item isz len)
  | "S" => do
      let size ← pNat
      let n ← pNat
      let fs ← pFields n
      pure (.agg size fs)
  | _ =>
      match t.toList with
      | 'i' :: ds => match nat? (String.ofList ds) with
        | some s => pure (.prim (.int s true))
        | none => failure
      | 'u' :: ds => match nat? (String.ofList ds) with
        | some s => pure (.prim (.int s false))
        | none => failure
      | _ => failure
partial def pFields : Nat → P Fields
  | 0 => pure .nil
  | n + 1 => do
      let name ← pNat
      let off ← pNat
      let bits ← pBits
      let ig ← pNat
      let ty ← pTy
      let rest ← pFields n
      pure (.cons ⟨name, off, bits, ig != 0⟩ ty rest)
end

mutual
partial def pInit : P Init := do
  let t ← tok
  match t with
  | "I" => do
      let v ← tok
      match int? v with
      | some i => pure (.int i)
      | none => failure
  | "B" => do
      let h ← tok
      match hexBytes? h with
      | some b => pure (.bytes b)
      | none => failure
  | "L" => do
      let n ← pNat
      let xs ← pInits n
      pure (.seq xs)
  | "D" => do
      let n ← pNat
      let kvs ← pKVs n
      pure (.dict kvs)
  | "C" => do
      let s ← pNat
      let h ← tok
      match hexBytes? h with
      | some b => pure (.cdata (s != 0) b)
      | none => failure
  | "O" => pure .other
  | _ => failure
partial def pInits : Nat → P Inits
  | 0 => pure .nil
  | n + 1 => do
      let x ← pInit
      let xs ← pInits n
      pure (.cons x xs)
partial def pKVs : Nat → P KVs
  | 0 => pure .nil
  | n + 1 => do
      let k ← pNat
      let v ← pInit
      let rest ← pKVs n
      pure (.cons k v rest)
end

def pTop : P (Option Init) := fun s => match s with
  | "N" :: r => some (none, r)
  | _ => (pInit s).map fun (i, r) => (some i, r)

def errName : Err → String
  | .type => "err TypeError"
  | .overflow => "err OverflowError"
  | .index => "err IndexError"
  | .value => "err ValueError"
  | .key => "err KeyError"
  | .system => "err SystemError"
  | .memory => "err MemoryError"
  | .oob => "err OOB"
  | .protocol => "bad-op protocol"

def optNat : Option Nat → String
  | some n => toString n
  | none => "-"

def b01 (b : Bool) : String := if b then "1" else "0"

def step (_ : Unit) : List String → Unit × String
  | "new" :: lim :: kind :: rest =>
    match nat? lim, (do let ty ← pTy; let i ← pTop; pure (ty, i) : P (Ty × Option Init)) rest with
    | some limit, some ((ty, init), []) =>
      if kind != "ptr" && kind != "arr" then ((), "bad-op") else
      let isPtr := kind == "ptr"
      match newp limit isPtr ty init with
      | .ok o =>
        let sz := if isPtr then sizeofDeref ty o else
          match ty with
          | .arr _ isz len => sizeofArr isz len o
          | _ => none
        ((), s!"ok {bytesHex o.data} {optNat o.length} {optNat sz}")
      | .error e => ((), errName e)
    | _, _ => ((), "bad-op")
  | "assign" :: n :: rest =>
    match nat? n, (do let ty ← pTy; let i ← pInit; pure (ty, i) : P (Ty × Init)) rest with
    | some size, some ((ty, init), []) =>
      match convert (zeros size) 0 ty .plain init with
      | .ok m => ((), s!"ok {bytesHex m}")
      | .error e => ((), errName e)
    | _, _ => ((), "bad-op")
  | "wf" :: rest =>
    match pTy rest with
    | some (ty, []) => ((), s!"ok {b01 ty.wf} {b01 ty.noVarItems} {b01 ty.withVar}")
    | _ => ((), "bad-op")
  | _ => ((), "bad-op")

def main : IO Unit := runDriver () step
