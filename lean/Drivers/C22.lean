import CffiVerif.Model.Errno
import CffiVerif.Model.Proto
open CffiVerif CffiVerif.Errno CffiVerif.Proto

/-- `ev <tid> <kind> [v]` replays one event of the recorded trace through the
model (`step`); answer `ok -` (nothing observable), `ok <v>` (value read) or
`err OverflowError`.  `reset` starts a new trace; `wf <tid> <kind> …` checks that
a thread's own event list is well-moded (`wfT 0`). -/
def parseEv : List String → Option Ev
  | ["pySet", v] => (int? v).map Ev.pySet
  | ["pyGet"] => some .pyGet
  | ["clobber", v] => (int? v).map Ev.clobber
  | ["callEnter"] => some .callEnter
  | ["callExit"] => some .callExit
  | ["cRead"] => some .cRead
  | ["cWrite", v] => (int? v).map Ev.cWrite
  | ["cbEnter"] => some .cbEnter
  | ["cbExit"] => some .cbExit
  | _ => none

def parseEvs : List String → Option (List Ev)
  | [] => some []
  | k :: rest =>
    if k == "pySet" || k == "clobber" || k == "cWrite" then
      match rest with
      | v :: rest' => do
        let e ← parseEv [k, v]
        let es ← parseEvs rest'
        pure (e :: es)
      | [] => none
    else do
      let e ← parseEv [k]
      let es ← parseEvs rest
      pure (e :: es)

def showOut : Out → String
  | .none => "ok -"
  | .val v => s!"ok {v}"
  | .overflow => "err OverflowError"

def stepD (σ : State) : List String → State × String
  | ["reset"] => (State.init, "ok -")
  | "ev" :: t :: rest =>
    match nat? t, parseEv rest with
    | some t, some e => let r := step σ (t, e); (r.1, showOut r.2)
    | _, _ => (σ, "bad-op")
  | "wf" :: rest =>
    match parseEvs rest with
    | some es => (σ, if wfT 0 es then "ok 1" else "ok 0")
    | none => (σ, "bad-op")
  | _ => (σ, "bad-op")

def main : IO Unit := runDriver State.init stepD
