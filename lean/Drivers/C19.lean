import CffiVerif.Model.Buffer
import CffiVerif.Model.Proto
open CffiVerif CffiVerif.Mem CffiVerif.Buffer CffiVerif.Proto
open CffiVerif.Index (PyArg)

/-!
Line protocol of the C19 model driver (one flat memory; positions are flat offsets):

  new <hex>                                              -> ok
  getitem <data> <size> <key>                            -> ok <hex> | err K
  setitem <data> <size> <key> <val>      val = b:<xx> | other            -> ok <mem> | err K <mem>
  getslice <data> <size> <start> <stop> <step>           -> ok <hex> | err K
  setslice <data> <size> <start> <stop> <step> <src>     src = bytes:<hex> | view:<pos>:<len> | nobuf | cptr | cother |
                                                               carr:<n>:<isize>:ext:<hex> | carr:<n>:<isize>:at:<pos>
                                                         -> ok <mem> | err K <mem>
  bufsize <given> <dflt>                 decimal or `none`               -> ok <n> | err K
  frombuf <ct> <obj> <rw>                ct = ptr | open:<isize> | fixed:<isize>:<n> | other
                                         obj = buf:<pos>:<len>:<ro>:<contig> | cdata:<pos>:<ok> | str | nobuf
                                                         -> ok <len> | err K
  memmove <destobj> <srcobj> <n>                         -> ok <mem> | err K <mem>
Keys / bounds / n: a decimal integer, `none`, or `other`.
-/

def errName : Err → String
  | .IndexError => "IndexError"
  | .TypeError => "TypeError"
  | .ValueError => "ValueError"
  | .OverflowError => "OverflowError"
  | .BufferError => "BufferError"
  | .ZeroDivisionError => "ZeroDivisionError"
  | .Fault => "Fault"

def arg? (s : String) : Option PyArg :=
  if s == "none" then some .none
  else if s == "other" then some .other
  else (int? s).map .int

def optInt? (s : String) : Option (Option Int) :=
  if s == "none" then some none else (int? s).map some

def optNat? (s : String) : Option (Option Nat) :=
  if s == "none" then some none else (nat? s).map some

def bool? (s : String) : Option Bool :=
  if s == "1" then some true else if s == "0" then some false else none

def val? (s : String) : Option Val :=
  if s == "other" then some .other
  else if s.startsWith "b:" then
    match hexBytes? (s.drop 2).toString with
    | some [x] => some (.byte x)
    | _ => none
  else none

def src? (s : String) : Option Src :=
  if s == "nobuf" then some .notBuffer
  else if s == "cptr" then some .cptr
  else if s == "cother" then some .cother
  else if s.startsWith "carr:" then
    match s.splitOn ":" with
    | ["carr", n, z, "ext", h] => do
      let k ← nat? n
      let isize ← int? z
      let bs ← hexBytes? h
      some (.carray k isize (.ext bs))
    | ["carr", n, z, "at", p] => do
      let k ← nat? n
      let isize ← int? z
      let pos ← nat? p
      some (.carray k isize (.at pos))
    | _ => none
  else if s.startsWith "bytes:" then (hexBytes? (s.drop 6).toString).map .bytes
  else match s.splitOn ":" with
    | ["view", p, l] => do
      let pos ← nat? p
      let len ← nat? l
      some (.view pos len)
    | _ => none

def ct? (s : String) : Option CT :=
  if s == "ptr" then some .ptr
  else if s == "other" then some .other
  else match s.splitOn ":" with
    | ["open", z] => (int? z).map .arrayOpen
    | ["fixed", z, n] => do
      let isize ← int? z
      let k ← nat? n
      some (.arrayFixed isize k)
    | _ => none

def obj? (s : String) : Option Obj :=
  if s == "str" then some .str
  else if s == "nobuf" then some .notBuffer
  else match s.splitOn ":" with
    | ["buf", p, l, r, c] => do
      let pos ← nat? p
      let len ← nat? l
      let ro ← bool? r
      let contig ← bool? c
      some (.buf pos len ro contig)
    | ["cdata", p, k] => do
      let pos ← nat? p
      let ok ← bool? k
      some (.cdata pos ok)
    | _ => none

def answerMut (r : Bytes × Except Err Unit) : Bytes × String :=
  match r with
  | (m, .ok ()) => (m, s!"ok {bytesHex m}")
  | (m, .error e) => (m, s!"err {errName e} {bytesHex m}")

def answerBytes (m : Bytes) (r : Except Err Bytes) : Bytes × String :=
  match r with
  | .ok bs => (m, s!"ok {bytesHex bs}")
  | .error e => (m, s!"err {errName e}")

def answerNat (m : Bytes) (r : Except Err Nat) : Bytes × String :=
  match r with
  | .ok n => (m, s!"ok {n}")
  | .error e => (m, s!"err {errName e}")

def step (m : Bytes) : List String → Bytes × String
  | ["new", h] =>
    match hexBytes? h with
    | some bs => (bs, "ok")
    | none => (m, "bad-op")
  | ["getitem", d, z, k] =>
    match nat? d, nat? z, arg? k with
    | some data, some size, some key => answerBytes m (getitem m ⟨data, size⟩ key)
    | _, _, _ => (m, "bad-op")
  | ["setitem", d, z, k, v] =>
    match nat? d, nat? z, arg? k, val? v with
    | some data, some size, some key, some val => answerMut (setitem m ⟨data, size⟩ key val)
    | _, _, _, _ => (m, "bad-op")
  | ["getslice", d, z, a, b, c] =>
    match nat? d, nat? z, arg? a, arg? b, arg? c with
    | some data, some size, some x, some y, some w => answerBytes m (getslice m ⟨data, size⟩ x y w)
    | _, _, _, _, _ => (m, "bad-op")
  | ["setslice", d, z, a, b, c, s] =>
    match nat? d, nat? z, arg? a, arg? b, arg? c, src? s with
    | some data, some size, some x, some y, some w, some src =>
      answerMut (setslice m ⟨data, size⟩ x y w src)
    | _, _, _, _, _, _ => (m, "bad-op")
  | ["bufsize", g, d] =>
    match optInt? g, optNat? d with
    | some given, some dflt => answerNat m (bufferSize given dflt)
    | _, _ => (m, "bad-op")
  | ["frombuf", c, o, w] =>
    match ct? c, obj? o, bool? w with
    | some ct, some x, some rw => answerNat m (fromBuffer ct x rw)
    | _, _, _ => (m, "bad-op")
  | ["memmove", d, s, n] =>
    match obj? d, obj? s, arg? n with
    | some dest, some src, some k => answerMut (memmoveOp m dest src k)
    | _, _, _ => (m, "bad-op")
  | _ => (m, "bad-op")

def main : IO Unit := runDriver ([] : Bytes) step
