import CffiVerif.Model.CInt
import CffiVerif.Model.IntPaths
import CffiVerif.Model.Proto
open CffiVerif CffiVerif.CInt CffiVerif.IntPaths CffiVerif.Proto

/-!
`store <bytes> <kind> <v> <oldhex>`  — kind ∈ s u b c w; `oldhex` = previous bytes of the target region.
   answer: `ok A=<mem>,<ok|ErrKind>,<read|ErrKind> B=<argbytes|ErrKind>`
   (A = `convert_from_object` + reading the region back, B = API-mode argument conversion)
`cb <bytes> <kind> <v> <ev|none> <encode 0|1> <resulthex>` — callback returning `v` with `error=ev`.
   answer: `ok <result buffer> <value of the low bytes read as T>` or `err <ErrKind>` (bad `ev`)
-/

/-- an integer of any magnitude: decimal, or `0x…` / `-0x…` (the harness writes ints beyond
Python's int->str digit limit in hex) -/
def hexNat? (cs : List Char) : Option Nat :=
  if cs.isEmpty then none else
  cs.foldlM (fun acc c => (hexDigit? c).map (fun d => 16 * acc + d)) 0

def intLit? (s : String) : Option Int :=
  if s.startsWith "-0x" then (hexNat? (s.drop 3).toString.toList).map (fun n => -(n : Int))
  else if s.startsWith "0x" then (hexNat? (s.drop 2).toString.toList).map (fun n => (n : Int))
  else int? s

def kind? : String → Option Kind
  | "s" => some .signed | "u" => some .unsigned | "b" => some .bool
  | "c" => some .char | "w" => some .swchar | _ => none

def type? (b k : String) : Option IntType := do
  let n ← nat? b
  let w ← Width.ofBytes? n
  let kd ← kind? k
  pure { name := "", width := w, kind := kd }

def showRes : Except ErrKind Unit → String
  | .ok () => "ok" | .error e => e.toString

def showInt : Except ErrKind Int → String
  | .ok i => toString i | .error e => e.toString

def showBytes : Except ErrKind (List UInt8) → String
  | .ok bs => bytesHex bs | .error e => e.toString

def step (_ : Unit) : List String → Unit × String
  | ["store", b, k, v, old] =>
    match type? b k, intLit? v, hexBytes? old with
    | some T, some v, some old =>
      let (mem, res) := convertFromObject T old v
      ((), s!"ok A={bytesHex mem},{showRes res},{showInt (readInt T mem)} B={showBytes (apiArg T v)}")
    | _, _, _ => ((), "bad-op")
  | ["cb", b, k, v, ev, enc, res0] =>
    match type? b k, intLit? v, hexBytes? res0 with
    | some T, some v, some res0 =>
      let ev? : Option (Option Int) := if ev == "none" then some none else (int? ev).map some
      match ev?, enc with
      | some ev, "0" | some ev, "1" =>
        let encode := enc == "1"
        match prepareRawErr T ev encode with
        | .error e => ((), s!"err {e.toString}")
        | .ok rawerr =>
          let slot := callbackResult T rawerr res0 v encode
          ((), s!"ok {bytesHex slot} {showInt (readInt T slot)}")
      | _, _ => ((), "bad-op")
    | _, _, _ => ((), "bad-op")
  | _ => ((), "bad-op")

def main : IO Unit := runDriver () step
