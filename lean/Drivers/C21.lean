import CffiVerif.Model.Ownership
import CffiVerif.Model.Proto
open CffiVerif CffiVerif.Ownership CffiVerif.Proto

/-!
Line protocol of the ownership model (C21).  Object identities are the model's
own (`next` counter: the harness predicts them and the answers confirm them);
handle addresses are small integers chosen by the harness from the real
addresses (same address = same integer).

  reset                          forget everything (start of a history)
  new_py box|dtor|buf            -> ok <id>
  new_plain                      -> ok <id>
  new_struct                     -> ok <ptr> <struct>
  alloc_plain <free|->           -> ok <alloc> <raw>
  alloc_struct <free|->          -> ok <ptr> <struct> <raw>
  gc <p> <d>                     -> ok <id>
  gc_none <g> | release <x> | with_exit <x> | drop_ref <x> | store <c> <x> | clear <c>
  alias <p>                      -> ok <struct>
  new_handle <x> <addr>          -> ok <id>        (err AddrInUse: not an allowed choice)
  from_handle <addr>             -> ok <obj>
  from_buffer <b>                -> ok <id>
  resize <b>                     -> ok | err BufferError
  collect <x> ...                -> ok <wrappers whose destructor is called>   (err Reachable: not an allowed choice)
  finalize <x> <member> ...      -> ok <x> | ok      the collector's tp_finalize of x, x in the unreferenced set
  ret                            -> ok               the innermost destructor / free call returns
Every destructor call consumes one identity (its activation record); lines between the line that
started a call and its `ret` are operations issued from inside the callback.
  calls <x>                      -> ok <n>
-/

def errName : Err → String
  | .TypeError => "TypeError" | .ValueError => "ValueError" | .BufferError => "BufferError"
  | .Dead => "Dead" | .NoRef => "NoRef" | .AddrInUse => "AddrInUse" | .Reachable => "Reachable"
  | .Garbage => "Garbage" | .NoFrame => "NoFrame"

def showOut : Out → String
  | .ok l => String.intercalate " " ("ok" :: l.map toString)
  | .error e => "err " ++ errName e

def optId? (w : String) : Option (Option Nat) :=
  if w == "-" then some none else (nat? w).map some

def parseOp : List String → Option Op
  | ["new_py", "box"] => some (.newPy .box)
  | ["new_py", "dtor"] => some (.newPy .dtor)
  | ["new_py", "buf"] => some (.newPy .buf)
  | ["new_plain"] => some .newPlain
  | ["new_struct"] => some .newStruct
  | ["alloc_plain", f] => (optId? f).map .allocPlain
  | ["alloc_struct", f] => (optId? f).map .allocStruct
  | ["gc", p, d] => do some (.gc (← nat? p) (← nat? d))
  | ["gc_none", g] => (nat? g).map .gcNone
  | ["release", x] => (nat? x).map .release
  | ["with_exit", x] => (nat? x).map .withExit
  | ["drop_ref", x] => (nat? x).map .dropRef
  | ["store", c, x] => do some (.store (← nat? c) (← nat? x))
  | ["clear", c] => (nat? c).map .clear
  | ["alias", p] => (nat? p).map .alias
  | ["new_handle", x, a] => do some (.newHandle (← nat? x) (← nat? a))
  | ["from_handle", a] => (nat? a).map .fromHandle
  | ["from_buffer", b] => (nat? b).map .fromBuffer
  | ["resize", b] => (nat? b).map .resize
  | "collect" :: xs => (xs.mapM nat?).map .collect
  | "finalize" :: x :: xs => do some (.finalize (← nat? x) (← xs.mapM nat?))
  | ["ret"] => some .ret
  | _ => none

def stepLine (s : State) (ws : List String) : State × String :=
  match ws with
  | ["reset"] => (init, "ok")
  | ["calls", x] =>
    match nat? x with
    | some i => (s, s!"ok {s.calls i}")
    | none => (s, "bad-op")
  | _ =>
    match parseOp ws with
    | some op => let r := step s op; (r.1, showOut r.2)
    | none => (s, "bad-op")

def main : IO Unit := runDriver init stepLine
