import CffiVerif.Model.DlClose
import CffiVerif.Model.Proto
open CffiVerif CffiVerif.DlClose CffiVerif.Proto

/-- Line protocol (names are small integers chosen by the harness):
* `open inline|outofline F f1 … fk V v1 x1 … vm xm`   a fresh `dlopen` of a library exporting
  functions `f1 … fk` and `int` globals `v1 … vm` with initial values `x1 … xm`
* `getf n` → `ok func` | `err Closed` | `err NotFound`
* `read n` → `ok <int>` | `err …`
* `write n v` → `ok` | `err …`
* `close` → `ok`                      (a whole `ffi.dlclose` call)
* `closestep` → `ok closing` | `ok`   (the next step of a `dlclose` call other threads interleave with)
* `state` → `ok open|closed <#cached functions> <#cached variable accessors>` -/
structure DState where
  impl : Impl
  s : State

def pairs : List String → Option (List (Name × Int))
  | [] => some []
  | [_] => none
  | a :: b :: rest => do
    let n ← nat? a
    let v ← int? b
    let r ← pairs rest
    pure ((n, v) :: r)

def showOut : Out → String
  | .func _ => "ok func"
  | .value v => s!"ok {v}"
  | .written => "ok"
  | .closing => "ok closing"
  | .done => "ok"
  | .err .closed => "err Closed"
  | .err .notFound => "err NotFound"
  | .err .useAfterUnload => "err UseAfterUnload"

def apply (d : DState) (op : Op) : DState × String :=
  let (s', o) := step d.impl d.s op
  ({ d with s := s' }, showOut o)

def step' (d : DState) : List String → DState × String
  | "open" :: impl :: "F" :: rest =>
    let fs := rest.takeWhile (· ≠ "V")
    let vs := (rest.dropWhile (· ≠ "V")).drop 1
    let impl? : Option Impl := if impl == "inline" then some .inline else if impl == "outofline" then some .outOfLine else none
    match impl?, fs.mapM nat?, pairs vs with
    | some i, some f, some v =>
      if rest.contains "V" then ({ impl := i, s := openLib f v }, "ok") else (d, "bad-op")
    | _, _, _ => (d, "bad-op")
  | ["getf", n] => match nat? n with
    | some n => apply d (.getFunc n)
    | none => (d, "bad-op")
  | ["read", n] => match nat? n with
    | some n => apply d (.readVar n)
    | none => (d, "bad-op")
  | ["write", n, v] => match nat? n, int? v with
    | some n, some v => apply d (.writeVar n v)
    | _, _ => (d, "bad-op")
  | ["close"] => apply d .close
  | ["closestep"] => apply d .closeStep
  | ["state"] => (d, s!"ok {if d.s.isOpen then "open" else "closed"} {d.s.cachedF.length} {d.s.cachedV.length}")
  | _ => (d, "bad-op")

def main : IO Unit := runDriver ({ impl := .inline, s := openLib [] [] } : DState) step'
