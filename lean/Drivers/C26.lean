import CffiVerif.Model.InitOnce
import CffiVerif.Model.Proto
open CffiVerif CffiVerif.InitOnce CffiVerif.Proto

/-!
Replays an observed, totally ordered event trace of `init_once` calls through the
transition relation `InitOnce.next` (the one the invariants are proved about).

The harness sees only: a call starting (`call t`), `f` being entered (`fenter t`),
`f` returning (`fret t v`) or raising (`fraise t`), and the call's own outcome
(`ret t r` / `exc t`).  All other steps are silent.  The driver keeps the *set* of
model states that are reachable by some execution whose observable projection is
the trace so far (silent steps only by calls that have started): an observable
event is accepted iff it is enabled, with that label, in at least one of them;
`ret`/`exc` are accepted iff in at least one of them the call's pc is
`returned r` / `raised`.  So "accepted" = the real run is one of the executions
the theorems quantify over.  Answers: `ok <number of candidate states>` or
`err Rejected` (after which everything is rejected until `reset`).
-/

abbrev Key := Option Entry × Option Tid × List Pc × List (Tid × Val)

def key (called : List Tid) (s : State) : Key := (s.cache, s.owner, called.map s.pc, s.succ)

structure D where
  called : List Tid
  states : List State

def insertNew (called : List Tid) (sn : List Key × List State) (s : State) : List Key × List State :=
  let k := key called s
  if sn.1.contains k then sn else (k :: sn.1, s :: sn.2)

/-- silent successors of `s` (steps of started calls whose label is `tau`) -/
def tauSucc (called : List Tid) (s : State) : List State :=
  called.filterMap fun t => if label s t .raise = .tau then next s t .raise else none

def closureLoop (called : List Tid) : Nat → List State → List Key → List State → List State
  | 0, _, _, acc => acc
  | fuel + 1, frontier, seen, acc =>
    if frontier.isEmpty then acc else
    let (seen', new) := frontier.foldl
      (fun sn s => (tauSucc called s).foldl (insertNew called) sn) (seen, [])
    closureLoop called fuel new seen' (acc ++ new)

/-- all states reachable from `states` by silent steps (each call makes at most 8 steps) -/
def close (called : List Tid) (states : List State) : List State :=
  let (seen, uniq) := states.foldl (insertNew called) ([], [])
  closureLoop called (9 * called.length + 2) uniq seen uniq

def answer (d : D) : D × String :=
  if d.states.isEmpty then (d, "err Rejected") else (d, s!"ok {d.states.length}")

/-- an observable step of call `t` -/
def observe (d : D) (t : Tid) (want : Obs) (ch : Choice) : D × String :=
  if !d.called.contains t then ({ d with states := [] }, "err Rejected") else
  let succs := d.states.filterMap fun s => if label s t ch = want then next s t ch else none
  answer { d with states := close d.called succs }

def step (d : D) : List String → D × String
  | ["reset"] => ({ called := [], states := [init] }, "ok 1")
  | ["call", t] => match nat? t with
    | some t =>
      if d.called.contains t then ({ d with states := [] }, "err Rejected")
      else
        let called := d.called ++ [t]
        answer { called := called, states := close called d.states }
    | none => (d, "bad-op")
  | ["fenter", t] => match nat? t with
    | some t => observe d t .fenter .raise
    | none => (d, "bad-op")
  | ["fret", t, v] => match nat? t, int? v with
    | some t, some v => observe d t (.fret v) (.ret v)
    | _, _ => (d, "bad-op")
  | ["fraise", t] => match nat? t with
    | some t => observe d t .fraise .raise
    | none => (d, "bad-op")
  | ["ret", t, r] => match nat? t, int? r with
    | some t, some r => answer { d with states := d.states.filter fun s => s.pc t == .returned r }
    | _, _ => (d, "bad-op")
  | ["exc", t] => match nat? t with
    | some t => answer { d with states := d.states.filter fun s => s.pc t == .raised }
    | none => (d, "bad-op")
  | _ => (d, "bad-op")

def main : IO Unit := runDriver ({ called := [], states := [init] } : D) step
