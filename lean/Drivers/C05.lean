import CffiVerif.Model.FloatStore
import CffiVerif.Model.Proto
open CffiVerif CffiVerif.Ieee CffiVerif.FloatStore CffiVerif.Proto

/-!
Driver of the C05 model.  Bit patterns are decimal integers, bytes are hex.

* `store <size> <bits64>`           → `ok <hex bytes> <bits64 read back>`  (write_raw_float_data then read_raw_float_data)
* `read <size> <hex>`               → `ok <bits64>`
* `narrow <bits64>` / `widen <bits32>` → `ok <bits>`
* `cplx <size> <off> <buflen> <re64> <im64>` → `ok <hex buffer> <re64> <im64>`  (write into a zeroed buffer, read back)
* `ord <n>`                         → `ok <bits64>`  (1-char bytes/str cast to a float type)
* `ld <new|item|cast> <hex16> <junkhex>` → `ok <hex of the 10 value bytes of the copy>`
* `castchar <size> <bytes|str> <len> <ord>` → `ok <hex bytes>` | `err TypeError`   (ffi.cast(float type, 1-char bytes/str))

`store`, `read`, `ld` and `castchar` run the float branches of convert_from_object / convert_to_object /
do_cast of the model, i.e. through the flag tests and result codes of `Generated/FloatExprs.lean`.
-/

def fltFlags : Nat := Generated.FloatExprs.CT_PRIMITIVE_FLOAT
def ldFlags : Nat := Generated.FloatExprs.CT_PRIMITIVE_FLOAT ||| Generated.FloatExprs.CT_IS_LONGDOUBLE
def noExt (_ : UInt64) : Bytes := []
def pyFloatArg (x : Nat) : FArg := ⟨false, 0, [], some (UInt64.ofNat x)⟩
def ldArg (obj : Bytes) : FArg := ⟨true, ldFlags, obj, none⟩

def errStr : Err → String
  | .fatalBadSize => "err FatalBadSize"
  | .typeError => "err TypeError"
  | .unmodelled => "err Unmodelled"

def step (_ : Unit) : List String → Unit × String
  | ["narrow", x] =>
    match nat? x with
    | some x => if x < 2 ^ 64 then ((), s!"ok {narrowNat x}") else ((), "bad-op")
    | none => ((), "bad-op")
  | ["widen", b] =>
    match nat? b with
    | some b => if b < 2 ^ 32 then ((), s!"ok {widenNat b}") else ((), "bad-op")
    | none => ((), "bad-op")
  | ["store", sz, x] =>
    match nat? sz, nat? x with
    | some sz, some x =>
      if x < 2 ^ 64 then
        match convertFromObjectFloat fltFlags sz (pyFloatArg x) noExt [] with
        | .ok bs =>
          match convertToObjectFloat fltFlags sz bs [] with
          | .ok (.pyfloat back) => ((), s!"ok {bytesHex bs} {back.toNat}")
          | .ok (.ldcdata _) => ((), "err Unmodelled")
          | .error e => ((), errStr e)
        | .error e => ((), errStr e)
      else ((), "bad-op")
    | _, _ => ((), "bad-op")
  | ["read", sz, h] =>
    match nat? sz, hexBytes? h with
    | some sz, some bs =>
      match convertToObjectFloat fltFlags sz bs [] with
      | .ok (.pyfloat back) => ((), s!"ok {back.toNat}")
      | .ok (.ldcdata _) => ((), "err Unmodelled")
      | .error e => ((), errStr e)
    | _, _ => ((), "bad-op")
  | ["cplx", sz, off, len, re, im] =>
    match nat? sz, nat? off, nat? len, nat? re, nat? im with
    | some sz, some off, some len, some re, some im =>
      if re < 2 ^ 64 ∧ im < 2 ^ 64 then
        match writeRawComplex (List.replicate len 0) off (UInt64.ofNat re) (UInt64.ofNat im) sz with
        | .ok (some buf) =>
          match readRawComplex buf off sz with
          | .ok (some (r, i)) => ((), s!"ok {bytesHex buf} {r.toNat} {i.toNat}")
          | .ok none => ((), "err OutOfBounds")
          | .error e => ((), errStr e)
        | .ok none => ((), "err OutOfBounds")
        | .error e => ((), errStr e)
      else ((), "bad-op")
    | _, _, _, _, _ => ((), "bad-op")
  | ["ord", n] =>
    match nat? n with
    | some n => if n < 2 ^ 32 then ((), s!"ok {natToDouble n}") else ((), "bad-op")
    | none => ((), "bad-op")
  | ["ld", path, h, j] =>
    match hexBytes? h, hexBytes? j with
    | some src, some junk =>
      let r : Option (Except Err Bytes) := match path with
        | "new" => some (convertFromObjectFloat ldFlags 16 (ldArg src) noExt junk)
        | "item" => some (match convertToObjectFloat ldFlags 16 src junk with
            | .ok (.ldcdata o) => .ok o
            | .ok (.pyfloat _) => .error .unmodelled
            | .error e => .error e)
        | "cast" => some (match convertToObjectFloat ldFlags 16 src junk with       -- io = convert_to_object(ob)
            | .ok (.ldcdata io) => castToFloat ldFlags 16 true ldFlags (.other (ldArg io)) noExt junk.reverse
            | .ok (.pyfloat _) => .error .unmodelled
            | .error e => .error e)
        | _ => none
      match r with
      | some (.ok obj) => ((), s!"ok {bytesHex (ldValue obj)}")
      | some (.error .fatalBadSize) => ((), "err BadSize")
      | some (.error e) => ((), errStr e)
      | none => ((), "bad-op")
    | _, _ => ((), "bad-op")
  | ["castchar", sz, kind, len, n] =>
    match nat? sz, nat? len, nat? n with
    | some sz, some len, some n =>
      let io : Option CastArg := match kind with
        | "bytes" => some (.bytes len n)
        | "str" => some (.str (len == 1) n)
        | _ => none
      match io with
      | some io =>
        match castToFloat fltFlags sz false 0 io noExt [] with
        | .ok bs => ((), s!"ok {bytesHex bs}")
        | .error e => ((), errStr e)
      | none => ((), "bad-op")
    | _, _, _ => ((), "bad-op")
  | _ => ((), "bad-op")

def main : IO Unit := runDriver () step
