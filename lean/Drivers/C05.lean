import CffiVerif.Model.FloatStore
import CffiVerif.Model.Proto
open CffiVerif CffiVerif.Ieee CffiVerif.FloatStore CffiVerif.Proto

/-!
Driver of the C05 model.  Bit patterns are decimal integers, bytes are hex.

* `store <size> <bits64>`           → `ok <hex bytes> <bits64 read back>`  (write_raw_float_data then read_raw_float_data)
* `read <size> <hex>`               → `ok <bits64>`
* `narrow <bits64>` / `widen <bits32>` → `ok <bits>`
* `cplx <size> <off> <buflen> <re64> <im64>` → `ok <hex buffer> <re64> <im64>`  (write into a zeroed buffer, read back)
* `ord <n>`                         → `ok <bits64>`  (1-char bytes/str cast to a float type)
* `ld <new|item|cast> <hex16> <junkhex>` → `ok <hex of the 10 value bytes of the copy>`
-/

def errStr : Err → String
  | .fatalBadSize => "err FatalBadSize"
  | .typeError => "err TypeError"

def step (_ : Unit) : List String → Unit × String
  | ["narrow", x] =>
    match nat? x with
    | some x => if x < 2 ^ 64 then ((), s!"ok {narrowNat x}") else ((), "bad-op")
    | none => ((), "bad-op")
  | ["widen", b] =>
    match nat? b with
    | some b => if b < 2 ^ 32 then ((), s!"ok {widenNat b}") else ((), "bad-op")
    | none => ((), "bad-op")
  | ["store", sz, x] =>
    match nat? sz, nat? x with
    | some sz, some x =>
      if x < 2 ^ 64 then
        match writeRawFloat (UInt64.ofNat x) sz with
        | .ok bs =>
          match readRawFloat bs sz with
          | .ok back => ((), s!"ok {bytesHex bs} {back.toNat}")
          | .error e => ((), errStr e)
        | .error e => ((), errStr e)
      else ((), "bad-op")
    | _, _ => ((), "bad-op")
  | ["read", sz, h] =>
    match nat? sz, hexBytes? h with
    | some sz, some bs =>
      match readRawFloat bs sz with
      | .ok back => ((), s!"ok {back.toNat}")
      | .error e => ((), errStr e)
    | _, _ => ((), "bad-op")
  | ["cplx", sz, off, len, re, im] =>
    match nat? sz, nat? off, nat? len, nat? re, nat? im with
    | some sz, some off, some len, some re, some im =>
      if re < 2 ^ 64 ∧ im < 2 ^ 64 then
        match writeRawComplex (List.replicate len 0) off (UInt64.ofNat re) (UInt64.ofNat im) sz with
        | .ok (some buf) =>
          match readRawComplex buf off sz with
          | .ok (some (r, i)) => ((), s!"ok {bytesHex buf} {r.toNat} {i.toNat}")
          | .ok none => ((), "err OutOfBounds")
          | .error e => ((), errStr e)
        | .ok none => ((), "err OutOfBounds")
        | .error e => ((), errStr e)
      else ((), "bad-op")
    | _, _, _, _, _ => ((), "bad-op")
  | ["ord", n] =>
    match nat? n with
    | some n => if n < 2 ^ 32 then ((), s!"ok {natToDouble n}") else ((), "bad-op")
    | none => ((), "bad-op")
  | ["ld", path, h, j] =>
    match hexBytes? h, hexBytes? j with
    | some src, some junk =>
      let r := match path with
        | "new" => some (ldConvertFromObject src junk)
        | "item" => some (ldConvertToObject src junk)
        | "cast" => some (ldCast src junk junk.reverse)
        | _ => none
      match r with
      | some (some obj) => ((), s!"ok {bytesHex (ldValue obj)}")
      | some none => ((), "err BadSize")
      | none => ((), "bad-op")
    | _, _ => ((), "bad-op")
  | _ => ((), "bad-op")

def main : IO Unit := runDriver () step
