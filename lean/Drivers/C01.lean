import CffiVerif.Model.Layout
import CffiVerif.Model.LayoutFlags
import CffiVerif.Spec.GccLayout
import CffiVerif.Model.Proto
open CffiVerif CffiVerif.Layout CffiVerif.Proto

/-!
`layout <type>`  cffi model:   `ok <size> <align> <cf_offset>/<cf_bitshift>/<cf_bitsize> …` (`-` for non-bit-fields)
                               or `err TypeError` / `err NotImplementedError`
`layoutf MSVC ARM BE <type>`  all-flags model (flags ∈ {0,1}; every aggregate completed with these flags
                               and its own packing): same answer format, offsets may be negative
`gcc <type>`     compiler spec: `ok <size> <align> <bitpos>/<width> …`

`<type>` in prefix notation:
  `p SIZE ALIGN INTLIKE`                      primitive / pointer
  `a LEN <type>`                              array
  `s PACK N <field>*N` / `u PACK N <field>*N` struct / union
  `<field>` = `NAMED BITS FLEX <type>`        NAMED, FLEX ∈ {0,1}; BITS = `-` or a width
-/

def bool? : String → Option Bool
  | "0" => some false
  | "1" => some true
  | _ => none

mutual
partial def parseTy : List String → Option (Ty × List String)
  | "p" :: sz :: al :: il :: rest => do
    let sz ← nat? sz; let al ← nat? al; let il ← bool? il
    pure (.prim sz al il, rest)
  | "a" :: n :: rest => do
    let n ← nat? n
    let (t, rest) ← parseTy rest
    pure (.arr t n, rest)
  | k :: pack :: n :: rest => do
    let u ← (if k == "s" then some false else if k == "u" then some true else none)
    let pack ← nat? pack; let n ← nat? n
    let (fs, rest) ← parseFields n rest
    pure (.agg u pack fs, rest)
  | _ => none
partial def parseFields : Nat → List String → Option (Fields × List String)
  | 0, rest => some (.nil, rest)
  | n + 1, named :: bits :: flex :: rest => do
    let named ← bool? named; let flex ← bool? flex
    let bits ← (if bits == "-" then some none else (nat? bits).map some)
    let (t, rest) ← parseTy rest
    let (fs, rest) ← parseFields n rest
    pure (.cons named bits flex t fs, rest)
  | _, _ => none
end

def showC (c : CField) : String :=
  match c.bits with
  | none => s!"{c.offset}/-/-"
  | some (sh, w) => s!"{c.offset}/{sh}/{w}"

def showF (c : LayoutFlags.FField') : String :=
  match c.bits with
  | none => s!"{c.offset}/-/-"
  | some (sh, w) => s!"{c.offset}/{sh}/{w}"

def showG (g : GccLayout.GField) : String :=
  match g.width with
  | none => s!"{g.bitpos}/-"
  | some w => s!"{g.bitpos}/{w}"

def step (_ : Unit) : List String → Unit × String
  | "layout" :: toks =>
    match parseTy toks with
    | some (t, []) =>
      match layoutCffi t with
      | .ok l => ((), " ".intercalate (["ok", toString l.size, toString l.align] ++ l.fields.map showC))
      | .error .typeError => ((), "err TypeError")
      | .error .notImplemented => ((), "err NotImplementedError")
    | _ => ((), "bad-op")
  | "layoutf" :: ms :: ar :: be :: toks =>
    match bool? ms, bool? ar, bool? be, parseTy toks with
    | some ms, some ar, some be, some (t, []) =>
      match LayoutFlags.layoutFlags ⟨ms, ar, be, false⟩ t with
      | .ok l => ((), " ".intercalate (["ok", toString l.size, toString l.align] ++ l.fields.map showF))
      | .error .typeError => ((), "err TypeError")
      | .error .notImplemented => ((), "err NotImplementedError")
    | _, _, _, _ => ((), "bad-op")
  | "gcc" :: toks =>
    match parseTy toks with
    | some (t, []) =>
      let l := GccLayout.layout t
      ((), " ".intercalate (["ok", toString l.size, toString l.align] ++ l.fields.map showG))
    | _ => ((), "bad-op")
  | _ => ((), "bad-op")

def main : IO Unit := runDriver () step
