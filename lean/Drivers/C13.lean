import CffiVerif.Model.Call
import CffiVerif.Model.Proto
open CffiVerif CffiVerif.Call CffiVerif.Proto

/-!
`arg <api|ffi> <sint|uint|bool|char> <1|2|4|8> <obj…>`   argument conversion: `ok <hex image>` / `err <Kind>`
`res <api|ffi> <kind> <size> <hex image>`                 result conversion: `ok int n` / `ok bool b` / `ok bytes hh`
`vararg <kind> <size> <v>`                                cdata of that type and value in the variadic part
`ptr <itemSize> <voidOrChar> <int1> <bool> <init…>`       `_prepare_pointer_call_argument`
`tmp <api|ffi> <datasize> <itemSize> <hex>…`               the temporary array after conversion of the items
obj  = `int n` | `intlike n` | `float` | `bytes hex` | `charcdata n` | `none` | `other`
init = `cdata 0|1` | `bytes hex` | `seq len` | `ustr units` | `other`
-/

def parseKind : String → Option Kind
  | "sint" => some .sint | "uint" => some .uint | "bool" => some .bool | "char" => some .char
  | _ => none

def parseSz : String → Option Sz
  | "1" => some .s1 | "2" => some .s2 | "4" => some .s4 | "8" => some .s8
  | _ => none

def parseType (k s : String) : Option CType := do
  let k ← parseKind k
  let s ← parseSz s
  let t : CType := ⟨k, s⟩
  if t.valid then some t else none

def parseObj : List String → Option PyObj
  | ["int", n] => (int? n).map PyObj.int
  | ["intlike", n] => (int? n).map PyObj.intlike
  | ["float"] => some .float
  | ["bytes", h] => (hexBytes? h).map PyObj.bytes
  | ["charcdata", n] => (nat? n).bind fun n => if n < 256 then some (.charCdata (UInt8.ofNat n)) else none
  | ["none"] => some .none
  | ["other"] => some .other
  | _ => none

def parseBool : String → Option Bool
  | "0" => some false | "1" => some true | _ => none

def parseInit : List String → Option PtrInit
  | ["cdata", b] => (parseBool b).map PtrInit.cdata
  | ["bytes", h] => (hexBytes? h).map PtrInit.bytes
  | ["seq", n] => (nat? n).map PtrInit.seq
  | ["ustr", n] => (nat? n).map PtrInit.ustr
  | ["other"] => some .other
  | _ => none

def showBytes : Except ErrKind (List UInt8) → String
  | .ok b => "ok " ++ bytesHex b
  | .error e => "err " ++ e.name

def showRes : Except ErrKind PyRes → String
  | .ok (.int n) => s!"ok int {n}"
  | .ok (.bool b) => if b then "ok bool 1" else "ok bool 0"
  | .ok (.bytes1 b) => "ok bytes " ++ bytesHex [b]
  | .error e => "err " ++ e.name

def step (_ : Unit) : List String → Unit × String
  | "arg" :: path :: k :: s :: obj =>
    match parseType k s, parseObj obj with
    | some t, some o =>
      if path == "api" then ((), showBytes (argApi t o))
      else if path == "ffi" then ((), showBytes (argFfi t o))
      else ((), "bad-op")
    | _, _ => ((), "bad-op")
  | ["res", path, k, s, h] =>
    match parseType k s, hexBytes? h with
    | some t, some bs =>
      if bs.length ≠ t.size.bytes then ((), "bad-op")
      else if path == "api" then ((), showRes (.ok (resApi t (leNat bs))))
      else if path == "ffi" then ((), showRes (resFfi t (leNat bs)))
      else ((), "bad-op")
    | _, _ => ((), "bad-op")
  | ["vararg", k, s, v] =>
    match parseType k s, int? v with
    | some t, some v => ((), showBytes (variadicArg t v))
    | _, _ => ((), "bad-op")
  | "ptr" :: isz :: vc :: i1 :: ib :: init =>
    match int? isz, parseBool vc, parseBool i1, parseBool ib, parseInit init with
    | some isz, some vc, some i1, some ib, some init =>
      ((), match preparePtr ⟨isz, vc, i1, ib⟩ init with
        | .ok .direct => "ok direct"
        | .ok (.passthrough m) => "ok pass " ++ bytesHex m
        | .ok (.tmp n) => s!"ok tmp {n}"
        | .error e => "err " ++ e.name)
    | _, _, _, _, _ => ((), "bad-op")
  | "tmp" :: path :: ds :: isz :: items =>
    match nat? ds, nat? isz, items.mapM hexBytes? with
    | some ds, some isz, some items =>
      if path == "api" then ((), "ok " ++ bytesHex (tmpArrayApi ds isz items))
      else if path == "ffi" then ((), "ok " ++ bytesHex (tmpArrayFfi ds isz items))
      else ((), "bad-op")
    | _, _, _ => ((), "bad-op")
  | _ => ((), "bad-op")

def main : IO Unit := runDriver () step
