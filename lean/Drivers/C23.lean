import CffiVerif.Model.AtomicWrite
import CffiVerif.Model.Proto
open CffiVerif CffiVerif.AtomicWrite CffiVerif.Proto

/-- A text is one word: `-` = empty, else decimal code points joined by `,`. -/
def text? (s : String) : Option Text :=
  if s == "-" then some [] else (s.splitOn ",").mapM nat?

def textStr (t : Text) : String :=
  if t.isEmpty then "-" else ",".intercalate (t.map toString)

/-- Split into `n` consecutive chunks (the last one takes the remainder). -/
def splitInto : Nat → Text → List Text
  | 0, _ => []
  | 1, t => [t]
  | n + 1, t => let k := t.length / (n + 1); t.take k :: splitInto n (t.drop k)

def opStr : Op → String
  | .openRead _ => "openr:T"
  | .read _ => "read:T"
  | .closeRead _ => "closer:T"
  | .openTrunc p => if p = 0 then "openw:T" else "openw:M"
  | .write p _ => if p = 0 then "write:T" else "write:M"
  | .closeWrite p => if p = 0 then "closew:T" else "closew:M"
  | .rename _ _ => "rename:M:T"
  | .renameFail _ _ => "renamefail:M:T"
  | .unlink _ => "unlink:T"

/-- What the target holds after a prefix, relative to before: `O` exactly the old entry
(content and mtime, or still absent), `N` the complete new text, `A` absent, `X` anything else. -/
def stateLetter (fs fs' : FS) (new : Text) : String :=
  if fs'.files 0 = fs.files 0 then "O"
  else match fs'.files 0 with
    | none => "A"
    | some f => if f.content = new then "N" else "X"

def step (_ : Unit) : List String → Unit × String
  | ["plan", old, new, nch, rok] =>
    match (if old == "none" then some none else (text? old).map some), text? new, nat? nch, nat? rok with
    | some o, some n, some k, some r =>
      let fs : FS := ⟨fun p => if p = 0 then o.map (fun c => ⟨c, 5⟩) else none, 6⟩
      let chunks := splitInto k n
      if chunks.flatten ≠ n then ((), "bad-op") else
      let (ops, ret) := plan fs 1 0 n chunks (r != 0)
      let states := (List.range (ops.length + 1)).map fun i => stateLetter fs (run fs (ops.take i)) n
      ((), s!"ok ret={match ret with | some true => "1" | some false => "0" | none => "none"} ops={",".intercalate (ops.map opStr)} states={String.join states}")
    | _, _, _, _ => ((), "bad-op")
  | "sort" :: keys =>
    match keys.mapM text? with
    | some ks =>
      let sorted := sortByKey (fun (p : Key × Nat) => p.1) (ks.zip (List.range ks.length))
      ((), "ok " ++ " ".intercalate (sorted.map fun p => toString p.2))
    | none => ((), "bad-op")
  | ["univ", t] =>
    match text? t with
    | some x => ((), "ok " ++ textStr (univNewlines x))
    | none => ((), "bad-op")
  | _ => ((), "bad-op")

def main : IO Unit := runDriver () step
