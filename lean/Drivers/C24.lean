import CffiVerif.Model.GenSrcIO
import CffiVerif.Model.Proto
open CffiVerif CffiVerif.GenSrcIO CffiVerif.Proto

/-!
Line protocol (bytes: lower-case hex, `-` = empty; text: decimal code points joined by `,`, `-` = empty):

* `decode <hex>`               → `ok <cps>` | `err UnicodeDecodeError`
* `encode <cps>`               → `ok <hex>` | `err UnicodeEncodeError`
* `readtext <hex>`             → `ok <cps>` | `err UnicodeDecodeError`    (text-mode read of a file)
* `deliver file|stdout <linesep cps> <text cps>` → `ok <hex>` | `err UnicodeEncodeError`
* `deliveronto <absent|hex of the previous file> <linesep cps> <text cps>` → `ok <hex>` | `err UnicodeEncodeError`
* `cli <file|stdout> <name cps> <cdef hex> <csrc hex>` with the identity-on-prelude generator
                               → `ok <hex>` | `err <kind>`   (the read-sources pipeline end to end)
-/

def cps? (s : String) : Option (List Nat) :=
  if s == "-" then some [] else (s.splitOn ",").mapM nat?

def cpsOut (l : List Nat) : String :=
  if l.isEmpty then "-" else ",".intercalate (l.map toString)

def bytes? (s : String) : Option (List Nat) := (hexBytes? s).map fun l => l.map UInt8.toNat

def bytesOut (l : List Nat) : String := bytesHex (l.map UInt8.ofNat)

def errOut : Err → String
  | .unicodeDecodeError => "err UnicodeDecodeError"
  | .unicodeEncodeError => "err UnicodeEncodeError"
  | .generator => "err generator"

def out? : String → Option Output
  | "file" => some .file
  | "stdout" => some .stdout
  | _ => none

def step (_ : Unit) : List String → Unit × String
  | ["decode", h] =>
    match bytes? h with
    | some bs => ((), match utf8Decode bs with
        | some s => "ok " ++ cpsOut s
        | none => "err UnicodeDecodeError")
    | none => ((), "bad-op")
  | ["encode", s] =>
    match cps? s with
    | some t => ((), match utf8Encode t with
        | some bs => "ok " ++ bytesOut bs
        | none => "err UnicodeEncodeError")
    | none => ((), "bad-op")
  | ["readtext", h] =>
    match bytes? h with
    | some bs => ((), match readText bs with
        | .ok s => "ok " ++ cpsOut s
        | .error e => errOut e)
    | none => ((), "bad-op")
  | ["deliver", o, ls, s] =>
    match out? o, cps? ls, cps? s with
    | some o, some ls, some t => ((), match deliver ls o t with
        | .ok bs => "ok " ++ bytesOut bs
        | .error e => errOut e)
    | _, _, _ => ((), "bad-op")
  | ["deliveronto", prev, ls, s] =>
    let prev? : Option (Option (List Nat)) := if prev == "absent" then some none else (bytes? prev).map some
    match prev?, cps? ls, cps? s with
    | some prev, some ls, some t => ((), match writeFileOnto ls prev t with
        | .ok bs => "ok " ++ bytesOut bs
        | .error e => errOut e)
    | _, _, _ => ((), "bad-op")
  | ["cli", o, name, cdef, csrc] =>
    match out? o, cps? name, bytes? cdef, bytes? csrc with
    | some o, some name, some cdef, some csrc =>
      ((), match cliReadSources (fun _ _ p => .ok p) [10] o name cdef csrc with
        | .ok bs => "ok " ++ bytesOut bs
        | .error e => errOut e)
    | _, _, _, _ => ((), "bad-op")
  | _ => ((), "bad-op")

def main : IO Unit := runDriver () step
