import CffiVerif.Model.UniqueCache
import CffiVerif.Model.Proto
open CffiVerif CffiVerif.UniqueCache CffiVerif.Proto

/-!
Line protocol of the unique-cache model (C27).  Addresses are small integers the
harness assigns to the real addresses (`id()`) of ctype objects: the same
address gets the same integer, also when the memory is reused.

  reset
  build prim <i> <res> | build void <res> | build ptr <c> <res> | build arr <p> <len|-> <res>
  build func <res-type> <ellipsis 0|1> <abi> <arg> ... <res>     build agg <res>
        -> ok hit | ok new | err TypeError | err ValueError | err OverflowError
           (err NotCanonical / AddrInUse: the implementation's answer is not allowed by the model)
  drop <a> | clearweak <a> | finish <a>      -> ok done
-/

def errName : Err → String
  | .TypeError => "TypeError" | .ValueError => "ValueError" | .OverflowError => "OverflowError"
  | .Dead => "Dead" | .NotCanonical => "NotCanonical" | .AddrInUse => "AddrInUse" | .NoRef => "NoRef"
  | .Referenced => "Referenced"

def showOut : Out → String
  | .ok .hit => "ok hit"
  | .ok .new => "ok new"
  | .ok .done => "ok done"
  | .error e => "err " ++ errName e

def splitLast : List String → Option (List String × String)
  | [] => none
  | [x] => some ([], x)
  | x :: rest => (splitLast rest).map fun p => (x :: p.1, p.2)

def parseOp : List String → Option Op
  | ["build", "prim", i, r] => do some (.build (.prim (← nat? i)) (← nat? r))
  | ["build", "void", r] => do some (.build .void (← nat? r))
  | ["build", "agg", r] => do some (.build .agg (← nat? r))
  | ["build", "ptr", c, r] => do some (.build (.ptr (← nat? c)) (← nat? r))
  | ["build", "arr", p, l, r] => do
      let len ← if l == "-" then some none else (nat? l).map some
      some (.build (.arr (← nat? p) len) (← nat? r))
  | "build" :: "func" :: rt :: e :: abi :: rest => do
      let (args, r) ← splitLast rest
      let ell ← if e == "1" then some true else if e == "0" then some false else none
      some (.build (.func (← nat? rt) (← args.mapM nat?) ell (← nat? abi)) (← nat? r))
  | ["drop", a] => (nat? a).map .drop
  | ["clearweak", a] => (nat? a).map .clearweak
  | ["finish", a] => (nat? a).map .finish
  | _ => none

def stepLine (s : State) (ws : List String) : State × String :=
  match ws with
  | ["reset"] => (init, "ok")
  | _ =>
    match parseOp ws with
    | some op => let r := step s op; (r.1, showOut r.2)
    | none => (s, "bad-op")

def main : IO Unit := runDriver init stepLine
