import CffiVerif.Model.CheckInt
import CffiVerif.Model.StructCheck
import CffiVerif.Model.Proto
open CffiVerif CffiVerif.Proto

/-- `const <define|enum|constant> <cdef value or -> <compiler value>`:
      `ok <value>` | `err FFIError`
    `struct <check 0/1> <union 0/1> <packed 0/1> <totalsize> <totalalign> <csize:calign:koffset:ksize>…`:
      `ok <size> <align> <custom 0/1> <offset>…` | `err FFIError` | `err TypeError`
    `structf <s->flags of the generated table> <totalsize> <totalalign> <fields>…`: the same through `sflagsOf`
    `natural <union> <packed> <csize:calign:0:0>…`: `ok <size> <align> <offset>…` -/
def parseFld (s : String) : Option StructCheck.Fld :=
  match (s.splitOn ":").map int? with
  | [some a, some b, some c, some d] => if 0 ≤ b then some ⟨a, b.toNat, c, d⟩ else none
  | _ => none

def bool? (s : String) : Option Bool :=
  if s == "1" then some true else if s == "0" then some false else none

def ints (l : List Int) : String := " ".intercalate (l.map toString)

def step (u : Unit) : List String → Unit × String
  | ["const", kind, cdef, x] =>
    let k : Option CheckInt.Kind :=
      if kind == "define" then some .define else if kind == "enum" then some .enumerator
      else if kind == "constant" then some .constant else none
    let cv : Option (Option Int) := if cdef == "-" then some none else (int? cdef).map some
    match k, cv, int? x with
    | some k, some cv, some x =>
      (u, match CheckInt.libConst k cv x with
          | .ok v => s!"ok {v}"
          | .error .ffiError => "err FFIError")
    | _, _, _ => (u, "bad-op")
  | "struct" :: c :: un :: pk :: tot :: al :: flds =>
    match bool? c, bool? un, bool? pk, int? tot, int? al, flds.mapM parseFld with
    | some c, some un, some pk, some tot, some al, some fs =>
      (u, match StructCheck.realise ⟨c, un, pk⟩ fs tot al with
          | .ok L => s!"ok {L.size} {L.align} {if L.custom then 1 else 0} {ints L.offsets}"
          | .error .ffiError => "err FFIError"
          | .error .typeError => "err TypeError")
    | _, _, _, _, _, _ => (u, "bad-op")
  | "structf" :: flags :: tot :: al :: flds =>
    match nat? flags, int? tot, int? al, flds.mapM parseFld with
    | some flags, some tot, some al, some fs =>
      (u, match StructCheck.realiseTable flags fs tot al with
          | .ok L => s!"ok {L.size} {L.align} {if L.custom then 1 else 0} {ints L.offsets}"
          | .error .ffiError => "err FFIError"
          | .error .typeError => "err TypeError")
    | _, _, _, _ => (u, "bad-op")
  | "natural" :: un :: pk :: flds =>
    match bool? un, bool? pk, flds.mapM parseFld with
    | some un, some pk, some fs =>
      let n := StructCheck.natural ⟨true, un, pk⟩ fs
      (u, s!"ok {n.size} {n.align} {ints n.offsets}")
    | _, _, _ => (u, "bad-op")
  | _ => (u, "bad-op")

def main : IO Unit := runDriver () step
