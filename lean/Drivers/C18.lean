import CffiVerif.Model.Unpack
import CffiVerif.Model.Proto
open CffiVerif CffiVerif.Utf16 CffiVerif.Unpack CffiVerif.Proto

/-!
Line protocol of the C18 model driver.  `<kind>` is one of signed unsigned bool float longdouble
char complex pointer aggregate unsized; memory is lower-case hex (`-` = empty).

  casenum <kind> <size> <align> <base>              -> ok <case number or -1>
  unpack <kind> <size> <align> <base> <mem> <n>     -> ok list <elems> | ok bytes <units> | ok str <cps> | err <Kind>
  indexall <kind> <size> <align> <mem> <n>          -> ok <elems> | err <Kind>      ([p[i] for i in range(n)])

Elements (comma separated, `-` = none): i<int> T F f<bits of the double> c<re bits>:<im bits>
L<hex of the 10 value bytes> b<byte values joined by .> s<code points joined by .> p<address> r<offset>.
-/

def kind? : String → Option Kind
  | "signed" => some .signed | "unsigned" => some .unsigned | "bool" => some .bool
  | "float" => some .float | "longdouble" => some .longdouble | "char" => some .char
  | "complex" => some .complex | "pointer" => some .pointer | "aggregate" => some .aggregate
  | "unsized" => some .unsized
  | _ => none

def dots (l : List Nat) : String := ".".intercalate (l.map toString)
def commas (l : List Nat) : String := if l.isEmpty then "-" else ",".intercalate (l.map toString)

def showObj : PyObj → String
  | .int v => s!"i{v}"
  | .bool true => "T"
  | .bool false => "F"
  | .float b => s!"f{b}"
  | .complex re im => s!"c{re}:{im}"
  | .longdouble bs => "L" ++ bytesHex bs
  | .bytes b => "b" ++ dots b
  | .str s => "s" ++ dots s
  | .ptr a => s!"p{a}"
  | .ref o => s!"r{o}"

def showObjs (l : List PyObj) : String :=
  if l.isEmpty then "-" else ",".intercalate (l.map showObj)

def showResult : Result → String
  | .list l => "list " ++ showObjs l
  | .bytes b => "bytes " ++ commas b
  | .str s => "str " ++ commas s

def answer {α : Type} (f : α → String) : Except Err α → String
  | .ok a => "ok " ++ f a
  | .error e => "err " ++ e.name

def step (_ : Unit) : List String → Unit × String
  | ["casenum", k, size, align, base] =>
    match kind? k, nat? size, nat? align, nat? base with
    | some k, some size, some align, some base =>
      ((), match casenum ⟨k, size, align⟩ base with
        | some c => s!"ok {c}"
        | none => "ok -1")
    | _, _, _, _ => ((), "bad-op")
  | ["unpack", k, size, align, base, mem, n] =>
    match kind? k, nat? size, nat? align, nat? base, hexBytes? mem, nat? n with
    | some k, some size, some align, some base, some mem, some n =>
      ((), answer showResult (unpack ⟨k, size, align⟩ mem base n))
    | _, _, _, _, _, _ => ((), "bad-op")
  | ["indexall", k, size, align, mem, n] =>
    match kind? k, nat? size, nat? align, hexBytes? mem, nat? n with
    | some k, some size, some align, some mem, some n =>
      ((), answer showObjs (mapExcept (indexRead ⟨k, size, align⟩ mem) (List.range n)))
    | _, _, _, _, _ => ((), "bad-op")
  | _ => ((), "bad-op")

def main : IO Unit := runDriver () step
