import CffiVerif.Model.ConstExprProto
import CffiVerif.Spec.CConstExprNoWrap
open CffiVerif CffiVerif.Proto CffiVerif.ConstExpr CffiVerif.ConstExprProto

/-!
Line protocol of the C09 driver.

  reset
  bind NAME INT TAG|- CVAL     bind a name in cffi's `_int_constants` and (unless TAG is `-`) in C's scope
  macro NAME Lc.c.c…           `#define NAME text` / `static const int NAME = text;` (text = code points):
                               answer `ok model=<int|err:K|nomatch> spec=<tag:int|undef> nowrap=<0|1>`; binds on success
  bindlast NAME                bind NAME to the results of the last `expr` (enumerator rule: type int if it fits)
  expr TOKEN…                  prefix notation: Lc.c.c (literal token), pos, neg, R<name>, add sub mul div mod
                               shl shr band bor bxor, unsup, unsupbin
                               answer `ok model=<int|err:K> spec=<tag:int|undef|nogrammar> allsigned=<0|1> nowrap=<0|1>`
-/

namespace C09Driver
open CffiVerif.CConstExpr (CExpr IntLit CType)

def step (s : St) : List String → St × String
  | ["reset"] => ({}, "ok")
  | ["bind", n, v, t, cv] =>
    match int? v with
    | none => (s, "bad-op")
    | some v =>
      if t == "-" then ({ s with penv := (n, v) :: s.penv }, "ok") else
      match tag? t, int? cv with
      | some t, some cv => ({ s with penv := (n, v) :: s.penv, cenv := (n, (t, cv)) :: s.cenv }, "ok")
      | _, _ => (s, "bad-op")
  | ["macro", n, w] =>
    match codePoints? w with
    | none => (s, "bad-op")
    | some text =>
      let m := literalConstant text
      -- C reading: optional '-' then an integer literal
      let (isNeg, body) := match text with | '-' :: t => (true, t) | _ => (false, text)
      let ce : Option CExpr := match cLit? body with
        | some (.int l) => some (if isNeg then .neg (.int l) else .int l)
        | _ => none
      let sp := ce.bind (CConstExpr.eval s.c)
      let s1 := match m with
        | some (.ok v) => { s with penv := (n, v) :: s.penv }
        | _ => s
      let s2 := match sp with
        | some tv => { s1 with cenv := (n, tv) :: s1.cenv }
        | none => s1
      let ms := match m with | none => "nomatch" | some r => showModel r
      let noW := match ce with | some c => CConstExpr.noWrap s.c c | none => false
      (s2, s!"ok model={ms} spec={showSpec sp} nowrap={if noW then 1 else 0}")
  | ["bindlast", n] =>
    let s1 := match s.lastModel with
      | some v => { s with penv := (n, v) :: s.penv }
      | none => s
    let s2 := match s.lastSpec with
      | some (t, v) => { s1 with cenv := (n, (if CType.int.inRange v then CType.int else t, v)) :: s1.cenv }
      | none => s1
    (s2, "ok")
  | "expr" :: toks =>
    match parse toks with
    | some (e, ce, []) =>
      let m := ConstExpr.eval s.p e
      let consistent : Bool := match ce with
        | some c => decide (reprStr c.toModel = reprStr e)
        | none => true
      if !consistent then (s, "bad-op") else
      let (sp, spStr, allS, noW) := match ce with
        | some c => let r := CConstExpr.eval s.c c
                    (r, showSpec r, CConstExpr.allSigned s.c c, CConstExpr.noWrap s.c c)
        | none => (none, "nogrammar", false, false)
      ({ s with lastModel := (match m with | .ok v => some v | _ => none), lastSpec := sp },
       s!"ok model={showModel m} spec={spStr} allsigned={if allS then 1 else 0} nowrap={if noW then 1 else 0}")
    | _ => (s, "bad-op")
  | _ => (s, "bad-op")

end C09Driver

def main : IO Unit := runDriver ({} : CffiVerif.ConstExprProto.St) C09Driver.step
