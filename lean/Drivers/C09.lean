import CffiVerif.Model.ConstExpr
import CffiVerif.Spec.CConstExpr
import CffiVerif.Model.Proto
open CffiVerif CffiVerif.Proto CffiVerif.ConstExpr

/-!
Line protocol of the C09 driver.

  reset
  bind NAME INT TAG|- CVAL     bind a name in cffi's `_int_constants` and (unless TAG is `-`) in C's scope
  macro NAME Lc.c.c…           `#define NAME text` / `static const int NAME = text;` (text = code points):
                               answer `ok model=<int|err:K|nomatch> spec=<tag:int|undef>`; binds on success
  bindlast NAME                bind NAME to the results of the last `expr` (enumerator rule: type int if it fits)
  expr TOKEN…                  prefix notation: Lc.c.c (literal token), pos, neg, R<name>, add sub mul div mod
                               shl shr band bor bxor, unsup
                               answer `ok model=<int|err:K> spec=<tag:int|undef|nogrammar> allsigned=<0|1>`
-/

namespace C09Driver
open CffiVerif.CConstExpr (CExpr IntLit CType)

structure St where
  penv : List (String × Int) := []
  cenv : List (String × (CType × Int)) := []
  lastModel : Option Int := none
  lastSpec : Option (CType × Int) := none

def St.p (s : St) : ConstExpr.Env := fun n => (s.penv.find? (·.1 == n)).map (·.2)
def St.c (s : St) : CConstExpr.Env := fun n => (s.cenv.find? (·.1 == n)).map (·.2)

def codePoints? (w : String) : Option (List Char) :=
  if w == "L" then some [] else
  ((w.drop 1).toString.splitOn ".").mapM fun p => do
    let n ← p.toNat?
    if n < 0x110000 ∧ ¬ (0xD800 ≤ n ∧ n ≤ 0xDFFF) then some (Char.ofNat n) else none

def binOp? : String → Option BinOp
  | "add" => some .add | "sub" => some .sub | "mul" => some .mul | "div" => some .div
  | "mod" => some .mod | "shl" => some .shl | "shr" => some .shr | "band" => some .band
  | "bor" => some .bor | "bxor" => some .bxor | _ => none

/-- The C-grammar reading of a literal token, if it has one that renders back to the same text. -/
def cLit? (tok : List Char) : Option CExpr :=
  match tok with
  | ['\'', c, '\''] => some (.chr c)
  | ['\'', '\\', c, '\''] => some (.esc c)
  | _ =>
    match IntLit.parse tok with
    | some l => if l.render = tok then some (.int l) else none
    | none => none

/-- Prefix-notation parser; returns the tree for cffi's model, the C reading (if any), the rest. -/
partial def parse : List String → Option (Expr × Option CExpr × List String)
  | [] => none
  | w :: rest =>
    if w.startsWith "L" then do
      let tok ← codePoints? w
      pure (.const tok, cLit? tok, rest)
    else if w.startsWith "R" then
      let n := (w.drop 1).toString
      some (.ref n, some (.ref n), rest)
    else if w == "unsup" then some (.unsupported, none, rest)
    else if w == "pos" then do
      let (e, c, rest) ← parse rest
      pure (.pos e, c.map .pos, rest)
    else if w == "neg" then do
      let (e, c, rest) ← parse rest
      pure (.neg e, c.map .neg, rest)
    else do
      let op ← binOp? w
      let (l, cl, rest) ← parse rest
      let (r, cr, rest) ← parse rest
      pure (.bin op l r, (do let a ← cl; let b ← cr; pure (.bin op a b)), rest)

def errName : Err → String
  | .cdef => "cdef" | .ffi => "ffi" | .value => "value" | .index => "index"

def showModel : Except Err Int → String
  | .ok v => s!"{v}"
  | .error e => "err:" ++ errName e

def showSpec : Option (CType × Int) → String
  | some (t, v) => s!"{t.tag}:{v}"
  | none => "undef"

def tag? : String → Option CType
  | "int" => some .int | "uint" => some .uint | "long" => some .long | "ulong" => some .ulong
  | "llong" => some .llong | "ullong" => some .ullong | _ => none

def step (s : St) : List String → St × String
  | ["reset"] => ({}, "ok")
  | ["bind", n, v, t, cv] =>
    match int? v with
    | none => (s, "bad-op")
    | some v =>
      if t == "-" then ({ s with penv := (n, v) :: s.penv }, "ok") else
      match tag? t, int? cv with
      | some t, some cv => ({ s with penv := (n, v) :: s.penv, cenv := (n, (t, cv)) :: s.cenv }, "ok")
      | _, _ => (s, "bad-op")
  | ["macro", n, w] =>
    match codePoints? w with
    | none => (s, "bad-op")
    | some text =>
      let m := literalConstant text
      -- C reading: optional '-' then an integer literal
      let (isNeg, body) := match text with | '-' :: t => (true, t) | _ => (false, text)
      let ce : Option CExpr := match cLit? body with
        | some (.int l) => some (if isNeg then .neg (.int l) else .int l)
        | _ => none
      let sp := ce.bind (CConstExpr.eval s.c)
      let s1 := match m with
        | some (.ok v) => { s with penv := (n, v) :: s.penv }
        | _ => s
      let s2 := match sp with
        | some tv => { s1 with cenv := (n, tv) :: s1.cenv }
        | none => s1
      let ms := match m with | none => "nomatch" | some r => showModel r
      (s2, s!"ok model={ms} spec={showSpec sp}")
  | ["bindlast", n] =>
    let s1 := match s.lastModel with
      | some v => { s with penv := (n, v) :: s.penv }
      | none => s
    let s2 := match s.lastSpec with
      | some (t, v) => { s1 with cenv := (n, (if CType.int.inRange v then CType.int else t, v)) :: s1.cenv }
      | none => s1
    (s2, "ok")
  | "expr" :: toks =>
    match parse toks with
    | some (e, ce, []) =>
      let m := ConstExpr.eval s.p e
      let consistent : Bool := match ce with
        | some c => decide (reprStr c.toModel = reprStr e)
        | none => true
      if !consistent then (s, "bad-op") else
      let (sp, spStr, allS) := match ce with
        | some c => let r := CConstExpr.eval s.c c
                    (r, showSpec r, CConstExpr.allSigned s.c c)
        | none => (none, "nogrammar", false)
      ({ s with lastModel := (match m with | .ok v => some v | _ => none), lastSpec := sp },
       s!"ok model={showModel m} spec={spStr} allsigned={if allS then 1 else 0}")
    | _ => (s, "bad-op")
  | _ => (s, "bad-op")

end C09Driver

def main : IO Unit := runDriver ({} : C09Driver.St) C09Driver.step
