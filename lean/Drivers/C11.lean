import CffiVerif.Model.Opcode
import CffiVerif.Model.Proto
open CffiVerif CffiVerif.Opcode CffiVerif.Proto

/-!
Line protocol of the C11 model driver (bytes are lower-case hex, `-` = empty; integers decimal).

Types are written in prefix form: `P<n>` primitive, `*<q> t` pointer (q = Python-side discriminator), `A<len> t` array, `O t` open
array, `S<i>` struct/union ref, `E<i>` enum ref, `F<nargs>:<flags> res arg…` function.

  enc4 op arg                  → ok <hex>                     CffiOp(op,arg).as_python_bytes()
  raw n                        → ok <hex> | err Overflow      CffiOp(None,str(n)).as_python_bytes()
  dec4 hex                     → ok op arg | err Short        cdl_opcode + GETOP/GETARG
  const v                      → ok v'                        ffiobj_init + realize_global_int
  encglobal op arg name value  → ok <hex> value               GlobalExpr.as_python_expr
  global hex value             → ok op arg name (value | - <type of arg>)   ffiobj_init (+ realize_global_int)
  encstruct ti flags name [| op arg bits name]…  → ok hex hex…   StructUnionExpr.as_python_expr
  struct nf hex hex…           → ok ti flags name first num <type at ti> [| op arg size name <type of arg>]…
  encenum ti size signed name e…  → ok hex                    EnumExpr.as_python_expr
  enum hex                     → ok ti prim name e…
  enctypename ti name          → ok hex
  typename hex                 → ok ti name <type at ti, realize_c_type>
  types hex                    → ok n        installs the decoded `_types` table
  realize i                    → ok <type> | err <kind>       realize_c_type_or_func on the table
  emit t ; t ; …               → ok hex i,i,…   collect_type_table: bytes and the index of each type
-/

def tyToks : Ty → List String
  | .prim p => [s!"P{p}"]
  | .ptr q t => s!"*{q}" :: tyToks t
  | .array t n => s!"A{n}" :: tyToks t
  | .openArray t => "O" :: tyToks t
  | .su i => [s!"S{i}"]
  | .enum i => [s!"E{i}"]
  | .func r as f => s!"F{as.length}:{f}" :: (tyToks r ++ argsToks as)
where argsToks : List Ty → List String
  | [] => []
  | a :: as => tyToks a ++ argsToks as

def showTy (t : Ty) : String := " ".intercalate (tyToks t)

def parseTy : Nat → List String → Option (Ty × List String)
  | 0, _ => none
  | _, [] => none
  | fuel + 1, tok :: rest =>
    if tok == "O" then (parseTy fuel rest).map fun (t, r) => (.openArray t, r)
    else
      let body := (tok.drop 1).toString
      match tok.front with
      | 'P' => (nat? body).map fun n => (.prim n, rest)
      | '*' => match nat? body, parseTy fuel rest with
        | some q, some (t, r) => some (.ptr q t, r)
        | _, _ => none
      | 'S' => (int? body).map fun n => (.su n, rest)
      | 'E' => (int? body).map fun n => (.enum n, rest)
      | 'A' => match nat? body, parseTy fuel rest with
        | some n, some (t, r) => some (.array t n, r)
        | _, _ => none
      | 'F' => match body.splitOn ":" with
        | [na, fl] => match nat? na, nat? fl, parseTy fuel rest with
          | some n, some f, some (res, r) =>
            let rec args (k : Nat) (r : List String) : Option (List Ty × List String) :=
              match k with
              | 0 => some ([], r)
              | k + 1 => match parseTy fuel r with
                | some (a, r') => (args k r').map fun (as, r'') => (a :: as, r'')
                | none => none
            (args n r).map fun (as, r') => (.func res as f, r')
          | _, _, _ => none
        | _ => none
      | _ => none

def parseWhole (toks : List String) : Option Ty :=
  match parseTy (toks.length + 1) toks with
  | some (t, []) => some t
  | _ => none

def splitSemi (toks : List String) : List (List String) :=
  let rec go : List String → List String → List (List String)
    | [], acc => [acc.reverse]
    | t :: ts, acc => if t == ";" then acc.reverse :: go ts [] else go ts (t :: acc)
  go toks []

def optInt (v : Option Int) : String := match v with | some x => s!"{x}" | none => "-"

def showErr : RErr → String
  | .recursion => "Recursion" | .outOfTable => "OutOfTable" | .badPrim => "BadPrim"
  | .fnType => "FnType" | .badAbi => "BadAbi" | .negLength => "NegLength"
  | .notImpl => "NotImpl" | .unmodelled => "Unmodelled"

def showR (r : Except RErr Ty) : String :=
  match r with
  | .ok t => showTy t
  | .error e => "err " ++ showErr e

/-- `| a b c d | …` groups of four words. -/
def fieldGroups : List String → Option (List FieldRec)
  | [] => some []
  | "|" :: op :: arg :: bits :: name :: rest =>
    match nat? op, int? arg, int? bits, hexBytes? name, fieldGroups rest with
    | some o, some a, some b, some n, some fs => some ({ op := o, arg := a, bits := b, name := n } :: fs)
    | _, _, _, _, _ => none
  | _ => none

def step (tbl : List Int) : List String → List Int × String
  | ["enc4", op, arg] =>
    match nat? op, int? arg with
    | some o, some a => (tbl, s!"ok {bytesHex (encode4 o a)}")
    | _, _ => (tbl, "bad-op")
  | ["raw", n] =>
    match nat? n with
    | some n => (tbl, match encodeRaw n with | some b => s!"ok {bytesHex b}" | none => "err Overflow")
    | none => (tbl, "bad-op")
  | ["dec4", h] =>
    match hexBytes? h with
    | some b => (tbl, match decode4 b with | some (o, a) => s!"ok {o} {a}" | none => "err Short")
    | none => (tbl, "bad-op")
  | ["const", v] =>
    match int? v with
    | some v => (tbl, match constRoundTrip v with | some r => s!"ok {r}" | none => "err FFIError")
    | none => (tbl, "bad-op")
  | ["encglobal", op, arg, name, value] =>
    match nat? op, int? arg, hexBytes? name, int? value with
    | some o, some a, some n, some v =>
      let (b, v') := encodeGlobal { op := o, arg := a, name := n, value := v }
      (tbl, s!"ok {bytesHex b} {v'}")
    | _, _, _, _ => (tbl, "bad-op")
  | ["global", h, v] =>
    match hexBytes? h, int? v with
    | some b, some v =>
      (tbl, match decodeGlobal b v with
        | none => "err Short"
        | some c => match viewGlobal c with
          | none => "err FFIError"
          | some g => s!"ok {g.op} {g.arg} {bytesHex g.name} " ++
              (if c.hasInt then s!"{g.value}" else "- " ++ showR (realizeC tbl g.arg)))
    | _, _ => (tbl, "bad-op")
  | "encstruct" :: ti :: fl :: name :: rest =>
    match int? ti, int? fl, hexBytes? name, fieldGroups rest with
    | some t, some f, some n, some fs =>
      (tbl, match encodeStruct { typeIndex := t, flags := f, name := n, fields := fs } with
        | some bs => "ok " ++ " ".intercalate (bs.map bytesHex)
        | none => "err NotImplemented")
    | _, _, _, _ => (tbl, "bad-op")
  | "struct" :: nf :: hs =>
    match nat? nf, hs.mapM hexBytes? with
    | some nf, some bs =>
      (tbl, match decodeStruct nf bs with
        | none => "err Short"
        | some (c, fs) =>
          s!"ok {c.typeIndex} {c.flags} {bytesHex c.name} {c.firstField} {c.numFields} " ++
            (showR (realizeC tbl c.typeIndex)).replace " " "_" ++
            String.join (fs.map fun f =>
              s!" | {getOp f.typeOp} {getArg f.typeOp} {f.size} {bytesHex f.name} " ++
                showR (realizeC tbl (getArg f.typeOp))))
    | _, _ => (tbl, "bad-op")
  | "encenum" :: ti :: size :: signed :: name :: es =>
    match int? ti, nat? size, nat? signed, hexBytes? name, es.mapM hexBytes? with
    | some t, some sz, some sg, some n, some es =>
      (tbl, match encodeEnum { typeIndex := t, size := sz, signed := sg, name := n, enumerators := es } with
        | some b => s!"ok {bytesHex b}"
        | none => "err KeyError")
    | _, _, _, _, _ => (tbl, "bad-op")
  | ["enum", h] =>
    match hexBytes? h with
    | some b =>
      (tbl, match decodeEnum b with
        | none => "err Short"
        | some c => s!"ok {c.typeIndex} {c.typePrim} {bytesHex c.name}" ++
            String.join ((splitEnumerators c.enumerators).map fun e => " " ++ bytesHex e))
    | none => (tbl, "bad-op")
  | ["enctypename", ti, name] =>
    match int? ti, hexBytes? name with
    | some t, some n => (tbl, s!"ok {bytesHex (encodeTypename { typeIndex := t, name := n })}")
    | _, _ => (tbl, "bad-op")
  | ["typename", h] =>
    match hexBytes? h with
    | some b => (tbl, match decodeTypename b with
        | some t => s!"ok {t.typeIndex} {bytesHex t.name} " ++ showR (noFn (realizeC tbl t.typeIndex))
        | none => "err Short")
    | none => (tbl, "bad-op")
  | ["types", h] =>
    match hexBytes? h with
    | some b => let t := decodeTypes b; (t, s!"ok {t.length}")
    | none => (tbl, "bad-op")
  | ["realize", i] =>
    match int? i with
    | some i => (tbl, match realizeC tbl i with
        | .ok t => "ok " ++ showTy t
        | .error e => "err " ++ showErr e)
    | none => (tbl, "bad-op")
  | "emit" :: toks =>
    match (if toks.isEmpty then [] else splitSemi toks).mapM parseWhole with
    | some S =>
      (tbl, match emitWords S with
        | none => "err Emit"
        | some (ws, idx) =>
          s!"ok {bytesHex (typesBytes ws)} " ++ ",".intercalate (S.map fun T => optInt ((idx T).map Int.ofNat)))
    | none => (tbl, "bad-op")
  | _ => (tbl, "bad-op")

def main : IO Unit := runDriver ([] : List Int) step
