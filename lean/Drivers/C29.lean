import CffiVerif.Model.Closures
import CffiVerif.Model.Proto
open CffiVerif CffiVerif.Closures CffiVerif.Proto

/-- Line protocol (addresses are small integers assigned by the harness in order
of first appearance):
* `reset`            start a new history with an empty allocator
* `alloc b1 … bn`    `cffi_closure_alloc()`; `b1 … bn` = the blocks `more_core` pushed (in push
                      order) if the implementation grew during this call, nothing otherwise
* `free a`           `cffi_closure_free(a)`
* `state`            answer `ok <len free> <len live>` (cross-check of the free-list length)
Answers: `ok <addr>`, `ok null`, `ok freed`, `err NotFresh`, `err NotLive`. -/
def step' (s : State) : List String → State × String
  | ["reset"] => (init, "ok")
  | ["state"] => (s, s!"ok {s.free.length} {s.live.length}")
  | "alloc" :: batch =>
    match batch.mapM nat? with
    | some b =>
      let (s', o) := step s (.alloc b)
      (s', match o with
        | .addr a => s!"ok {a}"
        | .null => "ok null"
        | .notFresh => "err NotFresh"
        | _ => "err Internal")
    | none => (s, "bad-op")
  | ["free", a] =>
    match nat? a with
    | some p =>
      let (s', o) := step s (.free p)
      (s', match o with
        | .freed => "ok freed"
        | .notLive => "err NotLive"
        | _ => "err Internal")
    | none => (s, "bad-op")
  | _ => (s, "bad-op")

def main : IO Unit := runDriver init step'
