import CffiVerif.Model.PkgConfig
import CffiVerif.Model.Proto
open CffiVerif CffiVerif.PkgConfig CffiVerif.Proto

/-!
Line protocol (text: decimal code points joined by `,`, `-` = empty; bytes: hex, `-` = empty):

* `spaces <lo> <hi>`           → `ok <c> …`  the code points in `[lo, hi)` for which `isSpace` holds
* `split <cps>`                → `ok <n> <tok cps> …`
* `macro <cps>`                → `ok <name> N` | `ok <name> V <value>`
* `flags <nspec> (<lib cps> <ok 0|1> <status> <hex> <ok 0|1> <status> <hex>)×nspec <nlibs> <lib cps>×nlibs`
      the stub's behaviour per library name (cflags run, libs run), then the requested list
                               → `ok D <nkeys> (<key> <n> item…)…` | `err PkgConfigError`
      item = `T <cps>` | `M <name> N` | `M <name> V <value>`
* `merge <n1> (<key> <cnt> <int>…)×n1 <n2> (…)×n2` → `ok <n> (<key> <cnt> <int>…)…`   (`merge_flags` on int keys/items)
-/

def cps? (s : String) : Option (List Nat) :=
  if s == "-" then some [] else (s.splitOn ",").mapM nat?

def cpsOut (l : List Nat) : String :=
  if l.isEmpty then "-" else ",".intercalate (l.map toString)

def bytes? (s : String) : Option (List Nat) := (hexBytes? s).map fun l => l.map UInt8.toNat

def keyOut : KeyName → String
  | .include_dirs => "include_dirs" | .library_dirs => "library_dirs" | .libraries => "libraries"
  | .define_macros => "define_macros" | .extra_compile_args => "extra_compile_args"
  | .extra_link_args => "extra_link_args"

def itemOut : Item → String
  | .tok s => s!"T {cpsOut s}"
  | .macro n none => s!"M {cpsOut n} N"
  | .macro n (some v) => s!"M {cpsOut n} V {cpsOut v}"

def cfgOut (c : Cfg KeyName Item) : String :=
  " ".intercalate (s!"D {c.length}" :: c.map fun (k, v) =>
    " ".intercalate (s!"{keyOut k} {v.length}" :: v.map itemOut))

def proc? : List String → Option (Proc × List String)
  | ok :: st :: h :: r => do
    let o ← nat? ok
    let s ← nat? st
    let b ← bytes? h
    pure (⟨o != 0, s, b⟩, r)
  | _ => none

partial def specs? : Nat → List String → Option (List (Str × Proc × Proc) × List String)
  | 0, ws => some ([], ws)
  | n + 1, name :: ws => do
    let nm ← cps? name
    let (p1, r1) ← proc? ws
    let (p2, r2) ← proc? r1
    let (rest, r3) ← specs? n r2
    pure ((nm, p1, p2) :: rest, r3)
  | _, _ => none

partial def intCfg? : Nat → List String → Option (Cfg Nat Int × List String)
  | 0, ws => some ([], ws)
  | n + 1, k :: cnt :: ws => do
    let k ← nat? k
    let c ← nat? cnt
    let items ← (ws.take c).mapM int?
    if items.length != c then none
    let (rest, r) ← intCfg? n (ws.drop c)
    pure ((k, items) :: rest, r)
  | _, _ => none

def intCfgOut (c : Cfg Nat Int) : String :=
  " ".intercalate (s!"{c.length}" :: c.map fun (k, v) =>
    " ".intercalate (s!"{k} {v.length}" :: v.map toString))

def step (_ : Unit) : List String → Unit × String
  | ["spaces", lo, hi] =>
    match nat? lo, nat? hi with
    | some lo, some hi =>
      ((), " ".intercalate ("ok" :: ((List.range (hi - lo)).map (· + lo) |>.filter isSpace |>.map toString)))
    | _, _ => ((), "bad-op")
  | ["split", s] =>
    match cps? s with
    | some t => let ts := split t
      ((), " ".intercalate (s!"ok {ts.length}" :: ts.map cpsOut))
    | none => ((), "bad-op")
  | ["macro", s] =>
    match cps? s with
    | some t => ((), match macroOf t with
        | (n, none) => s!"ok {cpsOut n} N"
        | (n, some v) => s!"ok {cpsOut n} V {cpsOut v}")
    | none => ((), "bad-op")
  | "flags" :: n :: ws =>
    match nat? n with
    | some n =>
      match specs? n ws with
      | some (specs, nl :: libs) =>
        match nat? nl, libs.mapM cps? with
        | some nl, some libs =>
          if libs.length != nl then ((), "bad-op") else
          let env : Str → Flag → Proc := fun lib flag =>
            match specs.find? (fun s => s.1 == lib) with
            | some (_, p1, p2) => if flag == .cflags then p1 else p2
            | none => ⟨false, 0, []⟩
          if libs.any (fun l => !(specs.any (fun s => s.1 == l))) then ((), "bad-op") else
          ((), match flagsFromPkgconfig env libs with
            | .ok r => "ok " ++ cfgOut r
            | .error .pkgConfigError => "err PkgConfigError")
        | _, _ => ((), "bad-op")
      | _ => ((), "bad-op")
    | none => ((), "bad-op")
  | "merge" :: n1 :: ws =>
    match nat? n1 with
    | some n1 =>
      match intCfg? n1 ws with
      | some (c1, n2 :: ws2) =>
        match nat? n2 with
        | some n2 =>
          match intCfg? n2 ws2 with
          | some (c2, []) => ((), "ok " ++ intCfgOut (mergeFlags c1 c2))
          | _ => ((), "bad-op")
        | none => ((), "bad-op")
      | _ => ((), "bad-op")
    | none => ((), "bad-op")
  | _ => ((), "bad-op")

def main : IO Unit := runDriver () step
