import CffiVerif.Model.Embedding
import CffiVerif.Model.Proto
open CffiVerif CffiVerif.Embedding CffiVerif.Proto

/-!
Trace acceptance for C28.  The harness logs the *visible* events of a real run of embedded
libraries (totally ordered by the driver program's log lock):

  call t L | pyinit t | initbegin t L | initend t L | initfail t L | body t L | ret t L z

The internal steps of `_cffi_start_python` are not visible.  The driver completes the trace to a
run of the model, using only `step?` (so every state it goes through is `Reachable`):
a thread's *acquiring* steps (spin lock, mutex, GIL) are taken as late as possible — when its
next visible event needs them — and its *releasing* steps as early as possible, right after
the visible event that precedes them; a GIL held by another thread's running Python code is
taken over through that thread's `yield` step.  For executions of the correct protocol this
strategy loses nothing (acquires commute to the right, releases to the left); an event that
is still not enabled is answered `err …`, i.e. the real run is not a run of the model.
-/

structure DSt where
  s : State := init
  tids : List Tid := []

def headOf (s : State) (t : Tid) : Option Frame := (s.thr t).head?

/-- pcs whose (unguarded) internal step only releases something or is local: taken eagerly -/
def eagerPc : Pc → Bool
  | .pyInitDone | .spinRelease | .initEnd _ | .initResult _ | .mutexRelease | .gotFn | .fnNull | .bodyEnd => true
  | _ => false

def eager (s : State) (t : Tid) : Nat → State
  | 0 => s
  | fuel + 1 =>
    match headOf s t with
    | some f =>
      if eagerPc f.pc then
        match step? s (.step t) with
        | some s' => eager s' t fuel
        | none => s
      else s
    | none => s

/-- what the advancing thread is heading for -/
inductive Goal
  | atPc (L : Lib) (pc : Pc)     -- head frame is ⟨L, pc⟩
  | canCall                      -- stack empty or head is `pyOut _`
  | returnedAt (L : Lib)         -- head frame is ⟨L, returned _⟩

def goalMet (s : State) (t : Tid) : Goal → Bool
  | .atPc L pc => headOf s t == some ⟨L, pc⟩
  | .canCall => match headOf s t with
    | none => true
    | some f => match f.pc with | .pyOut _ => true | _ => false
  | .returnedAt L => match headOf s t with
    | some f => f.lib == L && (match f.pc with | .returned _ => true | _ => false)
    | none => false

/-- take the GIL away from running Python code of another thread -/
def freeGil (s : State) (t : Tid) : Except String State :=
  match s.gil with
  | none => .ok s
  | some h =>
    if h = t then .error "gil-held-by-self" else
    match step? s (.yield h) with
    | some s' => .ok s'
    | none => .error "gil-held"

def advance (g : Goal) (t : Tid) : Nat → State → Except String State
  | 0, _ => .error "no-progress"
  | fuel + 1, s =>
    if goalMet s t g then .ok s else
    match headOf s t with
    | none => .error "thread-idle"
    | some f =>
      let viaStep (s : State) : Except String State :=
        match step? s (.step t) with
        | some s' => advance g t fuel s'
        | none => .error "blocked"
      match f.pc with
      | .py k =>
        (match g, k with
         | .canCall, _ => match step? s (.callOut t) with
            | some s' => advance g t fuel s' | none => .error "callOut"
         | .returnedAt _, .body => match step? s (.finish t true) with
            | some s' => advance g t fuel s' | none => .error "finish"
         | _, _ => .error "python-code-running")
      | .pyOut _ => match step? s (.callBack t) with
        | some s' => advance g t fuel s' | none => .error "callBack"
      | .returned _ => .error "call-already-returned"
      | .initGil | .pyYield _ | .callPy =>
        (match freeGil s t with
         | .ok s1 => viaStep s1
         | .error e => .error e)
      | .spinWait => if s.spin = none then viaStep s else .error "spin-lock-held"
      | .mutexWait =>
        if (s.lib f.lib).owner = none ∨ (s.lib f.lib).owner = some t then viaStep s
        else .error "mutex-held-by-other-thread"
      | _ => viaStep s

def FUEL : Nat := 64

def showStatus : Status → String
  | .notStarted => "notStarted" | .running => "running" | .ok => "ok" | .failed => "failed"

/-- run the internal `step`s of all threads until none is enabled (for the `stuck` query) -/
def settle (tids : List Tid) : Nat → State → State
  | 0, s => s
  | fuel + 1, s =>
    match tids.findSome? (fun t => step? s (.step t)) with
    | some s' => settle tids fuel s'
    | none => s

def mutexBlocked (s : State) (t : Tid) : Bool :=
  match headOf s t with
  | some f => f.pc == .mutexWait && !((s.lib f.lib).owner == none || (s.lib f.lib).owner == some t)
  | none => false

def finishWith (d : DSt) (t : Tid) (r : Except String State) : DSt × String :=
  match r with
  | .ok s' => ({ d with s := eager s' t FUEL, tids := if t ∈ d.tids then d.tids else t :: d.tids }, "ok")
  | .error e => (d, "err " ++ e)

def step (d : DSt) : List String → DSt × String
  | ["call", t, L] =>
    match nat? t, nat? L with
    | some t, some L =>
      finishWith d t (do
        let s1 ← advance .canCall t FUEL d.s
        match step? s1 (.call t L) with
        | some s2 => pure s2
        | none => throw "call-not-enabled")
    | _, _ => (d, "bad-op")
  | ["pyinit", t] =>
    match nat? t with
    | some t =>
      finishWith d t (do
        match headOf d.s t with
        | none => throw "thread-idle"
        | some f =>
          let s1 ← advance (.atPc f.lib .needPyInit) t FUEL d.s
          match step? s1 (.step t) with
          | some s2 => pure s2
          | none => throw "pyinit-not-enabled")
    | none => (d, "bad-op")
  | ["initbegin", t, L] =>
    match nat? t, nat? L with
    | some t, some L => finishWith d t (advance (.atPc L (.py .init)) t FUEL d.s)
    | _, _ => (d, "bad-op")
  | ["body", t, L] =>
    match nat? t, nat? L with
    | some t, some L => finishWith d t (advance (.atPc L (.py .body)) t FUEL d.s)
    | _, _ => (d, "bad-op")
  | ["initend", t, L] =>
    match nat? t, nat? L with
    | some t, some L =>
      finishWith d t (do
        let s1 ← advance (.atPc L (.py .init)) t FUEL d.s
        match step? s1 (.finish t true) with
        | some s2 => pure s2
        | none => throw "finish-not-enabled")
    | _, _ => (d, "bad-op")
  | ["initfail", t, L] =>
    match nat? t, nat? L with
    | some t, some L =>
      finishWith d t (do
        let s1 ← advance (.atPc L (.py .init)) t FUEL d.s
        match step? s1 (.finish t false) with
        | some s2 => pure s2
        | none => throw "finish-not-enabled")
    | _, _ => (d, "bad-op")
  | ["ret", t, L, z] =>
    match nat? t, nat? L, nat? z with
    | some t, some L, some z =>
      finishWith d t (do
        let s1 ← advance (.returnedAt L) t FUEL d.s
        match headOf s1 t with
        | some f =>
          if f.pc = .returned (z == 0) then
            match step? s1 (.ret t) with
            | some s2 => pure s2
            | none => throw "ret-not-enabled"
          else throw (if z == 0 then "model-returns-nonzero" else "model-returns-zero")
        | none => throw "thread-idle")
    | _, _, _ => (d, "bad-op")
  | ["status", L] =>
    match nat? L with
    | some L => (d, s!"ok {showStatus (d.s.lib L).status} runs={(d.s.lib L).initRuns}")
    | none => (d, "bad-op")
  | ["pyinitcount"] => (d, s!"ok {d.s.pyInitCount}")
  | ["idle"] =>
    (d, if d.tids.all (fun t => (d.s.thr t).isEmpty) then "ok idle" else "ok busy")
  | ["stuck"] =>
    let s := settle d.tids 1000 d.s
    (d, if d.tids.any (fun t => !(s.thr t).isEmpty) &&
           d.tids.all (fun t => (s.thr t).isEmpty || mutexBlocked s t)
        then "ok stuck" else "ok live")
  | ["reset"] => ({}, "ok")
  | _ => (d, "bad-op")

def main : IO Unit := runDriver ({} : DSt) step
