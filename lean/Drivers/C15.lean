import CffiVerif.Model.CharArray
import CffiVerif.Model.Proto
open CffiVerif CffiVerif.Utf16 CffiVerif.CharArray CffiVerif.Proto

/-!
Line protocol of the C15 model driver.  Lists of units / code points / byte values:
decimal numbers separated by commas, `-` for the empty list.  Python values:
`b:<list>` (bytes) or `s:<list>` (str).  Widths: `1`, `2`, `4`.  Optional lengths: `-1` = absent.

  size16 <cps>                          -> ok <n>
  encode16 <cps>                        -> ok <units> | err ValueError
  decode16 <units>                      -> ok <cps>
  new <w> <pyval>                       -> ok <units of the new T[] array> | err <Kind>
  newn <w> <len> <pyval>                -> ok <units of the new T[len] array> | err <Kind>
  assign <w> <mem> <pyval>              -> ok <units after storing into T[len(mem)] holding mem> | err <Kind>
  assignopen <w> <mem> <pyval>          -> ok <units after storing through the open type T[] (ct_length = -1) into
                                           memory holding mem: uncleared allocation, flexible array member> | err <Kind>
  string <w> <mem> <maxlen> <arraylen>  -> ok <pyval> | err <Kind>
  unpack <w> <mem> <n>                  -> ok <pyval> | err <Kind>
-/

def natList? (s : String) : Option (List Nat) :=
  if s == "-" then some [] else (s.splitOn ",").mapM nat?

def showList (l : List Nat) : String :=
  if l.isEmpty then "-" else ",".intercalate (l.map toString)

def pyVal? (s : String) : Option PyVal :=
  if s.startsWith "b:" then (natList? (s.drop 2).toString).map PyVal.bytes
  else if s.startsWith "s:" then (natList? (s.drop 2).toString).map PyVal.str
  else none

def showPyVal : PyVal → String
  | .bytes b => "b:" ++ showList b
  | .str s => "s:" ++ showList s

def width? : String → Option Width
  | "1" => some .w1
  | "2" => some .w2
  | "4" => some .w4
  | _ => none

def optLen? (s : String) : Option (Option Nat) :=
  if s == "-1" then some none else (nat? s).map some

def answer {α : Type} (f : α → String) : Except Err α → String
  | .ok a => "ok " ++ f a
  | .error e => "err " ++ e.name

def step (_ : Unit) : List String → Unit × String
  | ["size16", s] =>
    match natList? s with
    | some cps => ((), s!"ok {size16 cps}")
    | none => ((), "bad-op")
  | ["encode16", s] =>
    match natList? s with
    | some cps => ((), answer showList (encode16 cps))
    | none => ((), "bad-op")
  | ["decode16", s] =>
    match natList? s with
    | some u => ((), "ok " ++ showList (decode16 u))
    | none => ((), "bad-op")
  | ["new", w, v] =>
    match width? w, pyVal? v with
    | some w, some v => ((), answer showList (newOpen w v))
    | _, _ => ((), "bad-op")
  | ["newn", w, len, v] =>
    match width? w, nat? len, pyVal? v with
    | some w, some len, some v => ((), answer showList (newFixed w len v))
    | _, _, _ => ((), "bad-op")
  | ["assign", w, mem, v] =>
    match width? w, natList? mem, pyVal? v with
    | some w, some mem, some v => ((), answer showList (convertArray w (some mem.length) mem v))
    | _, _, _ => ((), "bad-op")
  | ["assignopen", w, mem, v] =>
    match width? w, natList? mem, pyVal? v with
    | some w, some mem, some v => ((), answer showList (convertArray w none mem v))
    | _, _, _ => ((), "bad-op")
  | ["string", w, mem, maxlen, alen] =>
    match width? w, natList? mem, optLen? maxlen, optLen? alen with
    | some w, some mem, some maxlen, some alen => ((), answer showPyVal (ffiString w mem maxlen alen))
    | _, _, _, _ => ((), "bad-op")
  | ["unpack", w, mem, n] =>
    match width? w, natList? mem, nat? n with
    | some w, some mem, some n => ((), answer showPyVal (ffiUnpack w mem n))
    | _, _, _ => ((), "bad-op")
  | _ => ((), "bad-op")

def main : IO Unit := runDriver () step
