import CffiVerif.Model.Preprocess
import CffiVerif.Generated.PreprocessRegex
import CffiVerif.Model.Proto
open CffiVerif CffiVerif.Preprocess CffiVerif.Proto CffiVerif.Regex CffiVerif.Generated.PreprocessRegex

/-- A text is one word: `-` = empty, else decimal code points joined by `,`. -/
def text? (s : String) : Option Text :=
  if s == "-" then some [] else (s.splitOn ",").mapM nat?

def textStr (t : Text) : String :=
  if t.isEmpty then "-" else ",".intercalate (t.map toString)

def vmErr : VmErr → String
  | .fuel => "Fuel"
  | .badPc => "BadPc"
  | .emptyMatch => "EmptyMatch"

/-- `strip <text>`: `_r_comment.sub(replace_keeping_newlines, text)`;
`macros <text>`: the `(name, value)` pairs `_r_define.finditer` yields on the stripped text;
`closed <text>`: 1 when the text ends outside comments. -/
def step (_ : Unit) : List String → Unit × String
  | ["strip", t] =>
    match text? t with
    | some x => ((), "ok " ++ textStr (stripComments x))
    | none => ((), "bad-op")
  | ["macros", t] =>
    match text? t with
    | some x =>
      match macros x with
      | .ok l => ((), "ok" ++ String.join (l.map fun (n, v) => " " ++ textStr n ++ "=" ++ textStr v))
      | .error .nonAscii => ((), "err NonAscii")
    | none => ((), "bad-op")
  | ["closed", t] =>
    match text? t with
    | some x => ((), if endMode .code x = .code then "ok 1" else "ok 0")
    | none => ((), "bad-op")
  -- the same three operations executed by the automata compiled from the regular expressions of the source
  | ["nfa-strip", t] =>
    match text? t with
    | some x => ((), match subWith commentProg x.toArray (fun m => 32 :: m.filter (· == 10)) with
        | .ok r => "ok " ++ textStr r
        | .error e => "err " ++ vmErr e)
    | none => ((), "bad-op")
  | ["nfa-defines", t] =>
    match text? t with
    | some x =>
      if x.any (· ≥ 128) then ((), "err NonAscii") else
      ((), match findAll defineProg x.toArray with
        | .ok ms => "ok" ++ String.join (ms.map fun m =>
            match m.group x.toArray 1, m.group x.toArray 2 with
            | some n, some v => " " ++ textStr n ++ "=" ++ textStr v
            | _, _ => " ?")
        | .error e => "err " ++ vmErr e)
    | none => ((), "bad-op")
  | ["nfa-linedir", t] =>
    match text? t with
    | some x =>
      if x.any (· ≥ 128) then ((), "err NonAscii") else
      ((), match findAll lineDirectiveProg x.toArray with
        | .ok ms => "ok" ++ String.join (ms.map fun m => s!" {m.start}:{m.stop}")
        | .error e => "err " ++ vmErr e)
    | none => ((), "bad-op")
  | _ => ((), "bad-op")

def main : IO Unit := runDriver () step
