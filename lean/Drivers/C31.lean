import CffiVerif.Model.Preprocess
import CffiVerif.Model.Proto
open CffiVerif CffiVerif.Preprocess CffiVerif.Proto

/-- A text is one word: `-` = empty, else decimal code points joined by `,`. -/
def text? (s : String) : Option Text :=
  if s == "-" then some [] else (s.splitOn ",").mapM nat?

def textStr (t : Text) : String :=
  if t.isEmpty then "-" else ",".intercalate (t.map toString)

/-- `strip <text>`: `_r_comment.sub(replace_keeping_newlines, text)`;
`macros <text>`: the `(name, value)` pairs `_r_define.finditer` yields on the stripped text;
`closed <text>`: 1 when the text ends outside comments. -/
def step (_ : Unit) : List String → Unit × String
  | ["strip", t] =>
    match text? t with
    | some x => ((), "ok " ++ textStr (stripComments x))
    | none => ((), "bad-op")
  | ["macros", t] =>
    match text? t with
    | some x =>
      match macros x with
      | .ok l => ((), "ok" ++ String.join (l.map fun (n, v) => " " ++ textStr n ++ "=" ++ textStr v))
      | .error .nonAscii => ((), "err NonAscii")
    | none => ((), "bad-op")
  | ["closed", t] =>
    match text? t with
    | some x => ((), if endMode .code x = .code then "ok 1" else "ok 0")
    | none => ((), "bad-op")
  | _ => ((), "bad-op")

def main : IO Unit := runDriver () step
