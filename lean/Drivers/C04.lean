import CffiVerif.Model.CInt
import CffiVerif.Model.Proto
open CffiVerif CffiVerif.CInt CffiVerif.Proto

/-!
`cast <bytes> <kind> int <v> | bool <0|1> | float <m> <e> | bytes <hex> | str <cp>… | ptr <addr>`
   answer: `ok <bytes of the cdata> <int() of it>` or `err <ErrKind>`
`toptr <v>` — `ffi.cast("void *", v)`: answer `ok <address>`
-/

def kind? : String → Option Kind
  | "s" => some .signed | "u" => some .unsigned | "b" => some .bool
  | "c" => some .char | "w" => some .swchar | _ => none

def type? (b k : String) : Option IntType := do
  let n ← nat? b
  let w ← Width.ofBytes? n
  let kd ← kind? k
  pure { name := "", width := w, kind := kd }

def src? : List String → Option CastSrc
  | ["int", v] => (int? v).map .int
  | ["bool", "0"] => some (.bool false)
  | ["bool", "1"] => some (.bool true)
  | ["float", m, e] => do pure (.float (← int? m) (← int? e))
  | ["bytes", h] => (hexBytes? h).map .bytes
  | "str" :: cps => (cps.mapM nat?).map .str
  | ["ptr", a] => (nat? a).map .ptr
  | _ => none

def step (_ : Unit) : List String → Unit × String
  | "cast" :: b :: k :: rest =>
    match type? b k, src? rest with
    | some T, some src =>
      match cast T src with
      | .error e => ((), s!"err {e.toString}")
      | .ok bs =>
        match readInt T bs with
        | .ok i => ((), s!"ok {bytesHex bs} {i}")
        | .error e => ((), s!"err {e.toString}")
    | _, _ => ((), "bad-op")
  | ["toptr", v] =>
    match int? v with
    | some v => ((), s!"ok {castToPointer v}")
    | none => ((), "bad-op")
  | _ => ((), "bad-op")

def main : IO Unit := runDriver () step
