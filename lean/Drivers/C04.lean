import CffiVerif.Model.IntCast
import CffiVerif.Model.Proto
open CffiVerif CffiVerif.CInt CffiVerif.Proto

/-!
`cast <bytes> <kind> <source…>` — answer `ok <bytes of the cdata> <int() of it>` or `err <ErrKind>`.
Sources:
  `int <v>` | `bool <0|1>` | `float <F>` | `bytes <hex>` | `str <cp>…` | `ptr <addr>`
  | `cdint <bytes> <kind> <hex>` | `cdfloat <F>` | `cdother` | `obj <hasIndex 0|1> <R> <R>` | `nonum`
  F = `fin <m> <e>` | `inf` | `-inf` | `nan`        (m * 2^e)
  R = `none` | `i:<v>` | `f:<m>:<e>` | `f:inf` | `f:-inf` | `f:nan` | `other`   (result of __int__, __float__)
`toptr <source…>` — `ffi.cast("void *", x)`: answer `ok <address>` or `err <ErrKind>`
-/

def kind? : String → Option Kind
  | "s" => some .signed | "u" => some .unsigned | "b" => some .bool
  | "c" => some .char | "w" => some .swchar | _ => none

def type? (b k : String) : Option IntType := do
  let n ← nat? b
  let w ← Width.ofBytes? n
  let kd ← kind? k
  pure { name := "", width := w, kind := kd }

def float? : List String → Option FloatVal
  | ["fin", m, e] => do pure (.finite (← int? m) (← int? e))
  | ["inf"] => some (.inf false)
  | ["-inf"] => some (.inf true)
  | ["nan"] => some .nan
  | _ => none

def res? (s : String) : Option (Option PyRes) :=
  if s == "none" then some none
  else if s == "other" then some (some .other)
  else match s.splitOn ":" with
    | ["i", v] => (int? v).map (fun v => some (.int v))
    | ["f", "inf"] => some (some (.float (.inf false)))
    | ["f", "-inf"] => some (some (.float (.inf true)))
    | ["f", "nan"] => some (some (.float .nan))
    | ["f", m, e] => do pure (some (.float (.finite (← int? m) (← int? e))))
    | _ => none

def src? : List String → Option CastSrc
  | ["int", v] => (int? v).map .int
  | ["bool", "0"] => some (.bool false)
  | ["bool", "1"] => some (.bool true)
  | "float" :: f => (float? f).map .float
  | ["bytes", h] => (hexBytes? h).map .bytes
  | "str" :: cps => (cps.mapM nat?).map .str
  | ["ptr", a] => (nat? a).map .ptr
  | ["cdint", b, k, h] => do pure (.cdataInt (← type? b k) (← hexBytes? h))
  | "cdfloat" :: f => (float? f).map .cdataFloat
  | ["cdother"] => some .cdataOther
  | ["obj", "0", i, f] => do pure (.obj false (← res? i) (← res? f))
  | ["obj", "1", i, f] => do pure (.obj true (← res? i) (← res? f))
  | ["nonum"] => some .noNumber
  | _ => none

def step (_ : Unit) : List String → Unit × String
  | "cast" :: b :: k :: rest =>
    match type? b k, src? rest with
    | some T, some src =>
      match cast T src with
      | .error e => ((), s!"err {e.toString}")
      | .ok bs =>
        match cdataToInt T bs with
        | .ok i => ((), s!"ok {bytesHex bs} {i}")
        | .error e => ((), s!"err {e.toString}")
    | _, _ => ((), "bad-op")
  | "toptr" :: rest =>
    match src? rest with
    | some src =>
      match castToPointerSrc src with
      | .ok a => ((), s!"ok {a}")
      | .error e => ((), s!"err {e.toString}")
    | none => ((), "bad-op")
  | _ => ((), "bad-op")

def main : IO Unit := runDriver () step
