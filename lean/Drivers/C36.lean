import CffiVerif.Model.Canary
import CffiVerif.Model.Proto
open CffiVerif CffiVerif.Canary CffiVerif.Proto

/-!
Driver for C36: folds `Canary.step?` over the serialised events of a real run.

  spawn t py | enter t | exit t | set t v | texit t | finalize | zombies | reset

Answers: `enter` → `ok new|same data=<v|none> freed=<tokens…>`; the others `ok freed=<tokens…>`
(`freed` = the thread-local data values of the thread states deleted by this event, in id order);
`zombies` → `ok <length of the zombie list>`; an event that is not enabled → `err not-enabled`.
-/

def showData : Option Nat → String
  | none => "none"
  | some v => toString v

/-- data of the thread states that were allocated before and are not any more -/
def freedData (s s' : State) : List Nat :=
  (List.range s.nextTs).filterMap fun i =>
    if (s.ts i).live && !(s'.ts i).live then (s.ts i).data else none

def showFreed (l : List Nat) : String :=
  "freed=" ++ String.intercalate "," (l.map toString)

def apply (s : State) (l : Label) (pre : String) : State × String :=
  match step? s l with
  | some s' => (s', "ok " ++ pre ++ showFreed (freedData s s'))
  | none => (s, "err not-enabled")

def step (s : State) : List String → State × String
  | ["spawn", t, py] =>
    match nat? t, nat? py with
    | some t, some py => apply s (.spawn t (py != 0)) ""
    | _, _ => (s, "bad-op")
  | ["enter", t] =>
    match nat? t with
    | some t =>
      match step? s (.enter t) with
      | some s' =>
        let kind := if (s.thr t).ts.isSome then "same" else "new"
        let d := match (s'.thr t).ts with
          | some i => showData (s'.ts i).data
          | none => "none"
        (s', s!"ok {kind} data={d} " ++ showFreed (freedData s s'))
      | none => (s, "err not-enabled")
    | none => (s, "bad-op")
  | ["exit", t] =>
    match nat? t with
    | some t => apply s (.exit t) ""
    | none => (s, "bad-op")
  | ["set", t, v] =>
    match nat? t, nat? v with
    | some t, some v => apply s (.setData t v) ""
    | _, _ => (s, "bad-op")
  | ["texit", t] =>
    match nat? t with
    | some t => apply s (.threadExit t) ""
    | none => (s, "bad-op")
  | ["finalize"] => apply s .finalize ""
  | ["zombies"] => (s, s!"ok {s.zombies.length}")
  | ["reset"] => (init, "ok")
  | _ => (s, "bad-op")

def main : IO Unit := runDriver init step
