import CffiVerif.Model.Callback
import CffiVerif.Model.Proto
open CffiVerif CffiVerif.Call CffiVerif.Callback CffiVerif.Proto

/-!
`slots <p> <arg>…`         arg = `v:<hex>` | `r:<addr>:<hex>`; pack into the slot array at `p`, read every argument back
`enc <rt> <size> <encode> <obj> <bufhex>`      `convert_from_object_fficallback` on the given buffer: `ok <buf>` / `err <Kind> <buf>`
`call <rt> <size> <encode> <error|-> <body> <onerr>`   creation + one invocation: `ok <received> <printed> <pending>` / `err <Kind>`
rt   = `void` | `sint` | `uint` | `bool` | `char` | `blob`     (size ignored for void)
obj  = `none` | `int:<n>` | `intlike:<n>` | `float` | `bytes:<hex>` | `charcdata:<n>` | `other` | `image:<hex>`
body = `raise` | `ret=<obj>`          onerr = `absent` | `none` | `raise` | `ret=<obj>`
`area <nargs> void | prim <name with ~ for space> <sizeof> | agg <sizeof>`   `size_of_a` and the bytes the backend may write: `ok <size_of_a> <written>`
-/

def splitColon (s : String) : List String := s.splitOn ":"

def parseRetObj (tok : String) : Option RetObj :=
  match splitColon tok with
  | ["none"] => some .none
  | ["int", n] => (int? n).map fun n => .obj (.int n)
  | ["intlike", n] => (int? n).map fun n => .obj (.intlike n)
  | ["float"] => some (.obj .float)
  | ["bytes", h] => (hexBytes? h).map fun b => .obj (.bytes b)
  | ["charcdata", n] => (nat? n).bind fun n => if n < 256 then some (.obj (.charCdata (UInt8.ofNat n))) else none
  | ["other"] => some (.obj .other)
  | ["image", h] => (hexBytes? h).map RetObj.image
  | _ => none

def parseRT (k sz : String) : Option RT :=
  match k with
  | "void" => some .void
  | "blob" => (nat? sz).map RT.blob
  | _ =>
    let kind : Option Kind := match k with
      | "sint" => some .sint | "uint" => some .uint | "bool" => some .bool | "char" => some .char
      | _ => none
    let size : Option Sz := match sz with
      | "1" => some .s1 | "2" => some .s2 | "4" => some .s4 | "8" => some .s8 | _ => none
    match kind, size with
    | some k, some s => let t : CType := ⟨k, s⟩; if t.valid then some (.prim t) else none
    | _, _ => none

def parseFlag : String → Option Bool
  | "0" => some false | "1" => some true | _ => none

def parseArg (tok : String) : Option Arg :=
  match splitColon tok with
  | ["v", h] => (hexBytes? h).map Arg.val
  | ["r", a, h] => do
      let a ← nat? a
      let b ← hexBytes? h
      pure (.ref a b)
  | _ => none

def parseBody (tok : String) : Option Body :=
  if tok == "raise" then some .raises
  else if tok.startsWith "ret=" then (parseRetObj (tok.drop 4).toString).map Body.returns
  else none

def parseOnErr (tok : String) : Option OnErr :=
  if tok == "absent" then some .absent
  else if tok == "none" then some .returnsNone
  else if tok == "raise" then some .raises
  else if tok.startsWith "ret=" then (parseRetObj (tok.drop 4).toString).map OnErr.returns
  else none

/-- The frame of the generated function: the by-reference objects at their addresses. -/
def placeObjects (m : Mem) : List Arg → Mem
  | [] => m
  | .ref addr b :: rest => placeObjects (m.write addr b) rest
  | .val _ :: rest => placeObjects m rest

def step (_ : Unit) : List String → Unit × String
  | "slots" :: p :: toks =>
    match nat? p, toks.mapM parseArg with
    | some p, some args =>
      let m0 : Mem := placeObjects (fun a => UInt8.ofNat (0xA5 + a)) args
      let m := pack m0 p args
      let outs := (List.range args.length).zip args |>.map fun (i, a) =>
        bytesHex (readArg m p i (Arg.byRef a) a.bytes.length)
      ((), "ok " ++ " ".intercalate outs)
    | _, _ => ((), "bad-op")
  | ["enc", k, sz, enc, obj, bufh] =>
    match parseRT k sz, parseFlag enc, parseRetObj obj, hexBytes? bufh with
    | some rt, some enc, some o, some buf =>
      ((), match encodeResult rt enc o buf with
        | (.ok _, b) => "ok " ++ bytesHex b
        | (.error e, b) => "err " ++ e.name ++ " " ++ bytesHex b)
    | _, _, _, _ => ((), "bad-op")
  | ["call", k, sz, enc, err, body, onerr] =>
    match parseRT k sz, parseFlag enc, parseBody body, parseOnErr onerr with
    | some rt, some enc, some body, some onerr =>
      let errOb : Option (Option RetObj) := if err == "-" then some none else (parseRetObj err).map some
      match errOb with
      | none => ((), "bad-op")
      | some errOb =>
        match mkRawErr rt enc errOb with
        | .error e => ((), "err " ++ e.name)
        | .ok raw =>
          let buf := List.replicate (max rt.bytes 8) (0xEE : UInt8)
          let out := invoke rt enc raw body onerr buf
          ((), s!"ok {bytesHex (received rt out)} {out.printed} {if out.pending then 1 else 0}")
    | _, _, _, _ => ((), "bad-op")
  | ["area", nargs, "void"] =>
    match nat? nargs with
    | some n => ((), s!"ok {sizeOfA n .void} {resultWritten .void}")
    | none => ((), "bad-op")
  | ["area", nargs, "prim", name, size] =>
    match nat? nargs, nat? size with
    | some n, some sz =>
      let r := ResT.prim (name.replace "~" " ") sz
      ((), s!"ok {sizeOfA n r} {resultWritten r}")
    | _, _ => ((), "bad-op")
  | ["area", nargs, "agg", size] =>
    match nat? nargs, nat? size with
    | some n, some sz => ((), s!"ok {sizeOfA n (.aggregate sz)} {resultWritten (.aggregate sz)}")
    | _, _ => ((), "bad-op")
  | _ => ((), "bad-op")

def main : IO Unit := runDriver () step
