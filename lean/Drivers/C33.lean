import CffiVerif.Model.GenConst
import CffiVerif.Model.CheckInt
import CffiVerif.Model.Proto
open CffiVerif CffiVerif.Proto CffiVerif.Generated

/-- `aconst <define|enum|constant> <cdef value or -> <x>`  set_source() module       → `ok v` | `err FFIError`
    `cconst <cdef value or -> <x>`                          verify(), CPython engine  → `ok v` | `err VerificationError`
    `gconst <cdef value or -> <x>`                          verify(), generic engine  → `ok v` | `err VerificationError`
    `argconv <u 0/1> <size> <v>`   `_cffi_to_c_int(o, type)`: the helper it selects accepts v → `ok v` | `err OverflowError`
    `fromc <u 0/1> <size> <v>`     `_cffi_from_c_int(v, type)` → `ok v'` -/
def optInt? (s : String) : Option (Option Int) := if s == "-" then some none else (int? s).map some

def step (u : Unit) : List String → Unit × String
  | ["aconst", kind, cdef, x] =>
    let k : Option CheckInt.Kind :=
      if kind == "define" then some .define else if kind == "enum" then some .enumerator
      else if kind == "constant" then some .constant else none
    match k, optInt? cdef, int? x with
    | some k, some cv, some x =>
      (u, match CheckInt.libConst k cv x with
          | .ok v => s!"ok {v}"
          | .error .ffiError => "err FFIError")
    | _, _, _ => (u, "bad-op")
  | ["cconst", cdef, x] =>
    match optInt? cdef, int? x with
    | some cv, some x =>
      (u, match GenConst.cpyLib cv x with
          | .ok v => s!"ok {v}"
          | .error .verificationError => "err VerificationError")
    | _, _ => (u, "bad-op")
  | ["gconst", cdef, x] =>
    match optInt? cdef, int? x with
    | some cv, some x =>
      (u, match GenConst.genLib cv x with
          | .ok v => s!"ok {v}"
          | .error .verificationError => "err VerificationError")
    | _, _ => (u, "bad-op")
  | ["argconv", us, size, v] =>
    match int? us, int? size, int? v with
    | some us, some size, some v =>
      (u, match VerifyMacros.cpyToCInt us size with
          | some (isU, bits) =>
            let lo : Int := if isU then 0 else -(2 ^ (bits - 1))
            let hi : Int := if isU then 2 ^ bits - 1 else 2 ^ (bits - 1) - 1
            if lo ≤ v ∧ v ≤ hi then s!"ok {v}" else "err OverflowError"
          | none => "err FatalError")
    | _, _, _ => (u, "bad-op")
  | ["fromc", us, size, v] =>
    match int? us, int? size, int? v with
    | some us, some size, some v => (u, s!"ok {VerifyMacros.cpyFromCInt us size v}")
    | _, _, _ => (u, "bad-op")
  | _ => (u, "bad-op")

def main : IO Unit := runDriver () step
