import CffiVerif.Model.Search
import CffiVerif.Model.RealizeName
import CffiVerif.Model.Proto
open CffiVerif CffiVerif.Search CffiVerif.Proto

/-- `table <hex> …` installs a name table; `search <hex>` runs `search_sorted`
(answer: index or -1); `pycmp a b` (space separated code points given as
two hex UTF-8 strings of ASCII) compares as Python does; `realize <prefix> <tag>` /
`unrealize <name>` run the models of `_realize_name` / `_unrealize_name` (answer: hex of `target`). -/
def step (tbl : Array CStr) : List String → Array CStr × String
  | "table" :: names =>
    match names.mapM hexBytes? with
    | some ns => (ns.toArray, s!"ok {ns.length}")
    | none => (tbl, "bad-op")
  | ["search", h] =>
    match hexBytes? h with
    | some s => (tbl, match searchSorted tbl s with
        | some i => s!"ok {i}"
        | none => "ok -1")
    | none => (tbl, "bad-op")
  | ["lexcmp", a, b] =>
    match hexBytes? a, hexBytes? b with
    | some x, some y => (tbl, match lexCmp x y with
        | .lt => "ok lt" | .eq => "ok eq" | .gt => "ok gt")
    | _, _ => (tbl, "bad-op")
  | ["realize", p, a] =>
    match hexBytes? (if p == "-" then "" else p), hexBytes? (if a == "-" then "" else a) with
    | some x, some y => (tbl, s!"ok {bytesHex (RealizeName.realizeName x y)}")
    | _, _ => (tbl, "bad-op")
  | ["unrealize", a] =>
    match hexBytes? (if a == "-" then "" else a) with
    | some y => (tbl, s!"ok {bytesHex (RealizeName.unrealizeName y)}")
    | none => (tbl, "bad-op")
  | _ => (tbl, "bad-op")

def main : IO Unit := runDriver (#[] : Array CStr) step
