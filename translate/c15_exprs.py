"""Translator for C15: re-extracts, at named extraction points of /repo/src/c/wchar_helper_3.h and
/repo/src/c/_cffi_backend.c, the tests and arithmetic behind the character-array paths into
lean/CffiVerif/Generated/CharExprs.lean:

  _my_PyUnicode_SizeAsChar16   `data[i] > 0xFFFF` (then `result++`)
  _my_PyUnicode_AsChar16       `ordinal > 0xFFFF`, `ordinal > 0x10FFFF`, `ordinal -= 0x10000`,
                               `0xD800 | (ordinal >> 10)`, `0xDC00 | (ordinal & 0x3FF)`,
                               the terminator test `result - start < resultlen`
  _my_PyUnicode_AsChar32       `copy_null = resultlen > PyUnicode_GET_LENGTH(unicode)`
  _my_PyUnicode_FromChar16     the pair test of the counting loop, the high / low tests of the copy loop
                               (with its `i < size - 1` guard), the combination arithmetic
  convert_array_from_object    `ct->ct_length >= 0 && n > ct->ct_length`, `n != ct->ct_length` (then `n++`),
                               identical in the bytes and unicode branches; which size / copy function per item size
  get_new_array_length         `PyBytes_GET_SIZE(value) + 1`, `length + 1`, `ctitem->ct_size == 2`
  b_string                     `length < 0 && CT_ARRAY` (window = array length), the `length < 0` branch test
                               (identical for the three item sizes), `while (start[length])`,
                               `while (length < maxlen && start[length])` (identical for 2- and 4-byte items),
                               the memchr form of the 1-byte scan

(`datasize *= 2` of direct_newp concerns `ffi.new("char *")`, not arrays: it is extracted by C20's InitExprs.)

The statements around the expressions are matched textually against the shape Model/Utf16.lean and
Model/CharArray.lean model by hand; a missing or reshaped extraction point raises.  Code points, units
and counts are emitted as `Nat` terms (`| & << >>` as `||| &&& <<< >>>`; the C values are `uint32_t` /
non-negative `Py_ssize_t` far below the wrap-around), `ct_length` and `maxlen`/`length` of b_string,
which may be negative, as `Int`.
"""
import os
import re
import sys

sys.path.insert(0, os.path.dirname(os.path.abspath(__file__)))
import cexpr
from cexpr import CExprError


TOK = re.compile(r"\s*(?:(0[xX][0-9a-fA-F]+[uUlL]*|\d+[uUlL]*)|([A-Za-z_]\w*(?:\s*->\s*[A-Za-z_]\w*)*)|"
                 r"(<<|>>|<=|>=|==|!=|&&|\|\||[-+*/%&|^~!<>()?:]))")


def tokenize(s):
    """cexpr's tokenizer with hexadecimal literals tried before decimal ones."""
    pos, out = 0, []
    s = s.strip()
    while pos < len(s):
        m = TOK.match(s, pos)
        if not m:
            raise CExprError("cannot tokenize %r at %d" % (s, pos))
        if m.group(1):
            out.append(("num", m.group(1)))
        elif m.group(2):
            out.append(("id", re.sub(r"\s+", "", m.group(2))))
        else:
            out.append(("op", m.group(3)))
        pos = m.end()
    return out


def parse(s):
    return cexpr.Parser(tokenize(s)).parse()


class Em:
    """env: C name -> (lean name, "nat" | "int" | "bool")."""
    def __init__(self, env, allow_sub=False):
        self.env, self.allow_sub = env, allow_sub

    def num(self, e):
        return int(re.sub(r"[uUlL]+$", "", e[1]), 0)

    def term(self, e, want=None):
        """-> (lean term, type)"""
        k = e[0]
        if k == "num":
            ty = want or "nat"
            return ("%d" % self.num(e) if ty == "nat" else "(%d : Int)" % self.num(e)), ty
        if k == "id":
            if e[1] not in self.env or self.env[e[1]][1] not in ("nat", "int"):
                raise CExprError("unknown integer variable %s" % e[1])
            return self.env[e[1]]
        if k == "un" and e[1] == "-" and e[2][0] == "num":
            return "(-%d : Int)" % self.num(e[2]), "int"
        if k == "bin" and e[1] in ("+", "-", "*", "|", "&", "<<", ">>"):
            a, ta = self.term(e[2], want)
            b, tb = self.term(e[3], ta)
            if ta != tb:
                a, ta = self.term(e[2], tb)
            if ta != tb:
                raise CExprError("mixed Nat/Int arithmetic in %r" % (e,))
            if ta == "nat":
                if e[1] == "-" and not self.allow_sub:
                    raise CExprError("subtraction of unsigned quantities outside a guarded extraction point")
                op = {"+": "+", "-": "-", "*": "*", "|": "|||", "&": "&&&", "<<": "<<<", ">>": ">>>"}[e[1]]
            else:
                if e[1] not in ("+", "-", "*"):
                    raise CExprError("bit operation on a possibly negative value in %r" % (e,))
                op = e[1]
            return "(%s %s %s)" % (a, op, b), ta
        raise CExprError("unsupported term %r" % (e,))

    def cond(self, e):
        k = e[0]
        if k == "id":
            if e[1] not in self.env:
                raise CExprError("unknown variable %s" % e[1])
            name, ty = self.env[e[1]]
            return name if ty == "bool" else "(%s != 0)" % name
        if k == "bin" and e[1] in ("&&", "||"):
            return "(%s %s %s)" % (self.cond(e[2]), e[1], self.cond(e[3]))
        if k == "un" and e[1] == "!":
            return "(!%s)" % self.cond(e[2])
        if k == "bin" and e[1] in ("<", ">", "<=", ">=", "==", "!="):
            a, ta = self.term(e[2])
            b, tb = self.term(e[3], ta)
            if ta != tb:
                a, ta = self.term(e[2], tb)
            if ta != tb:
                raise CExprError("comparison between Nat and Int in %r" % (e,))
            if e[1] in ("==", "!="):
                return "(%s %s %s)" % (a, e[1], b)
            op = {"<": "<", ">": ">", "<=": "≤", ">=": "≥"}[e[1]]
            return "(decide (%s %s %s))" % (a, op, b)
        raise CExprError("unsupported condition %r" % (e,))


def function_body(src, name):
    m = re.search(r"\b%s\s*\([^)]*\)\s*\{" % re.escape(name), src)
    if not m:
        raise CExprError("function %s not found" % name)
    i, depth = m.end(), 1
    while depth:
        c = src[i]
        depth += (c == "{") - (c == "}")
        i += 1
    return re.sub(r"\s+", " ", cexpr.strip_c_comments(src[m.end():i - 1])).strip()


def need(pattern, text, what):
    m = re.search(pattern, text)
    if not m:
        raise CExprError("extraction point %s is missing or reshaped" % what)
    return {k: v.strip() for k, v in m.groupdict().items()}


def sub(text, *pairs):
    """Replace C sub-expressions that the expression grammar does not cover (indexing, macro calls) by names;
    each must occur."""
    for old, new in pairs:
        if old not in text:
            raise CExprError("expected %r inside %r" % (old, text))
        text = text.replace(old, new)
    return text


def generate(repo):
    wsrc = open(os.path.join(repo, "src/c/wchar_helper_3.h")).read()
    bsrc = open(os.path.join(repo, "src/c/_cffi_backend.c")).read()
    g = {}
    out = ["set_option linter.unusedVariables false", "",
           "/-! Tests and arithmetic of the character-array paths, re-extracted from `src/c/wchar_helper_3.h` and",
           "`src/c/_cffi_backend.c` by translate/c15_exprs.py. -/",
           "namespace CffiVerif.Generated.CharExprs", ""]

    def d(name, params, ty, text, term):
        g[name] = text
        out.append("/-- `%s` -/\ndef %s %s : %s :=\n  %s\n" % (text, name, params, ty, term))

    P = parse

    # ---- _my_PyUnicode_SizeAsChar16
    b = function_body(wsrc, "_my_PyUnicode_SizeAsChar16")
    a = need(r"^Py_ssize_t length = PyUnicode_GET_LENGTH\(unicode\); Py_ssize_t result = length; "
             r"unsigned int kind = PyUnicode_KIND\(unicode\); if \(kind == PyUnicode_4BYTE_KIND\) \{ "
             r"Py_UCS4 \*data = PyUnicode_4BYTE_DATA\(unicode\); Py_ssize_t i; for \(i = 0; i < length; i\+\+\) \{ "
             r"if \((?P<c>[^{}]*?)\) result\+\+; \} \} return result;$", b, "_my_PyUnicode_SizeAsChar16")
    em = Em({"c": ("c", "nat")})
    d("szAstral", "(c : Nat)", "Bool", a["c"] + "  (then result++)", em.cond(P(sub(a["c"], ("data[i]", "c")))))
    b = function_body(wsrc, "_my_PyUnicode_SizeAsChar32")
    if b != "return PyUnicode_GET_LENGTH(unicode);":
        raise CExprError("_my_PyUnicode_SizeAsChar32 is no longer the length of the str")

    # ---- _my_PyUnicode_AsChar16
    b = function_body(wsrc, "_my_PyUnicode_AsChar16")
    a = need(r"^Py_ssize_t len = PyUnicode_GET_LENGTH\(unicode\); unsigned int kind = PyUnicode_KIND\(unicode\); "
             r"void \*data = PyUnicode_DATA\(unicode\); (?:cffi_char16_t \*start = result; )?Py_ssize_t i; "
             r"for \(i = 0; i < len; i\+\+\) \{ cffi_char32_t ordinal = PyUnicode_READ\(kind, data, i\); "
             r"if \((?P<astral>[^{}]*?)\) \{ if \((?P<range>[^{}]*?)\) \{ PyErr_Format\(PyExc_ValueError, [^;]*\); "
             r"return -1; \} ordinal -= (?P<sub>[^;]*); \*result\+\+ = (?P<hi>[^;]*); \*result\+\+ = (?P<lo>[^;]*); \} "
             r"else \*result\+\+ = ordinal; \} if \((?P<term>[^{}]*?)\) \*result = 0; return 0;$",
             b, "_my_PyUnicode_AsChar16")
    em = Em({"ordinal": ("ordinal", "nat")}, allow_sub=True)
    d("encAstral", "(ordinal : Nat)", "Bool", a["astral"], em.cond(P(a["astral"])))
    d("encOutOfRange", "(ordinal : Nat)", "Bool", a["range"], em.cond(P(a["range"])))
    d("encSub", "(ordinal : Nat)", "Nat", "ordinal -= " + a["sub"], em.term(P("ordinal - (%s)" % a["sub"]))[0])
    d("encHigh", "(ordinal : Nat)", "Nat", "*result++ = " + a["hi"], em.term(P(a["hi"]))[0])
    d("encLow", "(ordinal : Nat)", "Nat", "*result++ = " + a["lo"], em.term(P(a["lo"]))[0])
    # `result - start` = number of units written so far; `len` = number of code points
    em = Em({"written": ("written", "nat"), "len": ("len", "nat"), "resultlen": ("resultlen", "nat")})
    t = a["term"].replace("result - start", "written")
    d("encTerminator", "(written len resultlen : Nat)", "Bool", a["term"] + "  (then *result = 0)", em.cond(P(t)))

    # ---- _my_PyUnicode_AsChar32
    b = function_body(wsrc, "_my_PyUnicode_AsChar32")
    a = need(r"^int copy_null = (?P<cn>[^;]*); if \(PyUnicode_AsUCS4\(unicode, \(Py_UCS4 \*\)result, resultlen, copy_null\) "
             r"== NULL\) return -1; return 0;$", b, "_my_PyUnicode_AsChar32")
    em = Em({"len": ("len", "nat"), "resultlen": ("resultlen", "nat")})
    d("copyNull", "(resultlen len : Nat)", "Bool", "copy_null = " + a["cn"],
      em.cond(P(sub(a["cn"], ("PyUnicode_GET_LENGTH(unicode)", "len")))))

    # ---- _my_PyUnicode_FromChar16
    b = function_body(wsrc, "_my_PyUnicode_FromChar16")
    a = need(r"^Py_ssize_t i, count_surrogates = 0; for \(i = 0; i < size - 1; i\+\+\) \{ if \((?P<pair>[^{}]*?)\) "
             r"count_surrogates\+\+; \} if \(count_surrogates == 0\) \{ return PyUnicode_FromKindAndData\("
             r"PyUnicode_2BYTE_KIND, w, size\); \} else \{ PyObject \*result = PyUnicode_New\(size - count_surrogates, "
             r"0x10FFFF\); Py_UCS4 \*data; assert\([^;]*\); data = PyUnicode_4BYTE_DATA\(result\); "
             r"for \(i = 0; i < size; i\+\+\) \{ cffi_char32_t ch = w\[i\]; if \((?P<high>[^{}]*?)\) \{ "
             r"cffi_char32_t ch2 = w\[i \+ 1\]; if \((?P<low>[^{}]*?)\) \{ ch = (?P<join>[^;]*); i\+\+; \} \} "
             r"\*data\+\+ = ch; \} return result; \}$", b, "_my_PyUnicode_FromChar16")
    em = Em({"a": ("a", "nat"), "b": ("b", "nat")})
    d("decPairCount", "(a b : Nat)", "Bool", a["pair"] + "  (then count_surrogates++)",
      em.cond(P(sub(a["pair"], ("w[i+1]", "b"), ("w[i]", "a")))))
    em = Em({"ch": ("ch", "nat"), "ch2": ("ch2", "nat"), "has_next": ("hasNext", "bool")})
    d("decHigh", "(ch : Nat) (hasNext : Bool)", "Bool", a["high"],
      em.cond(P(sub(a["high"], ("i < size - 1", "has_next")))))
    d("decLow", "(ch2 : Nat)", "Bool", a["low"], em.cond(P(a["low"])))
    d("decJoin", "(ch ch2 : Nat)", "Nat", "ch = " + a["join"], em.term(P(a["join"]))[0])

    # ---- convert_array_from_object
    b = function_body(bsrc, "convert_array_from_object")
    by = need(r"n = PyBytes_GET_SIZE\(init\); if \((?P<too>[^{}]*?)\) \{ PyErr_Format\(PyExc_IndexError, [^;]*\); return -1; \} "
              r"if \((?P<nul>[^(){}]*)\) n\+\+; srcdata = PyBytes_AS_STRING\(init\); "
              r"if \(ctitem->ct_flags & CT_IS_BOOL\) if \(must_be_array_of_zero_or_one\(srcdata, n\) < 0\) return -1; "
              r"memcpy\(data, srcdata, n\); return 0;", b, "convert_array_from_object (bytes branch)")
    un = need(r"if \(ctitem->ct_size == 4\) n = _my_PyUnicode_SizeAsChar32\(init\); else n = _my_PyUnicode_SizeAsChar16\(init\); "
              r"if \((?P<too>[^{}]*?)\) \{ PyErr_Format\(PyExc_IndexError, [^;]*\); return -1; \} "
              r"if \((?P<nul>[^(){}]*)\) n\+\+; if \(ctitem->ct_size == 4\) return _my_PyUnicode_AsChar32\(init, "
              r"\(cffi_char32_t \*\)data, n\); else return _my_PyUnicode_AsChar16\(init, \(cffi_char16_t \*\)data, n\);",
              b, "convert_array_from_object (unicode branch)")
    if by != un:
        raise CExprError("convert_array_from_object: the bytes and unicode branches test differently: %r / %r" % (by, un))
    need(r"if \(ctitem->ct_size == sizeof\(char\)\) \{ char \*srcdata; Py_ssize_t n; if \(!PyBytes_Check\(init\)\) \{", b,
         "convert_array_from_object (1-byte items take bytes)")
    need(r"else \{ Py_ssize_t n; if \(!PyUnicode_Check\(init\)\) \{", b, "convert_array_from_object (wide items take str)")
    em = Em({"n": ("n", "int"), "ct->ct_length": ("ctLength", "int")})
    d("caTooLong", "(n ctLength : Int)", "Bool", by["too"], em.cond(P(by["too"])))
    d("caAddNul", "(n ctLength : Int)", "Bool", by["nul"] + "  (then n++)", em.cond(P(by["nul"])))

    # ---- get_new_array_length
    b = function_body(bsrc, "get_new_array_length")
    a = need(r"else if \(PyBytes_Check\(value\)\) \{ return (?P<bytes>[^;]*); \} else if \(PyUnicode_Check\(value\)\) \{ "
             r"int length; if \((?P<use16>[^{}]*?)\) length = _my_PyUnicode_SizeAsChar16\(value\); else "
             r"length = _my_PyUnicode_SizeAsChar32\(value\); return (?P<uni>[^;]*); \}", b, "get_new_array_length")
    em = Em({"size": ("size", "nat"), "length": ("length", "nat"), "ctitem->ct_size": ("itemsize", "nat")})
    d("nalBytes", "(size : Nat)", "Nat", a["bytes"], em.term(P(sub(a["bytes"], ("PyBytes_GET_SIZE(value)", "size"))))[0])
    d("nalUnicode", "(length : Nat)", "Nat", a["uni"], em.term(P(a["uni"]))[0])
    d("nalUse16", "(itemsize : Nat)", "Bool", a["use16"], em.cond(P(a["use16"])))

    # ---- b_string
    b = function_body(bsrc, "b_string")
    a = need(r"Py_ssize_t length = maxlen; if \(cd->c_data == NULL\) \{.*?return NULL; \} "
             r"if \((?P<arr>[^{}]*?)\) \{ length = get_array_length\(cd\); \} "
             r"if \(cd->c_type->ct_itemdescr->ct_size == sizeof\(char\)\) \{ const char \*start = cd->c_data; "
             r"if \((?P<u1>[^{}]*?)\) \{ length = strlen\(start\); \} else \{ const char \*end; "
             r"end = \(const char \*\)memchr\(start, 0, length\); if \(end != NULL\) length = end - start; \} "
             r"return PyBytes_FromStringAndSize\(start, length\); \}", b, "b_string (window, 1-byte scan)")
    wide = re.findall(r"case (\d): \{ const cffi_char(\d+)_t \*start = \(cffi_char\d+_t \*\)cd->c_data; "
                      r"if \(([^{}]*?)\) \{ length = 0; while \(([^{}]*?)\) length\+\+; \} else \{ maxlen = length; "
                      r"length = 0; while \(([^{}]*?)\) length\+\+; \} return _my_PyUnicode_FromChar(\d+)\(start, length\); \}", b)
    if [(w[0], w[1], w[5]) for w in wide] != [("2", "16", "16"), ("4", "32", "32")]:
        raise CExprError("b_string: the 2- and 4-byte scans are missing or reshaped: %r" % (wide,))
    if wide[0][2:5] != wide[1][2:5] or wide[0][2] != a["u1"]:
        raise CExprError("b_string: the scans of the three item sizes no longer test alike: %r %r" % (wide, a["u1"]))
    em = Em({"length": ("length", "int"), "is_array": ("isArray", "bool")})
    d("strUseArrayLen", "(length : Int) (isArray : Bool)", "Bool", a["arr"] + "  (then length = get_array_length(cd))",
      em.cond(P(sub(a["arr"], ("cd->c_type->ct_flags & CT_ARRAY", "is_array")))))
    d("strUnbounded", "(length : Int)", "Bool", a["u1"], em.cond(P(a["u1"])))
    em = Em({"unit": ("unit", "nat"), "length": ("length", "nat"), "maxlen": ("maxlen", "nat")})
    d("scanGoUnbounded", "(unit : Nat)", "Bool", "while (%s) length++" % wide[0][3],
      em.cond(P(sub(wide[0][3], ("start[length]", "unit")))))
    tree = P(sub(wide[0][4], ("start[length]", "unit")))
    if not (tree[0] == "bin" and tree[1] == "&&" and tree[3] == ("id", "unit")):
        raise CExprError("b_string: the bounded scan is no longer `<window test> && start[length]`")
    d("scanInWindow", "(length maxlen : Nat)", "Bool", "while (%s) length++  -- first conjunct" % wide[0][4],
      em.cond(tree[2]))
    d("scanNonZero", "(unit : Nat)", "Bool", "while (%s) length++  -- second conjunct" % wide[0][4], em.cond(tree[3]))

    out.append("end CffiVerif.Generated.CharExprs")
    return "\n".join(out) + "\n", g


def translator():
    import common
    text, g = generate(common.REPO)
    return common.write_generated("CharExprs", text, "; ".join("%s = %s" % kv for kv in sorted(g.items())))


if __name__ == "__main__":
    print(generate(sys.argv[1] if len(sys.argv) > 1 else "/repo")[0])
