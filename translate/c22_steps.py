"""Translator for C22: what the code does to `errno` / `cffi_saved_errno`, re-extracted on every
run into lean/CffiVerif/Generated/ErrnoSteps.lean.

Extraction points (each must be found, else ExtractError):
  src/c/misc_thread_common.h   bodies of save_errno_only / restore_errno_only, USE__THREAD branch (as
                               micro-steps) and pthread-key fallback branch (normalised statement text)
  src/c/misc_thread_posix.h    #define save_errno / restore_errno
  src/c/_cffi_backend.c        b_get_errno, b_set_errno (the statements touching errno, in order, and the
                               range test), cdata_call (restore_errno(); ffi_call(); save_errno(); inside
                               Py_BEGIN/END_ALLOW_THREADS), invoke_callback, cffi_exports[13], [14]
  src/c/call_python.c          cffi_call_python
  src/cffi/_cffi_include.h     _cffi_restore_errno / _cffi_save_errno -> _cffi_exports[i]
  src/cffi/recompiler.py       order of `_cffi_restore_errno();`, the call, `_cffi_save_errno();` in
                               _generate_cpy_function_decl

Micro-steps: `saved:=errno`, `errno:=saved`, `err:=errno`, `errno:=0`, `errno:=arg`, `save`, `restore`,
`C` (the C function runs), `PY` (Python code runs), `return err`; a guarded statement becomes
`if(<condition>)<step>` and an unrecognised statement is kept verbatim -- the model's interpreter knows
neither, so `steps_are_source` stops checking when the code takes another shape.
"""
import os
import re

import common


class ExtractError(Exception):
    pass


def need(cond, msg):
    if not cond:
        raise ExtractError(msg)


def read(rel):
    return open(os.path.join(common.REPO, rel)).read()


def strip_comments(s):
    return re.sub(r"/\*.*?\*/", " ", s, flags=re.S)


def body_of(src, name, what):
    """Body text of the C function whose header contains `name(`."""
    m = re.search(r"\b%s\s*\([^;{)]*\)\s*\{" % re.escape(name), src)
    need(m, "%s: function %s not found" % (what, name))
    i, depth = m.end(), 1
    while depth:
        need(i < len(src), "%s: unbalanced braces in %s" % (what, name))
        depth += {"{": 1, "}": -1}.get(src[i], 0)
        i += 1
    return strip_comments(src[m.end():i - 1])


def statements(body):
    """Top-level-ish statement texts, whitespace normalised; `if (c) s;` stays one statement."""
    out = []
    for st in re.split(r";", body):
        st = re.sub(r"\s+", " ", st).strip(" {}")
        if st:
            out.append(st)
    return out


def step_of(st):
    st = st.strip()
    m = re.match(r"if \((.*)\) (.*)$", st)
    if m and "{" not in m.group(2):
        return "if(%s)%s" % (m.group(1), step_of(m.group(2)))
    table = {
        "cffi_saved_errno = errno": "saved:=errno",
        "errno = cffi_saved_errno": "errno:=saved",
        "err = errno": "err:=errno",
        "errno = 0": "errno:=0",
        "errno = (int)ival": "errno:=arg",
        "save_errno_only()": "save",
        "restore_errno_only()": "restore",
        "save_errno()": "save",
        "restore_errno()": "restore",
        "return PyLong_FromLong(err)": "return err",
    }
    return table.get(st, st)


def errno_steps(body, extra=()):
    """The statements that mention errno (or one of `extra`), in order, as micro-steps."""
    res = []
    for st in statements(body):
        if re.search(r"errno", st) or any(e in st for e in extra):
            hit = [e for e in extra if e in st]
            if hit and not re.search(r"errno", st):
                res.append(extra[hit[0]] if isinstance(extra, dict) else hit[0])
            else:
                res.append(step_of(st))
    return res


def extract():
    common_h = read("src/c/misc_thread_common.h")
    m = re.search(r"#ifdef USE__THREAD(.*?)#else(.*?)#endif", common_h, re.S)
    need(m, "misc_thread_common.h: the #ifdef USE__THREAD ... #else ... #endif block not found")
    tls_part, fallback = strip_comments(m.group(1)), strip_comments(m.group(2))
    need(re.search(r"static __thread int cffi_saved_errno = 0;", tls_part), "cffi_saved_errno is not `static __thread int ... = 0`")
    ex = {}
    ex["saveOnly"] = [step_of(s) for s in statements(body_of(tls_part, "save_errno_only", "USE__THREAD branch"))]
    ex["restoreOnly"] = [step_of(s) for s in statements(body_of(tls_part, "restore_errno_only", "USE__THREAD branch"))]
    ex["saveOnlyFallback"] = statements(body_of(fallback, "save_errno_only", "fallback branch"))
    ex["restoreOnlyFallback"] = statements(body_of(fallback, "restore_errno_only", "fallback branch"))
    posix = read("src/c/misc_thread_posix.h")
    ms, mr = re.search(r"#define save_errno\s+(\w+)", posix), re.search(r"#define restore_errno\s+(\w+)", posix)
    need(ms and mr, "misc_thread_posix.h: #define save_errno / restore_errno not found")
    ex["saveMacro"], ex["restoreMacro"] = ms.group(1), mr.group(1)
    backend = read("src/c/_cffi_backend.c")
    ex["getErrno"] = errno_steps(body_of(backend, "b_get_errno", "_cffi_backend.c"),
                                 {"return PyLong_FromLong(err)": "return err"})
    set_body = body_of(backend, "b_set_errno", "_cffi_backend.c")
    mrange = re.search(r"else if \(([^)]*INT_MIN[^)]*)\)", set_body)
    need(mrange, "b_set_errno: range test not found")
    ex["setErrnoRange"] = re.sub(r"\s+", " ", mrange.group(1))
    ex["setErrno"] = [s for s in errno_steps(set_body) if "PyErr_SetString" not in s]
    call_body = body_of(backend, "cdata_call", "_cffi_backend.c")
    mcall = re.search(r"Py_BEGIN_ALLOW_THREADS(.*?)Py_END_ALLOW_THREADS", call_body, re.S)
    need(mcall, "cdata_call: Py_BEGIN_ALLOW_THREADS ... Py_END_ALLOW_THREADS not found")
    ex["cdataCall"] = errno_steps(mcall.group(1), {"ffi_call(": "C"})
    need(len(re.findall(r"\bffi_call\(", call_body)) == 1, "cdata_call: not exactly one ffi_call")
    ex["invokeCallback"] = errno_steps(body_of(backend, "invoke_callback", "_cffi_backend.c"), {"general_invoke_callback(": "PY"})
    ex["callPython"] = errno_steps(body_of(read("src/c/call_python.c"), "cffi_call_python", "call_python.c"),
                                   {"general_invoke_callback(": "PY"})
    mexp = re.search(r"static void \*cffi_exports\[\] = \{(.*?)\};", backend, re.S)
    need(mexp, "cffi_exports[] not found")
    exports = [e.strip() for e in strip_comments(mexp.group(1)).split(",")]
    inc = read("src/cffi/_cffi_include.h")
    idx = {}
    for nm in ("_cffi_restore_errno", "_cffi_save_errno"):
        mi = re.search(r"#define %s\s*\\\s*\(\(void\(\*\)\(void\)\)_cffi_exports\[(\d+)\]\)" % nm, inc)
        need(mi, "_cffi_include.h: #define %s not found" % nm)
        need(int(mi.group(1)) < len(exports), "%s: export index beyond the table" % nm)
        idx[nm] = exports[int(mi.group(1))]
    ex["apiRestore"], ex["apiSave"] = idx["_cffi_restore_errno"], idx["_cffi_save_errno"]
    rec = read("src/cffi/recompiler.py")
    mfn = re.search(r"def _generate_cpy_function_decl\(self, tp, name\):(.*?)\n    def ", rec, re.S)
    need(mfn, "recompiler.py: _generate_cpy_function_decl not found")
    order = []
    for mm in re.finditer(r"prnt\('\s*(_cffi_restore_errno\(\);|_cffi_save_errno\(\);|\{ %s%s\(%s\); \})'", mfn.group(1)):
        order.append({"_cffi_restore_errno();": "restore", "_cffi_save_errno();": "save"}.get(mm.group(1), "C"))
    need(order, "recompiler.py: the errno calls around the C call not found")
    # the PyPy variant of the wrapper also prints `{ call }`: keep the CPython one (first three)
    ex["apiWrapper"] = order[:3]
    return ex


def lstr(s):
    return '"' + s.replace("\\", "\\\\").replace('"', '\\"') + '"'


def llist(xs):
    return "[" + ", ".join(lstr(x) for x in xs) + "]"


def lean_text(ex):
    return """/-!
What the code does to `errno` and `cffi_saved_errno`, as micro-step lists
(see /verif/translate/c22_steps.py for the extraction points and the vocabulary).
-/
namespace CffiVerif.Generated.ErrnoSteps

/-- `save_errno_only` / `restore_errno_only`, `USE__THREAD` branch (`static __thread int cffi_saved_errno = 0`) -/
def saveOnly : List String := %s
def restoreOnly : List String := %s

/-- the pthread-key fallback branch, statement text -/
def saveOnlyFallback : List String := %s
def restoreOnlyFallback : List String := %s

/-- `#define save_errno` / `#define restore_errno` (misc_thread_posix.h) -/
def saveMacro : String := %s
def restoreMacro : String := %s

/-- `b_get_errno`: the statements touching errno, in order -/
def getErrno : List String := %s

/-- `b_set_errno`: the rejecting range test and the statements touching errno after it -/
def setErrnoRange : String := %s
def setErrno : List String := %s

/-- `cdata_call`, between Py_BEGIN_ALLOW_THREADS and Py_END_ALLOW_THREADS -/
def cdataCall : List String := %s

/-- `invoke_callback` and `cffi_call_python` -/
def invokeCallback : List String := %s
def callPython : List String := %s

/-- generated API-mode wrapper: order of the printed lines; the backend functions behind the two macros -/
def apiWrapper : List String := %s
def apiRestore : String := %s
def apiSave : String := %s

end CffiVerif.Generated.ErrnoSteps
""" % (llist(ex["saveOnly"]), llist(ex["restoreOnly"]), llist(ex["saveOnlyFallback"]), llist(ex["restoreOnlyFallback"]),
       lstr(ex["saveMacro"]), lstr(ex["restoreMacro"]), llist(ex["getErrno"]), lstr(ex["setErrnoRange"]),
       llist(ex["setErrno"]), llist(ex["cdataCall"]), llist(ex["invokeCallback"]), llist(ex["callPython"]),
       llist(ex["apiWrapper"]), lstr(ex["apiRestore"]), lstr(ex["apiSave"]))


def translator(ctx=None):
    def run():
        ex = extract()
        return common.write_generated("ErrnoSteps", lean_text(ex),
                                      "errno micro-steps of %d code sites" % len(ex))
    return run
