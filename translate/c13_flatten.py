"""Translator for C13: how `fb_fill_type` (src/c/_cffi_backend.c) flattens array-typed struct fields into
libffi elements, re-extracted into lean/CffiVerif/Generated/CallFlatten.lean.

Extraction points (shape-checked, ExtractError otherwise): in the CT_STRUCT branch of fb_fill_type the two loops
      flat = 1; <v> = cf->cf_type; while (<v>->ct_flags & CT_ARRAY) { flat <op> <v>->ct_length; <v> = <v>->ct_itemdescr; }
  (the counting loop, followed by `nflat += flat`, and the filling loop, followed by
   `ffifield = fb_fill_type(fb, <v>, 0)` and `for (j=0; j<flat; j++) elements[nflat++] = ffifield;`).
Emitted: the assignment operator `<op>` of each loop and the operand shape.
"""
import os
import re

import common


class ExtractError(Exception):
    pass


def need(cond, msg):
    if not cond:
        raise ExtractError("fb_fill_type: " + msg)


def extract():
    src = open(os.path.join(common.REPO, "src/c/_cffi_backend.c")).read()
    m = re.search(r"static ffi_type \*fb_fill_type\(.*?\n\}\n", src, re.S)
    need(m, "function not found")
    body = re.sub(r"/\*.*?\*/", " ", m.group(0), flags=re.S)
    loops = list(re.finditer(
        r"(\w+) = cf->cf_type;\s*while \(\1->ct_flags & CT_ARRAY\) \{\s*flat (\S+) (\w+)->(\w+);\s*\1 = \1->ct_itemdescr;\s*\}", body))
    need(len(loops) == 2, "expected two array-flattening loops, found %d" % len(loops))
    ops = []
    for lp in loops:
        need(lp.group(3) == lp.group(1) and lp.group(4) == "ct_length",
             "the flattening loop does not use the current array's ct_length")
        ops.append(lp.group(2))
    count_tail = body[loops[0].end():loops[1].start()]
    need(re.search(r"nflat \+= flat;", count_tail), "counting loop is not followed by `nflat += flat`")
    need(re.search(r"flat = 1;", body[:loops[0].start()][-200:]) is not None, "`flat = 1` before the counting loop not found")
    need(re.search(r"flat = 1;\s*CTypeDescrObject \*%s$" % loops[1].group(1), body[:loops[1].start()].rstrip()[-80:] + loops[1].group(1))
         or re.search(r"Py_ssize_t j, flat = 1;", body[loops[0].end():loops[1].start()]), "`flat = 1` before the filling loop not found")
    fill_tail = body[loops[1].end():loops[1].end() + 400]
    need(re.search(r"ffifield = fb_fill_type\(fb, %s, 0\);" % loops[1].group(1), fill_tail), "item type is not filled from the innermost type")
    need(re.search(r"for \(j=0; j<flat; j\+\+\)\s*elements\[nflat\+\+\] = ffifield;", fill_tail),
         "`for (j=0; j<flat; j++) elements[nflat++] = ffifield` not found")
    return {"count_op": ops[0], "fill_op": ops[1]}


def lean_text(ex):
    return """/-!
`fb_fill_type`, struct branch: `while (ct is an array) { flat <op> ct->ct_length; ct = ct->ct_itemdescr; }`
in the loop that counts the libffi elements and in the loop that fills them
(see /verif/translate/c13_flatten.py; the rest of the two loops is shape-checked there).
-/
namespace CffiVerif.Generated.CallFlatten

def countOp : String := "%s"
def fillOp : String := "%s"

end CffiVerif.Generated.CallFlatten
""" % (ex["count_op"], ex["fill_op"])


def translator(ctx=None):
    def run():
        ex = extract()
        return common.write_generated("CallFlatten", lean_text(ex), "flat %s len (count), flat %s len (fill)" % (ex["count_op"], ex["fill_op"]))
    return run
