"""Translator for C04 (and the hand-modelled rest of C03's path B): regenerates
lean/CffiVerif/Generated/CastExprs.lean from

  src/c/_cffi_backend.c
    * cast_to_integer_or_char: the order of its branches, the expression assigned to
      `value` in each (pointer -> integer, signed wchar_t reinterpretation, `(unsigned char)`,
      the _Bool result), `value = !!value`, the `strict` argument of the integer conversion,
      the final write_raw_integer_data
    * write_raw_integer_data / read_raw_signed_data / read_raw_unsigned_data: the type lists
      and the truncation `type r = (type)source` / the widening `return r`
    * cdata_int: the reads of the character types
    * _my_PyLong_AsUnsignedLongLong / _my_PyLong_AsLongLong: the negative test, the CPython
      functions called, the "refuses this object" conditions
    * _my_PyObject_AsBool: the int test, the refusal condition, which of nb_float / nb_int is used
    * _cffi_to_c__Bool: its if/else chain
  the code generator (run, not read): for every integer primitive the lines that
  Recompiler._convert_funcarg_to_c emits for one argument (converter call + error check)

C expressions become BitVec terms with C's typing rules (integer promotion, usual arithmetic
conversions, conversion on assignment / return).  Every extraction point must match; otherwise
an exception is raised and no file is written.
"""
import os
import re
import sys

import common
import intmacros
from intmacros import ExtractError, Parser, tokenize, _matching_paren


# ------------------------------------------------------------------ typed translation

BOOL = "bool"          # result of a C comparison / logical operator (an int that is 0 or 1)
CBOOL = (8, False, True)   # the C type _Bool

BASE_TYPES = {
    "unsigned PY_LONG_LONG": (64, False), "PY_LONG_LONG": (64, True), "unsigned long long": (64, False),
    "long long": (64, True), "Py_intptr_t": (64, True), "long": (64, True), "unsigned long": (64, False),
    "int": (32, True), "unsigned int": (32, False), "unsigned": (32, False), "short": (16, True),
    "unsigned short": (16, False), "signed char": (8, True), "unsigned char": (8, False), "char": (8, True),
    "cffi_char32_t": (32, False), "cffi_char16_t": (16, False), "int32_t": (32, True), "uint32_t": (32, False),
    "ptr": (64, False),
}


def T(bits, signed, cbool=False):
    return (bits, signed, cbool)


class ToLeanW:
    """C expression -> Lean term over BitVec of the operand widths."""

    def __init__(self, env, ctypes):
        self.env = env              # variable -> type (T tuple or BOOL)
        self.ctypes = ctypes        # C type name -> T tuple
        self.used = set()

    # -- conversions
    def conv(self, term, src, dst):
        if src == BOOL:
            if dst == BOOL:
                return term
            return "(if %s then 1#%d else 0#%d)" % (term, dst[0], dst[0])
        if dst == BOOL:
            return "(%s != 0#%d)" % (term, src[0])
        if dst[2]:                                   # to _Bool: x != 0
            return "(if %s != 0#%d then 1#%d else 0#%d)" % (term, src[0], dst[0], dst[0])
        if src[0] == dst[0]:
            return term
        if dst[0] > src[0]:
            return "(BitVec.signExtend %d %s)" % (dst[0], term) if src[1] else "(BitVec.setWidth %d %s)" % (dst[0], term)
        return "(BitVec.setWidth %d %s)" % (dst[0], term)

    def promote(self, term, ty):
        if ty == BOOL:
            return self.conv(term, BOOL, T(32, True)), T(32, True)
        if ty[0] < 32:
            return self.conv(term, ty, T(32, True)), T(32, True)
        return term, T(ty[0], ty[1])

    def uac(self, lt, lty, rt, rty):
        lt, lty = self.promote(lt, lty)
        rt, rty = self.promote(rt, rty)
        if lty == rty:
            return lt, rt, lty
        if lty[1] == rty[1]:
            ty = lty if lty[0] >= rty[0] else rty
        else:
            u, s = (lty, rty) if not lty[1] else (rty, lty)
            ty = u if u[0] >= s[0] else s
        return self.conv(lt, lty, ty), self.conv(rt, rty, ty), ty

    def go(self, e):
        k = e[0]
        if k == "num":
            _, n, suf = e
            ty = {"": T(32, True), "ULL": T(64, False), "LL": T(64, True), "U": T(32, False),
                  "L": T(64, True), "UL": T(64, False)}[suf]
            if suf == "" and n >= 2 ** 31:
                raise ExtractError("int literal %d too large" % n)
            return "%d#%d" % (n, ty[0]), ty
        if k == "id":
            if e[1] not in self.env:
                raise ExtractError("unknown identifier %r in expression" % e[1])
            self.used.add(e[1])
            return e[1], self.env[e[1]]
        if k == "cast":
            if e[1] not in self.ctypes:
                raise ExtractError("cast to %r not handled" % e[1])
            t, sty = self.go(e[2])
            dst = self.ctypes[e[1]]
            return self.conv(t, sty, dst), dst
        if k == "un":
            t, ty = self.go(e[2])
            if e[1] == "!":
                return "(!%s)" % self.conv(t, ty, BOOL), BOOL
            t, ty = self.promote(t, ty)
            if e[1] == "-":
                return "(-%s)" % t, ty
            if e[1] == "~":
                return "(~~~%s)" % t, ty
        if k == "bin":
            _, op, l, r = e
            lt, lty = self.go(l)
            rt, rty = self.go(r)
            if op in ("||", "&&"):
                return "(%s %s %s)" % (self.conv(lt, lty, BOOL), op, self.conv(rt, rty, BOOL)), BOOL
            if op in ("==", "!=", "<", ">", "<=", ">="):
                a, b, ty = self.uac(lt, lty, rt, rty)
                if op in ("==", "!="):
                    return "(%s %s %s)" % (a, op, b), BOOL
                if op in (">", ">="):
                    a, b = b, a
                fn = ("BitVec.slt" if ty[1] else "BitVec.ult") if op in ("<", ">") else \
                     ("BitVec.sle" if ty[1] else "BitVec.ule")
                return "(%s %s %s)" % (fn, a, b), BOOL
            if op in ("+", "-", "*", "&", "|", "^"):
                a, b, ty = self.uac(lt, lty, rt, rty)
                lop = {"&": "&&&", "|": "|||", "^": "^^^"}.get(op, op)
                return "(%s %s %s)" % (a, lop, b), ty
            if op in ("<<", ">>"):
                a, aty = self.promote(lt, lty)
                b, bty = self.promote(rt, rty)
                if op == "<<":
                    return "(%s <<< (%s).toNat)" % (a, b), aty
                return ("(BitVec.sshiftRight %s (%s).toNat)" if aty[1] else "(%s >>> (%s).toNat)") % (a, b), aty
        raise ExtractError("expression node %r not handled" % (e,))


def translate(expr, env, ctypes, dst=None, subst=()):
    for pat, name in subst:
        expr = re.sub(pat, name, expr)
    words = set()
    for n in ctypes:
        words.update(n.split())
    tl = ToLeanW(env, ctypes)
    term, ty = tl.go(Parser(tokenize(expr), words).parse())
    if dst is not None:
        term = tl.conv(term, ty, dst)
        ty = dst
    return term, ty, tl.used


def lean_ty(ty):
    return "Bool" if ty == BOOL else "BitVec %d" % ty[0]


# ------------------------------------------------------------------ extraction helpers

def flat(s):
    return " ".join(re.sub(r"/\*.*?\*/", " ", s, flags=re.S).split())


def function_body(src, head_re):
    m = re.search(head_re + r"\s*\{", src)
    if not m:
        raise ExtractError("function head %r not found" % head_re)
    i = m.end() - 1
    depth = 0
    for j in range(i, len(src)):
        if src[j] == "{":
            depth += 1
        elif src[j] == "}":
            depth -= 1
            if depth == 0:
                return src[i + 1:j]
    raise ExtractError("unbalanced braces after %r" % head_re)


def strip_ifdef(body):
    """drop preprocessor lines (HAVE_WCHAR_H is defined on this platform)"""
    return "\n".join(l for l in body.split("\n") if not l.lstrip().startswith("#"))


def top_level_chain(body):
    """conditions of the first top-level if / else if / else chain of a function body"""
    f = flat(strip_ifdef(body))
    i = f.find("if (")
    conds = []
    while True:
        j = _matching_paren(f, f.index("(", i))
        conds.append(f[f.index("(", i) + 1:j])
        k = f.index("{", j)
        depth = 0
        for e in range(k, len(f)):
            if f[e] == "{":
                depth += 1
            elif f[e] == "}":
                depth -= 1
                if depth == 0:
                    break
        rest = f[e + 1:].lstrip()
        if rest.startswith("else if ("):
            i = e + 1 + (len(f[e + 1:]) - len(rest)) + len("else ")
            continue
        if rest.startswith("else {"):
            conds.append("else")
        return conds


def expect1(pattern, text, what):
    ms = re.findall(pattern, text)
    if len(ms) != 1:
        raise ExtractError("%s: expected exactly one match of %r, found %d" % (what, pattern, len(ms)))
    return ms[0]


# ------------------------------------------------------------------ the extraction

def generate(scratch):
    src = open(os.path.join(common.REPO, "src/c/_cffi_backend.c")).read()
    # platform facts measured by gcc
    eptypes = [t for t in intmacros.extract_eptypes(src) if intmacros.kind_of(t[2], False) is not None]
    sizes = intmacros.measure(scratch, eptypes)
    prim = {}
    for (name, ctype, flags), (size, uns) in zip(eptypes, sizes):
        prim[name] = (8 * size, not uns)
    if "wchar_t" not in prim:
        raise ExtractError("wchar_t not in the primitive table")
    ctypes = {n: T(*v) for n, v in BASE_TYPES.items()}
    ctypes["wchar_t"] = T(*prim["wchar_t"])
    ctypes["_Bool"] = CBOOL

    out = ["namespace CffiVerif.Generated.CastExprs\n"]
    summary = []

    def emit(doc, name, params, rty, term):
        out.append("/-- %s -/" % doc)
        ps = " ".join("(%s : %s)" % (n, lean_ty(t)) for n, t in params)
        out.append("def %s %s : %s :=\n  %s\n" % (name, ps, lean_ty(rty), term))

    # ---- cast_to_integer_or_char
    body = function_body(src, r"static CDataObject \*cast_to_integer_or_char\(CTypeDescrObject \*ct, PyObject \*ob\)")
    fb = flat(strip_ifdef(body))
    chain = top_level_chain(body)
    out.append("/-- conditions of the if / else-if chain of `cast_to_integer_or_char`, in order -/")
    out.append("def castBranches : List String := [%s]\n" % ", ".join('"%s"' % c.replace('"', "'") for c in chain))
    expect1(r"unsigned PY_LONG_LONG value;", fb, "declaration of value")
    expect1(r"cffi_char32_t ordinal;", fb, "declaration of ordinal")
    VAL = T(64, False)
    rhs = re.findall(r"value = (\(Py_intptr_t\)\(\(CDataObject \*\)(?:ob|func_cdata)\)->c_data);", fb)
    if len(rhs) != 2 or rhs[0].replace("func_cdata", "ob") != rhs[1].replace("func_cdata", "ob"):
        raise ExtractError("pointer -> integer assignments: %r" % (rhs,))
    sub_ptr = [(r"\(\(CDataObject \*\)(?:ob|func_cdata)\)->c_data", "c_data")]
    term, _, _ = translate(rhs[0], {"c_data": T(64, False)}, ctypes, VAL, sub_ptr)
    emit("`value = %s;` (`c_data` is a `char *`)" % rhs[0], "ptrValue", [("c_data", T(64, False))], VAL, term)
    m = re.search(r"if \(ct->ct_flags & CT_IS_SIGNED_WCHAR\) value = ([^;]+); else value = ([^;]+);", fb)
    if not m:
        raise ExtractError("signed wchar_t branch not found")
    term, _, _ = translate(m.group(1), {"ordinal": T(32, False)}, ctypes, VAL)
    emit("`value = %s;` under CT_IS_SIGNED_WCHAR (`ordinal : cffi_char32_t`)" % m.group(1), "swcharValue",
         [("ordinal", T(32, False))], VAL, term)
    term, _, _ = translate(m.group(2), {"ordinal": T(32, False)}, ctypes, VAL)
    emit("`value = %s;` otherwise" % m.group(2), "charValue", [("ordinal", T(32, False))], VAL, term)
    m = re.search(r"int res = _convert_to_char\(ob\); if \(res < 0\) return NULL; value = ([^;]+);", fb)
    if not m:
        raise ExtractError("bytes branch not found")
    term, _, _ = translate(m.group(1), {"res": T(32, True)}, ctypes, VAL)
    emit("`value = %s;` (`res : int`, the byte)" % m.group(1), "bytesValue", [("res", T(32, True))], VAL, term)
    m = re.search(r"int res = _my_PyObject_AsBool\(ob\); if \(res < 0\) return NULL; value = ([^;]+);", fb)
    if not m:
        raise ExtractError("_Bool branch not found")
    term, _, _ = translate(m.group(1), {"res": T(32, True)}, ctypes, VAL)
    emit("`value = %s;` (`res : int` from `_my_PyObject_AsBool`)" % m.group(1), "boolResValue",
         [("res", T(32, True))], VAL, term)
    strict = expect1(r"value = _my_PyLong_AsUnsignedLongLong\(ob, (\d+)\); if \(value == \(unsigned PY_LONG_LONG\)-1 && "
                     r"PyErr_Occurred\(\)\) return NULL;", fb, "integer conversion of the cast")
    out.append("/-- the `strict` argument of `_my_PyLong_AsUnsignedLongLong` in the cast -/")
    out.append("def castStrict : Bool := %s\n" % ("true" if int(strict) else "false"))
    m = re.search(r"got_value: if \(ct->ct_flags & CT_IS_BOOL\) value = ([^;]+); cd = _new_casted_primitive\(ct\); "
                  r"if \(cd != NULL\) write_raw_integer_data\(cd->c_data, value, ct->ct_size\); return cd;$", fb)
    if not m:
        raise ExtractError("tail of cast_to_integer_or_char (_Bool normalisation, write) has an unexpected shape")
    term, _, _ = translate(m.group(1), {"value": VAL}, ctypes, VAL)
    emit("`value = %s;` under CT_IS_BOOL" % m.group(1), "boolNormalize", [("value", VAL)], VAL, term)
    summary.append("cast branches: %d" % len(chain))

    # ---- do_cast dispatch
    db = flat(function_body(src, r"static PyObject \*do_cast\(CTypeDescrObject \*ct, PyObject \*ob\)"))
    expect1(r"else if \(ct->ct_flags & \(CT_PRIMITIVE_SIGNED\|CT_PRIMITIVE_UNSIGNED \|CT_PRIMITIVE_CHAR\)\) \{ "
            r"return \(PyObject \*\)cast_to_integer_or_char\(ct, ob\); \}", db, "do_cast dispatch")

    m = re.search(r"value = _my_PyLong_AsUnsignedLongLong\(ob, (\d+)\); if \(value == \(unsigned PY_LONG_LONG\)-1 && "
                  r"PyErr_Occurred\(\)\) return NULL; return new_simple_cdata\((\(char \*\)\(Py_intptr_t\)value), ct\);", db)
    if not m:
        raise ExtractError("do_cast: integer -> pointer has an unexpected shape")
    out.append("/-- the `strict` argument of `_my_PyLong_AsUnsignedLongLong` in the pointer branch of `do_cast` -/")
    out.append("def ptrCastStrict : Bool := %s\n" % ("true" if int(m.group(1)) else "false"))
    term, _, _ = translate(m.group(2), {"value": VAL}, ctypes, T(64, False), [(r"\(char \*\)", "(ptr)")])
    emit("`new_simple_cdata(%s, ct)`: the address of the new pointer" % m.group(2), "intToPtr", [("value", VAL)],
         T(64, False), term)

    # ---- raw reads / writes
    wm = re.search(r"#define _write_raw_data\(type\)((?:.*\\\n)*.*\n)", src)
    if not wm or flat(wm.group(1).replace("\\\n", "\n")) != \
            "do { if (size == sizeof(type)) { type r = (type)source; _cffi_memcpy(target, &r, sizeof(type)); return; } } while(0)":
        raise ExtractError("_write_raw_data has an unexpected shape")
    rm = re.search(r"#define _read_raw_data\(type\)((?:.*\\\n)*.*\n)", src)
    if not rm or flat(rm.group(1).replace("\\\n", "\n")) != \
            "do { if (size == sizeof(type)) { type r; memcpy(&r, target, sizeof(type)); return r; } } while(0)":
        raise ExtractError("_read_raw_data has an unexpected shape")

    def type_list(fn_head, macro, ret):
        b = flat(function_body(src, fn_head))
        names = re.findall(r"%s\(([\w ]+)\);" % macro, b)
        if not names or not re.match(r"^(?:%s\([\w ]+\); )+Py_FatalError" % macro, b):
            raise ExtractError("%s: unexpected body %r" % (fn_head, b[:80]))
        rows, seen = [], set()
        for n in names:
            if n not in ctypes:
                raise ExtractError("type %r in %s not handled" % (n, fn_head))
            bits, sg, _ = ctypes[n]
            if bits // 8 in seen:
                continue               # `size == sizeof(type)` already matched by an earlier line
            seen.add(bits // 8)
            rows.append((bits // 8, bits, sg))
        return rows

    wr = type_list(r"static void\s+write_raw_integer_data\(char \*target, unsigned PY_LONG_LONG source, int size\)",
                   "_write_raw_data", None)
    rs = type_list(r"static PY_LONG_LONG\s+read_raw_signed_data\(char \*target, int size\)", "_read_raw_data", T(64, True))
    ru = type_list(r"static unsigned PY_LONG_LONG\s+read_raw_unsigned_data\(char \*target, int size\)", "_read_raw_data",
                   T(64, False))
    for nm, rows, doc in (("writeRawTypes", wr, "write_raw_integer_data"), ("readSignedTypes", rs, "read_raw_signed_data"),
                          ("readUnsignedTypes", ru, "read_raw_unsigned_data")):
        out.append("/-- `%s`: the first type of each size, as `(sizeof, bits, signed)` -/" % doc)
        out.append("def %s : List (Nat × Nat × Bool) := [%s]\n" % (
            nm, ", ".join("(%d, %d, %s)" % (a, b, "true" if c else "false") for a, b, c in rows)))
    for size, bits, sg in wr:
        term, _, _ = translate("(T)source", {"source": T(64, False)}, dict(ctypes, T=T(bits, sg)), T(bits, sg))
        emit("`type r = (type)source;` for the %d-byte type" % size, "writeTrunc%d" % bits, [("source", T(64, False))],
             T(bits, sg), term)
    for size, bits, sg in rs:
        term, _, _ = translate("r", {"r": T(bits, sg)}, ctypes, T(64, True))
        emit("`return r;` of read_raw_signed_data for the %d-byte type" % size, "readSigned%d" % bits, [("r", T(bits, sg))],
             T(64, True), term)
    for size, bits, sg in ru:
        term, _, _ = translate("r", {"r": T(bits, sg)}, ctypes, T(64, False))
        emit("`return r;` of read_raw_unsigned_data for the %d-byte type" % size, "readUnsigned%d" % bits,
             [("r", T(bits, sg))], T(64, False), term)

    # ---- cdata_int, character types
    cb = flat(function_body(src, r"static PyObject \*cdata_int\(CDataObject \*cd\)"))
    m = re.search(r"case sizeof\(char\): return PyLong_FromLong\(([^;]+)\); case 2: return PyLong_FromLong\(([^;]+)\); "
                  r"case 4: if \(cd->c_type->ct_flags & CT_IS_SIGNED_WCHAR\) return PyLong_FromLong\(([^;]+)\); "
                  r"else if \(sizeof\(long\) > 4\) return PyLong_FromLong\(([^;]+)\);", cb)
    if not m:
        raise ExtractError("cdata_int: character branch has an unexpected shape")
    LONG = T(64, True)
    specs = [("charRead8", m.group(1), r"cd->c_data\[0\]", "c0", T(8, True)),
             ("charRead16", m.group(2), r"\*\(cffi_char16_t \*\)cd->c_data", "u16", T(16, False)),
             ("swcharRead32", m.group(3), r"\*\(int32_t \*\)cd->c_data", "i32", T(32, True)),
             ("charRead32", m.group(4), r"\*\(uint32_t \*\)cd->c_data", "u32", T(32, False))]
    for name, expr, pat, var, vty in specs:
        if not re.search(pat, expr):
            raise ExtractError("cdata_int %s: operand %r not found in %r" % (name, pat, expr))
        term, _, _ = translate(expr, {var: vty}, ctypes, LONG, [(pat, var)])
        emit("`PyLong_FromLong(%s)` in cdata_int" % expr, name, [(var, vty)], LONG, term)

    # ---- _my_PyLong_AsUnsignedLongLong / _my_PyLong_AsLongLong
    ub = flat(function_body(src, r"static unsigned PY_LONG_LONG\s+_my_PyLong_AsUnsignedLongLong\(PyObject \*ob, int strict\)"))
    m = re.match(r"if \(PyLong_Check\(ob\)\) \{ if \(strict\) \{ if \(([^)]*\(ob\) [^)]*)\) goto negative; return (\w+)\(ob\); \} "
                 r"else \{ return (\w+)\(ob\); \} \} else \{ PyObject \*io; unsigned PY_LONG_LONG res; PyNumberMethods \*nb = "
                 r"ob->ob_type->tp_as_number; if \((.*?)\) \{ PyErr_SetString\(PyExc_TypeError, \"an integer is required\"\); "
                 r"return \(unsigned PY_LONG_LONG\)-1; \} io = \(\*nb->nb_int\) \(ob\); if \(io == NULL\) return "
                 r"\(unsigned PY_LONG_LONG\)-1; if \(PyLong_Check\(io\)\) \{ res = _my_PyLong_AsUnsignedLongLong\(io, strict\); \} "
                 r"else \{ PyErr_SetString\(PyExc_TypeError, \"integer conversion failed\"\); res = \(unsigned PY_LONG_LONG\)-1; \} "
                 r"Py_DECREF\(io\); return res; \} negative: PyErr_SetString\(PyExc_OverflowError, \"[^\"]*\"\); "
                 r"return \(unsigned PY_LONG_LONG\)-1;$", ub)
    if not m:
        raise ExtractError("_my_PyLong_AsUnsignedLongLong has an unexpected shape")
    neg, strict_fn, mask_fn, refuse = m.groups()
    term, _, _ = translate(neg, {"SIGN": T(32, True)}, ctypes, BOOL, [(r"_PyLong_Sign\(ob\)", "SIGN")])
    emit("`%s` (strict, PyLong): goto negative" % neg, "ullNegative", [("SIGN", T(32, True))], BOOL, term)
    out.append("/-- CPython functions called for a PyLong: strict, non-strict -/")
    out.append('def ullCalls : String × String := ("%s", "%s")\n' % (strict_fn, mask_fn))
    subs = [(r"CDataObject_Or_PyFloat_Check\(ob\)", "cdataOrFloat"), (r"nb->nb_int == NULL", "nbIntNull"),
            (r"nb == NULL", "nbNull")]
    benv = {"strict": BOOL, "cdataOrFloat": BOOL, "nbIntNull": BOOL, "nbNull": BOOL}
    term, _, used = translate(refuse, benv, ctypes, BOOL, subs)
    emit("`%s`: TypeError \"an integer is required\"" % refuse, "ullRefuses",
         [("strict", BOOL), ("cdataOrFloat", BOOL), ("nbNull", BOOL), ("nbIntNull", BOOL)], BOOL, term)
    lb = flat(function_body(src, r"static PY_LONG_LONG\s+_my_PyLong_AsLongLong\(PyObject \*ob\)"))
    m = re.match(r"if \(PyLong_Check\(ob\)\) \{ return (\w+)\(ob\); \} else \{ PyObject \*io; PY_LONG_LONG res; PyNumberMethods "
                 r"\*nb = ob->ob_type->tp_as_number; if \((.*?)\) \{ PyErr_SetString\(PyExc_TypeError, \"an integer is required\"\); "
                 r"return -1; \} io = \(\*nb->nb_int\) \(ob\); if \(io == NULL\) return -1; if \(PyLong_Check\(io\)\) \{ res = "
                 r"_my_PyLong_AsLongLong\(io\); \} else \{ PyErr_SetString\(PyExc_TypeError, \"integer conversion failed\"\); "
                 r"res = -1; \} Py_DECREF\(io\); return res; \}$", lb)
    if not m:
        raise ExtractError("_my_PyLong_AsLongLong has an unexpected shape")
    out.append("/-- CPython function called by `_my_PyLong_AsLongLong` for a PyLong -/")
    out.append('def llCall : String := "%s"\n' % m.group(1))
    term, _, _ = translate(m.group(2), benv, ctypes, BOOL, subs)
    emit("`%s`: TypeError" % m.group(2), "llRefuses", [("cdataOrFloat", BOOL), ("nbNull", BOOL), ("nbIntNull", BOOL)],
         BOOL, term)

    # ---- _my_PyObject_AsBool
    ab = flat(function_body(src, r"static int\s+_my_PyObject_AsBool\(PyObject \*ob\)"))
    m = re.match(r"PyObject \*io; PyNumberMethods \*nb; int res; if \(PyLong_Check\(ob\)\) \{ return ([^;]+); \} "
                 r"else if \(PyFloat_Check\(ob\)\) \{ return PyFloat_AS_DOUBLE\(ob\) != 0\.0; \} "
                 r"else if \(CData_Check\(ob\)\) \{ CDataObject \*cd = \(CDataObject \*\)ob; "
                 r"if \(cd->c_type->ct_flags & CT_PRIMITIVE_FLOAT\) \{ if \(cd->c_type->ct_flags & CT_IS_LONGDOUBLE\) \{ "
                 r"return read_raw_longdouble_data\(cd->c_data\) != 0\.0; \} else \{ return read_raw_float_data\(cd->c_data, "
                 r"cd->c_type->ct_size\) != 0\.0; \} \} \} nb = ob->ob_type->tp_as_number; if \((.*?)\) \{ "
                 r"PyErr_SetString\(PyExc_TypeError, \"integer/float expected\"\); return -1; \} "
                 r"if \((.*?)\) io = \(\*nb->nb_float\) \(ob\); else io = \(\*nb->nb_int\) \(ob\); if \(io == NULL\) return -1; "
                 r"if \((.*?)\) \{ res = _my_PyObject_AsBool\(io\); \} else \{ PyErr_SetString\(PyExc_TypeError, "
                 r"\"integer/float conversion failed\"\); res = -1; \} Py_DECREF\(io\); return res;$", ab)
    if not m:
        raise ExtractError("_my_PyObject_AsBool has an unexpected shape")
    e_long, e_ref, e_usefloat, e_accept = m.groups()
    term, _, _ = translate(e_long, {"SIGN": T(32, True)}, ctypes, T(32, True), [(r"_PyLong_Sign\(ob\)", "SIGN")])
    emit("`return %s;` for a PyLong" % e_long, "asBoolLong", [("SIGN", T(32, True))], T(32, True), term)
    subs2 = [(r"nb->nb_float == NULL", "nbFloatNull"), (r"nb->nb_int == NULL", "nbIntNull"), (r"nb == NULL", "nbNull"),
             (r"nb->nb_float", "hasNbFloat"), (r"CData_Check\(ob\)", "isCData"),
             (r"PyLong_Check\(io\)", "ioIsLong"), (r"PyFloat_Check\(io\)", "ioIsFloat")]
    term, _, _ = translate(e_ref, {"nbNull": BOOL, "nbFloatNull": BOOL, "nbIntNull": BOOL}, ctypes, BOOL, subs2)
    emit("`%s`: TypeError" % e_ref, "asBoolRefuses", [("nbNull", BOOL), ("nbFloatNull", BOOL), ("nbIntNull", BOOL)], BOOL, term)
    term, _, _ = translate(e_usefloat, {"hasNbFloat": BOOL, "isCData": BOOL}, ctypes, BOOL, subs2)
    emit("`%s`: use nb_float, else nb_int" % e_usefloat, "asBoolUsesFloat", [("hasNbFloat", BOOL), ("isCData", BOOL)], BOOL, term)
    term, _, _ = translate(e_accept, {"ioIsLong": BOOL, "ioIsFloat": BOOL}, ctypes, BOOL, subs2)
    emit("`%s`: the result of the special method is looked at again" % e_accept, "asBoolAcceptsResult",
         [("ioIsLong", BOOL), ("ioIsFloat", BOOL)], BOOL, term)

    # ---- _cffi_to_c__Bool
    bb = flat(function_body(src, r"static _Bool _cffi_to_c__Bool\(PyObject \*obj\)"))
    m = re.match(r"PY_LONG_LONG tmp = (\w+)\(obj\); (.*)$", bb)
    if not m:
        raise ExtractError("_cffi_to_c__Bool: unexpected head")
    conv_fn, rest = m.groups()
    branches = []
    while True:
        mm = re.match(r"(?:else )?if \(", rest)
        if mm:
            j = _matching_paren(rest, mm.end() - 1)
            cond = rest[mm.end():j]
            mr = re.match(r" return ([^;]+); ?", rest[j + 1:])
            if not mr:
                raise ExtractError("_cffi_to_c__Bool: branch without a return")
            branches.append((cond, mr.group(1)))
            rest = rest[j + 1 + mr.end():]
            continue
        mr = re.match(r"else return ([^;]+);$", rest)
        if not mr:
            raise ExtractError("_cffi_to_c__Bool: unexpected tail %r" % rest)
        branches.append((None, mr.group(1)))
        break
    bsubs = [(r"PyErr_Occurred\(\)", "ERR"), (r"_convert_overflow\(obj, \"_Bool\"\)", "CONVOVF")]
    benv2 = {"tmp": T(64, True), "ERR": BOOL, "CONVOVF": T(32, True)}
    lines = []
    for cond, ret in branches:
        rterm, _, used = translate(ret, benv2, ctypes, CBOOL, bsubs)
        pair = "(%s, %s)" % (rterm, "true" if "CONVOVF" in used else "false")
        if cond is None:
            lines.append("  " + pair)
        else:
            cterm, _, _ = translate(cond, benv2, ctypes, BOOL, bsubs)
            lines.append("  if %s then %s else" % (cterm, pair))
    out.append("/-- `_cffi_to_c__Bool`: `tmp = %s(obj)`; then %s.  Result: the `_Bool` returned and whether "
               "`_convert_overflow` was called (`CONVOVF` is its return value) -/" % (
                   conv_fn, "; ".join("%s -> return %s" % (c or "else", r) for c, r in branches).replace('"', "'")))
    out.append("def toCBoolBody (tmp : BitVec 64) (ERR : Bool) (CONVOVF : BitVec 32) : BitVec 8 × Bool :=\n%s\n" % "\n".join(lines))
    out.append('def toCBoolConv : String := "%s"\n' % conv_fn)

    # ---- the code Recompiler._convert_funcarg_to_c emits, per integer primitive
    import cffi
    names = [n for (n, _, f) in eptypes if intmacros.kind_of(f, False) in ("signed", "unsigned", "bool")]
    ffi = cffi.FFI()
    ffi.cdef("".join("void c04f_%d(%s);\n" % (i, n) for i, n in enumerate(names)))
    ffi.set_source("_c04_emitted_probe", "")
    cpath = os.path.join(scratch, "_c04_emitted_probe.c")
    so, devnull = os.dup(1), os.open(os.devnull, os.O_WRONLY)
    sys.stdout.flush()
    os.dup2(devnull, 1)
    try:
        ffi.emit_c_code(cpath)
    finally:
        sys.stdout.flush()
        os.dup2(so, 1)
        os.close(devnull)
        os.close(so)
    gen = open(cpath).read()
    checks, rows = {}, []
    for i, n in enumerate(names):
        m = re.search(r"_cffi_f_c04f_%d\(PyObject \*self, PyObject \*arg0\)\s*\{(.*?)\n\}" % i, gen, re.S)
        if not m:
            raise ExtractError("emitted wrapper of c04f_%d not found" % i)
        fb2 = flat(m.group(1))
        mm = re.match(r"%s x0; x0 = ([^;]+); if \((.*?)\) return NULL; Py_BEGIN_ALLOW_THREADS" % re.escape(n), fb2)
        if not mm:
            raise ExtractError("emitted wrapper for %r has an unexpected shape: %r" % (n, fb2[:160]))
        call, cond = mm.groups()
        isb = n == "_Bool"
        want_call = "(_Bool)_cffi_to_c__Bool(arg0)" if isb else "_cffi_to_c_int(arg0, %s)" % n
        if call != want_call:
            raise ExtractError("argument of type %r is converted by %r" % (n, call))
        bits, sg = prim[n]
        ty = CBOOL if isb else T(bits, sg)
        term, _, _ = translate(cond, {"x0": ty, "ERR": BOOL}, dict(ctypes, **{n: ty}), BOOL,
                               [(r"PyErr_Occurred\(\)", "ERR")])
        key = "argErrBool" if isb else "argErr%s%d" % ("S" if sg else "U", bits)
        generic = cond.replace("(%s)" % n, "(type)")
        if key in checks and checks[key] != (term, generic):
            raise ExtractError("two types of the same width/signedness get different checks: %r" % n)
        checks[key] = (term, generic)
        rows.append('("%s", "%s")' % (n, key))
    for key in sorted(checks):
        bits = 8 if key == "argErrBool" else int(re.search(r"\d+$", key).group(0))
        emit("emitted after the conversion of an argument: `if (%s) return NULL;`" % checks[key][1], key,
             [("x0", T(bits, False)), ("ERR", BOOL)], BOOL, checks[key][0])
    out.append("/-- every integer primitive: the check emitted for an argument of that type; the converter is "
               "`_cffi_to_c_int(arg0, type)`, for _Bool `(_Bool)_cffi_to_c__Bool(arg0)` -/")
    out.append("def argChecks : List (String × String) := [\n  %s\n]\n" % ",\n  ".join(rows))
    out.append("end CffiVerif.Generated.CastExprs")
    summary.append("%d emitted argument checks (%d distinct)" % (len(rows), len(checks)))
    summary.append("_cffi_to_c__Bool: %d branches" % len(branches))
    return "\n".join(out) + "\n", "; ".join(summary)


def translator(ctx):
    def run():
        text, summary = generate(ctx.scratch)
        return common.write_generated("CastExprs", text, summary)
    return run
