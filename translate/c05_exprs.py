"""Translator for C05: re-extracts from /repo/src/c/_cffi_backend.c into lean/CffiVerif/Generated/FloatExprs.lean

* the macros `_read_raw_data`, `_write_raw_data`, `_write_raw_complex_data` (size test, C cast, memcpy length, the two
  halves of a complex with their offsets) and the list of C types each of `read_raw_float_data`,
  `write_raw_float_data`, `read_raw_longdouble_data`, `write_raw_longdouble_data`, `write_raw_complex_data` applies
  them to, with the type of `source` / the return type (which decides what C conversion `(type)source` /
  `return r` is);
* `read_raw_complex_data`: the two size tests, offsets and lengths of the copies;
* the `CT_IS_LONGDOUBLE` tests of `convert_to_object`, `convert_from_object` and `do_cast` (which values take the
  `long double` copy path, which go through `write_raw_float_data`), the test on a cdata source of `do_cast`, the
  dispatch of `do_cast` on the result of `check_bytes_for_float_compatible`, and the result codes / length test of
  that function.

`sizeof(float)`, `sizeof(double)`, `sizeof(long double)` are ABI parameters (x86-64 SysV: 4, 8, 16); the harness checks
them against gcc at run time.  The control structure around the expressions is matched textually: a function that no
longer has the modelled shape makes the translator raise.  Model/FloatStore.lean uses the generated definitions for
every dispatch."""
import os
import re
import sys

sys.path.insert(0, os.path.dirname(os.path.abspath(__file__)))
import cexpr
from cexpr import CExprError, parse, NatEmitter
from c17_exprs import FlagEmitter, flat_body, shape, sub, flag_defines, macro_text

SIZEOF = {"float": 4, "double": 8, "long double": 16}          # x86-64 SysV
TYPE = {"float": ".float", "double": ".double", "long double": ".longdouble"}
FLAGS = ["CT_PRIMITIVE_SIGNED", "CT_PRIMITIVE_UNSIGNED", "CT_PRIMITIVE_CHAR", "CT_PRIMITIVE_FLOAT",
         "CT_PRIMITIVE_COMPLEX", "CT_IS_LONGDOUBLE"]


def fmacro_text(src, name, params):
    """Replacement text of the function-like macro `name(params)`, flattened."""
    m = re.search(r"^#define\s+%s\(%s\)\s*((?:.*\\\n)*.*)$" % (re.escape(name), re.escape(params)), src, re.M)
    if not m:
        raise CExprError("#define %s(%s) not found" % (name, params))
    return re.sub(r"\s+", " ", m.group(1).replace("\\\n", " ")).strip()


def signature(src, name):
    """(return type, parameter list text) of the definition of `name`."""
    ms = list(re.finditer(r"^static\s+([\w ]+?)\s+%s\(([^()]*)\)\s*\{" % re.escape(name), src, re.M))
    if len(ms) != 1:
        raise CExprError("expected one definition of %s, found %d" % (name, len(ms)))
    return re.sub(r"\s+", " ", ms[0].group(1)).strip(), re.sub(r"\s+", " ", ms[0].group(2)).strip()


def ctype(name, what):
    if name not in TYPE:
        raise CExprError("%s: unexpected C type %r" % (what, name))
    return TYPE[name]


def int_cond(text, var):
    """`var == <int literal>` -> Lean Bool over Int."""
    m = re.match(r"^%s (==|!=) (-?\d+)$" % re.escape(var), text)
    if not m:
        raise CExprError("unsupported result test %r" % text)
    return "(%s %s (%s : Int))" % (var, m.group(1), m.group(2))


def generate(repo):
    src = open(os.path.join(repo, "src/c/_cffi_backend.c")).read()
    ns = "CffiVerif.Generated.FloatExprs"
    L = ["set_option linter.unusedVariables false", "", "namespace %s" % ns, ""]
    S = {}

    def d(name, sig, ty, body, doc):
        L.append("/-- %s -/\ndef %s%s : %s :=\n  %s\n" % (doc, name, (" " + sig) if sig else "", ty, body))
        S[name] = doc

    # ---------------------------------------------------------------- flags, ABI sizes, vocabulary
    vals = flag_defines(src, FLAGS)
    for n in FLAGS:
        d(n, "", "Nat", "%d" % vals[n], "`#define %s %#x`" % (n, vals[n]))
    anytxt = macro_text(src, "CT_PRIMITIVE_ANY")
    d("CT_PRIMITIVE_ANY", "", "Nat", FlagEmitter({}).val(parse(anytxt)), "`#define CT_PRIMITIVE_ANY %s`" % anytxt)
    d("sizeofFloat", "", "Nat", str(SIZEOF["float"]), "`sizeof(float)` (x86-64 SysV; checked against gcc by the harness)")
    d("sizeofDouble", "", "Nat", str(SIZEOF["double"]), "`sizeof(double)`")
    d("sizeofLongDouble", "", "Nat", str(SIZEOF["long double"]), "`sizeof(long double)`")
    L.append("/-- The C floating types named at the extraction points. -/\ninductive CFloatType where\n"
             "  | float | double | longdouble\n  deriving DecidableEq, Repr\n")
    L.append("def CFloatType.sizeof : CFloatType → Nat\n  | .float => sizeofFloat\n  | .double => sizeofDouble\n"
             "  | .longdouble => sizeofLongDouble\n")
    L.append("/-- The two members of `Py_complex`. -/\ninductive Part where\n  | real | imag\n  deriving DecidableEq, Repr\n")

    nem = NatEmitter({"size": ("size", "nat"), "sizeofType": ("sizeofType", "nat"), "target": ("0", "nat"),
                      "sizeofFloat": ("sizeofFloat", "nat"), "sizeofDouble": ("sizeofDouble", "nat")})
    ST = [("sizeof(type)", "sizeofType")]

    # ---------------------------------------------------------------- _cffi_memcpy is memcpy
    if flat_body(src, "_cffi_memcpy") != "memcpy(target, src, size);":
        raise CExprError("_cffi_memcpy is no longer a plain memcpy")

    # ---------------------------------------------------------------- the two scalar macros
    g = shape(fmacro_text(src, "_write_raw_data", "type"),
              r"^do \{ if \((?P<test>[^{}]*?)\) \{ type r = \(type\)source; _cffi_memcpy\(target, &r, (?P<len>[^;]*)\); "
              r"return; \} \} while\(0\)$", "_write_raw_data")
    d("writeMacroTest", "(size sizeofType : Nat)", "Bool", nem.cond(parse(sub(g["test"], ST))),
      "`_write_raw_data(type)`: `if (%s) { type r = (type)source; _cffi_memcpy(target, &r, %s); return; }`"
      % (g["test"], g["len"]))
    d("writeMacroCopyLen", "(sizeofType : Nat)", "Nat", nem.term(parse(sub(g["len"], ST)))[0],
      "`_cffi_memcpy(target, &r, %s)`" % g["len"])
    g = shape(fmacro_text(src, "_read_raw_data", "type"),
              r"^do \{ if \((?P<test>[^{}]*?)\) \{ type r; memcpy\(&r, target, (?P<len>[^;]*)\); return r; \} \} while\(0\)$",
              "_read_raw_data")
    d("readMacroTest", "(size sizeofType : Nat)", "Bool", nem.cond(parse(sub(g["test"], ST))),
      "`_read_raw_data(type)`: `if (%s) { type r; memcpy(&r, target, %s); return r; }`" % (g["test"], g["len"]))
    d("readMacroCopyLen", "(sizeofType : Nat)", "Nat", nem.term(parse(sub(g["len"], ST)))[0],
      "`memcpy(&r, target, %s)`" % g["len"])

    def type_list(body, macro, what, tail):
        m = re.match(r"^(?P<pre>.*?)(?P<cases>(?:%s\([a-z ]+\); )+)%s$" % (re.escape(macro), tail), body + " ")
        if not m:
            raise CExprError("%s no longer has the modelled shape" % what)
        return m.group("pre").strip(), [ctype(t, what) for t in re.findall(r"%s\(([a-z ]+)\);" % re.escape(macro), m.group("cases"))]

    # ---------------------------------------------------------------- write_raw_float_data / read_raw_float_data
    ret, params = signature(src, "write_raw_float_data")
    m = re.match(r"^char \*target, ([a-z ]+) source, int size$", params)
    if ret != "void" or not m:
        raise CExprError("write_raw_float_data: unexpected signature (%s)(%s)" % (ret, params))
    pre, tys = type_list(flat_body(src, "write_raw_float_data"), "_write_raw_data", "write_raw_float_data",
                         r'Py_FatalError\("[^"]*"\); ')
    if pre:
        raise CExprError("write_raw_float_data does something before the size dispatch: %r" % pre)
    d("writeFloatSourceType", "", "CFloatType", ctype(m.group(1), "write_raw_float_data"),
      "`write_raw_float_data(char *target, %s source, int size)`: `(type)source` converts from this type" % m.group(1))
    d("writeFloatCases", "", "List CFloatType", "[%s]" % ", ".join(tys),
      "`write_raw_float_data`: `_write_raw_data(type)` for these types, in this order, then `Py_FatalError`")

    ret, params = signature(src, "read_raw_float_data")
    if params != "char *target, int size":
        raise CExprError("read_raw_float_data: unexpected parameters (%s)" % params)
    pre, tys = type_list(flat_body(src, "read_raw_float_data"), "_read_raw_data", "read_raw_float_data",
                         r'Py_FatalError\("[^"]*"\); return 0; ')
    if pre:
        raise CExprError("read_raw_float_data does something before the size dispatch: %r" % pre)
    d("readFloatReturnType", "", "CFloatType", ctype(ret, "read_raw_float_data"),
      "`static %s read_raw_float_data(...)`: `return r` converts to this type" % ret)
    d("readFloatCases", "", "List CFloatType", "[%s]" % ", ".join(tys),
      "`read_raw_float_data`: `_read_raw_data(type)` for these types, in this order, then `Py_FatalError`")

    # ---------------------------------------------------------------- long double
    ret, params = signature(src, "read_raw_longdouble_data")
    pre, tys = type_list(flat_body(src, "read_raw_longdouble_data"), "_read_raw_data", "read_raw_longdouble_data",
                         r'Py_FatalError\("[^"]*"\); return 0; ')
    m = re.match(r"^int size = sizeof\(([a-z ]+)\);$", pre)
    if ret != "long double" or params != "char *target" or not m or tys != [".longdouble"]:
        raise CExprError("read_raw_longdouble_data no longer has the modelled shape")
    d("ldReadSize", "", "Nat", ctype(m.group(1), "read_raw_longdouble_data") .replace(".", "CFloatType.") + ".sizeof",
      "`read_raw_longdouble_data`: `int size = sizeof(%s); _read_raw_data(long double);`" % m.group(1))
    ret, params = signature(src, "write_raw_longdouble_data")
    pre, tys = type_list(flat_body(src, "write_raw_longdouble_data"), "_write_raw_data", "write_raw_longdouble_data", "")
    m = re.match(r"^int size = sizeof\(([a-z ]+)\);$", pre)
    if ret != "void" or params != "char *target, long double source" or not m or tys != [".longdouble"]:
        raise CExprError("write_raw_longdouble_data no longer has the modelled shape")
    d("ldWriteSize", "", "Nat", ctype(m.group(1), "write_raw_longdouble_data").replace(".", "CFloatType.") + ".sizeof",
      "`write_raw_longdouble_data(char *target, long double source)`: `int size = sizeof(%s); _write_raw_data(long double);`"
      % m.group(1))

    # ---------------------------------------------------------------- complex: write
    g = shape(fmacro_text(src, "_write_raw_complex_data", "type"),
              r"^do \{ if \((?P<test>[^{}]*?)\) \{ type (?P<v1>\w+) = \(type\)source\.(?P<p1>real|imag); "
              r"type (?P<v2>\w+) = \(type\)source\.(?P<p2>real|imag); "
              r"_cffi_memcpy\((?P<d1>[^,]*), &(?P<s1>\w+), (?P<l1>[^;]*)\); "
              r"_cffi_memcpy\((?P<d2>[^,]*), &(?P<s2>\w+), (?P<l2>[^;]*)\); return; \} \} while\(0\)$",
              "_write_raw_complex_data")
    part = {g["v1"]: g["p1"], g["v2"]: g["p2"]}
    if len(part) != 2 or g["s1"] not in part or g["s2"] not in part:
        raise CExprError("_write_raw_complex_data: cannot tell which part each copy writes")
    d("cplxWriteTest", "(size sizeofType : Nat)", "Bool", nem.cond(parse(sub(g["test"], ST))),
      "`_write_raw_complex_data(type)`: `if (%s)`" % g["test"])
    halves = []
    for k in ("1", "2"):
        halves.append("(.%s, %s, %s)" % (part[g["s" + k]], nem.term(parse(sub(g["d" + k], ST)))[0],
                                         nem.term(parse(sub(g["l" + k], ST)))[0]))
    d("cplxWriteHalves", "(sizeofType : Nat)", "List (Part × Nat × Nat)", "[%s]" % ", ".join(halves),
      "`type %s = (type)source.%s; type %s = (type)source.%s; _cffi_memcpy(%s, &%s, %s); _cffi_memcpy(%s, &%s, %s)`: "
      "(part, offset from target, length) of the two copies, in order"
      % (g["v1"], g["p1"], g["v2"], g["p2"], g["d1"], g["s1"], g["l1"], g["d2"], g["s2"], g["l2"]))
    ret, params = signature(src, "write_raw_complex_data")
    pre, tys = type_list(flat_body(src, "write_raw_complex_data"), "_write_raw_complex_data", "write_raw_complex_data",
                         r'Py_FatalError\("[^"]*"\); ')
    if ret != "void" or params != "char *target, Py_complex source, int size" or pre:
        raise CExprError("write_raw_complex_data no longer has the modelled shape")
    d("cplxWriteCases", "", "List CFloatType", "[%s]" % ", ".join(tys),
      "`write_raw_complex_data(char *target, Py_complex source, int size)` (members of Py_complex are `double`): "
      "`_write_raw_complex_data(type)` for these types, in this order, then `Py_FatalError`")

    # ---------------------------------------------------------------- complex: read
    ret, params = signature(src, "read_raw_complex_data")
    g = shape(flat_body(src, "read_raw_complex_data"),
              r"^Py_complex r = \{0\.0, 0\.0\}; if \((?P<tf>[^{}]*?)\) \{ float real_part, imag_part; "
              r"memcpy\(&(?P<v1>\w+), (?P<o1>[^,]*), (?P<l1>[^;]*)\); memcpy\(&(?P<v2>\w+), (?P<o2>[^,]*), (?P<l2>[^;]*)\); "
              r"r\.(?P<p1>real|imag) = (?P<a1>\w+); r\.(?P<p2>real|imag) = (?P<a2>\w+); return r; \} "
              r"if \((?P<td>[^{}]*?)\) \{ memcpy\(&r, target, (?P<ld>[^;]*)\); return r; \} "
              r'Py_FatalError\("[^"]*"\); return r;$', "read_raw_complex_data")
    if ret != "Py_complex" or params != "char *target, int size":
        raise CExprError("read_raw_complex_data: unexpected signature")
    SZ = [("sizeof(float)", "sizeofFloat"), ("sizeof(double)", "sizeofDouble")]
    dest = {g["a1"]: g["p1"], g["a2"]: g["p2"]}
    if len(dest) != 2 or g["v1"] not in dest or g["v2"] not in dest:
        raise CExprError("read_raw_complex_data: cannot tell which part each copy reads")
    d("cplxReadFloatTest", "(size : Nat)", "Bool", nem.cond(parse(sub(g["tf"], SZ))), "`if (%s)`: two `float`s" % g["tf"])
    halves = ["(.%s, %s, %s)" % (dest[g["v" + k]], nem.term(parse(sub(g["o" + k], SZ)))[0],
                                 nem.term(parse(sub(g["l" + k], SZ)))[0]) for k in ("1", "2")]
    d("cplxReadFloatHalves", "", "List (Part × Nat × Nat)", "[%s]" % ", ".join(halves),
      "`memcpy(&%s, %s, %s); memcpy(&%s, %s, %s); r.%s = %s; r.%s = %s;` (each `float` widened to `double`)"
      % (g["v1"], g["o1"], g["l1"], g["v2"], g["o2"], g["l2"], g["p1"], g["a1"], g["p2"], g["a2"]))
    d("cplxReadDoubleTest", "(size : Nat)", "Bool", nem.cond(parse(sub(g["td"], SZ))), "`if (%s)`: a whole `Py_complex`" % g["td"])
    d("cplxReadDoubleCopyLen", "", "Nat", nem.term(parse(sub(g["ld"], SZ)))[0],
      "`memcpy(&r, target, %s)` into `Py_complex {double real; double imag;}`" % g["ld"])

    # ---------------------------------------------------------------- CT_IS_LONGDOUBLE tests
    fem = FlagEmitter({"ctflags": ("ctflags", "nat"), "srcflags": ("srcflags", "nat"),
                       "src_is_cdata": ("srcIsCData", "bool")})
    g = shape(flat_body(src, "convert_to_object"),
              r"else if \(ct->ct_flags & CT_PRIMITIVE_FLOAT\) \{ if \((?P<t>[^{}]*?)\) \{ "
              r"double value = read_raw_float_data\(data, ct->ct_size\); return PyFloat_FromDouble\(value\); \} "
              r"else \{ long double value = read_raw_longdouble_data\(data\); CDataObject \*cd = _new_casted_primitive\(ct\); "
              r"if \(cd != NULL\) write_raw_longdouble_data\(cd->c_data, value\); return \(PyObject \*\)cd; \} \}",
              "convert_to_object (float branch)")
    d("toObjectViaDouble", "(ctflags : Nat)", "Bool", fem.truth(parse(sub(g["t"], [("ct->ct_flags", "ctflags")]))),
      "`convert_to_object`, `CT_PRIMITIVE_FLOAT`: `if (%s)` read_raw_float_data -> PyFloat_FromDouble, else a new cdata "
      "holding read_raw_longdouble_data" % g["t"])

    def ld_tests(fn, what, obj, regex, names):
        g = shape(flat_body(src, fn), regex, what)
        SUB = [("((CDataObject *)%s)->c_type->ct_flags" % obj, "srcflags"), ("CData_Check(%s)" % obj, "src_is_cdata"),
               ("ct->ct_flags", "ctflags")]
        d(names[0], "(ctflags : Nat) (srcIsCData : Bool) (srcflags : Nat)", "Bool", fem.truth(parse(sub(g["copy"], SUB))),
          "`%s`: `if (%s)` copy the long double with read_raw_longdouble_data / write_raw_longdouble_data" % (what, g["copy"]))
        d(names[1], "(ctflags : Nat)", "Bool", fem.truth(parse(sub(g["viaf"], SUB))),
          "`%s`: `if (%s) write_raw_float_data(.., value, ct->ct_size); else write_raw_longdouble_data(.., (long double)value);`"
          % (what, g["viaf"]))
        return g

    ld_tests("convert_from_object", "convert_from_object (float branch)", "init",
             r"if \(ct->ct_flags & CT_PRIMITIVE_FLOAT\) \{ double value; if \((?P<copy>[^{}]*?)\) \{ long double lvalue; "
             r"char \*initdata = \(\(CDataObject \*\)init\)->c_data; lvalue = read_raw_longdouble_data\(initdata\); "
             r"write_raw_longdouble_data\(data, lvalue\); return 0; \} value = PyFloat_AsDouble\(init\); "
             r"if \(value == -1\.0 && PyErr_Occurred\(\)\) return -1; if \((?P<viaf>[^{}]*?)\) "
             r"write_raw_float_data\(data, value, ct->ct_size\); else write_raw_longdouble_data\(data, \(long double\)value\); "
             r"return 0; \}", ["fromObjectCopiesLongDouble", "fromObjectViaFloatStore"])
    g = ld_tests("do_cast", "do_cast (float branch)", "io",
                 r"else if \(ct->ct_flags & CT_PRIMITIVE_FLOAT\) \{ double value; PyObject \*io; int res; "
                 r"if \(CData_Check\(ob\)\) \{ CDataObject \*cdsrc = \(CDataObject \*\)ob; if \((?P<notprim>[^{}]*?)\) "
                 r"goto cannot_cast; io = convert_to_object\(cdsrc->c_data, cdsrc->c_type\); if \(io == NULL\) return NULL; \} "
                 r"else \{ io = ob; Py_INCREF\(io\); \} res = check_bytes_for_float_compatible\(io, &value\); "
                 r"if \((?P<cannot>[^{}()]*)\) goto cannot_cast; if \((?P<noval>[^{}()]*)\) \{ if \((?P<copy>[^{}]*?)\) \{ "
                 r"long double lvalue; char \*data = \(\(CDataObject \*\)io\)->c_data; lvalue = read_raw_longdouble_data\(data\); "
                 r"Py_DECREF\(io\); cd = _new_casted_primitive\(ct\); if \(cd != NULL\) "
                 r"write_raw_longdouble_data\(cd->c_data, lvalue\); return \(PyObject \*\)cd; \} "
                 r"value = PyFloat_AsDouble\(io\); \} Py_DECREF\(io\); if \(value == -1\.0 && PyErr_Occurred\(\)\) return NULL; "
                 r"cd = _new_casted_primitive\(ct\); if \(cd != NULL\) \{ if \((?P<viaf>[^{}]*?)\) "
                 r"write_raw_float_data\(cd->c_data, value, ct->ct_size\); else "
                 r"write_raw_longdouble_data\(cd->c_data, \(long double\)value\); \} return \(PyObject \*\)cd; \}",
                 ["castCopiesLongDouble", "castViaFloatStore"])
    d("castSourceRejected", "(srcflags : Nat)", "Bool",
      fem.truth(parse(sub(g["notprim"], [("cdsrc->c_type->ct_flags", "srcflags")]))),
      "`do_cast`, cdata source: `if (%s) goto cannot_cast;`" % g["notprim"])
    d("castResCannot", "(res : Int)", "Bool", int_cond(g["cannot"], "res"),
      "`res = check_bytes_for_float_compatible(io, &value); if (%s) goto cannot_cast;`" % g["cannot"])
    d("castResNoValue", "(res : Int)", "Bool", int_cond(g["noval"], "res"),
      "`if (%s) { ... value = PyFloat_AsDouble(io); }`" % g["noval"])

    # ---------------------------------------------------------------- check_bytes_for_float_compatible
    g = shape(flat_body(src, "check_bytes_for_float_compatible"),
              r"^if \(PyBytes_Check\(io\)\) \{ if \((?P<blen>[^{}]*?)\) goto error; "
              r"\*out_value = \(unsigned char\)PyBytes_AS_STRING\(io\)\[0\]; return (?P<r1>-?\d+); \} "
              r"else if \(PyUnicode_Check\(io\)\) \{ char ignored\[80\]; cffi_char32_t ordinal; "
              r"if \(_my_PyUnicode_AsSingleChar32\(io, &ordinal, ignored\) < 0\) goto error; \*out_value = ordinal; "
              r"return (?P<r2>-?\d+); \} \*out_value = 0; return (?P<r0>-?\d+); error: Py_DECREF\(io\); \*out_value = 0; "
              r"return (?P<re>-?\d+);$", "check_bytes_for_float_compatible")
    if g["r1"] != g["r2"]:
        raise CExprError("check_bytes_for_float_compatible: bytes and str report different codes")
    lem = NatEmitter({"n": ("n", "nat")})
    d("cbfBytesLenBad", "(n : Nat)", "Bool", lem.cond(parse(sub(g["blen"], [("PyBytes_GET_SIZE(io)", "n")]))),
      "`check_bytes_for_float_compatible`, bytes: `if (%s) goto error;`" % g["blen"])
    d("cbfGotValue", "", "Int", g["r1"], "a 1-character bytes/str: `*out_value = <ordinal>; return %s;`" % g["r1"])
    d("cbfNoValue", "", "Int", g["r0"], "neither bytes nor str: `return %s;`" % g["r0"])
    d("cbfError", "", "Int", "(%s)" % g["re"], "wrong length: `return %s;`" % g["re"])

    L.append("end %s" % ns)
    return "\n".join(L) + "\n", S


def translator():
    import common
    text, summary = generate(common.REPO)
    return common.write_generated("FloatExprs", text, summary)


if __name__ == "__main__":
    print(generate(sys.argv[1] if len(sys.argv) > 1 else "/repo")[0])
