"""Regenerate CffiVerif/Generated/ConstExprPy.lean from the Python source of the working tree:

  (a) cparser.Parser._c_div                              -> def c_div
  (b,c) the BinaryOp block of Parser._parse_constant     -> def parse_constant_binop
        (operator string -> Python operator, the `right < 0` shift guard, the `%` rule
        `left - self._c_div(left, right) * right`, and the final `raise FFIError`)
  (d) the Constant block of Parser._parse_constant       -> tables (rstrip characters, the
        leading-'0' rule and its bases, the 0x / 0b fall-backs and what their failure becomes,
        the digit test, the character-constant lengths, _SIMPLE_ESCAPES)
  (e) model.EnumType.build_baseinttype, from `if smallest_value < 0:` to the end
                                                         -> def build_baseinttype

(a), (b,c), (e) go through translate/pyexpr.py (a generic Python-ast -> Lean translator);
(d) contains string handling and try/except, which pyexpr does not translate: its decision data
is extracted by matching the exact shape of the statements.  Any change of shape raises.
"""
import ast
import os

import common
import pyexpr
from pyexpr import Unsupported, expect, find_function, dotted, lean_str

EXC = {"CDefError": "cdef", "FFIError": "ffi"}


def _read(rel):
    return open(os.path.join(common.REPO, "src", rel)).read()


# ---------------------------------------------------------------- (a)

def gen_c_div(tree):
    fn = find_function(tree, "Parser._c_div")
    if [a.arg for a in fn.args.args] != ["self", "a", "b"]:
        raise Unsupported("_c_div: parameters changed")
    tr = pyexpr.Translator({"a": ("a", "int"), "b": ("b", "int")}, exceptions=EXC)
    return tr.function("c_div", fn.body, "int")


# ---------------------------------------------------------------- (b), (c)

def _isinstance_block(fn, cls):
    """The top-level `if isinstance(exprnode, pycparser.c_ast.<cls>):` of the function."""
    for st in fn.body:
        if isinstance(st, ast.If) and ast.unparse(st.test) == "isinstance(exprnode, pycparser.c_ast.%s)" % cls:
            return st
    raise Unsupported("_parse_constant: no `if isinstance(exprnode, pycparser.c_ast.%s)` block" % cls)


def gen_binop(tree):
    fn = find_function(tree, "Parser._parse_constant")
    blk = _isinstance_block(fn, "BinaryOp")
    if blk.orelse:
        raise Unsupported("_parse_constant: the BinaryOp block got an else branch")
    expect(blk.body[0], "left = self._parse_constant(exprnode.left)", "BinaryOp block, first statement")
    expect(blk.body[1], "right = self._parse_constant(exprnode.right)", "BinaryOp block, second statement")
    last = fn.body[-1]
    if not isinstance(last, ast.Raise):
        raise Unsupported("_parse_constant no longer ends with a raise")
    # the block must be the last `if` before that raise, so that falling through reaches it
    if fn.body[-2] is not blk:
        raise Unsupported("_parse_constant: code was inserted between the BinaryOp block and the final raise")

    def c_div_call(tr, node, env, pre, receiver):
        args = [tr.expr(a, env, pre) for a in node.args]
        if [t for _, t in args] != ["int", "int"]:
            raise Unsupported("_c_div called with %r" % (args,))
        return "(c_div %s %s)" % (args[0][0], args[1][0]), "int", True

    tr = pyexpr.Translator({"left": ("left", "int"), "right": ("right", "int")},
                           attrs={"exprnode.op": ("op", "str")},
                           calls={"self._c_div": c_div_call}, exceptions=EXC, checked_lshift=True)
    return tr.function("parse_constant_binop", blk.body[2:] + [last], "int")


# ---------------------------------------------------------------- (d)

def _char(s):
    if len(s) != 1 or not (32 <= ord(s) < 127):
        raise Unsupported("character %r" % (s,))
    return "'\\''" if s == "'" else "'\\\\'" if s == "\\" else "'%s'" % s


def _chars(s):
    return "[" + ", ".join(_char(c) for c in s) + "]"


def gen_literal_rules(tree):
    fn = find_function(tree, "Parser._parse_constant")
    blk = _isinstance_block(fn, "Constant")
    expect(blk.body[0], "s = exprnode.value", "Constant block, first statement")
    chain = blk.body[1]
    if not isinstance(chain, ast.If) or len(blk.body) != 2:
        raise Unsupported("Constant block: expected one if/elif chain after `s = exprnode.value`")
    # --- `if '0' <= s[0] <= '9':`
    t = chain.test
    if not (isinstance(t, ast.Compare) and len(t.ops) == 2 and all(isinstance(o, ast.LtE) for o in t.ops)
            and ast.unparse(t.comparators[0]) == "s[0]"
            and isinstance(t.left, ast.Constant) and isinstance(t.comparators[1], ast.Constant)):
        raise Unsupported("Constant block: the digit test changed shape: %s" % ast.unparse(t))
    digit_lo, digit_hi = t.left.value, t.comparators[1].value
    num = chain.body
    if len(num) != 3:
        raise Unsupported("numeric branch: expected rstrip / try / raise")
    # --- `s = s.rstrip('uUlL')`
    st = num[0]
    if not (isinstance(st, ast.Assign) and ast.unparse(st.targets[0]) == "s" and isinstance(st.value, ast.Call)
            and ast.unparse(st.value.func) == "s.rstrip" and len(st.value.args) == 1
            and isinstance(st.value.args[0], ast.Constant)):
        raise Unsupported("numeric branch: `s = s.rstrip(...)` changed shape: %s" % ast.unparse(st))
    rstrip_chars = st.value.args[0].value
    # --- try: if s.startswith('0'): return int(s, 8) else: return int(s, 10)
    tr = num[1]
    if not (isinstance(tr, ast.Try) and len(tr.body) == 1 and isinstance(tr.body[0], ast.If)
            and len(tr.handlers) == 1 and ast.unparse(tr.handlers[0].type) == "ValueError"
            and not tr.orelse and not tr.finalbody):
        raise Unsupported("numeric branch: the try statement changed shape")
    first = tr.body[0]

    def int_call(stmts):
        if len(stmts) != 1 or not isinstance(stmts[0], ast.Return):
            raise Unsupported("expected `return int(s, base)`")
        c = stmts[0].value
        if not (isinstance(c, ast.Call) and ast.unparse(c.func) == "int" and len(c.args) == 2
                and ast.unparse(c.args[0]) == "s" and isinstance(c.args[1], ast.Constant)):
            raise Unsupported("expected `return int(s, base)`, found %s" % ast.unparse(stmts[0]))
        return c.args[1].value
    ft = first.test
    if not (isinstance(ft, ast.Call) and ast.unparse(ft.func) == "s.startswith" and len(ft.args) == 1
            and isinstance(ft.args[0], ast.Constant)):
        raise Unsupported("numeric branch: `if s.startswith(...)` changed shape")
    oct_prefix, oct_base, default_base = ft.args[0].value, int_call(first.body), int_call(first.orelse)
    # --- except ValueError: try: if s.lower()[0:2] == '0x': return int(s, 16) elif ...  except ValueError: pass
    hb = tr.handlers[0].body
    if len(hb) != 1 or not isinstance(hb[0], ast.Try):
        raise Unsupported("numeric branch: the ValueError handler is no longer one nested try")
    inner = hb[0]
    if not (len(inner.handlers) == 1 and ast.unparse(inner.handlers[0].type) == "ValueError"
            and len(inner.handlers[0].body) == 1 and isinstance(inner.handlers[0].body[0], ast.Pass)
            and len(inner.body) == 1 and isinstance(inner.body[0], ast.If) and not inner.orelse and not inner.finalbody):
        raise Unsupported("numeric branch: the nested try changed shape")
    fallbacks = []
    node = inner.body[0]
    while True:
        c = node.test
        if not (isinstance(c, ast.Compare) and len(c.ops) == 1 and isinstance(c.ops[0], ast.Eq)
                and isinstance(c.comparators[0], ast.Constant) and isinstance(c.left, ast.Subscript)
                and ast.unparse(c.left.value) == "s.lower()" and ast.unparse(c.left.slice) == "0:%d" % len(c.comparators[0].value)):
            raise Unsupported("fall-back test changed shape: %s" % ast.unparse(c))
        fallbacks.append((c.comparators[0].value, int_call(node.body)))
        if not node.orelse:
            break
        if len(node.orelse) != 1 or not isinstance(node.orelse[0], ast.If):
            raise Unsupported("fall-back chain has a plain else")
        node = node.orelse[0]
    # --- raise CDefError(...) after the try: a failed fall-back (ValueError swallowed by `pass`) and no fall-back both end here
    rs = num[2]
    if not (isinstance(rs, ast.Raise) and isinstance(rs.exc, ast.Call) and dotted(rs.exc.func) in EXC):
        raise Unsupported("numeric branch: final raise changed shape")
    failure = EXC[dotted(rs.exc.func)]
    # --- character constants
    if len(chain.orelse) != 1 or not isinstance(chain.orelse[0], ast.If):
        raise Unsupported("Constant block: elif chain changed shape")
    c3 = chain.orelse[0]
    expect(c3.test, "s[0] == \"'\" and s[-1] == \"'\" and len(s) == 3", "plain character constant test")
    expect(c3.body[0], "return ord(s[-2])", "plain character constant value")
    if len(c3.orelse) != 1 or not isinstance(c3.orelse[0], ast.If):
        raise Unsupported("Constant block: elif chain changed shape (escapes)")
    c4 = c3.orelse[0]
    expect(c4.test, "s[0] == \"'\" and s[-1] == \"'\" and len(s) == 4 and s[1] == '\\\\' and s[2] in _SIMPLE_ESCAPES",
           "escaped character constant test")
    expect(c4.body[0], "return _SIMPLE_ESCAPES[s[2]]", "escaped character constant value")
    if not (len(c4.orelse) == 1 and isinstance(c4.orelse[0], ast.Raise) and dotted(c4.orelse[0].exc.func) in EXC):
        raise Unsupported("Constant block: final else changed shape")
    other_failure = EXC[dotted(c4.orelse[0].exc.func)]
    esc = None
    for st in tree.body:
        if isinstance(st, ast.Assign) and ast.unparse(st.targets[0]) == "_SIMPLE_ESCAPES":
            esc = ast.literal_eval(st.value)
    if not esc or not all(isinstance(k, str) and len(k) == 1 and isinstance(v, int) and v >= 0 for k, v in esc.items()):
        raise Unsupported("_SIMPLE_ESCAPES not found or not a {char: int} dict")
    out = []
    out.append("/-- `'%s' <= s[0] <= '%s'` selects the numeric branch. -/" % (digit_lo, digit_hi))
    out.append("def digitFirst : Char × Char := (%s, %s)\n" % (_char(digit_lo), _char(digit_hi)))
    out.append("/-- `s.rstrip(%r)`. -/" % rstrip_chars)
    out.append("def rstripChars : List Char := %s\n" % _chars(rstrip_chars))
    out.append("/-- `if s.startswith(%r): return int(s, %d)` `else: return int(s, %d)`. -/" % (oct_prefix, oct_base, default_base))
    out.append("def octalPrefix : List Char := %s" % _chars(oct_prefix))
    out.append("def octalBase : Nat := %d" % oct_base)
    out.append("def defaultBase : Nat := %d\n" % default_base)
    out.append("/-- `except ValueError:` the `s.lower()[0:n] == prefix` -> `int(s, base)` chain, in order. -/")
    out.append("def fallbacks : List (List Char × Nat) := [%s]\n"
               % ", ".join("(%s, %d)" % (_chars(p), b) for p, b in fallbacks))
    out.append("/-- A `ValueError` inside the fall-back is swallowed (`pass`) and, like no matching fall-back,\nends in the `raise` after the try. -/")
    out.append("def fallbackFailure : Err := .%s\n" % failure)
    out.append("/-- The final `else: raise` of the Constant block. -/")
    out.append("def otherConstantFailure : Err := .%s\n" % other_failure)
    out.append("/-- `_SIMPLE_ESCAPES`. -/")
    out.append("def simpleEscapes : List (Char × Nat) := [%s]\n"
               % ", ".join("(%s, %d)" % (_char(k), v) for k, v in esc.items()))
    return "\n".join(out), {"rstrip": rstrip_chars, "fallbacks": fallbacks, "escapes": len(esc)}


# ---------------------------------------------------------------- (e)

def gen_build_baseinttype(mtree):
    fn = find_function(mtree, "EnumType.build_baseinttype")
    start = None
    for i, st in enumerate(fn.body):
        if isinstance(st, ast.If) and ast.unparse(st.test) == "smallest_value < 0":
            start = i
    if start is None:
        raise Unsupported("build_baseinttype: `if smallest_value < 0:` not found")
    # before it: the explicit-baseinttype shortcut and the min/max (or the empty-enum guess) only
    expect(fn.body[0], "if self.baseinttype is not None:\n    return self.baseinttype.get_cached_btype(ffi, finishlist)",
           "build_baseinttype, first statement")
    pre = fn.body[1]
    if not (isinstance(pre, ast.If) and ast.unparse(pre.test) == "self.enumvalues" and start == 2):
        raise Unsupported("build_baseinttype: statements before `if smallest_value < 0:` changed shape")
    expect(pre.body[0], "smallest_value = min(self.enumvalues)", "build_baseinttype, smallest_value")
    expect(pre.body[1], "largest_value = max(self.enumvalues)", "build_baseinttype, largest_value")

    def primitive(tr, node, env, pre, receiver):
        if len(node.args) != 1 or not isinstance(node.args[0], ast.Constant) or not isinstance(node.args[0].value, str):
            raise Unsupported("PrimitiveType(...) with a non-literal name")
        return lean_str(node.args[0].value), "str", False

    def cached(tr, node, env, pre, receiver):
        if receiver is None or receiver[1] != "str":
            raise Unsupported("get_cached_btype on %r" % (receiver,))
        return receiver[0], "str", False

    def sizeof(tr, node, env, pre, receiver):
        args = [tr.expr(a, env, pre) for a in node.args]
        if [t for _, t in args] != ["str"]:
            raise Unsupported("ffi.sizeof(%r)" % (args,))
        return "(sizeof %s)" % args[0][0], "int", False

    tr = pyexpr.Translator({"smallest_value": ("smallest_value", "int"), "largest_value": ("largest_value", "int")},
                           calls={"PrimitiveType": primitive, ".get_cached_btype": cached, "ffi.sizeof": sizeof},
                           exceptions=EXC)
    return tr.function("build_baseinttype", fn.body[start:], "str", extra_params=[("sizeof", "String → Int")])


# ---------------------------------------------------------------- file

def lean_text():
    ctree = ast.parse(_read("cffi/cparser.py"))
    mtree = ast.parse(_read("cffi/model.py"))
    rules, info = gen_literal_rules(ctree)
    parts = ["import CffiVerif.Model.ConstExprBase\n",
             "/-! Translated by /verif/translate/pyexpr.py + constexpr_py.py from src/cffi/cparser.py and",
             "src/cffi/model.py of the working tree.  `Model/ConstExpr.lean` and `Model/Enum.lean` are defined",
             "through these definitions, so every theorem about them is re-checked against the source. -/",
             "namespace CffiVerif.Generated.ConstExprPy",
             "open CffiVerif.ConstExpr\n",
             "/-- `Parser._c_div(self, a, b)`. -/",
             gen_c_div(ctree),
             "/-- The `BinaryOp` block of `Parser._parse_constant` after both operands were evaluated",
             "(`op` is `exprnode.op`), followed by the function's final `raise FFIError`. -/",
             gen_binop(ctree),
             rules,
             "/-- `EnumType.build_baseinttype` from `if smallest_value < 0:` on; a candidate is represented by",
             "the name given to `PrimitiveType(...)`, `sizeof` stands for `ffi.sizeof(candidate.get_cached_btype(...))`. -/",
             gen_build_baseinttype(mtree),
             "end CffiVerif.Generated.ConstExprPy\n"]
    return "\n".join(parts), info


def run():
    text, info = lean_text()
    return common.write_generated("ConstExprPy", text,
                                  "c_div, parse_constant_binop, literal rules %r, build_baseinttype" % (info,))


if __name__ == "__main__":
    print(lean_text()[0])
