"""C12 translator: regenerates lean/CffiVerif/Generated/CheckIntSrc.lean from
  * src/cffi/_cffi_include.h   `#define _cffi_check_int(got, got_nonpos, expected) ...`
  * src/cffi/recompiler.py     the statements `_generate_cpy_const` prints for an integer
                               constant, how `check_value` is spelled as a C literal, and which
                               of the callers (macro / enum / constant) pass a `check_value`.
Raises when an extraction point is missing or has an unexpected shape.
"""
import os
import re
import sys

sys.path.insert(0, os.path.dirname(os.path.abspath(__file__)))
import c12_cexpr as cx


def _func_source(src, name):
    m = re.search(r"^    def %s\(.*?(?=^    def |\Z)" % re.escape(name), src, re.M | re.S)
    if not m:
        raise cx.ParseError("function %s not found" % name)
    return m.group(0)


def _prnt_lines(fsrc):
    """The string literals handed to prnt(...) in a function body (first literal of each call;
    adjacent literals are concatenated the way Python does)."""
    out = []
    for m in re.finditer(r"prnt\(\s*((?:'(?:[^'\\]|\\.)*'\s*)+)", fsrc):
        lits = re.findall(r"'((?:[^'\\]|\\.)*)'", m.group(1))
        out.append("".join(lits))
    return out


def extract(repo):
    inc = open(os.path.join(repo, "src/cffi/_cffi_include.h")).read()
    rec = open(os.path.join(repo, "src/cffi/recompiler.py")).read()

    params, body = cx.extract_define(inc, "_cffi_check_int")
    if params != ["got", "got_nonpos", "expected"]:
        raise cx.ParseError("_cffi_check_int parameters changed: %r" % (params,))
    check_term = cx.lean_value(cx.parse(body), {"got": "got", "got_nonpos": "got_nonpos", "expected": "expected"})

    f = _func_source(rec, "_generate_cpy_const")
    lines = _prnt_lines(f)

    def one(pattern, what):
        hits = [l for l in lines if re.match(pattern, l.strip())]
        if len(hits) != 1:
            raise cx.ParseError("recompiler._generate_cpy_const: expected exactly one line %s, found %r" % (what, hits))
        return hits[0].strip()

    l_n = one(r"int n = .*;", "'int n = ...;'")
    l_o = one(r"\*o = .*;", "'*o = ...;'")
    l_if = one(r"if \(.*_cffi_check_int.*\)$", "'if (!_cffi_check_int(...))'")
    l_set = one(r"n \|= \d+;", "'n |= 2;'")
    l_ret = one(r"return n;", "'return n;'")
    # the order of the statements matters
    idx = [lines.index(next(l for l in lines if l.strip() == s)) for s in (l_n, l_o, l_if, l_set, l_ret)]
    if idx != sorted(idx):
        raise cx.ParseError("statement order of the generated _cffi_const_ body changed")
    # the int-branch signature
    one(r"static int %s\(unsigned long long \*o\)", "the int constant signature")

    n_term = cx.lean_value(cx.parse(re.match(r"int n = (.*);", l_n).group(1).replace("%s", "x")), {"x": "x"})
    o_rhs = re.match(r"\*o = (.*?);", l_o).group(1).replace("%s", "x")
    o_term = cx.lean_value(cx.parse(o_rhs), {"x": "x"})
    cond = re.match(r"if \((.*)\)$", l_if).group(1)
    if cond.count("%s") != 1:
        raise cx.ParseError("unexpected check condition %r" % cond)
    cond_term = cx.lean_value(cx.parse(cond.replace("%s", "expected")),
                              {"o": "o", "n": "n", "expected": "expected",
                               "__call__": {"_cffi_check_int": "cffi_check_int"}})
    bit = int(re.match(r"n \|= (\d+);", l_set).group(1))

    # spelling of the expected value: positive -> '%dU', otherwise plain decimal
    if not re.search(r"if check_value > 0:\s*\n\s*check_value = '%dU' % \(check_value,\)", f):
        raise cx.ParseError("spelling of check_value as a C literal changed")
    # the check is emitted iff check_value is not None
    if not re.search(r"if check_value is not None:\s*\n\s*if check_value > 0:", f):
        raise cx.ParseError("guard 'if check_value is not None' changed")

    def passes_check_value(fname):
        body = _func_source(rec, fname)
        calls = re.findall(r"self\._generate_cpy_const\(([^)]*)\)", body)
        if len(calls) != 1:
            raise cx.ParseError("%s: expected one call of _generate_cpy_const" % fname)
        return "check_value" in calls[0]

    macro_checked = passes_check_value("_generate_cpy_macro_decl")
    enum_checked = passes_check_value("_generate_cpy_enum_decl")
    const_checked = passes_check_value("_generate_cpy_constant_decl")

    texts = {"check_int": body, "n": l_n, "o": l_o, "if": l_if, "set": l_set}
    lean = """import CffiVerif.Model.CheckIntOps
/-! Terms regenerated from `_cffi_include.h` (`_cffi_check_int`) and
`recompiler.Recompiler._generate_cpy_const` (the body of every `_cffi_const_NAME`). -/
namespace CffiVerif.Generated.CheckIntSrc
open CffiVerif.CheckIntOps

/-- `#define _cffi_check_int(got, got_nonpos, expected)  %(check_int)s` -/
def cffi_check_int (got got_nonpos expected : Int) : Int :=
  %(check_term)s

/-- `%(n)s` with `x` the C value of the constant expression -/
def const_n (x : Int) : Int := %(n_term)s

/-- `%(o)s` -/
def const_o (x : Int) : Int := %(o_term)s

/-- the condition of `%(if)s` -/
def const_mismatch (o n expected : Int) : Int := %(cond_term)s

/-- `%(set)s` -/
def const_flag (n : Int) : Int := cOr n (%(bit)d : Int)

/-- which generators pass the cdef's value down as `check_value` in API mode -/
def macro_decl_checks_value : Bool := %(macro)s
def enum_decl_checks_value : Bool := %(enum)s
def constant_decl_checks_value : Bool := %(const)s

end CffiVerif.Generated.CheckIntSrc
""" % dict(texts, check_term=check_term, n_term=n_term, o_term=o_term, cond_term=cond_term, bit=bit,
           macro=str(macro_checked).lower(), enum=str(enum_checked).lower(), const=str(const_checked).lower())
    summary = "_cffi_check_int = %s; body: %s / %s / %s / %s; check_value passed by macro=%s enum=%s constant=%s" % (
        body, l_n, l_o, l_if, l_set, macro_checked, enum_checked, const_checked)
    return lean, summary


def run(common):
    lean, summary = extract(common.REPO)
    return common.write_generated("CheckIntSrc", lean, summary)


if __name__ == "__main__":
    print(extract(sys.argv[1] if len(sys.argv) > 1 else "/repo")[0])
