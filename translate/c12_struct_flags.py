"""C12 translator: regenerates lean/CffiVerif/Generated/StructFlags.lean from
  * src/cffi/parse_c_type.h      the `_CFFI_F_*` flag values of `_cffi_struct_union_s.flags`
  * src/c/_cffi_backend.c        `SF_PACKED`, `SF_STD_FIELD_POS`, and the places that read them
  * src/c/realize_c_type.c       the statements of `do_realize_lazy_struct_lock_held` that assemble the
                                 `sflags` argument of `b_complete_struct_or_union_lock_held` from `s->flags`
Raises when an extraction point is missing or has an unexpected shape.
"""
import os
import re
import sys

sys.path.insert(0, os.path.dirname(os.path.abspath(__file__)))
import c12_cexpr as cx

F_NAMES = ["_CFFI_F_UNION", "_CFFI_F_CHECK_FIELDS", "_CFFI_F_PACKED", "_CFFI_F_EXTERNAL", "_CFFI_F_OPAQUE"]
SF_NAMES = ["SF_PACKED", "SF_STD_FIELD_POS"]


def defines(src, names, where):
    out = {}
    for n in names:
        m = re.search(r"^#define\s+%s\s+(0[xX][0-9a-fA-F]+|\d+)\b" % re.escape(n), src, re.M)
        if not m:
            raise cx.ParseError("#define %s not found in %s" % (n, where))
        out[n] = int(m.group(1), 0)
    return out


def flag_values(repo):
    h = open(os.path.join(repo, "src/cffi/parse_c_type.h")).read()
    b = open(os.path.join(repo, "src/c/_cffi_backend.c")).read()
    return defines(h, F_NAMES, "parse_c_type.h"), defines(b, SF_NAMES, "_cffi_backend.c")


def extract(repo):
    fvals, sfvals = flag_values(repo)
    b = open(os.path.join(repo, "src/c/_cffi_backend.c")).read()
    r = open(os.path.join(repo, "src/c/realize_c_type.c")).read()

    m = re.search(r"static int do_realize_lazy_struct_lock_held\(.*?\n\}\n", r, re.S)
    if not m:
        raise cx.ParseError("do_realize_lazy_struct_lock_held not found")
    fn = m.group(0)
    m = re.search(r"\n(\s*sflags\s*=[^\n]*\n.*?)\n\s*ct->ct_extra = NULL;", fn, re.S)
    if not m:
        raise cx.ParseError("the sflags assembly block was not found")
    block = cx.normalise_c(m.group(1))
    env = {"s_flags": "flags", "sflags": "sflags"}
    for n in F_NAMES:
        env[n] = n[6:]                 # _CFFI_F_UNION -> F_UNION
    for n in SF_NAMES:
        env[n] = n
    stmts = [t.strip() for t in block.replace("s->flags", "s_flags").split(";") if t.strip()]
    lets = []
    for st in stmts:
        mm = re.match(r"^(?:if \((.*)\) )?sflags (\|=|=) (.*)$", st)
        if not mm:
            raise cx.ParseError("unexpected statement in the sflags block: %r" % st)
        cond, op, rhs = mm.groups()
        val = cx.lean_nat(cx.parse(rhs), env)
        new = "(sflags ||| %s)" % val if op == "|=" else val
        if cond is not None:
            new = "(if %s ≠ 0 then %s else sflags)" % (cx.lean_nat(cx.parse(cond), env), new)
        lets.append((st, new))
    if not lets or lets[0][0].startswith("if"):
        raise cx.ParseError("sflags is not initialised unconditionally")
    # how the assembled flags and the table numbers reach the layout routine
    if not re.search(r"b_complete_struct_or_union_lock_held\(ct, fields, s->size, s->alignment,\s*sflags, 0\)", fn):
        raise cx.ParseError("call of b_complete_struct_or_union_lock_held changed")
    if not re.search(r"detect_custom_layout\(ct, SF_STD_FIELD_POS,\s*ctf->ct_size, fld->field_size,", fn):
        raise cx.ParseError("the per-field size check no longer passes SF_STD_FIELD_POS unconditionally")
    if not re.search(r"fld->field_offset == \(size_t\)-1", fn):
        raise cx.ParseError("the unchecked-field test (field_offset == (size_t)-1) changed")
    # the readers of the two bits
    if not re.search(r"if \(sflags & SF_PACKED\)\s*\n\s*pack = 1;", b):
        raise cx.ParseError("`if (sflags & SF_PACKED) pack = 1;` not found in _cffi_backend.c")
    m = re.search(r"static int detect_custom_layout\(.*?\n\}\n", b, re.S)
    if not m or not re.search(r"if \(compiler_value != cdef_value\) \{\s*if \(sflags & SF_STD_FIELD_POS\) \{", m.group(0)):
        raise cx.ParseError("detect_custom_layout no longer tests sflags & SF_STD_FIELD_POS")
    if not re.search(r"falign = \(pack < falignorg\) \? pack : falignorg;", b):
        raise cx.ParseError("`falign = (pack < falignorg) ? pack : falignorg;` not found")

    body = "\n".join("  let sflags : Nat := %s   -- %s;" % (new if i else new, st) for i, (st, new) in enumerate(lets))
    first = lets[0]
    body = "  let sflags : Nat := %s   -- %s;\n" % (first[1], first[0]) + \
           "".join("  let sflags : Nat := %s   -- %s;\n" % (new, st) for st, new in lets[1:])
    lean = """/-! Regenerated from parse_c_type.h (`_CFFI_F_*`), _cffi_backend.c (`SF_*`) and the `sflags` assembly of
`do_realize_lazy_struct_lock_held` (realize_c_type.c). -/
namespace CffiVerif.Generated.StructFlags

%s
%s

/-- `sflags` handed to `b_complete_struct_or_union_lock_held`, as a function of `s->flags`. -/
def sflagsOf (flags : Nat) : Nat :=
%s  sflags

end CffiVerif.Generated.StructFlags
""" % ("\n".join("def %s : Nat := %d" % (n[6:], v) for n, v in fvals.items()),
       "\n".join("def %s : Nat := %d" % (n, v) for n, v in sfvals.items()), body)
    summary = "flags %r %r; sflags block: %s" % (fvals, sfvals, block)
    return lean, summary


def run(common):
    lean, summary = extract(common.REPO)
    return common.write_generated("StructFlags", lean, summary)


if __name__ == "__main__":
    print(extract(sys.argv[1] if len(sys.argv) > 1 else "/repo")[0])
