"""C33 translator: regenerates lean/CffiVerif/Generated/VerifyMacros.lean from
  * src/cffi/vengine_cpy.py   the copies of `_cffi_from_c_int`, `_cffi_to_c_int`, `_cffi_from_c_int_const`
                              embedded in `cffimod_header`, and `_check_int_constant_value`
  * src/cffi/_cffi_include.h  the originals of `_cffi_from_c_int`, `_cffi_to_c_int`
  * src/cffi/vengine_gen.py   the integer-constant protocol of the generic engine (`_generate_gen_const`,
                              `_check_int_constant_value`, the decoding in `_load_constant`)
Texts are recorded as code-point lists (compared by `decide` in Props/C33.lean) and translated to Lean
terms over CffiVerif.CheckIntOps.  Raises when an extraction point is missing.
"""
import os
import re
import sys

sys.path.insert(0, os.path.dirname(os.path.abspath(__file__)))
import c12_cexpr as cx
from c12_check_int import _func_source, _prnt_lines


def selector(e, env):
    """Lean `Option (Bool × Nat)` term: which `_cffi_to_c_{u,i}N` helper an expression selects."""
    k = e[0]
    if k == "ite":
        return "(if %s ≠ 0 then %s else %s)" % (cx.lean_value(e[1], env), selector(e[2], env), selector(e[3], env))
    if k == "cast":
        return selector(e[2], env)          # `(type)` applied to the helper's result: same helper
    if k == "call":
        m = re.match(r"_cffi_to_c_([ui])(\d+)$", e[1])
        if not m or len(e[2]) != 1 or e[2][0] != ("var", "o"):
            raise cx.ParseError("unexpected call %r in _cffi_to_c_int" % (e[1],))
        return "(some (%s, %s))" % ("true" if m.group(1) == "u" else "false", m.group(2))
    if k == "comma":
        if e[1][0][0] == "call" and e[1][0][1] == "Py_FatalError":
            return "none"
    raise cx.ParseError("cannot translate %r as a selector" % (k,))


TYPE_ENV = {"__type__": {"type": {"cast": "castT u size", "sizeof": "size"}}}
PY_FROM = {"PyLong_FromLong": None, "PyLong_FromUnsignedLong": None, "PyLong_FromUnsignedLongLong": None,
           "PyLong_FromLongLong": None}


def translate_from_c_int(params, body):
    if params != ["x", "type"]:
        raise cx.ParseError("_cffi_from_c_int parameters changed: %r" % (params,))
    env = dict(TYPE_ENV, x="x", __call__=PY_FROM)
    return cx.lean_value(cx.parse(body, typevars=["type"]), env)


def translate_to_c_int(params, body):
    if params != ["o", "type"]:
        raise cx.ParseError("_cffi_to_c_int parameters changed: %r" % (params,))
    return selector(cx.parse(body, typevars=["type"]), dict(TYPE_ENV))


def codes(s):
    return "[" + ", ".join(str(ord(c)) for c in s) + "]"


def check_value_exprs(src, where):
    f = _func_source(src, "_check_int_constant_value")
    m = re.search(r"if value <= 0:\s*\n\s*prnt\('  if \((.*?)\) \{' % \(\s*\n?\s*name, name, value\)\)\s*\n\s*else:\s*\n"
                  r"\s*prnt\('  if \((.*?)\) \{' % \(\s*\n?\s*name, name, value\)\)", f)
    if not m:
        raise cx.ParseError("%s._check_int_constant_value: the two generated conditions were not found" % where)
    out = []
    for text in m.groups():
        t = text.replace("%s", "x").replace("%dUL", "e").replace("%dL", "e")
        if "%" in t:
            raise cx.ParseError("unexpected placeholder in %r" % text)
        out.append((text, cx.lean_value(cx.parse(t), {"x": "x", "e": "e"})))
    if not re.search(r"return -1;", f):
        raise cx.ParseError("%s._check_int_constant_value no longer returns -1 on mismatch" % where)
    return out


def extract(repo):
    cpy = open(os.path.join(repo, "src/cffi/vengine_cpy.py")).read()
    gen = open(os.path.join(repo, "src/cffi/vengine_gen.py")).read()
    inc = open(os.path.join(repo, "src/cffi/_cffi_include.h")).read()

    cpy_from = cx.extract_define(cpy, "_cffi_from_c_int")
    inc_from = cx.extract_define(inc, "_cffi_from_c_int")
    cpy_to = cx.extract_define(cpy, "_cffi_to_c_int")
    inc_to = cx.extract_define(inc, "_cffi_to_c_int")
    cpy_const = cx.extract_define(cpy, "_cffi_from_c_int_const")
    if cpy_const[0] != ["x"]:
        raise cx.ParseError("_cffi_from_c_int_const parameters changed")
    const_term = cx.lean_value(cx.parse(cpy_const[1]), {"x": "x", "LONG_MAX": "longMax", "LONG_MIN": "longMin",
                                                        "__call__": PY_FROM})
    # the cpy engine uses it for every integer constant
    if "prnt('  o = _cffi_from_c_int_const(%s);' % name)" not in cpy:
        raise cx.ParseError("vengine_cpy no longer emits `o = _cffi_from_c_int_const(NAME)`")

    # generic engine: the C side of the protocol
    f = _func_source(gen, "_generate_gen_const")
    lines = _prnt_lines(f)
    sig = [l for l in lines if re.match(r"int %s\(long long \*out_value\)$", l.strip())]
    outv = [l for l in lines if re.match(r"\*out_value = .*;$", l.strip())]
    ret = [l for l in lines if re.match(r"return \(%s\) .*;$", l.strip())]
    if len(sig) != 1 or len(outv) != 1 or len(ret) != 1:
        raise cx.ParseError("vengine_gen._generate_gen_const: protocol lines not found: %r %r %r" % (sig, outv, ret))
    out_term = cx.lean_value(cx.parse(re.match(r"\*out_value = (.*);$", outv[0].strip()).group(1).replace("%s", "x")), {"x": "x"})
    neg_term = cx.lean_value(cx.parse(re.match(r"return (.*);$", ret[0].strip()).group(1).replace("%s", "x")), {"x": "x"})
    # generic engine: the Python side
    lc = _func_source(gen, "_load_constant")
    for pat, what in ((r"negative = function\(p\)\s*\n\s*value = int\(p\[0\]\)", "negative = function(p); value = int(p[0])"),
                      (r"if value < 0 and not negative:\s*\n\s*BLongLong = .*\n\s*value \+= \(1 << \(8\*self\.ffi\.sizeof\(BLongLong\)\)\)",
                       "if value < 0 and not negative: value += 1 << (8*sizeof(long long))"),
                      (r"BType = self\.ffi\._typeof_locked\(\"long long\*\"\)", "out parameter of type long long*")):
        if not re.search(pat, lc):
            raise cx.ParseError("vengine_gen._load_constant: `%s` not found" % what)
    gen_checks = check_value_exprs(gen, "vengine_gen")
    cpy_checks = check_value_exprs(cpy, "vengine_cpy")

    lean = """import CffiVerif.Model.CheckIntOps
/-! Regenerated from vengine_cpy.py, vengine_gen.py and _cffi_include.h (C33). -/
namespace CffiVerif.Generated.VerifyMacros
open CffiVerif.CheckIntOps

/-- `(type)v` for an integer type of `size` bytes, unsigned iff `u ≠ 0`. -/
def castT (u size : Int) (v : Int) : Int :=
  let m : Int := 2 ^ (8 * size).toNat
  if u ≠ 0 then v %% m else (if v %% m < m / 2 then v %% m else v %% m - m)

def longMax : Int := 9223372036854775807
def longMin : Int := -9223372036854775808

/-- normalised macro texts as code points -/
def cpyFromCIntText : List Nat := %(cpy_from_text)s
def incFromCIntText : List Nat := %(inc_from_text)s
def cpyToCIntText : List Nat := %(cpy_to_text)s
def incToCIntText : List Nat := %(inc_to_text)s

/-- vengine_cpy.py: `#define _cffi_from_c_int(x, type) %(cpy_from_src)s` -/
def cpyFromCInt (u size x : Int) : Int :=
  %(cpy_from)s
/-- _cffi_include.h: the original -/
def incFromCInt (u size x : Int) : Int :=
  %(inc_from)s

/-- vengine_cpy.py: which `_cffi_to_c_{u,i}N` helper `_cffi_to_c_int(o, type)` dispatches to -/
def cpyToCInt (u size : Int) : Option (Bool × Nat) :=
  %(cpy_to)s
/-- _cffi_include.h: the original -/
def incToCInt (u size : Int) : Option (Bool × Nat) :=
  %(inc_to)s

/-- vengine_cpy.py: `#define _cffi_from_c_int_const(x) %(const_src)s` -/
def cpyFromCIntConst (x : Int) : Int :=
  %(const_term)s

/-- vengine_gen.py `_generate_gen_const`: `%(outv)s` and `%(ret)s` -/
def genOutValue (x : Int) : Int := %(out_term)s
def genNegative (x : Int) : Int := %(neg_term)s

/-- `_check_int_constant_value` (generic engine): `%(gc0)s` when the cdef's value is ≤ 0, else `%(gc1)s` -/
def genCheckNonpos (x e : Int) : Int := %(gc0t)s
def genCheckPos (x e : Int) : Int := %(gc1t)s
/-- the CPython engine's copy -/
def cpyCheckNonpos (x e : Int) : Int := %(cc0t)s
def cpyCheckPos (x e : Int) : Int := %(cc1t)s

end CffiVerif.Generated.VerifyMacros
""" % dict(cpy_from_text=codes(cpy_from[1]), inc_from_text=codes(inc_from[1]),
           cpy_to_text=codes(cpy_to[1]), inc_to_text=codes(inc_to[1]),
           cpy_from_src=cpy_from[1], const_src=cpy_const[1],
           cpy_from=translate_from_c_int(*cpy_from), inc_from=translate_from_c_int(*inc_from),
           cpy_to=translate_to_c_int(*cpy_to), inc_to=translate_to_c_int(*inc_to),
           const_term=const_term, outv=outv[0].strip(), ret=ret[0].strip(), out_term=out_term, neg_term=neg_term,
           gc0=gen_checks[0][0], gc1=gen_checks[1][0], gc0t=gen_checks[0][1], gc1t=gen_checks[1][1],
           cc0t=cpy_checks[0][1], cc1t=cpy_checks[1][1])
    summary = ("_cffi_from_c_int: cpy %d chars / include %d chars; _cffi_to_c_int: %d / %d; gen protocol: %s ; %s ; checks: %s | %s"
               % (len(cpy_from[1]), len(inc_from[1]), len(cpy_to[1]), len(inc_to[1]), outv[0].strip(), ret[0].strip(),
                  gen_checks[0][0], gen_checks[1][0]))
    return lean, summary


def run(common):
    lean, summary = extract(common.REPO)
    return common.write_generated("VerifyMacros", lean, summary)


if __name__ == "__main__":
    print(extract(sys.argv[1] if len(sys.argv) > 1 else "/repo")[0])
