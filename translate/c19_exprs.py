"""Translator for C19: re-extracts, at named extraction points of /repo/src/c/minibuffer.h and
/repo/src/c/_cffi_backend.c, the bound tests and clamps of the buffer object (`mb_item`, `mb_ass_item`, `mb_slice`,
`mb_ass_slice`, the negative-index fix-up of `mb_subscript` / `mb_ass_subscript`), the size logic of `b_buffer_new`,
the length computations of `direct_from_buffer` and `_fetch_as_buffer`, and the `n < 0` test of `b_memmove` into
lean/CffiVerif/Generated/BufferExprs.lean.  Model/Buffer.lean uses the generated definitions for every condition
and every arithmetic expression; the control structure is checked textually here and hand-modelled there."""
import os
import re
import sys

sys.path.insert(0, os.path.dirname(os.path.abspath(__file__)))
import cexpr
from cexpr import CExprError, parse
from c16_exprs import PropEmitter, Out, flat_body, shape, sub


def generate(repo):
    mb = open(os.path.join(repo, "src/c/minibuffer.h")).read()
    be = open(os.path.join(repo, "src/c/_cffi_backend.c")).read()
    out = Out("CffiVerif.Generated.BufferExprs", [])

    # ---- mb_item / mb_ass_item
    em = PropEmitter({"idx": "idx", "self->mb_size": "size"})
    g = shape(flat_body(mb, "mb_item"), r"^ ?if \((?P<c>[^{}]*?)\) \{ PyErr_SetString\(PyExc_IndexError,.*?return NULL; \} "
              r"return PyBytes_FromStringAndSize\(self->mb_data \+ idx, 1\);", "mb_item")
    out.prop("itemRejected", ["idx", "size"], g["c"], em.cond(parse(g["c"])))
    g = shape(flat_body(mb, "mb_ass_item"), r"^ ?if \((?P<c>[^{}]*?)\) \{ PyErr_SetString\(PyExc_IndexError,.*?return -1; \} "
              r"if \(PyBytes_Check\(other\) && PyBytes_GET_SIZE\(other\) == 1\) \{ self->mb_data\[idx\] = ",
              "mb_ass_item")
    out.prop("assItemRejected", ["idx", "size"], g["c"], em.cond(parse(g["c"])))

    # ---- mb_slice / mb_ass_slice: the three clamps
    clamp = (r"if \((?P<c1>[^{}()]*?)\) left = (?P<v1>[^;]*); if \((?P<c2>[^{}()]*?)\) right = (?P<v2>[^;]*); "
             r"if \((?P<c3>[^{}()]*?)\) left = (?P<v3>[^;]*); ")
    em = PropEmitter({"left": "left", "right": "right", "size": "size", "count": "count", "src_view.len": "srclen"})
    g = shape(flat_body(mb, "mb_slice"), r"Py_ssize_t size = self->mb_size; " + clamp +
              r"return PyBytes_FromStringAndSize\(self->mb_data \+ left, (?P<n>[^;]*)\);", "mb_slice")
    g2 = shape(flat_body(mb, "mb_ass_slice"), r"if \(_fetch_as_buffer\(other, &src_view, 0\) < 0\) return -1; " + clamp +
               r"count = (?P<n>[^;]*); if \((?P<ne>[^{}()]*?)\) \{ PyBuffer_Release\(&src_view\); "
               r"PyErr_SetString\(PyExc_ValueError,.*?\} memcpy\(self->mb_data \+ left, src_view.buf, count\);",
               "mb_ass_slice")
    for pre, gg in (("slice", g), ("assSlice", g2)):
        out.prop(pre + "LeftNegative", ["left"], gg["c1"], em.cond(parse(gg["c1"])))
        out.val(pre + "LeftFloor", ["left"], "left = " + gg["v1"], em.term(parse(gg["v1"])))
        out.prop(pre + "RightTooLarge", ["right", "size"], gg["c2"], em.cond(parse(gg["c2"])))
        out.val(pre + "RightCeil", ["size"], "right = " + gg["v2"], em.term(parse(gg["v2"])))
        out.prop(pre + "LeftAfterRight", ["left", "right"], gg["c3"], em.cond(parse(gg["c3"])))
        out.val(pre + "LeftCollapse", ["right"], "left = " + gg["v3"], em.term(parse(gg["v3"])))
        out.val(pre + "Count", ["left", "right"], gg["n"], em.term(parse(gg["n"])))
    ne = g2["ne"].replace("src_view.len", "src_view->len")        # member access spelled for the tokenizer
    em_ne = PropEmitter({"count": "count", "src_view->len": "srclen"})
    out.prop("assSliceLenMismatch", ["count", "srclen"], g2["ne"], em_ne.cond(parse(ne)))

    # ---- mb_subscript / mb_ass_subscript: negative index
    em = PropEmitter({"i": "i", "self->mb_size": "size"})
    for fn, name in (("mb_subscript", "sub"), ("mb_ass_subscript", "assSub")):
        g = shape(flat_body(mb, fn), r"if \(i == -1 && PyErr_Occurred\(\)\) return (?:NULL|-1); "
                  r"if \((?P<c>[^{}()]*?)\) i (?P<op>\+=) (?P<v>[^;]*); return mb_(?:ass_)?item\(self, i", fn)
        out.prop(name + "IndexNegative", ["i"], g["c"], em.cond(parse(g["c"])))
        out.val(name + "IndexFixup", ["i", "size"], "i += " + g["v"], em.term(parse("i + " + g["v"])))

    # ---- b_buffer_new
    f = flat_body(be, "b_buffer_new")
    g = shape(f, r"explicit_size = (?P<expl>[^;]*); if \((?P<c0>size < 0)\) size = _cdata_var_byte_size\(cd\); "
                 r"if \(cd->c_type->ct_flags & CT_POINTER\) \{ if \((?P<c1>size < 0)\) size = cd->c_type->ct_itemdescr->ct_size; \} "
                 r"else if \(cd->c_type->ct_flags & CT_ARRAY\) \{ if \((?P<c2>size < 0)\) size = (?P<arr>[^;]*); \} "
                 r"else \{.*?\} if \((?P<c3>size < 0)\) \{ PyErr_Format\(PyExc_TypeError,", "b_buffer_new")
    em = PropEmitter({"size": "size", "array_length": "n", "cd->c_type->ct_itemdescr->ct_size": "itemsize"})
    out.prop("bufExplicitSize", ["size"], "explicit_size = " + g["expl"], em.cond(parse(g["expl"])))
    out.prop("bufSizeAbsent", ["size"], g["c0"], em.cond(parse(g["c0"])))
    out.val("bufArraySize", ["n", "itemsize"], "size = " + g["arr"],
            em.term(parse(sub(g["arr"], [("get_array_length(cd)", "array_length")]))))
    out.prop("bufSizeUnknown", ["size"], g["c3"], em.cond(parse(g["c3"])))

    # ---- direct_from_buffer
    f = flat_body(be, "direct_from_buffer")
    g = shape(f, r"if \(ct->ct_flags & CT_POINTER\) \{ arraylength = view->len; \} else \{ if \((?P<fixed>[^{}()]*?)\) \{ "
                 r"minimumlength = (?P<min>[^;]*); arraylength = (?P<flen>[^;]*); \} else \{ "
                 r"if \((?P<one>[^{}()]*?)\) \{ arraylength = (?P<l1>[^;]*); \} "
                 r"else if \((?P<pos>[^{}()]*?)\) \{ arraylength = (?P<div>[^;]*); \} "
                 r"else \{ PyErr_Format\(PyExc_ZeroDivisionError,.*?\} \} \} "
                 r"if \((?P<small>[^{}()]*?)\) \{ PyErr_Format\(PyExc_ValueError,", "direct_from_buffer")
    em = PropEmitter({"ct->ct_length": "ctlength", "ct->ct_size": "ctsize", "ct->ct_itemdescr->ct_size": "itemsize",
                      "view->len": "len", "minimumlength": "minimumlength"})
    out.prop("fbFixedLength", ["ctlength"], g["fixed"], em.cond(parse(g["fixed"])))
    out.val("fbMinimumLength", ["ctsize"], "minimumlength = " + g["min"], em.term(parse(g["min"])))
    out.val("fbFixedArrayLength", ["ctlength"], "arraylength = " + g["flen"], em.term(parse(g["flen"])))
    out.prop("fbItemSizeOne", ["itemsize"], g["one"], em.cond(parse(g["one"])))
    out.val("fbLengthSizeOne", ["len"], "arraylength = " + g["l1"], em.term(parse(g["l1"])))
    out.prop("fbItemSizePositive", ["itemsize"], g["pos"], em.cond(parse(g["pos"])))
    out.val("fbLengthDiv", ["len", "itemsize"], "arraylength = " + g["div"], em.term(parse(g["div"])))
    out.prop("fbTooSmall", ["len", "minimumlength"], g["small"], em.cond(parse(g["small"])))

    # ---- _fetch_as_buffer: the length reported for a cdata
    f = flat_body(be, "_fetch_as_buffer")
    g = shape(f, r"view->len = (?P<unk>[^;]*); if \(\(ct->ct_flags & CT_ARRAY\) && (?P<known>[^{}()]*?)\) "
                 r"view->len = (?P<len>[^;]*); return 0;", "_fetch_as_buffer")
    em = PropEmitter({"ct->ct_itemdescr->ct_size": "itemsize", "array_length": "n"})
    out.val("cdataLenUnknown", ["itemsize"], "view->len = " + g["unk"], em.term(parse(g["unk"])))
    out.prop("cdataItemSizeKnown", ["itemsize"], g["known"], em.cond(parse(g["known"])))
    out.val("cdataArrayLen", ["n", "itemsize"], "view->len = " + g["len"],
            em.term(parse(sub(g["len"], [("get_array_length((CDataObject *)x)", "array_length")]))))

    # ---- b_memmove
    f = flat_body(be, "b_memmove")
    g = shape(f, r"return NULL; if \((?P<neg>[^{}()]*?)\) \{ PyErr_SetString\(PyExc_ValueError, \"negative size\"\);",
              "b_memmove")
    em = PropEmitter({"n": "n"})
    out.prop("memmoveNegative", ["n"], g["neg"], em.cond(parse(g["neg"])))
    if not re.search(r"memmove\(dest_view\.buf, src_view\.buf, n\);", f):
        raise CExprError("b_memmove no longer calls memmove(dest, src, n)")
    return out.text(), out.summary


def translator():
    import common
    text, summary = generate(common.REPO)
    return common.write_generated("BufferExprs", text, summary)


if __name__ == "__main__":
    print(generate(sys.argv[1] if len(sys.argv) > 1 else "/repo")[0])
