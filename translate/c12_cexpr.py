"""A small recursive-descent parser for the straight-line C integer expressions that
the C12/C33 extraction points consist of, and an emitter of Lean terms over
`CffiVerif.CheckIntOps` (C integers embedded in `Int`, truth values 0/1).

Grammar (exactly what occurs at the extraction points; anything else raises):
  cond   := lor ('?' cond ':' cond)?
  lor    := land ('||' land)*
  land   := eq ('&&' eq)*
  eq     := rel (('=='|'!=') rel)*
  rel    := bor (('<='|'>='|'<'|'>') bor)*
  bor    := band ('|' band)*
  band   := unary ('&' unary)*
  unary  := '!' unary | '-' unary | '*' unary | '(' TYPE ')' unary | 'sizeof' '(' TYPE ')' | postfix
  postfix:= primary ('(' args ')')?
  primary:= NUMBER[suffix] | IDENT | '(' cond (',' cond)* ')'
TYPE is one of the integer type spellings below or an identifier listed in `typevars`.
"""
import re

TYPES = {
    "unsigned long long": "cULL", "long long": "cLL",
    "unsigned long": "cULong", "long": "cLong",
}

TOK = re.compile(r"\s*(?:(0[xX][0-9a-fA-F]+|\d+)([uUlL]*)|([A-Za-z_]\w*)|(\|\||&&|==|!=|<=|>=|[-!*()?:,<>|#&])|(\"[^\"]*\"))")


class ParseError(Exception):
    pass


def tokenize(s):
    pos, out = 0, []
    s = s.strip()
    while pos < len(s):
        m = TOK.match(s, pos)
        if not m:
            raise ParseError("cannot tokenize %r at %d" % (s, pos))
        if m.group(1) is not None:
            out.append(("num", int(m.group(1), 0), m.group(2).upper()))
        elif m.group(3) is not None:
            out.append(("id", m.group(3)))
        elif m.group(4) is not None:
            out.append(("op", m.group(4)))
        else:
            out.append(("str", m.group(5)))
        pos = m.end()
    return out


class Parser:
    def __init__(self, text, typevars=()):
        self.toks = tokenize(text)
        self.i = 0
        self.typevars = set(typevars)

    def peek(self, k=0):
        return self.toks[self.i + k] if self.i + k < len(self.toks) else ("eof",)

    def take(self):
        t = self.peek()
        self.i += 1
        return t

    def is_op(self, op, k=0):
        return self.peek(k) == ("op", op)

    def expect(self, op):
        if not self.is_op(op):
            raise ParseError("expected %r, found %r" % (op, self.peek()))
        self.i += 1

    def try_type(self):
        """At '(' : if a type name follows up to ')', consume '(' TYPE ')' and return it."""
        j = self.i + 1
        words = []
        while j < len(self.toks) and self.toks[j][0] == "id":
            words.append(self.toks[j][1])
            j += 1
        if not words or j >= len(self.toks) or self.toks[j] != ("op", ")"):
            return None
        name = " ".join(words)
        if name in TYPES or (len(words) == 1 and words[0] in self.typevars):
            self.i = j + 1
            return name
        return None

    def parse(self):
        e = self.cond()
        if self.peek()[0] != "eof":
            raise ParseError("trailing tokens %r" % (self.toks[self.i:],))
        return e

    def cond(self):
        c = self.lor()
        if self.is_op("?"):
            self.take()
            a = self.cond()
            self.expect(":")
            b = self.cond()
            return ("ite", c, a, b)
        return c

    def _bin(self, sub, ops):
        e = sub()
        while self.peek()[0] == "op" and self.peek()[1] in ops:
            op = self.take()[1]
            e = ("bin", op, e, sub())
        return e

    def lor(self):
        return self._bin(self.land, ("||",))

    def land(self):
        return self._bin(self.eq, ("&&",))

    def eq(self):
        return self._bin(self.rel, ("==", "!="))

    def rel(self):
        return self._bin(self.bor, ("<=", ">=", "<", ">"))

    def bor(self):
        return self._bin(self.band, ("|",))

    def band(self):
        return self._bin(self.unary, ("&",))

    def unary(self):
        if self.is_op("!"):
            self.take()
            return ("not", self.unary())
        if self.is_op("-"):
            self.take()
            return ("neg", self.unary())
        if self.is_op("*"):
            self.take()
            return ("deref", self.unary())
        if self.peek() == ("id", "sizeof") and self.is_op("(", 1):
            self.take()
            t = self.try_type()
            if t is None:
                raise ParseError("sizeof of a non-type")
            return ("sizeof", t)
        if self.is_op("("):
            t = self.try_type()
            if t is not None:
                return ("cast", t, self.unary())
        return self.postfix()

    def postfix(self):
        e = self.primary()
        if self.is_op("(") and e[0] == "var":
            self.take()
            args = []
            if not self.is_op(")"):
                args.append(self.cond())
                while self.is_op(","):
                    self.take()
                    args.append(self.cond())
            self.expect(")")
            return ("call", e[1], args)
        return e

    def primary(self):
        t = self.take()
        if t[0] == "num":
            return ("num", t[1], t[2])
        if t[0] == "id":
            return ("var", t[1])
        if t == ("op", "#"):          # stringification `#type` inside Py_FatalError(...)
            self.take()
            return ("str",)
        if t[0] == "str":
            if self.is_op("#"):
                self.take()
                self.take()
            return ("str",)
        if t == ("op", "("):
            e = self.cond()
            if self.is_op(","):
                items = [e]
                while self.is_op(","):
                    self.take()
                    items.append(self.cond())
                e = ("comma", items)
            self.expect(")")
            return e
        raise ParseError("unexpected token %r" % (t,))


def parse(text, typevars=()):
    return Parser(text, typevars).parse()


BINOPS = {"||": "cOrL", "&&": "cAnd", "==": "cEq", "!=": "cNe", "<=": "cLe", ">=": "cGe",
          "<": "cLt", ">": "cGt", "|": "cOr"}


def lean_value(e, env):
    """Lean `Int` term for an expression tree.  `env` maps C identifiers to Lean terms;
    `env["__call__"]` maps function names to a unary Lean function (or None = identity);
    `env["__type__"]` maps type variables to a pair (lean term for `(T)-1 > 0`, lean term for sizeof)."""
    k = e[0]
    if k == "num":
        return "(%d : Int)" % e[1]
    if k == "var":
        if e[1] not in env:
            raise ParseError("free identifier %r" % e[1])
        return env[e[1]]
    if k == "deref":
        return lean_value(e[1], env)
    if k == "not":
        return "(cNot %s)" % lean_value(e[1], env)
    if k == "neg":
        return "(- %s)" % lean_value(e[1], env)
    if k == "bin":
        return "(%s %s %s)" % (BINOPS[e[1]], lean_value(e[2], env), lean_value(e[3], env))
    if k == "ite":
        return "(if %s ≠ 0 then %s else %s)" % (lean_value(e[1], env), lean_value(e[2], env), lean_value(e[3], env))
    if k == "cast":
        t = e[1]
        if t in TYPES:
            return "(%s %s)" % (TYPES[t], lean_value(e[2], env))
        return "(%s %s)" % (env["__type__"][t]["cast"], lean_value(e[2], env))
    if k == "sizeof":
        t = e[1]
        if t in TYPES:
            return "(8 : Int)"            # LP64: long, long long and their unsigned versions
        return env["__type__"][t]["sizeof"]
    if k == "call":
        fn = env.get("__call__", {}).get(e[1], KeyError)
        if fn is KeyError:
            raise ParseError("unknown function %r" % e[1])
        args = [lean_value(a, env) for a in e[2]]
        if fn is None:
            if len(args) != 1:
                raise ParseError("call arity")
            return args[0]
        return "(%s %s)" % (fn, " ".join(args))
    raise ParseError("cannot translate node %r" % (k,))


def lean_nat(e, env):
    """Lean `Nat` term for a flag expression (literals, identifiers, `&`, `|`, `?:`); conditions are
    "non-zero" tests.  Used for the `sflags` assembly of do_realize_lazy_struct."""
    k = e[0]
    if k == "num":
        return "(%d : Nat)" % e[1]
    if k == "var":
        if e[1] not in env:
            raise ParseError("free identifier %r" % e[1])
        return env[e[1]]
    if k == "bin" and e[1] in ("&", "|"):
        return "(%s %s %s)" % (lean_nat(e[2], env), "&&&" if e[1] == "&" else "|||", lean_nat(e[3], env))
    if k == "ite":
        return "(if %s ≠ 0 then %s else %s)" % (lean_nat(e[1], env), lean_nat(e[2], env), lean_nat(e[3], env))
    raise ParseError("cannot translate node %r as a flag expression" % (k,))


def normalise_c(text):
    """Whitespace/continuation-insensitive form of a macro body."""
    text = text.replace("\\\n", " ")
    text = re.sub(r"/\*.*?\*/", " ", text, flags=re.S)
    return " ".join(text.split())


def lean_string(s):
    return '"' + s.replace("\\", "\\\\").replace('"', '\\"') + '"'


def extract_define(src, name):
    """Body of `#define name(params) ...` with line continuations; returns (params, body)."""
    m = re.search(r"^#define\s+%s\(([^)]*)\)((?:[^\n]*\\\n)*[^\n]*)\n" % re.escape(name), src, re.M)
    if not m:
        raise ParseError("#define %s(...) not found" % name)
    params = [p.strip() for p in m.group(1).split(",")]
    return params, normalise_c(m.group(2))
