"""Translator for C11 (and every user of Model/Opcode): re-extracts, on every run,

  * the OP_* / PRIM_* / F_* numbers of /repo/src/cffi/cffi_opcode.py (the emitter's view),
  * the _CFFI_OP_* / _CFFI_PRIM_* / _CFFI_F_* numbers of /repo/src/cffi/parse_c_type.h (the file
    the backend includes: the reader's view),
  * the shift/mask constants of `format_four_bytes`, `CffiOp.as_python_bytes`, `cdl_4bytes`,
    `_CFFI_OP`, `_CFFI_GETOP`, `_CFFI_GETARG`, the 2**31 bound of raw numbers,
  * the size/sign -> primitive map of `EnumExpr.as_python_expr`,

into lean/CffiVerif/Generated/Opcodes.lean.  Every extraction point must be found and have
the expected shape; otherwise the translator raises (the check then reports the proof stage
as broken -- it never falls back to an older table).
"""
import os
import re

import common


class ExtractionError(Exception):
    pass


def _need(m, what):
    if not m:
        raise ExtractionError("extraction point not found: " + what)
    return m


def _read(rel):
    p = os.path.join(common.REPO, rel)
    with open(p) as f:
        return f.read()


def extract():
    py = _read("src/cffi/cffi_opcode.py")
    hdr = _read("src/cffi/parse_c_type.h")
    cdl = _read("src/c/cdlopen.c")
    rec = _read("src/cffi/recompiler.py")
    res = {}

    # ---- numbers, emitter side (module-level assignments, source order)
    res["py_ops"] = [(m.group(1), int(m.group(2)))
                     for m in re.finditer(r"^OP_(\w+)\s*=\s*(\d+)\b", py, re.M)]
    res["py_prims"] = [(m.group(1), int(m.group(2)))
                       for m in re.finditer(r"^PRIM_(\w+)\s*=\s*(\d+)\b", py, re.M)]
    res["py_flags"] = [(m.group(1), int(m.group(2), 0))
                       for m in re.finditer(r"^F_(\w+)\s*=\s*(0x[0-9A-Fa-f]+|\d+)\b", py, re.M)]
    res["py_num_prim"] = int(_need(re.search(r"^_NUM_PRIM\s*=\s*(\d+)", py, re.M), "_NUM_PRIM").group(1))
    # ---- numbers, reader side
    res["c_ops"] = [(m.group(1), int(m.group(2)))
                    for m in re.finditer(r"^#define\s+_CFFI_OP_(\w+)\s+(\d+)\b", hdr, re.M)]
    res["c_prims"] = [(m.group(1), int(m.group(2)))
                      for m in re.finditer(r"^#define\s+_CFFI_PRIM_(\w+)\s+(\d+)\b", hdr, re.M)]
    res["c_flags"] = [(m.group(1), int(m.group(2), 0))
                      for m in re.finditer(r"^#define\s+_CFFI_F_(\w+)\s+(0x[0-9A-Fa-f]+|\d+)\b", hdr, re.M)]
    res["c_num_prim"] = int(_need(re.search(r"^#define\s+_CFFI__NUM_PRIM\s+(\d+)", hdr, re.M),
                                  "_CFFI__NUM_PRIM").group(1))
    for k in ("py_ops", "c_ops", "py_prims", "c_prims", "py_flags", "c_flags"):
        if len(res[k]) < 5:
            raise ExtractionError("table %s has only %d entries" % (k, len(res[k])))
        if len(set(n for n, _ in res[k])) != len(res[k]):
            raise ExtractionError("table %s has duplicate names" % k)

    # ---- format_four_bytes: '\\x%02X...' % ((num >> 24) & 0xFF, ...)
    body = _need(re.search(r"def format_four_bytes\(num\):\n((?:[ \t]+.*\n)+)", py), "format_four_bytes").group(1)
    terms = re.findall(r"\(\s*num\s*(?:>>\s*(\d+)\s*)?\)\s*&\s*(0x[0-9A-Fa-f]+|\d+)", body)
    fmt = re.search(r"'((?:\\\\x%02X)+)'", body)
    if len(terms) != 4 or not fmt or fmt.group(1).count("%02X") != 4:
        raise ExtractionError("format_four_bytes no longer has four '(num >> k) & m' terms: %r" % (body,))
    masks = set(int(m, 0) for _, m in terms)
    if len(masks) != 1:
        raise ExtractionError("format_four_bytes uses different masks")
    res["fmt_shifts"] = [int(s or "0") for s, _ in terms]
    res["fmt_mask"] = masks.pop()

    # ---- as_python_bytes: format_four_bytes((self.arg << 8) | self.op); raw numbers limited to 2**31
    m = _need(re.search(r"format_four_bytes\(\(self\.arg\s*<<\s*(\d+)\)\s*\|\s*self\.op\)", py),
              "as_python_bytes: (self.arg << k) | self.op")
    res["py_arg_shift"] = int(m.group(1))
    m = _need(re.search(r"if value >= 2\*\*(\d+):\s*\n\s*raise OverflowError", py), "as_python_bytes: 2**31 limit")
    res["py_raw_limit_log2"] = int(m.group(1))

    # ---- cdl_4bytes
    m = _need(re.search(r"static Py_ssize_t cdl_4bytes\(char \*src\)\s*\{(.*?)\n\}", cdl, re.S), "cdl_4bytes")
    body = re.sub(r"/\*.*?\*/", " ", m.group(1), flags=re.S)
    decl = dict((v, t) for t, v in re.findall(r"(signed|unsigned) char \*(\w+)\s*=", body))
    ret = _need(re.search(r"return\s+(.*?);", body, re.S), "cdl_4bytes return").group(1)
    parts = [p.strip() for p in ret.split("|")]
    cterms = []
    for i, p in enumerate(parts):
        mm = re.fullmatch(r"\(?\s*(\w+)\[(\d+)\]\s*(?:<<\s*(\d+)\s*)?\)?", p)
        if not mm or mm.group(1) not in decl or int(mm.group(2)) != i:
            raise ExtractionError("cdl_4bytes: unexpected term %r" % p)
        cterms.append((decl[mm.group(1)] == "signed", int(mm.group(3) or "0")))
    if len(cterms) != 4:
        raise ExtractionError("cdl_4bytes: expected four terms")
    res["cdl_terms"] = cterms

    # ---- the opcode macros
    m = _need(re.search(r"#define\s+_CFFI_OP\(opcode,\s*arg\)\s+\(_cffi_opcode_t\)\(opcode\s*\|\s*"
                        r"\(\(\(uintptr_t\)\(arg\)\)\s*<<\s*(\d+)\)\)", hdr), "_CFFI_OP")
    res["c_op_shift"] = int(m.group(1))
    _need(re.search(r"#define\s+_CFFI_GETOP\(cffi_opcode\)\s+\(\(unsigned char\)\(uintptr_t\)cffi_opcode\)", hdr),
          "_CFFI_GETOP as (unsigned char)")
    res["c_getop_bits"] = 8
    m = _need(re.search(r"#define\s+_CFFI_GETARG\(cffi_opcode\)\s+\(\(\(intptr_t\)cffi_opcode\)\s*>>\s*(\d+)\)", hdr),
              "_CFFI_GETARG")
    res["c_getarg_shift"] = int(m.group(1))

    # ---- EnumExpr.as_python_expr: (size, signed) -> PRIM_*
    m = _need(re.search(r"prim_index = \{(.*?)\}\[self\.size, self\.signed\]", rec, re.S), "EnumExpr prim_index")
    prims = dict(res["py_prims"])
    emap = []
    for mm in re.finditer(r"\((\d+),\s*(\d+)\):\s*PRIM_(\w+)", m.group(1)):
        if mm.group(3) not in prims:
            raise ExtractionError("EnumExpr prim_index: unknown PRIM_" + mm.group(3))
        emap.append((int(mm.group(1)), int(mm.group(2)), prims[mm.group(3)]))
    if len(emap) != 8:
        raise ExtractionError("EnumExpr prim_index: expected 8 entries, got %d" % len(emap))
    res["enum_prims"] = emap
    return res


USED_OPS = ["PRIMITIVE", "POINTER", "ARRAY", "OPEN_ARRAY", "STRUCT_UNION", "ENUM", "FUNCTION", "FUNCTION_END",
            "NOOP", "BITFIELD", "TYPENAME", "CONSTANT_INT", "GLOBAL_VAR", "DLOPEN_FUNC", "DLOPEN_CONST"]
USED_FLAGS = ["UNION", "CHECK_FIELDS", "PACKED", "EXTERNAL", "OPAQUE"]


def _tbl(name, doc, rows):
    body = ",\n   ".join('("%s", %d)' % r for r in rows)
    return "/-- %s -/\ndef %s : List (String × Nat) :=\n  [%s]\n\n" % (doc, name, body)


def render(res):
    out = ["namespace CffiVerif.Generated.Opcodes\n\n"]
    out.append(_tbl("pyOps", "`OP_*` of cffi_opcode.py (what the emitter writes)", res["py_ops"]))
    out.append(_tbl("cOps", "`_CFFI_OP_*` of parse_c_type.h (what the backend reads)", res["c_ops"]))
    out.append(_tbl("pyPrims", "`PRIM_*` of cffi_opcode.py", res["py_prims"]))
    out.append(_tbl("cPrims", "`_CFFI_PRIM_*` of parse_c_type.h", res["c_prims"]))
    out.append(_tbl("pyFlags", "`F_*` of cffi_opcode.py", res["py_flags"]))
    out.append(_tbl("cFlags", "`_CFFI_F_*` of parse_c_type.h", res["c_flags"]))
    out.append("def pyNumPrim : Nat := %d\ndef cNumPrim : Nat := %d\n\n" % (res["py_num_prim"], res["c_num_prim"]))
    py, c = dict(res["py_ops"]), dict(res["c_ops"])
    pf, cf = dict(res["py_flags"]), dict(res["c_flags"])
    out.append("-- the individual numbers the model uses (emitter side `Py.`, reader side `C.`)\n")
    for n in USED_OPS:
        if n not in py or n not in c:
            raise ExtractionError("opcode %s missing on one side" % n)
        out.append("def Py.OP_%s : Nat := %d\ndef C.OP_%s : Nat := %d\n" % (n, py[n], n, c[n]))
    for n in USED_FLAGS:
        if n not in pf or n not in cf:
            raise ExtractionError("flag %s missing on one side" % n)
        out.append("def Py.F_%s : Nat := %d\ndef C.F_%s : Nat := %d\n" % (n, pf[n], n, cf[n]))
    pp = dict(res["py_prims"])
    if "VOID" not in pp:
        raise ExtractionError("PRIM_VOID missing")
    out.append("def Py.PRIM_VOID : Nat := %d\n" % pp["VOID"])
    out.append("\n/-- `format_four_bytes`: the shifts of `(num >> k) & mask`, in output order -/\n")
    out.append("def fmtShifts : List Nat := [%s]\n" % ", ".join(map(str, res["fmt_shifts"])))
    out.append("def fmtMask : Nat := %d\n" % res["fmt_mask"])
    out.append("/-- `as_python_bytes`: `(self.arg << pyArgShift) | self.op`; raw numbers must be `< 2 ^ pyRawLimitLog2` -/\n")
    out.append("def pyArgShift : Nat := %d\ndef pyRawLimitLog2 : Nat := %d\n" % (res["py_arg_shift"], res["py_raw_limit_log2"]))
    out.append("/-- `cdl_4bytes`: per source byte (signed char?, left shift) -/\n")
    out.append("def cdlTerms : List (Bool × Nat) := [%s]\n" % ", ".join(
        "(%s, %d)" % ("true" if s else "false", k) for s, k in res["cdl_terms"]))
    out.append("/-- `_CFFI_OP`, `_CFFI_GETOP` (cast to unsigned char), `_CFFI_GETARG` -/\n")
    out.append("def cOpShift : Nat := %d\ndef cGetopBits : Nat := %d\ndef cGetargShift : Nat := %d\n"
               % (res["c_op_shift"], res["c_getop_bits"], res["c_getarg_shift"]))
    out.append("/-- `EnumExpr.as_python_expr`: (size, signed) ↦ primitive index -/\n")
    out.append("def enumPrims : List (Nat × Nat × Nat) := [%s]\n" % ", ".join("(%d, %d, %d)" % e for e in res["enum_prims"]))
    out.append("\nend CffiVerif.Generated.Opcodes\n")
    return "".join(out)


def translate():
    res = extract()
    summary = ("%d OP_*/%d _CFFI_OP_*, %d/%d PRIM, %d/%d flags, format_four_bytes shifts %s mask %d, "
               "cdl_4bytes terms %s, arg shifts py=%d c=%d/%d, enum prim map %d entries"
               % (len(res["py_ops"]), len(res["c_ops"]), len(res["py_prims"]), len(res["c_prims"]),
                  len(res["py_flags"]), len(res["c_flags"]), res["fmt_shifts"], res["fmt_mask"],
                  res["cdl_terms"], res["py_arg_shift"], res["c_op_shift"], res["c_getarg_shift"],
                  len(res["enum_prims"])))
    return common.write_generated("Opcodes", render(res), summary)


if __name__ == "__main__":
    print(render(extract()))
