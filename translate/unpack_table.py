"""Translator for C18: regenerates lean/CffiVerif/Generated/UnpackTable.lean from
`b_unpack` in src/c/_cffi_backend.c:

  * the fast-path selection
        if (ctitem->ct_flags & CT_PRIMITIVE_SIGNED) { if (itemsize == sizeof(long)) casenum = 3; else if ... }
        else if (... CT_PRIMITIVE_UNSIGNED) { if (ctitem->ct_flags & CT_IS_BOOL) casenum = 11; else if (itemsize == sizeof(unsigned long)) ... }
        else if (... CT_PRIMITIVE_FLOAT) { ... }
        else if (ctitem->ct_flags & (CT_POINTER | CT_FUNCTIONPTR)) casenum = 10;
    as ordered lists (C type, case number), in source order (first match wins);
  * the readers of the `switch (casenum)`:  case k: x = <conversion>(*(<C type> *)src);
    as (case number, conversion, C type).

Every extraction point must be found and have the expected shape; otherwise an
exception is raised (the proof stage then counts as broken; an old table is never reused).
"""
import os
import re

import common


class ExtractError(Exception):
    pass


CTYPES = {
    "signed char": "schar", "short": "short", "int": "int", "long": "long",
    "unsigned char": "uchar", "unsigned short": "ushort", "unsigned int": "uint", "unsigned long": "ulong",
    "float": "float", "double": "double", "char *": "charptr",
}


def cty(name):
    name = " ".join(name.split())
    if name not in CTYPES:
        raise ExtractError("unexpected C type %r in b_unpack" % name)
    return "." + CTYPES[name]


def function_body(src):
    m = re.search(r"^static PyObject \*b_unpack\(PyObject \*self, PyObject \*args, PyObject \*kwds\)\n\{", src, re.M)
    if not m:
        raise ExtractError("b_unpack not found")
    end = src.find("\n}\n", m.end())
    if end < 0:
        raise ExtractError("end of b_unpack not found")
    return src[m.end():end]


def block_after(body, header_re, what):
    m = re.search(header_re, body)
    if not m:
        raise ExtractError("selection branch not found: " + what)
    i = body.index("{", m.end() - 1) if body[m.end() - 1] != "{" else m.end() - 1
    depth, j = 0, i
    while j < len(body):
        if body[j] == "{":
            depth += 1
        elif body[j] == "}":
            depth -= 1
            if depth == 0:
                return body[i + 1:j]
        j += 1
    raise ExtractError("unbalanced braces in " + what)


def strip_comments(s):
    return re.sub(r"/\*.*?\*/", " ", s, flags=re.S)


SEL = re.compile(r"(?:else\s+)?if\s*\(\s*itemsize\s*==\s*sizeof\(([^)]+)\)\s*\)\s*casenum\s*=\s*(\d+)\s*;")


def selection(block, what, allow_bool=False):
    block = strip_comments(block)
    boolcase = None
    rest = block
    if allow_bool:
        m = re.match(r"\s*if\s*\(\s*ctitem->ct_flags\s*&\s*CT_IS_BOOL\s*\)\s*casenum\s*=\s*(\d+)\s*;", rest)
        if not m:
            raise ExtractError("the CT_IS_BOOL test is not the first test of the unsigned branch")
        boolcase = int(m.group(1))
        rest = rest[m.end():]
    out = []
    pos = 0
    while True:
        m = SEL.match(rest, pos) or re.compile(r"\s*" + SEL.pattern).match(rest, pos)
        if not m:
            break
        out.append((cty(m.group(1)), int(m.group(2))))
        pos = m.end()
    if rest[pos:].strip():
        raise ExtractError("unparsed text in the %s selection: %r" % (what, rest[pos:].strip()[:80]))
    if not out:
        raise ExtractError("empty %s selection" % what)
    return out, boolcase


READER = [
    (re.compile(r"PyLong_FromLong\(\s*(?:\(long\)\s*)?\*\(([^()]+?)\s*\*\)\s*src\s*\)$"), ".fromLong"),
    (re.compile(r"PyLong_FromUnsignedLong\(\s*\*\(([^()]+?)\s*\*\)\s*src\s*\)$"), ".fromUnsignedLong"),
    (re.compile(r"PyFloat_FromDouble\(\s*\*\(([^()]+?)\s*\*\)\s*src\s*\)$"), ".fromDouble"),
]
BOOL_SWITCH = re.compile(
    r"switch\s*\(\s*\*\(unsigned char \*\)src\s*\)\s*\{\s*"
    r"case 0:\s*x = Py_False;\s*Py_INCREF\(x\);\s*break;\s*"
    r"case 1:\s*x = Py_True;\s*Py_INCREF\(x\);\s*break;\s*"
    r"default:\s*x = convert_to_object\(src, ctitem\);\s*\}\s*break;$")


def readers(body):
    m = re.search(r"switch \(casenum\) \{(.*?)\n        \}\n        if \(x == NULL\)", body, re.S)
    if not m:
        raise ExtractError("switch (casenum) not found")
    sw = strip_comments(m.group(1))
    dm = re.search(r"default:\s*x = convert_to_object\(src, ctitem\);\s*break;", sw)
    if not dm:
        raise ExtractError("the default: of switch (casenum) is not the generic convert_to_object")
    sw = sw[:dm.start()] + sw[dm.end():]
    parts = re.split(r"\n\s{8}case (\d+):", "\n" + sw.strip("\n"))
    if parts[0].strip():
        raise ExtractError("unparsed text before the first case: %r" % parts[0].strip()[:80])
    out = []
    for k, text in zip(parts[1::2], parts[2::2]):
        text = " ".join(text.split())
        k = int(k)
        mm = re.match(r"x = (.*); break;$", text)
        if mm:
            expr = mm.group(1).strip()
            for rx, conv in READER:
                r = rx.match(expr)
                if r:
                    out.append((k, conv, cty(r.group(1))))
                    break
            else:
                r = re.match(r"new_simple_cdata\(\s*\*\(char \*\*\)src\s*,\s*ctitem\s*\)$", expr)
                if not r:
                    raise ExtractError("case %d: unrecognised reader %r" % (k, expr))
                out.append((k, ".newSimpleCData", ".charptr"))
        elif BOOL_SWITCH.match(text):
            out.append((k, ".boolSwitch", ".uchar"))
        else:
            raise ExtractError("case %d: unrecognised reader %r" % (k, text[:120]))
    if not out:
        raise ExtractError("no reader cases found")
    return out


def extract(src):
    body = function_body(src)
    start = body.find("casenum = -1;")
    if start < 0:
        raise ExtractError("'casenum = -1;' not found")
    sel_txt = body[start:]
    if not re.search(r"if \(\(ctitem->ct_flags & CT_PRIMITIVE_ANY\) &&\s*ALIGNMENT_CHECK\(ctitem->ct_length\)\)", sel_txt):
        raise ExtractError("the CT_PRIMITIVE_ANY && ALIGNMENT_CHECK guard changed")
    signed, _ = selection(block_after(sel_txt, r"if \(ctitem->ct_flags & CT_PRIMITIVE_SIGNED\) \{", "signed"), "signed")
    unsigned, boolcase = selection(block_after(sel_txt, r"else if \(ctitem->ct_flags & CT_PRIMITIVE_UNSIGNED\) \{", "unsigned"),
                                   "unsigned", allow_bool=True)
    flt, _ = selection(block_after(sel_txt, r"else if \(ctitem->ct_flags & CT_PRIMITIVE_FLOAT\) \{", "float"), "float")
    m = re.search(r"else if \(ctitem->ct_flags & \(CT_POINTER \| CT_FUNCTIONPTR\)\) \{\s*casenum = (\d+);", sel_txt)
    if not m:
        raise ExtractError("pointer selection not found")
    ptrcase = int(m.group(1))
    return {"signed": signed, "unsigned": unsigned, "bool": boolcase, "float": flt, "pointer": ptrcase,
            "readers": readers(body)}


def lean_text(t):
    def sel(name, rows):
        return "def %s : List (CTy × Nat) := [%s]\n" % (name, ", ".join("(%s, %d)" % r for r in rows))
    out = ["import CffiVerif.Model.UnpackTypes\n",
           "/-! The fast-path table of `b_unpack` (src/c/_cffi_backend.c), in source order. -/\n",
           "namespace CffiVerif.Generated.UnpackTable\nopen CffiVerif.UnpackTypes\n\n",
           sel("selSigned", t["signed"]), sel("selUnsigned", t["unsigned"]), sel("selFloat", t["float"]),
           "def selBool : Nat := %d\n" % t["bool"], "def selPointer : Nat := %d\n\n" % t["pointer"],
           "def readers : List (Nat × Conv × CTy) := [\n  %s]\n\n" % ",\n  ".join("(%d, %s, %s)" % r for r in t["readers"]),
           "end CffiVerif.Generated.UnpackTable\n"]
    return "".join(out)


def translator():
    src = open(os.path.join(common.REPO, "src/c/_cffi_backend.c")).read()
    t = extract(src)
    summary = "b_unpack: %d signed + %d unsigned + %d float selections, bool -> %d, pointer -> %d, %d reader cases" % (
        len(t["signed"]), len(t["unsigned"]), len(t["float"]), t["bool"], t["pointer"], len(t["readers"]))
    return common.write_generated("UnpackTable", lean_text(t), summary)


if __name__ == "__main__":
    print(lean_text(extract(open(os.path.join(common.REPO, "src/c/_cffi_backend.c")).read())))
