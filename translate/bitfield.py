"""Translator for C02: re-extracts the mask / range / combine expressions of
`convert_to_object_bitfield` and `convert_from_object_bitfield`
(/repo/src/c/_cffi_backend.c) into lean/CffiVerif/Generated/BitfieldExprs.lean.

The control structure of the two functions (signed/unsigned branch, the
full-width early return, the overflow test, the order of the assignments) is
hand-modelled in Model/Bitfield.lean; every arithmetic expression in them is
regenerated here, so a change to a mask, a shift, a bound or the guard changes
the term the kernel checks the C02 theorems against.
"""
import os
import re
import sys

sys.path.insert(0, os.path.dirname(os.path.abspath(__file__)))
import cexpr
from cexpr import CExprError, Emitter, parse

ENV = {
    "cf->cf_bitsize": ("bitsize", "count"), "cf->cf_bitshift": ("bitshift", "count"),
    "value": ("value", None), "valuemask": ("valuemask", "u64"), "shiftforsign": ("shiftforsign", "u64"),
    "fmin": ("fmin", "s64"), "fmax": ("fmax", "s64"),
    "rawmask": ("rawmask", "u64"), "rawvalue": ("rawvalue", "u64"), "rawfielddata": ("rawfielddata", "u64"),
}


def env(value_kind):
    e = dict(ENV)
    e["value"] = ("value", value_kind)
    return e


def guard_value(body, callee):
    """`if (cf->cf_bitsize == <const>) return <callee>(...)` -> the constant, or None."""
    body = cexpr.strip_c_comments(body)
    m = re.search(r"if\s*\(\s*cf->cf_bitsize\s*==\s*([^{};]+?)\)\s*return\s+%s\s*\(" % callee, body)
    if not m:
        return None
    txt = m.group(1).replace("sizeof(PY_LONG_LONG)", "8").replace("sizeof(long long)", "8")
    txt = re.sub(r"\(\s*int\s*\)", "", txt)
    if not re.fullmatch(r"[\d\s*+()-]+", txt):
        raise CExprError("full-width guard is not a constant: %r" % m.group(1))
    return int(eval(txt, {"__builtins__": {}}))


def generate(repo):
    src = open(os.path.join(repo, "src/c/_cffi_backend.c")).read()
    rd = cexpr.function_body(src, "convert_to_object_bitfield")
    wr = cexpr.function_body(src, "convert_from_object_bitfield")
    counts = []
    defs = []
    found = {}

    def emit(name, params, text, kind, value_kind="u64", cond=False):
        em = Emitter(env(value_kind))
        ast = parse(text)
        if cond:
            term, ty = em.cond(ast), "Bool"
        else:
            term, _ = em.val(ast)
            ty = "BitVec 64"
        counts.extend(em.counts)
        defs.append("/-- `%s` -/\ndef %s %s : %s :=\n  %s\n" % (text.replace("-/", "- /"), name, params, ty, term))
        found[name] = text

    def pick(body, var, n_expected, skip=("read_raw", "PyLong_As")):
        rhs = [r for r in cexpr.assignments(body, var) if not any(s in r for s in skip)]
        if len(rhs) != n_expected:
            raise CExprError("expected %d assignments to %s, found %r" % (n_expected, var, rhs))
        return rhs

    W = "(bitsize bitshift : Nat)"
    # ---- convert_to_object_bitfield
    vm = pick(rd, "valuemask", 2)
    emit("rd_s_valuemask", W, vm[0], "u64")
    emit("rd_u_valuemask", W, vm[1], "u64")
    emit("rd_s_shiftforsign", W, pick(rd, "shiftforsign", 1)[0], "u64")
    vals = pick(rd, "value", 2)
    emit("rd_s_value", "(value valuemask shiftforsign : BitVec 64) " + W, vals[0], "u64")
    emit("rd_u_value", "(value valuemask : BitVec 64) " + W, vals[1], "u64")
    emit("rd_s_result", "(value shiftforsign : BitVec 64)", pick(rd, "result", 1)[0], "u64")
    # ---- convert_from_object_bitfield
    fmin = pick(wr, "fmin", 2)
    fmax = pick(wr, "fmax", 3)
    emit("wr_s_fmin", W, fmin[0], "s64")
    emit("wr_s_fmax", W, fmax[0], "s64")
    emit("wr_special_fmax", "", fmax[1], "s64")
    emit("wr_u_fmin", "", fmin[1], "s64")
    emit("wr_u_fmax", W, fmax[2], "s64")
    body = cexpr.strip_c_comments(wr)
    m = re.search(r"if\s*\(([^{}]*?)\)\s*fmax\s*=", body)
    if not m:
        raise CExprError("special-case condition for fmax not found")
    emit("wr_special_cond", "(fmax : BitVec 64)", re.sub(r"\s+", " ", m.group(1)), "s64", cond=True)
    m = re.search(r"if\s*\(([^{}]*?value[^{}]*?fmin[^{}]*?fmax[^{}]*?)\)\s*\{", body)
    if not m:
        raise CExprError("overflow test not found")
    emit("wr_overflow", "(value fmin fmax : BitVec 64)", re.sub(r"\s+", " ", m.group(1)), "s64",
         value_kind="s64", cond=True)
    emit("wr_rawmask", W, pick(wr, "rawmask", 1)[0], "u64")
    emit("wr_rawvalue", "(value : BitVec 64) " + W, pick(wr, "rawvalue", 1)[0], "u64", value_kind="s64")
    emit("wr_combine", "(rawfielddata rawmask rawvalue : BitVec 64)", pick(wr, "rawfielddata", 1)[0], "u64")
    rguard = guard_value(rd, "convert_to_object")
    wguard = guard_value(wr, "convert_from_object")

    uniq = []
    for c in counts:
        if c not in uniq:
            uniq.append(c)
    out = ["import CffiVerif.Model.CBits", "", "set_option linter.unusedVariables false", "",
           "namespace CffiVerif.Generated.Bitfield", "open CffiVerif", ""]
    out += defs
    out.append("/-- Width for which `convert_to_object_bitfield` returns early through the plain integer reader. -/")
    out.append("def readGuard : Option Nat := %s\n" % ("some %d" % rguard if rguard is not None else "none"))
    out.append("/-- Width for which `convert_from_object_bitfield` returns early through the plain integer store. -/")
    out.append("def writeGuard : Option Nat := %s\n" % ("some %d" % wguard if wguard is not None else "none"))
    out.append("/-- Every shift count that occurs in the two functions (C: undefined outside [0, 64)). -/")
    out.append("def shiftCounts (bitsize bitshift : Nat) : List Int :=\n  [%s]\n" % ", ".join(uniq))
    out.append("end CffiVerif.Generated.Bitfield")
    return "\n".join(out) + "\n", found, {"readGuard": rguard, "writeGuard": wguard, "shift_counts": uniq}


def translator():
    import common
    text, found, extra = generate(common.REPO)
    summary = dict(found)
    summary.update({k: str(v) for k, v in extra.items()})
    return common.write_generated("BitfieldExprs", text, summary)


if __name__ == "__main__":
    t, f, e = generate(sys.argv[1] if len(sys.argv) > 1 else "/repo")
    print(t)
