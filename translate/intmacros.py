"""Translator for C03: regenerates lean/CffiVerif/Generated/IntMacros.lean from

  src/c/_cffi_backend.c
    * the overflow conditions of `_cffi_to_c_SIGNED_FN` / `_cffi_to_c_UNSIGNED_FN`
      (C expression -> `BitVec 64` expression, with C's typing rules for the
      operators that occur: casts, ULL literals, unary - and ~, binary + - <<,
      comparisons, || &&), the conversion each macro starts from, the shape of
      its body, its instantiations (RETURNTYPE, SIZE)
    * `cffi_exports[]` (index -> function)
    * the EPTYPE table of primitive types (name, flags), with sizes and the
      signedness of wchar_t measured by compiling a C program with gcc
  src/cffi/_cffi_include.h
    * the dispatch of `_cffi_to_c_int(o, type)` on sizeof/signedness
    * the `_cffi_to_c_{i,u}N` function-pointer casts over `_cffi_exports[i]`

Every extraction point must be found exactly; otherwise an exception is raised
(the proof stage then counts as broken; an old table is never reused).
"""
import os
import re

import common


class ExtractError(Exception):
    pass


# ------------------------------------------------------------------ C expressions

TOKEN = re.compile(r"\s*(?:(\d+)(ULL|LL|UL|U|L)?\b|([A-Za-z_]\w*)|(<<|>>|<=|>=|==|!=|\|\||&&|[()~!<>+\-*/%&|^]))")

TYPE_WORDS = {"unsigned", "signed", "PY_LONG_LONG", "long", "int", "short", "char", "RETURNTYPE"}


def tokenize(s):
    out, i = [], 0
    s = s.strip()
    while i < len(s):
        m = TOKEN.match(s, i)
        if not m:
            raise ExtractError("cannot tokenize C expression at %r" % s[i:i + 20])
        if m.group(1) is not None:
            out.append(("num", int(m.group(1)), m.group(2) or ""))
        elif m.group(3) is not None:
            out.append(("id", m.group(3)))
        else:
            out.append(("op", m.group(4)))
        i = m.end()
    return out


class Parser:
    """Precedence-climbing parser for the operator subset listed above."""
    BIN = [["||"], ["&&"], ["|"], ["^"], ["&"], ["==", "!="], ["<", ">", "<=", ">="],
           ["<<", ">>"], ["+", "-"], ["*", "/", "%"]]

    def __init__(self, toks, type_words=None):
        self.t, self.i = toks, 0
        self.type_words = TYPE_WORDS if type_words is None else type_words

    def peek(self):
        return self.t[self.i] if self.i < len(self.t) else None

    def take(self):
        tok = self.peek()
        self.i += 1
        return tok

    def expect(self, op):
        tok = self.take()
        if tok != ("op", op):
            raise ExtractError("expected %r, got %r" % (op, tok))

    def parse(self):
        e = self.binary(0)
        if self.peek() is not None:
            raise ExtractError("trailing tokens in C expression: %r" % (self.t[self.i:],))
        return e

    def binary(self, lvl):
        if lvl == len(self.BIN):
            return self.unary()
        e = self.binary(lvl + 1)
        while self.peek() is not None and self.peek()[0] == "op" and self.peek()[1] in self.BIN[lvl]:
            op = self.take()[1]
            r = self.binary(lvl + 1)
            e = ("bin", op, e, r)
        return e

    def is_cast(self):
        # '(' type-words ')' followed by an operand
        j = self.i
        if self.t[j] != ("op", "("):
            return None
        j += 1
        words = []
        while j < len(self.t) and self.t[j][0] == "id" and self.t[j][1] in self.type_words:
            words.append(self.t[j][1])
            j += 1
        if words and j < len(self.t) and self.t[j] == ("op", ")"):
            return words, j + 1
        return None

    def unary(self):
        tok = self.peek()
        if tok is None:
            raise ExtractError("unexpected end of C expression")
        if tok[0] == "op" and tok[1] in ("-", "~", "!"):
            self.take()
            return ("un", tok[1], self.unary())
        if tok == ("op", "("):
            c = self.is_cast()
            if c:
                words, nxt = c
                self.i = nxt
                return ("cast", " ".join(words), self.unary())
            self.take()
            e = self.binary(0)
            self.expect(")")
            return e
        self.take()
        if tok[0] == "num":
            return ("num", tok[1], tok[2])
        if tok[0] == "id":
            return ("id", tok[1])
        raise ExtractError("unexpected token %r" % (tok,))


CTYPES = {"PY_LONG_LONG": "ll", "long long": "ll", "signed PY_LONG_LONG": "ll",
          "unsigned PY_LONG_LONG": "ull", "unsigned long long": "ull"}
RETTYPES = {"int": (32, True), "unsigned int": (32, False), "unsigned": (32, False),
            "PY_LONG_LONG": (64, True), "long long": (64, True),
            "unsigned PY_LONG_LONG": (64, False), "unsigned long long": (64, False),
            "long": (64, True), "unsigned long": (64, False),
            "short": (16, True), "unsigned short": (16, False),
            "signed char": (8, True), "unsigned char": (8, False)}


class ToLean:
    """C expression over `tmp` (a 64-bit variable) and `SIZE` (macro parameter)
    -> Lean term.  64-bit values are `BitVec 64`; `int` sub-expressions (literals,
    SIZE arithmetic) are `Int` terms and every one of them that is used as a
    shift count is recorded as an obligation `0 <= count < 64`."""

    def __init__(self, tmp_type):
        self.tmp_type = tmp_type
        self.shifts = []

    def to64(self, term, ty):
        return "(BitVec.ofInt 64 %s)" % term if ty == "int" else term

    def go(self, e):
        k = e[0]
        if k == "num":
            _, n, suf = e
            if suf == "ULL":
                return "%d#64" % n, "ull"
            if suf == "LL":
                return "%d#64" % n, "ll"
            if suf == "":
                return "(%d : Int)" % n, "int"
            raise ExtractError("literal suffix %r not handled" % suf)
        if k == "id":
            if e[1] == "SIZE":
                return "(SIZE : Int)", "int"
            if e[1] == "tmp":
                return "tmp", self.tmp_type
            raise ExtractError("unknown identifier %r in macro condition" % e[1])
        if k == "cast":
            ty = CTYPES.get(e[1])
            if ty is None:
                raise ExtractError("cast to %r not handled" % e[1])
            t, sty = self.go(e[2])
            return self.to64(t, sty), ty
        if k == "un":
            t, ty = self.go(e[2])
            if e[1] == "-":
                return "(-%s)" % t, ty
            if e[1] == "~":
                if ty == "int":
                    raise ExtractError("~ on an int expression not handled")
                return "(~~~%s)" % t, ty
            if e[1] == "!":
                if ty != "bool":
                    raise ExtractError("! on a non-boolean not handled")
                return "(!%s)" % t, "bool"
        if k == "bin":
            _, op, l, r = e
            lt, lty = self.go(l)
            rt, rty = self.go(r)
            if op in ("||", "&&"):
                if lty != "bool" or rty != "bool":
                    raise ExtractError("%s on non-boolean operands not handled" % op)
                return "(%s %s %s)" % (lt, op, rt), "bool"
            if op in ("<<", ">>"):
                if rty != "int":
                    raise ExtractError("shift count that is not an int expression")
                self.shifts.append(rt)
                if lty == "int":
                    raise ExtractError("shift of an int expression not handled")
                lop = "<<<" if op == "<<" else ">>>"
                if op == ">>" and lty == "ll":
                    return "(BitVec.sshiftRight %s (Int.toNat %s))" % (lt, rt), lty
                return "(%s %s (Int.toNat %s))" % (lt, lop, rt), lty
            if op in ("+", "-"):
                if lty == "int" and rty == "int":
                    return "(%s %s %s)" % (lt, op, rt), "int"
                ty = "ull" if "ull" in (lty, rty) else "ll"
                return "(%s %s %s)" % (self.to64(lt, lty), op, self.to64(rt, rty)), ty
            if op in ("<", ">", "<=", ">="):
                if lty == "int" and rty == "int":
                    return "(decide (%s %s %s))" % (lt, op, rt), "bool"
                unsigned = "ull" in (lty, rty)
                a, b = self.to64(lt, lty), self.to64(rt, rty)
                if op in (">", ">="):
                    a, b = b, a
                fn = {("<", True): "BitVec.ult", ("<", False): "BitVec.slt",
                      ("<=", True): "BitVec.ule", ("<=", False): "BitVec.sle"}[
                          ({"<": "<", ">": "<", "<=": "<=", ">=": "<="}[op], unsigned)]
                return "(%s %s %s)" % (fn, a, b), "bool"
            raise ExtractError("operator %r not handled" % op)
        raise ExtractError("expression node %r not handled" % (e,))


# ------------------------------------------------------------------ extraction

def _macro_body(src, name):
    m = re.search(r"#define %s\(RETURNTYPE, SIZE\)((?:.*\\\n)*.*\n)" % re.escape(name), src)
    if not m:
        raise ExtractError("macro %s not found" % name)
    return re.sub(r"\\\n", "\n", m.group(1))


def _matching_paren(s, start):
    assert s[start] == "("
    depth = 0
    for j in range(start, len(s)):
        if s[j] == "(":
            depth += 1
        elif s[j] == ")":
            depth -= 1
            if depth == 0:
                return j
    raise ExtractError("unbalanced parentheses")


def extract_macro(src, name, letter):
    body = _macro_body(src, name)
    flat = " ".join(body.split())
    m = re.match(r"static RETURNTYPE _cffi_to_c_%s##SIZE\(PyObject \*obj\) \{ "
                 r"((?:unsigned )?PY_LONG_LONG) tmp = (\w+)\((obj(?:, \d+)?)\); if " % letter, flat)
    if not m:
        raise ExtractError("%s: unexpected head %r" % (name, flat[:120]))
    tmp_ctype, conv, conv_args = m.group(1), m.group(2), m.group(3)
    i = m.end()
    j = _matching_paren(flat, i)
    cond = flat[i + 1:j]
    rest = flat[j + 1:].strip()
    m2 = re.match(r"if \(!PyErr_Occurred\(\)\) return \(RETURNTYPE\)_convert_overflow\(obj, #SIZE \"[^\"]*\"\); "
                  r"return \(RETURNTYPE\)tmp; \}$", rest)
    if not m2:
        raise ExtractError("%s: body after the condition has an unexpected shape: %r" % (name, rest))
    tl = ToLean(CTYPES[tmp_ctype])
    term, ty = tl.go(Parser(tokenize(cond)).parse())
    if ty != "bool":
        raise ExtractError("%s: condition is not a comparison" % name)
    return {"cond_c": cond, "cond_lean": term, "shifts": tl.shifts, "tmp_type": CTYPES[tmp_ctype],
            "conv": conv, "conv_args": conv_args}


def extract_instances(src):
    res = {"SIGNED": [], "UNSIGNED": []}
    for m in re.finditer(r"^_cffi_to_c_(SIGNED|UNSIGNED)_FN\(([^,]+), (\d+)\)\s*$", src, re.M):
        rt = " ".join(m.group(2).split())
        if rt not in RETTYPES:
            raise ExtractError("return type %r of an instantiation not handled" % rt)
        res[m.group(1)].append((int(m.group(3)), rt) + RETTYPES[rt])
    if not res["SIGNED"] or not res["UNSIGNED"]:
        raise ExtractError("no instantiations of _cffi_to_c_*_FN found")
    return res


def extract_exports(src):
    m = re.search(r"static void \*cffi_exports\[\] = \{(.*?)\};", src, re.S)
    if not m:
        raise ExtractError("cffi_exports[] not found")
    names = [x.strip() for x in re.sub(r"/\*.*?\*/", "", m.group(1), flags=re.S).split(",") if x.strip()]
    if len(names) < 23:
        raise ExtractError("cffi_exports[] has an unexpected length %d" % len(names))
    return names


def extract_include(inc):
    m = re.search(r"#define _cffi_to_c_int\(o, type\)((?:.*\\\n)*.*\n)", inc)
    if not m:
        raise ExtractError("_cffi_to_c_int not found")
    flat = " ".join(re.sub(r"\\\n", "\n", m.group(1)).split())
    disp = []
    for mm in re.finditer(r"sizeof\(type\) == (\d+) \? \(\(\(type\)-1\) > 0 \? \(type\)(\w+)\(o\) : \(type\)(\w+)\(o\)\) :", flat):
        disp.append((int(mm.group(1)), mm.group(2), mm.group(3)))
    if len(disp) != flat.count("sizeof(type) ==") or not disp:
        raise ExtractError("_cffi_to_c_int: dispatch has an unexpected shape: %r" % flat)
    if not re.match(r"\(\(type\)\( sizeof", flat) or "Py_FatalError" not in flat:
        raise ExtractError("_cffi_to_c_int: outer cast / fatal branch not found")
    fnptr = {}
    for mm in re.finditer(r"#define (_cffi_to_c_[iu]\d+|_cffi_to_c__Bool)\s*\\\n\s*\(\(([\w ]+?)\s*\(\*\)\(PyObject \*\)\)_cffi_exports\[(\d+)\]\)", inc):
        fnptr[mm.group(1)] = (" ".join(mm.group(2).split()), int(mm.group(3)))
    return disp, fnptr


def extract_eptypes(src):
    m = re.search(r"#define ENUM_PRIMITIVE_TYPES\s*\\\n((?:.*\\\n)*.*\n)", src)
    if not m:
        raise ExtractError("ENUM_PRIMITIVE_TYPES not found")
    body = m.group(1)
    m2 = re.search(r"# define ENUM_PRIMITIVE_TYPES_WCHAR\s*\\\n((?:.*\\\n)*.*\n)", src)
    if not m2:
        raise ExtractError("ENUM_PRIMITIVE_TYPES_WCHAR not found")
    body = body + m2.group(1)
    flat = " ".join(re.sub(r"\\\n", " ", body).split())
    out = []
    for mm in re.finditer(r"EPTYPE(2?)\((\w+), ", flat):
        j = _matching_paren(flat, flat.index("(", mm.start()))
        args = flat[mm.end():j]
        if mm.group(1):
            mname = re.match(r'"([^"]+)", ([\w ]+?), (.*)$', args)
            if not mname:
                raise ExtractError("EPTYPE2 entry not understood: %r" % args)
            name, ctype, flags = mname.group(1), mname.group(2), mname.group(3)
        else:
            mname = re.match(r'([\w ]+?), (.*)$', args)
            if not mname:
                raise ExtractError("EPTYPE entry not understood: %r" % args)
            name, ctype, flags = mname.group(1), mname.group(1), mname.group(2)
        out.append((name, ctype, flags))
    if len(out) < 40:
        raise ExtractError("only %d primitive types found" % len(out))
    return out


def measure(scratch, types):
    """sizeof and `(T)-1 > 0` of each C type, by gcc."""
    names = {"cffi_char16_t": "uint16_t", "cffi_char32_t": "uint32_t", "Py_ssize_t": "ssize_t"}
    lines = ["#include <stdio.h>", "#include <stdint.h>", "#include <stddef.h>", "#include <sys/types.h>",
             "#include <wchar.h>", "int main(void) {"]
    for name, ctype, _ in types:
        c = names.get(ctype, ctype)
        lines.append('  printf("%%d %%d\\n", (int)sizeof(%s), (int)(((%s)-1) > 0));' % (c, c))
    lines.append("  return 0; }")
    cfile = os.path.join(scratch, "c03_sizes.c")
    with open(cfile, "w") as f:
        f.write("\n".join(lines) + "\n")
    exe = common.compile_prog(cfile, os.path.join(scratch, "c03_sizes"))
    out = common.run_prog(exe).split("\n")
    return [tuple(int(x) for x in l.split()) for l in out if l.strip()]


def kind_of(flags, is_unsigned_c):
    fl = set(x.strip() for x in re.split(r"\|", re.sub(r"\(\(\(wchar_t\)-1\) > 0 \? 0 : CT_IS_SIGNED_WCHAR\)", "WCHARSIGN", flags)))
    if fl == {"CT_PRIMITIVE_SIGNED"}:
        return "signed"
    if fl == {"CT_PRIMITIVE_UNSIGNED"}:
        return "unsigned"
    if fl == {"CT_PRIMITIVE_UNSIGNED", "CT_IS_BOOL"}:
        return "bool"
    if fl == {"CT_PRIMITIVE_CHAR"}:
        return "char"
    if fl == {"CT_PRIMITIVE_CHAR", "WCHARSIGN"}:
        return "char" if is_unsigned_c else "swchar"
    if "CT_PRIMITIVE_FLOAT" in fl or "CT_PRIMITIVE_COMPLEX" in fl:
        return None
    raise ExtractError("flags %r of a primitive type not understood" % flags)


def generate(scratch):
    src = open(os.path.join(common.REPO, "src/c/_cffi_backend.c")).read()
    inc = open(os.path.join(common.REPO, "src/cffi/_cffi_include.h")).read()
    sg = extract_macro(src, "_cffi_to_c_SIGNED_FN", "i")
    us = extract_macro(src, "_cffi_to_c_UNSIGNED_FN", "u")
    inst = extract_instances(src)
    exports = extract_exports(src)
    disp, fnptr = extract_include(inc)
    eptypes = [t for t in extract_eptypes(src) if kind_of(t[2], False) is not None]
    sizes = measure(scratch, eptypes)
    if len(sizes) != len(eptypes):
        raise ExtractError("size program printed %d lines for %d types" % (len(sizes), len(eptypes)))

    def conv_term(d):
        if d["conv"] == "_my_PyLong_AsLongLong" and d["conv_args"] == "obj":
            return '("_my_PyLong_AsLongLong", false)'
        m = re.match(r"obj, (\d+)$", d["conv_args"])
        if d["conv"] == "_my_PyLong_AsUnsignedLongLong" and m:
            return '("_my_PyLong_AsUnsignedLongLong", %s)' % ("true" if int(m.group(1)) != 0 else "false")
        raise ExtractError("conversion %s(%s) not handled" % (d["conv"], d["conv_args"]))

    def callee(name):
        """_cffi_to_c_u8 (as named in _cffi_include.h) -> the backend function behind
        _cffi_exports[i] and the return type of the function-pointer cast."""
        if name not in fnptr:
            raise ExtractError("no function-pointer macro for %s" % name)
        rt, idx = fnptr[name]
        if rt not in RETTYPES:
            raise ExtractError("return type %r of %s not handled" % (rt, name))
        if idx >= len(exports):
            raise ExtractError("%s uses _cffi_exports[%d], beyond the table" % (name, idx))
        target = exports[idx]
        m = re.match(r"_cffi_to_c_([iu])(\d+)$", target)
        if not m:
            raise ExtractError("_cffi_exports[%d] is %s, not an integer converter" % (idx, target))
        bits, sgn = RETTYPES[rt]
        return "(%s, %s, %d, %s)" % ("true" if m.group(1) == "i" else "false", m.group(2), bits,
                                     "true" if sgn else "false")

    b = lambda x: "true" if x else "false"
    L = []
    L.append("namespace CffiVerif.Generated.IntMacros\n")
    L.append("/-- `_cffi_to_c_SIGNED_FN`: `%s` with `tmp : %s` -/" % (sg["cond_c"], sg["tmp_type"]))
    L.append("def signedOverflow (SIZE : Nat) (tmp : BitVec 64) : Bool :=\n  %s\n" % sg["cond_lean"])
    L.append("/-- shift counts occurring in it (each must be in [0, 64)) -/")
    L.append("def signedShiftCounts (SIZE : Nat) : List Int := [%s]\n" % ", ".join(sg["shifts"]))
    L.append("/-- the conversion `tmp` is initialised with, and its `strict` argument -/")
    L.append("def signedConv : String × Bool := %s\n" % conv_term(sg))
    L.append("/-- `_cffi_to_c_UNSIGNED_FN`: `%s` with `tmp : %s` -/" % (us["cond_c"], us["tmp_type"]))
    L.append("def unsignedOverflow (SIZE : Nat) (tmp : BitVec 64) : Bool :=\n  %s\n" % us["cond_lean"])
    L.append("def unsignedShiftCounts (SIZE : Nat) : List Int := [%s]\n" % ", ".join(us["shifts"]))
    L.append("def unsignedConv : String × Bool := %s\n" % conv_term(us))
    L.append("/-- instantiations `(SIZE, bits of RETURNTYPE, RETURNTYPE is signed)` -/")
    L.append("def signedFns : List (Nat × Nat × Bool) := [%s]" %
             ", ".join("(%d, %d, %s)" % (s, bits, b(sgn)) for s, _, bits, sgn in inst["SIGNED"]))
    L.append("def unsignedFns : List (Nat × Nat × Bool) := [%s]\n" %
             ", ".join("(%d, %d, %s)" % (s, bits, b(sgn)) for s, _, bits, sgn in inst["UNSIGNED"]))
    L.append("/-- `_cffi_to_c_int(o, type)`: `sizeof(type)` ↦ callee when `(type)-1 > 0`, callee otherwise.")
    L.append("A callee is `(is a SIGNED_FN, SIZE, bits / signedness of the return type in the function-pointer")
    L.append("cast of _cffi_include.h)`, resolved through `_cffi_exports[i]` = `cffi_exports[i]`. -/")
    L.append("def dispatch : List (Nat × (Bool × Nat × Nat × Bool) × (Bool × Nat × Nat × Bool)) := [")
    L.append(",\n".join("  (%d, %s, %s)" % (n, callee(u), callee(s)) for n, u, s in disp))
    L.append("]\n")
    bidx = fnptr.get("_cffi_to_c__Bool")
    if bidx is None or bidx[0] != "_Bool" or exports[bidx[1]] != "_cffi_to_c__Bool":
        raise ExtractError("_cffi_to_c__Bool is not wired to the backend's _cffi_to_c__Bool: %r" % (bidx,))
    L.append("/-- integer / character primitives of the EPTYPE table: `(name, sizeof by gcc, kind from the flags)` -/")
    L.append("def primTypes : List (String × Nat × String) := [")
    rows = []
    for (name, ctype, flags), (size, uns) in zip(eptypes, sizes):
        k = kind_of(flags, uns)
        if k is not None:
            rows.append('  ("%s", %d, "%s")' % (name, size, k))
    L.append(",\n".join(rows))
    L.append("]\n")
    L.append("end CffiVerif.Generated.IntMacros")
    summary = ("signed: %s | unsigned: %s | %d+%d instantiations | dispatch on sizes %s | %d integer/char primitives"
               % (sg["cond_c"], us["cond_c"], len(inst["SIGNED"]), len(inst["UNSIGNED"]),
                  [d[0] for d in disp], len(rows)))
    return "\n".join(L) + "\n", summary


def translator(ctx):
    def run():
        text, summary = generate(ctx.scratch)
        return common.write_generated("IntMacros", text, summary)
    return run
