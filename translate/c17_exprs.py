"""Translator for C17: re-extracts from /repo/src/c/_cffi_backend.c into lean/CffiVerif/Generated/CompareExprs.lean

* the `CT_*` flag values and the definition of `CT_PRIMITIVE_ANY`;
* in `cdata_richcompare`: the two flag tests `v_is_ptr` / `w_is_ptr`, the conditions of the three branches
  (both pointer-like / exactly one / neither), the six comparisons of the pointer-like branch (which operands, and that
  they are declared `char *`, i.e. compared as unsigned addresses), and which of `aa[0]`, `aa[1]` is passed on which
  side to `PyObject_RichCompare` in the primitive branch;
* in `cdata_hash`: the primitive test and the argument of `_Py_HashPointer` / `Py_HashPointer`.

The control structure around the expressions (conversion loop, NotImplementedError for a cdata that converts to a
cdata, `Py_NotImplemented` in the middle branch, the hash of the converted object) is matched textually: a function
that no longer has the modelled shape makes the translator raise.  Model/Compare.lean uses the generated
definitions for every test and every comparison.
"""
import os
import re
import sys

sys.path.insert(0, os.path.dirname(os.path.abspath(__file__)))
import cexpr
from cexpr import CExprError, parse, NatEmitter


class FlagEmitter:
    """C expressions over flag words (`unsigned`/`int` bit sets) and C truth values -> Lean.
    env: C name -> (lean name, "nat" | "bool"); names starting with CT_ are the generated constants."""

    def __init__(self, env):
        self.env = env
        self.consts = set()

    def val(self, e):
        k = e[0]
        if k == "num":
            return "%d" % int(re.sub(r"[uUlL]+$", "", e[1]), 0)
        if k == "id":
            if e[1].startswith("CT_"):
                self.consts.add(e[1])
                return e[1]
            if e[1] in self.env and self.env[e[1]][1] == "nat":
                return self.env[e[1]][0]
            raise CExprError("unknown flag-valued name %s" % e[1])
        if k == "bin" and e[1] in ("&", "|"):
            return "(%s %s %s)" % (self.val(e[2]), {"&": "&&&", "|": "|||"}[e[1]], self.val(e[3]))
        raise CExprError("unsupported flag expression %r" % (e,))

    def truth(self, e):
        k = e[0]
        if k == "un" and e[1] == "!":
            return "(!%s)" % self.truth(e[2])
        if k == "bin" and e[1] in ("&&", "||"):
            return "(%s %s %s)" % (self.truth(e[2]), e[1], self.truth(e[3]))
        if k == "id" and e[1] in self.env and self.env[e[1]][1] == "bool":
            return self.env[e[1]][0]
        if k == "bin" and e[1] in ("==", "!="):
            return "(%s %s %s)" % (self.val(e[2]), e[1], self.val(e[3]))
        return "(%s != 0)" % self.val(e)


def function_body(src, name):
    ms = list(re.finditer(r"(?<![\w>.])%s\s*\([^()]*\)\s*\{" % re.escape(name), src))
    if len(ms) != 1:
        raise CExprError("expected one definition of %s, found %d" % (name, len(ms)))
    i = ms[0].end()
    depth = 1
    while depth:
        c = src[i]
        depth += (c == "{") - (c == "}")
        i += 1
    return src[ms[0].end():i - 1]


def flat_body(src, name):
    return re.sub(r"\s+", " ", cexpr.strip_c_comments(function_body(src, name))).strip()


def shape(flat, pattern, what):
    m = re.search(pattern, flat)
    if not m:
        raise CExprError("%s no longer has the modelled shape" % what)
    return {k: v.strip() for k, v in m.groupdict().items()}


def sub(text, table):
    for a, b in table:
        text = text.replace(a, b)
    return text


def flag_defines(src, names):
    """Values of `#define CT_xxx 0x...` (plain hexadecimal/decimal literals only)."""
    out = {}
    for n in names:
        ms = re.findall(r"^#define\s+%s\s+(0[xX][0-9a-fA-F]+|\d+)\b" % re.escape(n), src, re.M)
        if len(ms) != 1:
            raise CExprError("expected exactly one literal #define of %s, found %d" % (n, len(ms)))
        out[n] = int(ms[0], 0)
    return out


def macro_text(src, name):
    m = re.search(r"^#define\s+%s\s+((?:.*\\\n)*.*)$" % re.escape(name), src, re.M)
    if not m:
        raise CExprError("#define %s not found" % name)
    return re.sub(r"\s+", " ", m.group(1).replace("\\\n", " ")).strip()


BASE_FLAGS = ["CT_PRIMITIVE_SIGNED", "CT_PRIMITIVE_UNSIGNED", "CT_PRIMITIVE_CHAR", "CT_PRIMITIVE_FLOAT", "CT_POINTER",
              "CT_ARRAY", "CT_STRUCT", "CT_UNION", "CT_FUNCTIONPTR", "CT_VOID", "CT_PRIMITIVE_COMPLEX",
              "CT_IS_LONGDOUBLE", "CT_IS_BOOL", "CT_IS_ENUM", "CT_PRIMITIVE_FITS_LONG"]
OPS = ["Py_EQ", "Py_NE", "Py_LT", "Py_LE", "Py_GT", "Py_GE"]


def emit_flags(src, lines, summary):
    vals = flag_defines(src, BASE_FLAGS)
    for n in BASE_FLAGS:
        lines.append("/-- `#define %s %#x` -/\ndef %s : Nat := %d\n" % (n, vals[n], n, vals[n]))
        summary[n] = "%#x" % vals[n]
    anytxt = macro_text(src, "CT_PRIMITIVE_ANY")
    em = FlagEmitter({})
    lines.append("/-- `#define CT_PRIMITIVE_ANY %s` -/\ndef CT_PRIMITIVE_ANY : Nat :=\n  %s\n" % (anytxt, em.val(parse(anytxt))))
    summary["CT_PRIMITIVE_ANY"] = anytxt


def generate(repo):
    src = open(os.path.join(repo, "src/c/_cffi_backend.c")).read()
    ns = "CffiVerif.Generated.CompareExprs"
    lines = ["set_option linter.unusedVariables false", "", "namespace %s" % ns, ""]
    summary = {}
    emit_flags(src, lines, summary)

    # ------------------------------------------------------------ cdata_richcompare
    f = flat_body(src, "cdata_richcompare")
    VF, WF = "((CDataObject *)v)->c_type->ct_flags", "((CDataObject *)w)->c_type->ct_flags"
    g = shape(f,
              r"^int v_is_ptr, w_is_ptr; PyObject \*pyres; assert\(CData_Check\(v\)\); "
              r"v_is_ptr = (?P<vptr>[^;]*); w_is_ptr = (?P<wptr>[^;]*); "
              r"if \((?P<both>[^{}()]*)\) \{ int res; "
              r"char \*v_cdata = \(\(CDataObject \*\)v\)->c_data; char \*w_cdata = \(\(CDataObject \*\)w\)->c_data; "
              r"switch \(op\) \{ (?P<cases>(?:case Py_[A-Z]{2}: res = \([^;]*\); break; ){6})default: res = -1; \} "
              r"pyres = res \? Py_True : Py_False; \} "
              r"else if \((?P<one>[^{}()]*)\) \{ pyres = Py_NotImplemented; \} "
              r"else \{ PyObject \*aa\[2\]; int i; aa\[0\] = v; Py_INCREF\(v\); aa\[1\] = w; Py_INCREF\(w\); pyres = NULL; "
              r"for \(i = 0; i < 2; i\+\+\) \{ v = aa\[i\]; if \(!CData_Check\(v\)\) continue; "
              r"w = convert_to_object\(\(\(CDataObject \*\)v\)->c_data, \(\(CDataObject \*\)v\)->c_type\); "
              r"if \(w == NULL\) goto error; "
              r"if \(CData_Check\(w\)\) \{ Py_DECREF\(w\); PyErr_Format\(PyExc_NotImplementedError, [^;]*\); goto error; \} "
              r"aa\[i\] = w; Py_DECREF\(v\); \} "
              r"pyres = PyObject_RichCompare\(aa\[(?P<l>[01])\], aa\[(?P<r>[01])\], op\); "
              r"error: Py_DECREF\(aa\[1\]\); Py_DECREF\(aa\[0\]\); return pyres; \} "
              r"Py_INCREF\(pyres\); return pyres;$", "cdata_richcompare")
    em = FlagEmitter({"vflags": ("vflags", "nat"), "wflags": ("wflags", "nat"), "w_is_cdata": ("wIsCData", "bool"),
                      "v_is_ptr": ("vIsPtr", "bool"), "w_is_ptr": ("wIsPtr", "bool")})
    vptr = sub(g["vptr"], [(VF, "vflags")])
    wptr = sub(g["wptr"], [(WF, "wflags"), ("CData_Check(w)", "w_is_cdata")])
    lines.append("/-- `v_is_ptr = %s` -/\ndef vIsPtrTest (vflags : Nat) : Bool :=\n  %s\n" % (g["vptr"], em.truth(parse(vptr))))
    lines.append("/-- `w_is_ptr = %s` -/\ndef wIsPtrTest (wIsCData : Bool) (wflags : Nat) : Bool :=\n  %s\n"
                 % (g["wptr"], em.truth(parse(wptr))))
    lines.append("/-- first branch (compare addresses): `if (%s)` -/\ndef bothPtr (vIsPtr wIsPtr : Bool) : Bool :=\n  %s\n"
                 % (g["both"], em.truth(parse(g["both"]))))
    lines.append("/-- second branch (`Py_NotImplemented`): `else if (%s)` -/\ndef onePtr (vIsPtr wIsPtr : Bool) : Bool :=\n  %s\n"
                 % (g["one"], em.truth(parse(g["one"]))))
    summary.update(vIsPtrTest=g["vptr"], wIsPtrTest=g["wptr"], bothPtr=g["both"], onePtr=g["one"])

    cases = re.findall(r"case (Py_[A-Z]{2}): res = \(([^;]*)\); break;", g["cases"])
    if sorted(c for c, _ in cases) != sorted(OPS):
        raise CExprError("cdata_richcompare: the switch does not have exactly the six cases %s" % OPS)
    nem = NatEmitter({"v_cdata": ("v_cdata", "nat"), "w_cdata": ("w_cdata", "nat")})
    for name, expr in cases:
        lines.append("/-- `case %s: res = (%s)` with `char *v_cdata = v->c_data, *w_cdata = w->c_data` "
                     "(unsigned addresses) -/\ndef cmp_%s (v_cdata w_cdata : Nat) : Bool :=\n  %s\n"
                     % (name, expr, name, nem.cond(parse(expr))))
        summary["cmp_" + name] = expr
    lines.append("/-- `PyObject_RichCompare(aa[%s], aa[%s], op)`: index of the left / right operand -/\n"
                 "def delegateLeft : Nat := %s\ndef delegateRight : Nat := %s\n" % (g["l"], g["r"], g["l"], g["r"]))
    summary["delegate"] = "PyObject_RichCompare(aa[%s], aa[%s], op)" % (g["l"], g["r"])

    # ------------------------------------------------------------ cdata_hash
    f = flat_body(src, "cdata_hash")
    CD = r"\(\(CDataObject \*\)v\)"
    g = shape(f,
              r"^if \((?P<prim>[^{}]*?)\) \{ PyObject \*vv = convert_to_object\(" + CD + r"->c_data, " + CD + r"->c_type\); "
              r"if \(vv == NULL\) return -1; "
              r"if \(!CData_Check\(vv\)\) \{ Py_hash_t hash = PyObject_Hash\(vv\); Py_DECREF\(vv\); return hash; \} "
              r"Py_DECREF\(vv\); \} "
              r"#if PY_VERSION_HEX < 0x030D0000 return _Py_HashPointer\((?P<a1>[^;]*)\); "
              r"#else return Py_HashPointer\((?P<a2>[^;]*)\); #endif$", "cdata_hash")
    if g["a1"] != g["a2"]:
        raise CExprError("cdata_hash hashes different pointers under the two CPython versions")
    em = FlagEmitter({"vflags": ("vflags", "nat")})
    lines.append("/-- `if (%s)`: hash the converted Python object -/\ndef hashPrimTest (vflags : Nat) : Bool :=\n  %s\n"
                 % (g["prim"], em.truth(parse(sub(g["prim"], [(VF, "vflags")])))))
    nem = NatEmitter({"c_data": ("c_data", "nat"), "self": ("self", "nat")})
    arg = sub(g["a1"], [("((CDataObject *)v)->c_data", "c_data"), ("(void *)", "")])
    arg = re.sub(r"(?<![\w>])v(?![\w-])", "self", arg)
    lines.append("/-- `_Py_HashPointer(%s)`: the pointer that is hashed (`self` = address of the cdata object) -/\n"
                 "def hashedPointer (c_data self : Nat) : Nat :=\n  %s\n" % (g["a1"], nem.term(parse(arg))[0]))
    summary.update(hashPrimTest=g["prim"], hashedPointer=g["a1"])

    lines.append("end %s" % ns)
    return "\n".join(lines) + "\n", summary


def translator():
    import common
    text, summary = generate(common.REPO)
    return common.write_generated("CompareExprs", text, summary)


if __name__ == "__main__":
    print(generate(sys.argv[1] if len(sys.argv) > 1 else "/repo")[0])
