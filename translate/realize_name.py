"""Translator for C25 (name mapping part): re-extracts `_realize_name` / `_unrealize_name`
(/repo/src/c/realize_c_type.c) -- the test that recognises a typedef-named anonymous aggregate ("$xyz"),
the keyword literals, compare lengths and skip offsets of the reverse mapping -- into
lean/CffiVerif/Generated/RealizeNameExprs.lean.  The if / else-if chain *structure* is checked textually and
hand-modelled in Model/RealizeName.lean; every literal and expression in it is regenerated here."""
import os
import re
import sys

sys.path.insert(0, os.path.dirname(os.path.abspath(__file__)))
import cexpr
from cexpr import CExprError, NatEmitter, parse


def c_unescape(s):
    if "\\" in s:
        raise CExprError("escape sequence in keyword literal %r" % s)
    return [ord(c) for c in s]


def functions_text(repo):
    """Full text of the two static functions (also compiled by the correspondence check)."""
    src = open(os.path.join(repo, "src/c/realize_c_type.c")).read()
    out = []
    for name in ("_realize_name", "_unrealize_name"):
        m = re.search(r"^static void %s\([^)]*\)\s*\{" % name, src, re.M)
        if not m:
            raise CExprError("function %s not found" % name)
        body = cexpr.function_body(src, "static void " + name)
        out.append(src[m.start():m.end()] + body + "}\n")
    return out


def generate(repo):
    src = open(os.path.join(repo, "src/c/realize_c_type.c")).read()
    flat_r = re.sub(r"\s+", " ", cexpr.strip_c_comments(cexpr.function_body(src, "static void _realize_name"))).strip()
    m = re.fullmatch(r"if \((?P<cond>.*?)\) \{ strcpy\(target, &srcname\[(?P<skip>\d+)\]\); \} "
                     r"else \{ strcpy\(target, prefix\); strcat\(target, srcname\); \}", flat_r)
    if not m:
        raise CExprError("_realize_name no longer has the modelled shape: %r" % flat_r[:400])
    cond_txt, skip = m.group("cond"), int(m.group("skip"))
    sub = re.sub(r"srcname\[(\d)\]", r"c\1", cond_txt)
    sub = re.sub(r"'(.)'", lambda k: str(ord(k.group(1))), sub)
    if "srcname" in sub or "'" in sub:
        raise CExprError("unsupported operand in the typedef-named test: %r" % cond_txt)
    em = NatEmitter({"c0": ("c0", "nat"), "c1": ("c1", "nat")})
    cond = em.cond(parse(sub))

    flat_u = re.sub(r"\s+", " ", cexpr.strip_c_comments(cexpr.function_body(src, "static void _unrealize_name"))).strip()
    branch = r'(?:else )?if \(strncmp\(srcname, "([^"]*)", (\d+)\) == 0\) \{ strcpy\(target, &srcname\[(\d+)\]\); \} '
    last = r'else \{ strcpy\(target, "([^"]*)"\); strcat\(target, srcname\); \}'
    if not re.fullmatch("(?:%s)+%s" % (branch, last), flat_u):
        raise CExprError("_unrealize_name no longer has the modelled shape: %r" % flat_u[:400])
    cases = [(c_unescape(a), int(n), int(k)) for a, n, k in re.findall(branch, flat_u)]
    els = c_unescape(re.search(last, flat_u).group(1))

    def lst(bs):
        return "[" + ", ".join(str(b) for b in bs) + "]"

    out = ["set_option linter.unusedVariables false", "",
           "namespace CffiVerif.Generated.RealizeName", "",
           "/-- `%s` with c0 = srcname[0], c1 = srcname[1] -/" % cond_txt,
           "def isTypedefNamed (c0 c1 : Nat) : Bool :=\n  %s\n" % cond,
           "/-- `strcpy(target, &srcname[%d])` -/" % skip,
           "def typedefSkip : Nat := %d\n" % skip,
           "/-- per branch of `_unrealize_name`, in order: keyword literal, compare length, skip offset -/",
           "def unrealizeCases : List (List UInt8 × Nat × Nat) :=\n  [" +
           ",\n   ".join("(%s, %d, %d)" % (lst(a), n, k) for a, n, k in cases) + "]\n",
           "/-- the literal copied first in the final `else` -/",
           "def unrealizeElse : List UInt8 := %s\n" % lst(els),
           "end CffiVerif.Generated.RealizeName"]
    return "\n".join(out) + "\n", {"cond": cond_txt, "cases": [("".join(map(chr, a)), n, k) for a, n, k in cases]}


def translator():
    import common
    text, g = generate(common.REPO)
    return common.write_generated("RealizeNameExprs", text, g)


if __name__ == "__main__":
    print(generate(sys.argv[1] if len(sys.argv) > 1 else "/repo")[0])
    print("".join(functions_text(sys.argv[1] if len(sys.argv) > 1 else "/repo")))
