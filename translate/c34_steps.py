"""C34 translator: regenerates lean/CffiVerif/Generated/IncludeSteps.lean with the ORDER of the steps and the
recursion bounds of the three include delegations, re-extracted from the working tree:

  * lib_obj.c   `lib_build_and_cache_attr`: search_in_globals on the lib's own table; on a miss the scan of
                `included_libs` (guard `recursion > N`, in-order loop, self-call with `recursion + 1`, first hit wins);
                the early exit `if (recursion > 0) return NULL;`; the AttributeError;
  * ffi_obj.c   `_fetch_external_struct_or_union`: NULL check, guard `recursion > N`, in-order loop: by-name search,
                `continue` when absent, realise when non-external of the same kind, else self-call with
                `recursion + 1`, propagate a hit or an error, `return NULL`; first call with recursion 0
                (realize_c_type.c);
  * ffi_obj.c   `ffi_fetch_int_constant`: own table first (integer kinds -> value, anything else -> error), then,
                if there are included ffis, guard `recursion > N` and the in-order loop with `recursion + 1`.

The steps are located textually (comment-stripped, white-space-normalised); each must occur exactly once inside the
block where the model expects it, otherwise the translator raises.  Their relative ORDER is what is emitted: the model
(Model/Include.lean) states the order it implements and `lookup_order_is_source` compares the two by `decide`.
"""
import os
import re
import sys

sys.path.insert(0, os.path.dirname(os.path.abspath(__file__)))
import cexpr
from cexpr import CExprError, strip_c_comments


def body_of(src, name):
    """Body of the *definition* of C function `name` (the name need not start its line)."""
    try:
        return cexpr.function_body(src, name)
    except CExprError:
        pass
    for m in re.finditer(r"\b%s\s*\(([^)]*)\)\s*\{" % re.escape(name), src):
        i, depth = m.end(), 1
        while depth:
            c = src[i]
            depth += (c == "{") - (c == "}")
            i += 1
        return src[m.end():i - 1]
    raise CExprError("definition of %s not found" % name)


def norm(s):
    return re.sub(r"\s+", " ", strip_c_comments(s)).strip()


def block_after(text, start):
    """text[start] must be '{': returns (inner text, index after the matching '}')."""
    if text[start] != "{":
        raise CExprError("expected '{'")
    i, depth = start + 1, 1
    while depth:
        c = text[i]
        depth += (c == "{") - (c == "}")
        i += 1
    return text[start + 1:i - 1], i


def one(pattern, text, what):
    ms = list(re.finditer(pattern, text))
    if len(ms) != 1:
        raise CExprError("expected exactly one %s, found %d" % (what, len(ms)))
    return ms[0]


def depth_at(text, pos):
    return text.count("{", 0, pos) - text.count("}", 0, pos)


def ordered(found, where):
    """found: {step: position}; all positions distinct -> step names in source order."""
    pos = sorted(found.values())
    if len(set(pos)) != len(pos):
        raise CExprError("ambiguous positions in %s" % where)
    return [k for k, _ in sorted(found.items(), key=lambda kv: kv[1])]


def extract_lib(repo):
    b = norm(body_of(open(os.path.join(repo, "src/c/lib_obj.c")).read(), "lib_build_and_cache_attr"))
    m_search = one(r"index = search_in_globals\(&types_builder->ctx, s, strlen\(s\)\);", b, "search_in_globals in lib_build_and_cache_attr")
    m_miss = one(r"if \(index < 0\) \{", b, "`if (index < 0) {`")
    if m_miss.start() < m_search.end() or b[m_search.end():m_miss.start()].strip():
        raise CExprError("the miss test no longer follows the search of the own table directly")
    miss, after = block_after(b, m_miss.end() - 1)
    # after the miss block: the hit path must use the own table's entry
    if not re.match(r"\s*g = &types_builder->ctx\.globals\[index\];", b[after:]):
        raise CExprError("the hit path no longer reads globals[index]")
    m_scan = one(r"if \(types_builder->included_libs != NULL\) \{", miss, "scan of included_libs")
    scan, scan_end = block_after(miss, m_scan.end() - 1)
    m_guard = one(r"if \(recursion > (\d+)\) \{ PyErr_SetString\(PyExc_RuntimeError,", scan, "recursion guard in the scan")
    m_loop = one(r"for \(i = 0; i < PyTuple_GET_SIZE\(included_libs\); i\+\+\) \{", scan, "in-order loop over included_libs")
    if m_guard.start() > m_loop.start():
        raise CExprError("the recursion guard no longer precedes the loop")
    loop, _ = block_after(scan, m_loop.end() - 1)
    m_self = one(r"x = lib_build_and_cache_attr\(lib1, name, recursion \+ (\d+)\); if \(x != NULL\) \{ Py_INCREF\(x\); goto found; \}",
                 loop, "self-call with recursion + 1 / first hit wins")
    one(r"x = ffi_fetch_int_constant\(ffi1, s, recursion \+ 1\); if \(x != NULL\) goto found;", loop,
        "constant delegation for pure-Python includes")
    one(r"if \(PyErr_Occurred\(\)\) return NULL;", loop, "error propagation in the loop")
    m_exit = one(r"if \(recursion > 0\) return NULL;", miss, "early exit `if (recursion > 0) return NULL;`")
    if depth_at(miss, m_exit.start()) != 0:
        raise CExprError("the early exit is nested inside another block")
    m_attr = one(r"PyErr_Format\(PyExc_AttributeError,", miss, "AttributeError")
    if depth_at(miss, m_attr.start()) != 0 or not miss[m_attr.start():].rstrip().endswith("return NULL;"):
        raise CExprError("the AttributeError no longer ends the miss block")
    top = open(os.path.join(repo, "src/c/lib_obj.c")).read()
    if not re.search(r"x = lib_build_and_cache_attr\(lib, name, 0\);", top):
        raise CExprError("top-level call with recursion 0 not found")
    steps = ["ownTable"] + ordered({"scanIncludes": m_scan.start(), "earlyExitIfRecursive": m_exit.start(),
                                    "attributeError": m_attr.start()}, "lib_build_and_cache_attr")
    return steps, int(m_guard.group(1)), int(m_self.group(1))


def extract_fetch_struct(repo):
    src = open(os.path.join(repo, "src/c/ffi_obj.c")).read()
    b = norm(body_of(src, "_fetch_external_struct_or_union"))
    f = {}
    f["nullCheck"] = one(r"if \(included_ffis == NULL\) return NULL;", b, "NULL check").start()
    m_guard = one(r"if \(recursion > (\d+)\) \{ PyErr_SetString\(PyExc_RuntimeError,", b, "recursion guard")
    f["depthGuard"] = m_guard.start()
    m_loop = one(r"for \(i = 0; i < PyTuple_GET_SIZE\(included_ffis\); i\+\+\) \{", b, "in-order loop over included_ffis")
    loop, loop_end = block_after(b, m_loop.end() - 1)
    base = m_loop.end()
    f["searchInclude"] = base + one(r"sindex = search_in_struct_unions\(&ffi1->types_builder\.ctx, s->name, strlen\(s->name\)\);",
                                    loop, "by-name search in the included ffi").start()
    f["skipIfAbsent"] = base + one(r"if \(sindex < 0\) continue;", loop, "`continue` when absent").start()
    f["realizeIfOrigin"] = base + one(r"if \(\(s1->flags & \(_CFFI_F_EXTERNAL \| _CFFI_F_UNION\)\) == \(s->flags & _CFFI_F_UNION\)\) \{ "
                                      r"return _realize_c_struct_or_union\(&ffi1->types_builder, sindex\); \}", loop,
                                      "realise when non-external of the same kind").start()
    m_self = one(r"x = _fetch_external_struct_or_union\( ?s, ffi1->types_builder\.included_ffis, recursion \+ (\d+)\);", loop,
                 "self-call with recursion + 1")
    f["recurse"] = base + m_self.start()
    f["propagate"] = base + one(r"if \(x != NULL \|\| PyErr_Occurred\(\)\) return x;", loop, "propagation of a hit or an error").start()
    if not re.match(r"\s*return NULL;\s*$", b[loop_end:]):
        raise CExprError("_fetch_external_struct_or_union no longer ends with `return NULL;`")
    f["notFound"] = loop_end
    r = norm(open(os.path.join(repo, "src/c/realize_c_type.c")).read())
    if not re.search(r"x = _fetch_external_struct_or_union\(s, builder->included_ffis, 0\);", r):
        raise CExprError("first call of _fetch_external_struct_or_union with recursion 0 not found")
    return ordered(f, "_fetch_external_struct_or_union"), int(m_guard.group(1)), int(m_self.group(1))


def extract_fetch_const(repo):
    src = open(os.path.join(repo, "src/c/ffi_obj.c")).read()
    b = norm(body_of(src, "ffi_fetch_int_constant"))
    f = {}
    m_search = one(r"index = search_in_globals\(&ffi->types_builder\.ctx, name, strlen\(name\)\); if \(index >= 0\) \{", b,
                   "search of the own table")
    f["ownTable"] = m_search.start()
    own, own_end = block_after(b, m_search.end() - 1)
    one(r"case _CFFI_OP_CONSTANT_INT: case _CFFI_OP_ENUM: return realize_global_int\(&ffi->types_builder, index\);", own,
        "integer kinds -> realize_global_int")
    one(r"default: PyErr_Format\(FFIError,", own, "other kinds -> FFIError")
    m_inc = one(r"if \(ffi->types_builder\.included_ffis != NULL\) \{", b, "included-ffi block")
    if m_inc.start() < own_end:
        raise CExprError("the included-ffi block no longer follows the own-table block")
    f["scanIncludes"] = m_inc.start()
    inc, inc_end = block_after(b, m_inc.end() - 1)
    base = m_inc.end()
    m_guard = one(r"if \(recursion > (\d+)\) \{ PyErr_SetString\(PyExc_RuntimeError,", inc, "recursion guard")
    f["depthGuard"] = base + m_guard.start()
    m_loop = one(r"for \(i = 0; i < PyTuple_GET_SIZE\(included_ffis\); i\+\+\) \{", inc, "in-order loop over included_ffis")
    loop, _ = block_after(inc, m_loop.end() - 1)
    m_self = one(r"x = ffi_fetch_int_constant\(ffi1, name, recursion \+ (\d+)\);", loop, "self-call with recursion + 1")
    f["recurse"] = base + m_loop.end() + m_self.start()
    f["propagate"] = base + m_loop.end() + one(r"if \(x != NULL \|\| PyErr_Occurred\(\)\) return x;", loop,
                                                "propagation of a hit or an error").start()
    if not re.match(r"\s*return NULL;\s*$", b[inc_end:]):
        raise CExprError("ffi_fetch_int_constant no longer ends with `return NULL;`")
    f["notFound"] = inc_end
    if not re.search(r"x = ffi_fetch_int_constant\(self, name, 0\);", norm(src)):
        raise CExprError("top-level call of ffi_fetch_int_constant with recursion 0 not found")
    return ordered(f, "ffi_fetch_int_constant"), int(m_guard.group(1)), int(m_self.group(1))


def extract(repo):
    lib, liblim, libinc = extract_lib(repo)
    st, stlim, stinc = extract_fetch_struct(repo)
    co, colim, coinc = extract_fetch_const(repo)

    def lst(steps):
        return "[" + ", ".join("." + s for s in steps) + "]"

    lean = """/-! Regenerated from lib_obj.c (`lib_build_and_cache_attr`), ffi_obj.c (`_fetch_external_struct_or_union`,
`ffi_fetch_int_constant`) and realize_c_type.c: the order of the steps of the three include delegations and their
recursion bounds (`if (recursion > N)`, self-calls with `recursion + k`, first calls with recursion 0). -/
namespace CffiVerif.Generated.IncludeSteps

inductive Step where
  | ownTable               -- search of the module's own table
  | nullCheck              -- `included_ffis == NULL` -> not found
  | depthGuard             -- `recursion > N` -> RuntimeError
  | scanIncludes           -- the in-order loop over the included libs / ffis (first hit wins)
  | searchInclude          -- by-name search in one included ffi
  | skipIfAbsent           -- `continue` when that ffi does not know the name
  | realizeIfOrigin        -- non-external entry of the same kind: realise it there
  | recurse                -- self-call on the include's own includes
  | propagate              -- return a hit or an error
  | earlyExitIfRecursive   -- `if (recursion > 0) return NULL;`
  | attributeError         -- top level: AttributeError
  | notFound               -- `return NULL;`
  deriving DecidableEq, Repr

/-- `lib_build_and_cache_attr`, miss path, in source order -/
def libSteps : List Step := %s
def libRecursionLimit : Nat := %d
def libRecursionStep : Nat := %d

/-- `_fetch_external_struct_or_union`, in source order -/
def fetchStructSteps : List Step := %s
def fetchStructRecursionLimit : Nat := %d
def fetchStructRecursionStep : Nat := %d

/-- `ffi_fetch_int_constant`, in source order -/
def fetchConstSteps : List Step := %s
def fetchConstRecursionLimit : Nat := %d
def fetchConstRecursionStep : Nat := %d

end CffiVerif.Generated.IncludeSteps
""" % (lst(lib), liblim, libinc, lst(st), stlim, stinc, lst(co), colim, coinc)
    summary = "lib: %s limit %d; struct: %s limit %d; const: %s limit %d" % (lib, liblim, st, stlim, co, colim)
    return lean, summary


def run(common):
    lean, summary = extract(common.REPO)
    return common.write_generated("IncludeSteps", lean, summary)


if __name__ == "__main__":
    print(extract(sys.argv[1] if len(sys.argv) > 1 else "/repo")[0])
