"""Translator for C36: statement order of the thread-state bookkeeping in /repo/src/c/misc_thread_common.h.

Re-extracts on every check run (C front end of c28_steps.py: conditional compilation is resolved for the
interpreter the check runs on, statements are matched against the modelled shape, anything else raises):

  thread_canary_free_zombies   the fast path test, and the operations of one loop iteration with / without a
                               zombie: lock, take the head, read its tstate, unlink it, unlock,
                               PyThreadState_Clear, the `tstate->_status.bound_gilstate = 0` workaround (present only
                               if its `#if PY_VERSION_HEX >= 0x…` guard holds for the running interpreter; the guard
                               value itself is emitted too), PyThreadState_Delete
  thread_canary_register       the success path (free zombies first, tls, dict, new canary and its four fields,
                               store in the dict, tls->local_thread_canary, gilstate_counter++) and the number of
                               `goto ignore_error` exits
  thread_canary_make_zombie    fatal error if already a zombie, then append at the tail of the list
  cffi_thread_shutdown         lock; if there is a canary: canary->tls = NULL, make it a zombie; unlock; free(tls)
  gil_ensure / gil_release     existing thread state: counter++ then make current if needed; none:
                               PyGILState_Ensure then thread_canary_register; PyGILState_Release

into lean/CffiVerif/Generated/CanarySteps.lean.  Props/C36.lean ties Model/Canary.lean to these lists.
"""
import os
import re
import sys

sys.path.insert(0, os.path.dirname(os.path.abspath(__file__)))
import c28_steps
from c28_steps import ShapeError, preprocess, parse_body, function_text, paths, _match


def strip_line_comments(s):
    return re.sub(r"//[^\n]*", "", s)


def _decl_ok(st, allowed, what):
    if st[1] not in allowed:
        raise ShapeError("%s: unexpected declaration %r" % (what, st[1]))
    return []


def free_zombies(body):
    W = "thread_canary_free_zombies"
    if len(body) != 2 or body[0] != ("if", "cffi_zombie_head.zombie_next==&cffi_zombie_head", [("ret", "")], []) \
            or body[1][0] != "while" or body[1][1] != "1":
        raise ShapeError("%s: expected `if (list empty) return; while (1) {...}`" % W)

    def classify(st):
        if st[0] == "decl":
            return _decl_ok(st, ("ThreadCanaryObj*ob", "PyThreadState*tstate=NULL"), W)
        if st[0] == "break":
            return ["return break"]
        if st[0] == "expr":
            return _match([
                (r"TLS_ZOM_LOCK\(\)", ["zomLock"]),
                (r"TLS_ZOM_UNLOCK\(\)", ["zomUnlock"]),
                (r"ob=cffi_zombie_head\.zombie_next", ["takeHead"]),
                (r"tstate=ob->tstate", ["readTstate"]),
                (r"_thread_canary_detach_with_lock\(ob\)", ["detach"]),
                (r"Py_FatalError\(\"cffi: invalid ThreadCanaryObj->tstate\"\)", ["return fatal"]),
                (r"PyThreadState_Clear\(tstate\)", ["clearTs"]),
                (r"tstate->_status\.bound_gilstate=0", ["clearBoundGilstate"]),
                (r"PyThreadState_Delete\(tstate\)", ["deleteTs"]),
            ], st[1], W)
        if st[0] == "if":
            return None
        raise ShapeError("%s: unexpected %r" % (W, st))

    def cond_key(c):
        table = {"ob!=&cffi_zombie_head": ("present", True, "zombiePresent"),
                 "tstate==NULL": ("tsnull", True, "tstateNull")}
        if c not in table:
            raise ShapeError("%s: unexpected condition %r" % (W, c))
        return table[c]

    ps = paths(body[1][2], classify, cond_key)
    # `tstate` is initialised to NULL and assigned only when a zombie is present
    ps = [p for p in ps if not ("zombiePresent false" in p and "tstateNull false" in p)]
    present = [p for p in ps if "zombiePresent true" in p and "tstateNull false" in p]
    absent = [p for p in ps if "zombiePresent false" in p]
    fatal = [p for p in ps if "return fatal" in p]
    if len(present) != 1 or len(absent) != 1 or len(fatal) != 1 or len(ps) != 3:
        raise ShapeError("%s: unexpected set of paths through the loop body: %r" % (W, ps))
    def dedup(p):       # the second test of `tstate == NULL` repeats the marker of the first
        out = []
        for o in p:
            if o.startswith("tstateNull") and o in out:
                continue
            out.append(o)
        return out
    return dedup(present[0]), dedup(absent[0])


def workaround_guard(raw):
    """The value in the `#if PY_VERSION_HEX >= 0x…` that encloses the bound_gilstate line (0 if unguarded)."""
    lines = raw.split("\n")
    idx = [i for i, l in enumerate(lines) if re.search(r"_status\.bound_gilstate\s*=\s*0\s*;", l)]
    if len(idx) != 1:
        raise ShapeError("thread_canary_free_zombies: expected exactly one `bound_gilstate = 0` statement")
    depth = 0
    for i in range(idx[0] - 1, -1, -1):
        l = lines[i].strip()
        if re.match(r"#\s*endif", l):
            depth += 1
        elif re.match(r"#\s*if", l):
            if depth == 0:
                m = re.match(r"#\s*if\s+PY_VERSION_HEX\s*>=\s*(0[xX][0-9a-fA-F]+)\s*$", l)
                if not m:
                    raise ShapeError("thread_canary_free_zombies: unexpected guard %r of the workaround" % l)
                return int(m.group(1), 16)
            depth -= 1
        elif re.match(r"#\s*(else|elif)", l) and depth == 0:
            raise ShapeError("thread_canary_free_zombies: the workaround sits in an #else branch")
    return 0


def register(body):
    W = "thread_canary_register"

    def classify(st):
        if st[0] == "decl":
            return _decl_ok(st, ("ThreadCanaryObj*canary", "PyObject*tdict", "struct cffi_tls_s*tls", "int err"), W)
        if st[0] == "goto":
            if st[1] != "ignore_error":
                raise ShapeError("%s: unexpected goto %s" % (W, st[1]))
            return ["return ignoreError"]
        if st[0] == "ret":
            return ["return"]
        if st[0] == "expr":
            return _match([
                (r"thread_canary_free_zombies\(\)", ["freeZombies"]),
                (r"tls=get_cffi_tls\(\)", ["getTls"]),
                (r"tdict=PyThreadState_GetDict\(\)", ["getDict"]),
                (r"canary=PyObject_New\(ThreadCanaryObj,&ThreadCanary_Type\)", ["newCanary"]),
                (r"canary->zombie_prev=NULL", []),
                (r"canary->zombie_next=NULL", ["canaryNotZombie"]),
                (r"canary->tstate=tstate", ["canarySetTstate"]),
                (r"canary->tls=tls", ["canarySetTls"]),
                (r"err=PyDict_SetItemString\(tdict,\"cffi\.thread\.canary\",\(PyObject\*\)canary\)", ["storeInDict"]),
                (r"Py_DECREF\(canary\)", []),
                (r"assert\(Py_REFCNT\(canary\)==1\)", []),
                (r"tls->local_thread_canary=canary", ["setLocalCanary"]),
                (r"tstate->gilstate_counter\+\+", ["counterIncr"]),
            ], st[1], W)
        if st[0] == "if":
            return None
        raise ShapeError("%s: unexpected %r" % (W, st))

    def cond_key(c):
        table = {"tls==NULL": ("tls", True, "allocFailed"), "tdict==NULL": ("dict", True, "allocFailed"),
                 "canary==NULL": ("canary", True, "allocFailed"), "err<0": ("err", True, "allocFailed")}
        if c not in table:
            raise ShapeError("%s: unexpected condition %r" % (W, c))
        return table[c]

    tail = body[-2:]
    if tail != [("label", "ignore_error"), ("expr", "PyErr_Clear()")]:
        raise ShapeError("%s: expected `ignore_error: PyErr_Clear();` at the end" % W)
    ps = paths(body[:-2], classify, cond_key)
    ok = [p for p in ps if p[-1] == "return"]
    bad = [p for p in ps if p[-1] == "return ignoreError"]
    if len(ok) != 1 or len(ok) + len(bad) != len(ps):
        raise ShapeError("%s: unexpected paths %r" % (W, ps))
    return [o for o in ok[0][:-1] if not o.startswith("allocFailed")], len(bad)


def make_zombie(body):
    expect = [("decl", "ThreadCanaryObj*last"),
              ("if", "ob->zombie_next", [("expr", 'Py_FatalError("cffi: ThreadCanaryObj is already a zombie")')], []),
              ("expr", "last=cffi_zombie_head.zombie_prev"), ("expr", "ob->zombie_next=&cffi_zombie_head"),
              ("expr", "ob->zombie_prev=last"), ("expr", "last->zombie_next=ob"),
              ("expr", "cffi_zombie_head.zombie_prev=ob")]
    if body != expect:
        raise ShapeError("thread_canary_make_zombie no longer is `fatal if already a zombie; append at the tail`: %r" % (body,))
    return ["fatalIfZombie", "appendZombie"]


def shutdown(body):
    W = "cffi_thread_shutdown"

    def classify(st):
        if st[0] == "decl":
            return _decl_ok(st, ("struct cffi_tls_s*tls=(struct cffi_tls_s*)p",), W)
        if st[0] == "expr":
            return _match([
                (r"TLS_ZOM_LOCK\(\)", ["zomLock"]),
                (r"TLS_ZOM_UNLOCK\(\)", ["zomUnlock"]),
                (r"tls->local_thread_canary->tls=NULL", ["clearCanaryTls"]),
                (r"thread_canary_make_zombie\(tls->local_thread_canary\)", ["makeZombie"]),
                (r"free\(tls\)", ["freeTls"]),
            ], st[1], W)
        if st[0] == "if":
            return None
        raise ShapeError("%s: unexpected %r" % (W, st))

    def cond_key(c):
        if c != "tls->local_thread_canary!=NULL":
            raise ShapeError("%s: unexpected condition %r" % (W, c))
        return ("canary", True, "hasCanary")

    ps = paths(body, classify, cond_key)
    if len(ps) != 2:
        raise ShapeError("%s: unexpected paths %r" % (W, ps))
    return ps


def gil_ensure(body):
    W = "gil_ensure"

    def classify(st):
        if st[0] == "decl":
            return _match([(r"PyGILState_STATE result", []),
                           (r"PyThreadState\*ts=PyGILState_GetThisThreadState\(\)", ["getThisThreadState"])], st[1], W)
        if st[0] == "ret":
            return _match([(r"PyGILState_UNLOCKED", ["return unlocked"]), (r"PyGILState_LOCKED", ["return locked"]),
                           (r"result", ["return result"])], st[1], W)
        if st[0] == "expr":
            return _match([
                (r"ts->gilstate_counter\+\+", ["counterIncr"]),
                (r"PyEval_RestoreThread\(ts\)", ["restoreThread"]),
                (r"result=PyGILState_Ensure\(\)", ["pyGILStateEnsure"]),
                (r"ts=PyGILState_GetThisThreadState\(\)", ["getThisThreadState"]),
                (r"thread_canary_register\(ts\)", ["register"]),
                (r"assert\(.*\)", []),
            ], st[1], W)
        if st[0] == "if":
            return None
        raise ShapeError("%s: unexpected %r" % (W, st))

    def cond_key(c):
        table = {"ts!=NULL": ("ts", True, "hasTs"), "ts!=get_current_ts()": ("cur", False, "isCurrent")}
        if c not in table:
            raise ShapeError("%s: unexpected condition %r" % (W, c))
        return table[c]

    return paths(body, classify, cond_key)


def gil_release(body):
    if body != [("expr", "PyGILState_Release(oldstate)")]:
        raise ShapeError("gil_release is no longer just PyGILState_Release(oldstate): %r" % (body,))
    return ["pyGILStateRelease"]


def extract(repo, hexversion=None):
    hexversion = sys.hexversion if hexversion is None else hexversion
    raw = open(os.path.join(repo, "src/c/misc_thread_common.h")).read()
    guard = workaround_guard(function_text(raw, "thread_canary_free_zombies"))
    pre = strip_line_comments(preprocess(raw, {"WITH_THREAD", "USE__THREAD"}, hexversion))
    fb = lambda name: parse_body(function_text(pre, name))
    present, absent = free_zombies(fb("thread_canary_free_zombies"))
    reg, nfail = register(fb("thread_canary_register"))
    mz = make_zombie(fb("thread_canary_make_zombie"))
    sd = shutdown(fb("cffi_thread_shutdown"))
    ge = gil_ensure(fb("gil_ensure"))
    gr = gil_release(fb("gil_release"))
    # the destructor is the one registered for the TLS key
    posix = open(os.path.join(repo, "src/c/misc_thread_posix.h")).read()
    if not re.search(r"pthread_key_create\(&cffi_tls_key,\s*&cffi_thread_shutdown\)", posix):
        raise ShapeError("misc_thread_posix.h: cffi_thread_shutdown is no longer the destructor of cffi_tls_key")
    return {"guard": guard, "hex": hexversion, "present": present, "absent": absent, "register": reg,
            "register_failures": nfail, "make_zombie": mz, "shutdown": sd, "gil_ensure": ge, "gil_release": gr}


def lean_op(op):
    m = re.fullmatch(r"(zombiePresent|tstateNull|hasCanary|hasTs|isCurrent) (true|false)", op)
    if m:
        return "(.%s %s)" % (m.group(1), m.group(2))
    names = {"return break": ".loopBreak", "return unlocked": ".retUnlocked", "return locked": ".retLocked",
             "return result": ".retResult", "fallOffEnd": ".fallOffEnd"}
    if op in names:
        return names[op]
    if re.fullmatch(r"[A-Za-z]\w*", op):
        return "." + op
    raise ShapeError("no Lean name for %r" % op)


def lean_list(name, doc, ops):
    return "/-- %s -/\ndef %s : List CanOp :=\n  [%s]" % (doc, name, ", ".join(lean_op(o) for o in ops))


def translator():
    sys.path.insert(0, os.path.join(os.path.dirname(os.path.dirname(os.path.abspath(__file__))), "harness"))
    import common
    d = extract(common.REPO)
    parts = [
        "import CffiVerif.Model.CanarySrc",
        "",
        "namespace CffiVerif.Generated.CanarySteps",
        "open CffiVerif.Canary",
        "",
        "/-- PY_VERSION_HEX of the interpreter the check (and the backend under test) runs on -/",
        "def runningVersion : Nat := 0x%08x" % d["hex"],
        "",
        "/-- the value in `#if PY_VERSION_HEX >= …` around `tstate->_status.bound_gilstate = 0` -/",
        "def workaroundGuard : Nat := 0x%08x" % d["guard"],
        "",
        lean_list("freeZombiesIter", "one iteration of the loop of `thread_canary_free_zombies` with a zombie in the "
                  "list, as compiled for `runningVersion`", d["present"]),
        "",
        lean_list("freeZombiesLast", "the iteration that finds the list empty", d["absent"]),
        "",
        lean_list("registerPath", "the success path of `thread_canary_register`", d["register"]),
        "",
        "/-- number of `goto ignore_error` exits of `thread_canary_register` (allocation failures; not modelled) -/",
        "def registerFailureExits : Nat := %d" % d["register_failures"],
        "",
        lean_list("makeZombieBody", "`thread_canary_make_zombie`", d["make_zombie"]),
        "",
        lean_list("shutdownWithCanary", "`cffi_thread_shutdown` when `tls->local_thread_canary != NULL`", d["shutdown"][0]),
        "",
        lean_list("shutdownNoCanary", "`cffi_thread_shutdown` otherwise", d["shutdown"][1]),
        "",
        "/-- control paths of `gil_ensure`, true-branch first -/",
        "def gilEnsurePaths : List (List CanOp) := [\n%s\n]" % ",\n".join(
            "  [" + ", ".join(lean_op(o) for o in p) + "]" for p in d["gil_ensure"]),
        "",
        lean_list("gilReleaseBody", "`gil_release`", d["gil_release"]),
        "",
        "end CffiVerif.Generated.CanarySteps",
        "",
    ]
    return common.write_generated("CanarySteps", "\n".join(parts),
                                  "statement order of thread_canary_free_zombies (workaround guard 0x%08x, running 0x%08x), "
                                  "thread_canary_register, thread_canary_make_zombie, cffi_thread_shutdown, gil_ensure, "
                                  "gil_release" % (d["guard"], d["hex"]))


if __name__ == "__main__":
    d = extract(sys.argv[1] if len(sys.argv) > 1 else "/repo")
    for k, v in d.items():
        print(k, v)
