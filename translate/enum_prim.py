"""Extract, from the working tree of the repo, the tables cffi uses to name the integer type
of an enum (C10):

  * recompiler.py  EnumExpr.as_python_expr   prim_index = {(size, signed): PRIM_*}
  * cffi_opcode.py PRIM_* numbers
  * _cffi_include.h  #define _cffi_prim_int(size, sign)   the ?: chain
  * parse_c_type.h  #define _CFFI_PRIM_* numbers
  * realize_c_type.c  primitive_name[]       index -> C type name
  * model.py  EnumType.build_baseinttype     the four PrimitiveType("...") candidates and the
                                             two range tests (normalised text)

and write them as Lean data (CffiVerif/Generated/EnumPrim.lean).  Every extraction point must
be found; a missing one raises (the check then reports a broken proof stage).
"""
import os
import re

import common


def _read(rel):
    return open(os.path.join(common.REPO, "src", rel)).read()


def extract():
    rec = _read("cffi/recompiler.py")
    m = re.search(r"class EnumExpr:.*?def as_python_expr\(self\):\s*prim_index = \{(.*?)\}\[self\.size, self\.signed\]",
                  rec, re.S)
    if not m:
        raise ValueError("recompiler.py: EnumExpr.as_python_expr prim_index not found")
    py_entries = re.findall(r"\(\s*(\d+)\s*,\s*(\d+)\s*\)\s*:\s*(PRIM_\w+)", m.group(1))
    if len(py_entries) < 8:
        raise ValueError("recompiler.py: prim_index has %d entries" % len(py_entries))
    opc = _read("cffi/cffi_opcode.py")
    py_num = dict((k, int(v)) for k, v in re.findall(r"^(PRIM_\w+)\s*=\s*(\d+)\s*$", opc, re.M))
    prim_index_py = [((int(a), int(b)), py_num[n]) for a, b, n in py_entries]

    inc = _read("cffi/_cffi_include.h")
    m = re.search(r"#define _cffi_prim_int\(size, sign\)(.*?)\n\s*\n", inc, re.S)
    if not m:
        raise ValueError("_cffi_include.h: _cffi_prim_int not found")
    body = m.group(1).replace("\\\n", " ")
    c_entries = re.findall(r"\(size\)\s*==\s*(\d+)\s*\?\s*\(\(sign\)\s*\?\s*(_CFFI_PRIM_\w+)\s*:\s*(_CFFI_PRIM_\w+)\s*\)", body)
    if len(c_entries) < 4 or "_CFFI__UNKNOWN_PRIM" not in body:
        raise ValueError("_cffi_include.h: _cffi_prim_int has an unexpected shape: %r" % body)
    hdr = _read("cffi/parse_c_type.h")
    c_num = dict((k, int(v)) for k, v in re.findall(r"^#define\s+(_CFFI_PRIM_\w+)\s+(\d+)\s*$", hdr, re.M))
    prim_int_c = []
    for size, s_name, u_name in c_entries:
        prim_int_c.append(((int(size), 1), c_num[s_name]))
        prim_int_c.append(((int(size), 0), c_num[u_name]))

    rea = _read("c/realize_c_type.c")
    m = re.search(r"static const char \*primitive_name\[\] = \{(.*?)\};", rea, re.S)
    if not m:
        raise ValueError("realize_c_type.c: primitive_name[] not found")
    names = []
    for item in m.group(1).split(","):
        item = item.strip()
        if not item:
            continue
        if item == "NULL":
            names.append("")
        else:
            mm = re.match(r'"([^"]*)"$', item)
            if not mm:
                raise ValueError("realize_c_type.c: odd primitive_name entry %r" % item)
            names.append(mm.group(1))
    if len(names) < 25:
        raise ValueError("realize_c_type.c: primitive_name[] too short")

    mod = _read("cffi/model.py")
    m = re.search(r"def build_baseinttype\(self, ffi, finishlist\):(.*?)\n(?:def |class )", mod, re.S)
    if not m:
        raise ValueError("model.py: build_baseinttype not found")
    fn = m.group(1)
    m2 = re.search(r"if smallest_value < 0:.*?sign = (\d+)\s*candidate1 = PrimitiveType\(\"([^\"]+)\"\)\s*"
                   r"candidate2 = PrimitiveType\(\"([^\"]+)\"\)\s*else:\s*sign = (\d+)\s*"
                   r"candidate1 = PrimitiveType\(\"([^\"]+)\"\)\s*candidate2 = PrimitiveType\(\"([^\"]+)\"\)", fn, re.S)
    if not m2:
        raise ValueError("model.py: candidates of build_baseinttype not found")
    cands = [(int(m2.group(1)), m2.group(2), m2.group(3)), (int(m2.group(4)), m2.group(5), m2.group(6))]
    tests = re.findall(r"if \((smallest_value .*?)\):\s*return (btype\d)", fn, re.S)
    if len(tests) != 2:
        raise ValueError("model.py: range tests of build_baseinttype not found")
    tests = [(re.sub(r"\s+", " ", t), b) for t, b in tests]
    return {"prim_index_py": prim_index_py, "prim_int_c": prim_int_c, "primitive_name": names,
            "candidates": cands, "tests": tests}


def lean_text(d):
    def tbl(rows):
        return "[" + ", ".join("((%d, %d), %d)" % (a, b, n) for (a, b), n in rows) + "]"

    def s(x):
        return '"' + x.replace("\\", "\\\\").replace('"', '\\"') + '"'
    out = []
    out.append("namespace CffiVerif.Generated.EnumPrim\n")
    out.append("/-- recompiler.py `EnumExpr.as_python_expr`: (size, signed) -> PRIM number (cffi_opcode.py). -/")
    out.append("def primIndexPy : List ((Nat × Nat) × Nat) :=\n  %s\n" % tbl(d["prim_index_py"]))
    out.append("/-- _cffi_include.h `_cffi_prim_int(size, sign)`: (size, sign) -> _CFFI_PRIM number (parse_c_type.h). -/")
    out.append("def primIntC : List ((Nat × Nat) × Nat) :=\n  %s\n" % tbl(d["prim_int_c"]))
    out.append("/-- realize_c_type.c `primitive_name[]` (\"\" for NULL). -/")
    out.append("def primitiveName : List String :=\n  [%s]\n" % ", ".join(s(n) for n in d["primitive_name"]))
    out.append("/-- model.py `build_baseinttype`: (sign, candidate1, candidate2) for the negative and the non-negative case. -/")
    out.append("def candidates : List (Nat × String × String) :=\n  [%s]\n"
               % ", ".join("(%d, %s, %s)" % (a, s(b), s(c)) for a, b, c in d["candidates"]))
    out.append("/-- model.py `build_baseinttype`: the two range tests, white space normalised. -/")
    out.append("def rangeTests : List (String × String) :=\n  [%s]\n"
               % ", ".join("(%s, %s)" % (s(a), s(b)) for a, b in d["tests"]))
    out.append("end CffiVerif.Generated.EnumPrim\n")
    return "\n".join(out)


def run():
    d = extract()
    summary = ("prim_index %d entries, _cffi_prim_int %d entries, primitive_name[%d], candidates %r"
               % (len(d["prim_index_py"]), len(d["prim_int_c"]), len(d["primitive_name"]), d["candidates"]))
    return common.write_generated("EnumPrim", lean_text(d), summary)


if __name__ == "__main__":
    print(lean_text(extract()))
