"""Expression translator: straight-line C integer expressions -> Lean terms.

A small recursive-descent parser for the C expressions found at *named
extraction points* of /repo (right-hand sides of assignments, conditions):
literals with u/l suffixes, identifiers and `a->b` member accesses, casts to
the 64-bit integer types, unary `- ~ !`, binary `* + - << >> & ^ |`, the six
comparisons, `&& ||`, parentheses.

Values are translated to `BitVec 64` terms (all variables of the extraction
points are 64-bit `PY_LONG_LONG` / `unsigned PY_LONG_LONG`; signedness is
tracked because it selects `>>`, the comparisons and nothing else on two's
complement).  Shift *counts* are translated to `Int` terms over the `Nat`
parameters and applied through `CBits.shl/ushr/sshr`, which reduce the count
mod 64 as x86-64 does; every count expression met is also collected so that a
separate theorem can show it lies in [0, 64) (C leaves other counts undefined).
"""
import re

TOK = re.compile(r"\s*(?:(0[xX][0-9a-fA-F]+[uUlL]*|\d+[uUlL]*)|([A-Za-z_]\w*(?:\s*->\s*[A-Za-z_]\w*)*)|"
                 r"(<<|>>|<=|>=|==|!=|&&|\|\||[-+*/%&|^~!<>()?:]))")

CAST_TYPES = {
    "unsigned PY_LONG_LONG": False, "PY_LONG_LONG": True, "unsigned long long": False,
    "long long": True, "long": True, "unsigned long": False, "int": True,
}


class CExprError(Exception):
    pass


def tokenize(s):
    pos, out = 0, []
    s = s.strip()
    while pos < len(s):
        m = TOK.match(s, pos)
        if not m:
            raise CExprError("cannot tokenize %r at %d" % (s, pos))
        if m.group(1):
            out.append(("num", m.group(1)))
        elif m.group(2):
            out.append(("id", re.sub(r"\s+", "", m.group(2))))
        else:
            out.append(("op", m.group(3)))
        pos = m.end()
    return out


class Parser:
    PREC = [["||"], ["&&"], ["|"], ["^"], ["&"], ["==", "!="], ["<", ">", "<=", ">="],
            ["<<", ">>"], ["+", "-"], ["*", "/", "%"]]

    def __init__(self, toks):
        self.t, self.i = toks, 0

    def peek(self):
        return self.t[self.i] if self.i < len(self.t) else (None, None)

    def eat(self, kind=None, val=None):
        k, v = self.peek()
        if (kind and k != kind) or (val and v != val):
            raise CExprError("expected %s %s, got %s %s" % (kind, val, k, v))
        self.i += 1
        return v

    def parse(self):
        e = self.binary(0)
        if self.i != len(self.t):
            raise CExprError("trailing tokens %r" % (self.t[self.i:],))
        return e

    def binary(self, level):
        if level == len(self.PREC):
            return self.unary()
        e = self.binary(level + 1)
        while self.peek()[0] == "op" and self.peek()[1] in self.PREC[level]:
            op = self.eat()
            r = self.binary(level + 1)
            e = ("bin", op, e, r)
        return e

    def try_cast(self):
        """`( type )` followed by a unary expression."""
        if self.peek() != ("op", "("):
            return None
        j = self.i + 1
        words = []
        while j < len(self.t) and self.t[j][0] == "id":
            words.append(self.t[j][1])
            j += 1
        name = " ".join(words)
        if name in CAST_TYPES and j < len(self.t) and self.t[j] == ("op", ")"):
            self.i = j + 1
            return name
        return None

    def unary(self):
        k, v = self.peek()
        if k == "op" and v in "-~!+":
            self.eat()
            return ("un", v, self.unary())
        c = self.try_cast()
        if c is not None:
            return ("cast", c, self.unary())
        if k == "op" and v == "(":
            self.eat()
            e = self.binary(0)
            self.eat("op", ")")
            return e
        if k == "num":
            self.eat()
            return ("num", v)
        if k == "id":
            self.eat()
            return ("id", v)
        raise CExprError("unexpected token %r" % (v,))


def parse(s):
    return Parser(tokenize(s)).parse()


class Emitter:
    """env: C name -> (lean term, kind) with kind in {"s64", "u64", "count"}.
    `count` variables are small non-negative C ints given as Lean `Nat`s."""

    def __init__(self, env):
        self.env = env
        self.counts = []      # Int terms of every shift count met

    # --- count expressions (C `int` arithmetic on small values) -> Lean Int terms
    def count(self, e):
        k = e[0]
        if k == "num":
            return "(%d : Int)" % int(re.sub(r"[uUlL]+$", "", e[1]), 0)
        if k == "id":
            if e[1] not in self.env or self.env[e[1]][1] != "count":
                raise CExprError("shift count uses non-count variable %s" % e[1])
            return "(%s : Int)" % self.env[e[1]][0]
        if k == "bin" and e[1] in "+-*":
            return "(%s %s %s)" % (self.count(e[2]), e[1], self.count(e[3]))
        if k == "cast":
            return self.count(e[2])
        raise CExprError("unsupported shift-count expression %r" % (e,))

    # --- value expressions -> (Lean BitVec 64 term, signed?)
    def val(self, e):
        k = e[0]
        if k == "num":
            txt = e[1]
            n = int(re.sub(r"[uUlL]+$", "", txt), 0)
            return "%d#64" % n, not re.search(r"[uU]", txt)
        if k == "id":
            if e[1] not in self.env:
                raise CExprError("unknown variable %s" % e[1])
            term, kind = self.env[e[1]]
            if kind == "count":
                return "(BitVec.ofNat 64 %s)" % term, True
            return term, kind == "s64"
        if k == "cast":
            t, _ = self.val(e[2])
            return t, CAST_TYPES[e[1]]
        if k == "un":
            t, s = self.val(e[2])
            if e[1] == "-":
                return "(-%s)" % t, s
            if e[1] == "~":
                return "(~~~%s)" % t, s
            if e[1] == "+":
                return t, s
            raise CExprError("'!' in a value position")
        if k == "bin":
            op = e[1]
            if op in ("<<", ">>"):
                t, s = self.val(e[2])
                c = self.count(e[3])
                self.counts.append(c)
                fn = "CBits.shl" if op == "<<" else ("CBits.sshr" if s else "CBits.ushr")
                return "(%s %s %s)" % (fn, t, c), s
            a, sa = self.val(e[2])
            b, sb = self.val(e[3])
            lean = {"+": "+", "-": "-", "*": "*", "&": "&&&", "|": "|||", "^": "^^^"}.get(op)
            if lean is None:
                raise CExprError("operator %s in a value position" % op)
            return "(%s %s %s)" % (a, lean, b), (sa and sb)
        raise CExprError("unsupported %r" % (e,))

    # --- conditions -> Lean Bool term
    def cond(self, e):
        k = e[0]
        if k == "bin" and e[1] in ("||", "&&"):
            return "(%s %s %s)" % (self.cond(e[2]), e[1], self.cond(e[3]))
        if k == "un" and e[1] == "!":
            return "(!%s)" % self.cond(e[2])
        if k == "bin" and e[1] in ("<", ">", "<=", ">=", "==", "!="):
            a, sa = self.val(e[2])
            b, sb = self.val(e[3])
            signed = sa and sb
            lt, le = ("BitVec.slt", "BitVec.sle") if signed else ("BitVec.ult", "BitVec.ule")
            op = e[1]
            if op == "<":
                return "(%s %s %s)" % (lt, a, b)
            if op == ">":
                return "(%s %s %s)" % (lt, b, a)
            if op == "<=":
                return "(%s %s %s)" % (le, a, b)
            if op == ">=":
                return "(%s %s %s)" % (le, b, a)
            if op == "==":
                return "(%s == %s)" % (a, b)
            return "(%s != %s)" % (a, b)
        raise CExprError("unsupported condition %r" % (e,))


def function_body(src, name):
    """Text of the body of C function `name` (brace matching)."""
    m = re.search(r"^%s\s*\([^)]*\)\s*\{" % re.escape(name), src, re.M)
    if not m:
        raise CExprError("function %s not found" % name)
    i = m.end()
    depth = 1
    while depth:
        c = src[i]
        if c == "{":
            depth += 1
        elif c == "}":
            depth -= 1
        i += 1
    return src[m.end():i - 1]


def strip_c_comments(s):
    return re.sub(r"/\*.*?\*/", " ", s, flags=re.S)


def assignments(body, var):
    """Right-hand sides of every `var = expr;` in the text, in order."""
    body = strip_c_comments(body)
    return [re.sub(r"\s+", " ", m.group(1)).strip()
            for m in re.finditer(r"(?<![\w>.])%s\s*=(?!=)\s*([^;]+);" % re.escape(var), body)]


class NatEmitter:
    """Translate small C `int` expressions / conditions to Lean terms over `Nat` (variables declared `nat`)
    and `Int` (variables declared `int`), for code where the values are array indexes and comparison results
    and C's wrap-around is not at stake (the caller states the bound under which that is so).
    env: C name -> (lean name, "nat" | "int")."""

    def __init__(self, env):
        self.env = env

    def term(self, e):
        k = e[0]
        if k == "num":
            return "%d" % int(re.sub(r"[uUlL]+$", "", e[1]), 0), None
        if k == "id":
            if e[1] not in self.env:
                raise CExprError("unknown variable %s" % e[1])
            return self.env[e[1]]
        if k == "bin" and e[1] in ("+", "-", "*", "/"):
            a, ta = self.term(e[2])
            b, tb = self.term(e[3])
            ty = ta or tb or "nat"
            if ta and tb and ta != tb:
                raise CExprError("mixed nat/int arithmetic in %r" % (e,))
            if e[1] == "-" and ty == "nat":
                raise CExprError("subtraction on index-typed values is not supported (could go negative)")
            return "(%s %s %s)" % (a, e[1], b), ty
        raise CExprError("unsupported term %r" % (e,))

    def cond(self, e):
        k = e[0]
        if k == "bin" and e[1] in ("&&", "||"):
            return "(%s %s %s)" % (self.cond(e[2]), e[1], self.cond(e[3]))
        if k == "un" and e[1] == "!":
            return "(!%s)" % self.cond(e[2])
        if k == "bin" and e[1] in ("<", ">", "<=", ">=", "==", "!="):
            a, ta = self.term(e[2])
            b, tb = self.term(e[3])
            ty = ta or tb or "nat"
            if ta and tb and ta != tb:
                raise CExprError("comparison between nat and int in %r" % (e,))
            tyname = "Nat" if ty == "nat" else "Int"
            op = {"<": "<", ">": ">", "<=": "≤", ">=": "≥", "==": "==", "!=": "!="}[e[1]]
            if e[1] in ("==", "!="):
                return "((%s : %s) %s (%s : %s))" % (a, tyname, op, b, tyname)
            return "(decide ((%s : %s) %s (%s : %s)))" % (a, tyname, op, b, tyname)
        raise CExprError("unsupported condition %r" % (e,))
