"""Translator for C28: the control skeleton of the start-up protocol in /repo/src/cffi/_embedding.h.

Re-extracts, on every check run, from the working tree
  * `_cffi_carefully_make_gil`   (spin lock around the Py_IsInitialized() test / Py_InitializeEx),
  * `_cffi_start_python`         (reentrant mutex, `called`, `_cffi_initialize_python()`, the switch of
                                  `_cffi_call_python`, `_cffi_call_python_org = NULL` on failure),
  * `_cffi_start_and_call_python` (zeroed result when the returned pointer is NULL)
every control path as a list of source-level operations, into
lean/CffiVerif/Generated/EmbeddingSteps.lean.  Props/C28.lean proves over these generated paths that
the mutex / the spin lock is released on every path (`every_path_releases_mutex`, `every_path_releases_spin_lock`)
and that they are exactly the operation sequences of the hand-written transition system
(`steps_are_source`: the paths equal the traces obtained by running `Embedding.stepPc`).

The file also contains a tiny C front end used by c36_steps.py: conditional-compilation resolution
(`#if/#ifdef/#ifndef/#else/#endif` over a set of defined macros and PY_VERSION_HEX), a statement parser
(blocks, if/else, while, return, break, goto, labels, expression statements, declarations) and path
enumeration.  Anything it does not understand raises: a reshaped function breaks the tie instead of
being silently skipped.
"""
import os
import re
import sys

sys.path.insert(0, os.path.dirname(os.path.abspath(__file__)))
import cexpr
from cexpr import CExprError

sys.path.insert(0, os.path.join(os.path.dirname(os.path.dirname(os.path.abspath(__file__))), "harness"))


class ShapeError(Exception):
    pass


# ------------------------------------------------------------------ conditional compilation

def eval_condition(rest, defined, hexversion):
    """`defined(X)`, `defined X`, PY_VERSION_HEX, integer literals, ! && || comparisons, parentheses."""
    e = re.sub(r"defined\s*\(\s*(\w+)\s*\)|defined\s+(\w+)",
               lambda m: " True " if (m.group(1) or m.group(2)) in defined else " False ", rest)
    e = e.replace("PY_VERSION_HEX", str(hexversion))
    e = re.sub(r"0[xX][0-9a-fA-F]+", lambda m: str(int(m.group(0), 16)), e)
    e = e.replace("&&", " and ").replace("||", " or ")
    e = re.sub(r"!(?!=)", " not ", e)
    e = re.sub(r"\b([A-Za-z_]\w*)\b", lambda m: m.group(1) if m.group(1) in ("True", "False", "and", "or", "not") else "0", e)
    if not re.fullmatch(r"[\sA-Za-z0-9()<>=!]*", e):
        raise ShapeError("unsupported #if condition %r" % rest)
    return bool(eval(e, {"__builtins__": {}}, {}))


def preprocess(text, defined, hexversion):
    """Resolve #if/#ifdef/#ifndef/#else/#endif; other directives are dropped.  Conditions supported:
    `defined NAME`-free forms only: `#ifdef X`, `#ifndef X`, `#if PY_VERSION_HEX <op> 0x…`,
    `#if defined(X)` is not needed by the functions read here."""
    text = re.sub(r"\\\n", " ", text)       # line continuations
    out = []
    stack = []          # [currently active, some branch already taken, parent active]
    active = True
    for line in text.split("\n"):
        m = re.match(r"\s*#\s*(\w+)\s*(.*)", line)
        if not m:
            if active:
                out.append(line)
            continue
        d, rest = m.group(1), m.group(2).strip()
        rest = re.sub(r"/\*.*?\*/", "", rest).strip()
        if d in ("ifdef", "ifndef", "if"):
            if d == "ifdef":
                c = rest in defined
            elif d == "ifndef":
                c = rest not in defined
            else:
                c = eval_condition(rest, defined, hexversion)
            stack.append((active, c))
            active = active and c
        elif d == "elif":
            parent, taken = stack[-1]
            c = (not taken) and eval_condition(rest, defined, hexversion)
            active = parent and c
            stack[-1] = (parent, taken or c)
        elif d == "else":
            parent, taken = stack[-1]
            active = parent and not taken
            stack[-1] = (parent, True)
        elif d == "endif":
            parent, _ = stack.pop()
            active = parent
        elif d in ("define", "undef", "include", "error", "warning", "pragma"):
            continue
        else:
            raise ShapeError("unsupported directive #%s" % d)
    if stack:
        raise ShapeError("unbalanced conditional compilation")
    return "\n".join(out)


# ------------------------------------------------------------------ statements

def norm(s):
    s = re.sub(r"\s+", " ", s).strip()
    s = re.sub(r"\s*([()\[\],;*&!=<>+\-])\s*", r"\1", s)
    return s


class StmtParser:
    """Statement tree: ("expr", text) | ("ret", text) | ("break",) | ("goto", label) | ("label", name) |
    ("if", cond, [then], [else]) | ("while", cond, [body]) | ("decl", text)."""
    DECL = re.compile(r"^(static |volatile |const |struct |unsigned |int |char |long |void |Py\w+[ *]|pthread_\w+ |"
                      r"ThreadCanaryObj[ *]|_cffi_call_python_fnptr )")

    def __init__(self, text):
        self.s = cexpr.strip_c_comments(text)
        self.i = 0

    def ws(self):
        while self.i < len(self.s) and self.s[self.i].isspace():
            self.i += 1

    def paren(self):
        self.ws()
        if self.s[self.i] != "(":
            raise ShapeError("expected ( at %r" % self.s[self.i:self.i + 30])
        depth, j = 0, self.i
        while True:
            c = self.s[j]
            if c == "(":
                depth += 1
            elif c == ")":
                depth -= 1
                if depth == 0:
                    break
            j += 1
        txt = self.s[self.i + 1:j]
        self.i = j + 1
        return norm(txt)

    def block(self):
        res = []
        while True:
            self.ws()
            if self.i >= len(self.s):
                return res
            if self.s[self.i] == "}":
                self.i += 1
                return res
            res.append(self.stmt())

    def stmt(self):
        self.ws()
        s = self.s
        if s[self.i] == "{":
            self.i += 1
            return ("block", self.block())
        if s[self.i] == ";":
            self.i += 1
            return ("empty",)
        m = re.match(r"(if|while)\b", s[self.i:])
        if m:
            self.i += len(m.group(1))
            cond = self.paren()
            body = self.stmt()
            body = body[1] if body[0] == "block" else ([] if body[0] == "empty" else [body])
            if m.group(1) == "while":
                return ("while", cond, body)
            save = self.i
            self.ws()
            if re.match(r"else\b", s[self.i:]):
                self.i += 4
                e = self.stmt()
                e = e[1] if e[0] == "block" else ([] if e[0] == "empty" else [e])
                return ("if", cond, body, e)
            self.i = save
            return ("if", cond, body, [])
        m = re.match(r"([A-Za-z_]\w*)\s*:(?!:)", s[self.i:])
        if m and m.group(1) not in ("default",):
            self.i += m.end()
            return ("label", m.group(1))
        j = s.index(";", self.i)
        b = s.find("{", self.i, j)
        if b >= 0:                      # a declaration with a braced struct body / initialiser
            depth, k = 0, b
            while True:
                if s[k] == "{":
                    depth += 1
                elif s[k] == "}":
                    depth -= 1
                    if depth == 0:
                        break
                k += 1
            j = s.index(";", k)
        # a statement may contain parentheses with ';' inside strings only; the functions read here have none
        txt = norm(s[self.i:j])
        self.i = j + 1
        if txt.startswith("return"):
            return ("ret", norm(txt[6:]))
        if txt == "break":
            return ("break",)
        if txt.startswith("goto "):
            return ("goto", txt[5:])
        if self.DECL.match(txt + " "):
            return ("decl", txt)
        return ("expr", txt)


def parse_body(text):
    p = StmtParser(text)
    res = p.block()
    return res


def function_text(src, name):
    """Body of the function whose header line contains `name(` at top level (return type may be on the previous line)."""
    m = re.search(r"^[^\n;{}#]*\b%s\s*\([^)]*\)\s*\{" % re.escape(name), src, re.M)
    if not m:
        raise ShapeError("function %s not found" % name)
    i = m.end()
    depth = 1
    while depth:
        c = src[i]
        if c == "{":
            depth += 1
        elif c == "}":
            depth -= 1
        i += 1
    return src[m.end():i - 1]


# ------------------------------------------------------------------ paths

def paths(stmts, classify, cond_key):
    """All control paths of a loop-free statement list (loops must be classified as one operation by
    `classify`).  `classify(stmt)` -> list of op strings for a non-branching statement (or None if it is a branch
    to descend into); `cond_key(cond)` -> (key, polarity) so that two tests of the same fact agree on a path."""
    results = []

    def go(todo, acc, facts):
        if not todo:
            results.append(acc + ["fallOffEnd"])
            return
        st, rest = todo[0], todo[1:]
        ops = classify(st)
        if ops is not None:
            if ops and ops[-1].startswith("return"):
                results.append(acc + ops)
                return
            go(rest, acc + ops, facts)
            return
        if st[0] == "if":
            key, pol, opname = cond_key(st[1])
            for val in (True, False):
                if key in facts and facts[key] != (val == pol):
                    continue
                f2 = dict(facts)
                f2[key] = (val == pol)
                go((st[2] if val else st[3]) + rest, acc + ["%s %s" % (opname, "true" if (val == pol) else "false")], f2)
            return
        raise ShapeError("unclassified statement %r" % (st,))

    go(list(stmts), [], {})
    return results


# ------------------------------------------------------------------ the three functions

def _match(table, txt, what):
    for rx, ops in table:
        if re.fullmatch(rx, txt):
            return list(ops)
    raise ShapeError("%s: statement %r is not part of the modelled shape" % (what, txt))


SPIN_ACQUIRE = ("while", "1", [
    ("expr", "old_value=*lock"),
    ("if", "old_value==0", [("if", "cffi_compare_and_swap(lock,old_value,locked_value)", [("break",)], [])],
     [("expr", "assert(((struct ebp_s*)old_value)->mark==-42)")])])
SPIN_ACQUIRE_OLD = ("while", "1", [
    ("expr", "old_value=*lock"),
    ("if", "old_value==0", [("if", "cffi_compare_and_swap(lock,old_value,locked_value)", [("break",)], [])],
     [("expr", "assert(old_value==locked_value)")])])
SPIN_RELEASE = ("while", "!cffi_compare_and_swap(lock,locked_value,old_value)", [])


def make_gil_paths(body):
    def classify(st):
        if st in (SPIN_ACQUIRE, SPIN_ACQUIRE_OLD):
            return ["spinAcquire"]
        if st == SPIN_RELEASE:
            return ["spinRelease"]
        if st[0] == "decl":
            _match([(r"static struct ebp_s ?\{.*\} ?empty_buffer_procs", []),
                    (r"PyBufferProcs\*volatile\*lock=\(PyBufferProcs\*volatile\*\)&PyCapsule_Type\.tp_as_buffer", []),
                    (r"PyBufferProcs\*old_value,\*locked_value=&empty_buffer_procs\.buf", []),
                    (r"int volatile\*lock=\(int volatile\*\)&PyCapsule_Type\.tp_version_tag", []),
                    (r"int old_value,locked_value=-42", [])], st[1], "_cffi_carefully_make_gil (the lock must live in libpython)")
            return []
        if st[0] == "ret":
            return ["return " + st[1]]
        if st[0] == "expr":
            return _match([
                (r"empty_buffer_procs\.mark=-42", []),
                (r"assert\(.*\)", []),
                (r"_cffi_py_initialize\(\)", ["pyInitialize"]),
                (r"PyEval_SaveThread\(\)", ["saveThread"]),
            ], st[1], "_cffi_carefully_make_gil")
        if st[0] == "if":
            return None
        raise ShapeError("_cffi_carefully_make_gil: unexpected %r" % (st,))

    def cond_key(c):
        if c == "!Py_IsInitialized()":
            return ("pyinit", False, "pyIsInit")
        raise ShapeError("_cffi_carefully_make_gil: unexpected condition %r" % c)

    return paths(body, classify, cond_key)


def start_python_paths(body):
    def classify(st):
        if st[0] == "decl":
            if st[1] != "static char called=0":
                raise ShapeError("_cffi_start_python: unexpected declaration %r" % st[1])
            return []
        if st[0] == "ret":
            return _match([(r"NULL", ["return null"]),
                           (r"\(_cffi_call_python_fnptr\)_cffi_call_python_org", ["return org"])],
                          st[1], "_cffi_start_python")
        if st[0] == "expr":
            return _match([
                (r"_cffi_acquire_reentrant_mutex\(\)", ["acquireMutex"]),
                (r"_cffi_release_reentrant_mutex\(\)", ["releaseMutex"]),
                (r"called=1", ["setCalled"]),
                (r"cffi_write_barrier\(\)", ["writeBarrier"]),
                (r"assert\(_cffi_call_python_org!=NULL\)", []),
                (r"_cffi_call_python=\(_cffi_call_python_fnptr\)_cffi_call_python_org", ["publish"]),
                (r"_cffi_call_python_org=NULL", ["clearOrg"]),
            ], st[1], "_cffi_start_python")
        if st[0] == "if":
            return None
        raise ShapeError("_cffi_start_python: unexpected %r" % (st,))

    def cond_key(c):
        table = {"_cffi_carefully_make_gil()!=0": ("gil", False, "makeGilOk"),
                 "!called": ("called", False, "called"),
                 "_cffi_initialize_python()==0": ("init", True, "initOk")}
        if c not in table:
            raise ShapeError("_cffi_start_python: unexpected condition %r" % c)
        return table[c]

    return paths(body, classify, cond_key)


def start_and_call_paths(body):
    def classify(st):
        if st[0] == "decl":
            if st[1] not in ("_cffi_call_python_fnptr fnptr", "int current_err=errno", "int current_lasterr=GetLastError()"):
                raise ShapeError("_cffi_start_and_call_python: unexpected declaration %r" % st[1])
            return []
        if st[0] == "expr":
            return _match([
                (r"fnptr=_cffi_start_python\(\)", ["callStartPython"]),
                (r"fprintf\(stderr,.*\)", []),
                (r"memset\(args,0,externpy->size_of_result\)", ["zeroResult"]),
                (r"errno=current_err", []),
                (r"SetLastError\(current_lasterr\)", []),
                (r"fnptr\(externpy,args\)", ["callFn"]),
            ], st[1], "_cffi_start_and_call_python")
        if st[0] == "if":
            return None
        raise ShapeError("_cffi_start_and_call_python: unexpected %r" % (st,))

    def cond_key(c):
        table = {"fnptr==NULL": ("null", True, "fnNull"), "fnptr!=NULL": ("null", False, "fnNull")}
        if c not in table:
            raise ShapeError("_cffi_start_and_call_python: unexpected condition %r" % c)
        return table[c]

    res = paths(body, classify, cond_key)
    # the second test of the same fact adds a duplicate marker: keep one per path
    out = []
    for p in res:
        q = []
        for op in p:
            if op.startswith("fnNull") and op in q:
                continue
            q.append(op)
        out.append(q)
    return out


LEAN_OP = {
    "spinAcquire": ".spinAcquire", "spinRelease": ".spinRelease", "pyInitialize": ".pyInitialize",
    "saveThread": ".saveThread", "return 0": ".retZero", "return null": ".retNull", "return org": ".retOrg",
    "acquireMutex": ".acquireMutex", "releaseMutex": ".releaseMutex", "setCalled": ".setCalled",
    "writeBarrier": ".writeBarrier", "publish": ".publish", "clearOrg": ".clearOrg",
    "callStartPython": ".callStartPython", "zeroResult": ".zeroResult", "callFn": ".callFn",
    "fallOffEnd": ".fallOffEnd",
}


def lean_op(op):
    if op in LEAN_OP:
        return LEAN_OP[op]
    m = re.fullmatch(r"(pyIsInit|makeGilOk|called|initOk|fnNull) (true|false)", op)
    if m:
        return "(.%s %s)" % (m.group(1), m.group(2))
    raise ShapeError("no Lean name for operation %r" % op)


def lean_paths(name, doc, ps):
    lines = ["/-- %s -/" % doc, "def %s : List (List SrcOp) := [" % name]
    lines.append(",\n".join("  [" + ", ".join(lean_op(o) for o in p) + "]" for p in ps))
    lines.append("]")
    return "\n".join(lines)


def extract(repo, hexversion=None):
    hexversion = sys.hexversion if hexversion is None else hexversion
    path = os.path.join(repo, "src/cffi/_embedding.h")
    src = open(path).read()
    pre = preprocess(src, {"WITH_THREAD", "__GNUC__"}, hexversion)
    gil = make_gil_paths(parse_body(function_text(pre, "_cffi_carefully_make_gil")))
    start = start_python_paths(parse_body(function_text(pre, "_cffi_start_python")))
    call = start_and_call_paths(parse_body(function_text(pre, "_cffi_start_and_call_python")))
    # the initial value of the function pointer is the trampoline
    if not re.search(r"static _cffi_call_python_fnptr _cffi_call_python = &_cffi_start_and_call_python;", src):
        raise ShapeError("_cffi_call_python is no longer initialised to &_cffi_start_and_call_python")
    return gil, start, call


def translator():
    import common
    gil, start, call = extract(common.REPO)
    text = "\n".join([
        "import CffiVerif.Model.EmbeddingSrc",
        "",
        "namespace CffiVerif.Generated.EmbeddingSteps",
        "open CffiVerif.Embedding",
        "",
        lean_paths("makeGilPaths", "control paths of `_cffi_carefully_make_gil` (WITH_THREAD, this interpreter's "
                   "PY_VERSION_HEX branch), true-branch first", gil),
        "",
        lean_paths("startPythonPaths", "control paths of `_cffi_start_python`", start),
        "",
        lean_paths("startAndCallPaths", "control paths of `_cffi_start_and_call_python` (both tests of `fnptr` agree)", call),
        "",
        "end CffiVerif.Generated.EmbeddingSteps",
        "",
    ])
    return common.write_generated("EmbeddingSteps", text,
                                  "%d + %d + %d control paths of _cffi_carefully_make_gil / _cffi_start_python / "
                                  "_cffi_start_and_call_python" % (len(gil), len(start), len(call)))


if __name__ == "__main__":
    for name, ps in zip(("gil", "start", "call"), extract(sys.argv[1] if len(sys.argv) > 1 else "/repo")):
        print(name)
        for p in ps:
            print("   ", p)
